package main

import (
	"bytes"
	"errors"
	"fmt"
	"math/rand"
	"os"
	"path/filepath"
	"runtime/debug"
	"sort"
	"sync"
	"sync/atomic"
	"time"

	"github.com/lindb/lindb/kv/table"
	"github.com/lindb/lindb/kv/version"
)

// Concurrent readers of the SAME table reader objects (kinds "C" and "CR").
//
// lindb's table cache hands one reader object per table file to every snapshot / query of a family, and the
// readers of one query are used from several goroutines. A table reader is immutable after it was opened, so
// whatever runs next to a lookup, the lookup must return exactly what was added. The case builds 1-4 table
// files of the generator shapes, commits them to a family version, opens every reader ONCE through the cache,
// checks it sequentially, and then lets 8-16 goroutines do a fixed number of operations on those reader objects
// (directly, through per-goroutine snapshots of the family, through one snapshot shared for Load, through
// per-goroutine iterators and merged iterators), every result compared with the map. Kind "CR" is the same case
// (fewer operations) in a child built with -race.

// concFile is one table file of a concurrent case.
type concFile struct {
	number   table.FileNumber
	name     string
	entries  []entry
	absent   []uint32
	reader   table.Reader
	width    string
	inflight atomic.Int32 // goroutines inside an operation on this reader
}

// concModel is what all goroutines compare with (read-only while they run).
type concModel struct {
	files     []*concFile
	unionKeys []uint32
	want      map[uint32][]string // key -> sorted values over all files
	absent    []uint32            // keys in no file
	total     int                 // entries over all files
}

type concStats struct {
	getsPresent, getsAbsent, getsOverlapped, maxInside int64
	iterFull, iterPartial, iterEntries, iterOverlapped int64
	loads, loadsShared, loadsAbsent, loadValues        int64
	findReaders, merges, mergedEntries                 int64
	snapshots, sameReaderFromSnapshot                  int64
}

func (s *concStats) add(o *concStats) {
	s.getsPresent += o.getsPresent
	s.getsAbsent += o.getsAbsent
	s.getsOverlapped += o.getsOverlapped
	if o.maxInside > s.maxInside {
		s.maxInside = o.maxInside
	}
	s.iterFull += o.iterFull
	s.iterPartial += o.iterPartial
	s.iterEntries += o.iterEntries
	s.iterOverlapped += o.iterOverlapped
	s.loads += o.loads
	s.loadsShared += o.loadsShared
	s.loadsAbsent += o.loadsAbsent
	s.loadValues += o.loadValues
	s.findReaders += o.findReaders
	s.merges += o.merges
	s.mergedEntries += o.mergedEntries
	s.snapshots += o.snapshots
	s.sameReaderFromSnapshot += o.sameReaderFromSnapshot
}

// concOpsPerGoroutine is the fixed number of operations of every goroutine: a function of tier and kind only.
func concOpsPerGoroutine(quick, race bool) int {
	switch {
	case race && quick:
		return 1200
	case race:
		return 3000
	case quick:
		return 5000
	default:
		return 12000
	}
}

func runConcCase(cc *caseCtx, race bool) {
	rnd := cc.rnd
	// ---- the case: files, key sets, value sizes -------------------------------------------------------------
	nFiles := 1 + rnd.Intn(4)
	if cc.idx%4 == 0 {
		nFiles = 1
	}
	pattern := overlapPatterns[rnd.Intn(len(overlapPatterns))]
	maxPer := []int{40, 400, 3000}[rnd.Intn(3)]
	// offset width of the tables: the budget of value bytes decides it (1, 2, 3 bytes; 4 bytes in a few cases)
	widthWish := []string{"w1", "w2", "w3"}[cc.idx%3]
	budget := map[string]int{"w1": 250, "w2": 60000, "w3": 2 << 20}[widthWish]
	wide := (cc.quick && !race && cc.idx == 5) || (!cc.quick && !race && cc.idx%60 == 5)
	if wide {
		nFiles, maxPer, widthWish = 1, 400, "w4"
	}
	if widthWish == "w1" && maxPer > 400 {
		maxPer = 400
	}
	levels := 1 + rnd.Intn(3)
	goroutines := 8 + rnd.Intn(9)
	ops := concOpsPerGoroutine(cc.quick, race)
	var sets [][]uint32
	if nFiles == 1 {
		ks, _ := genKeys(rnd, maxPer, "")
		if len(ks) > 20000 {
			ks = ks[:20000]
		}
		for wide && len(ks) < 200 {
			ks = uniqSorted(append(ks, randU32(rnd)))
		}
		sets = [][]uint32{ks}
	} else {
		sets = genOverlapping(rnd, nFiles, pattern, maxPer)
	}
	model := &concModel{want: map[uint32][]string{}}
	var profiles []string
	for _, ks := range sets {
		var sizes []int
		var profile string
		if wide {
			// 4-byte offsets need more than 16 MiB of values in front of the last one: nine values of ~2 MiB
			// among a few hundred small ones (most lookups stay cheap, many offsets lie on both sides of 2^24)
			profile = "small-values-around-9x2MiB"
			sizes, _ = genSizes(rnd, len(ks), "tiny-nonempty", 1<<30, 64)
			for _, p := range rnd.Perm(len(ks) - 1)[:9] {
				sizes[p] = 2<<20 - rnd.Intn(1000)
			}
		} else {
			// profiles whose values differ in size (a table of empty values has one offset only)
			profile = []string{"tiny", "tiny-nonempty", "mixed-empties", "medium", "width-edge", "large"}[rnd.Intn(6)]
			if profile == "large" && budget < 1<<20 {
				profile = "medium"
			}
			if widthWish == "w3" {
				// 3-byte offsets need 64 KiB of values in front of the last one
				profile = "large"
				if len(ks) >= 200 && rnd.Intn(2) == 0 {
					profile = "medium"
				}
			}
			sizes, profile = genSizes(rnd, len(ks), profile, budget, 512<<10)
		}
		profiles = append(profiles, profile)
		f := &concFile{entries: makeEntries(rnd.Uint64(), ks, sizes), absent: absentProbes(rnd, ks, 300)}
		off := 0
		for i, s := range sizes {
			if i == len(sizes)-1 {
				f.width = widthClass(off)
			}
			off += s
		}
		model.files = append(model.files, f)
		model.total += len(ks)
		for _, e := range f.entries {
			model.want[e.key] = append(model.want[e.key], string(e.value))
		}
	}
	for k, v := range model.want {
		sort.Strings(v)
		model.unionKeys = append(model.unionKeys, k)
	}
	model.unionKeys = uniqSorted(model.unionKeys)
	model.absent = absentProbes(rnd, model.unionKeys, 300)
	var sizesSig []int
	var widths []string
	for _, f := range model.files {
		sizesSig = append(sizesSig, len(f.entries))
		widths = append(widths, f.width)
	}
	cc.desc = map[string]interface{}{"files": nFiles, "overlap": pattern, "keys_per_file": joinInts(sizesSig), "value_profiles": profiles,
		"offset_widths": widths, "levels": levels, "goroutines": goroutines, "ops_per_goroutine": ops, "race_detector": race,
		"first_keys_file0": headKeys(sets[0], 10)}
	fmt.Printf("CASE %s %d %v\n", cc.kind, cc.idx, cc.desc)

	dir := filepath.Join(cc.dir, fmt.Sprintf("c%d", cc.idx))
	if err := os.MkdirAll(filepath.Join(dir, famDir), 0o755); err != nil {
		panic(err)
	}
	defer os.RemoveAll(dir)

	var total concStats
	seqOK, ran := false, false
	okGuard := cc.guard("C15/panic-in-version", func() {
		cache := table.NewCache(dir, time.Hour)
		defer cache.Close()
		vs := version.NewStoreVersionSet(dir, cache, levels)
		fv := vs.CreateFamilyVersion(famDir, 1)
		if err := vs.Recover(); err != nil {
			cc.fail("C15/versionset-recover-error", "Recover() on an empty directory: %v", err)
			return
		}
		defer func() { _ = vs.Destroy() }()
		el := version.NewEditLog(1)
		for i, f := range model.files {
			f.number = vs.NextFileNumber()
			f.name = version.Table(f.number)
			_, size, ok := buildTableFile(cc, dir, f.number.Int64(), f.entries,
				writeOpts{mode: writeModes[rnd.Intn(len(writeModes))], prefix: fmt.Sprintf("file %d", i)})
			if !ok {
				return
			}
			el.Add(version.CreateNewFile(int32(rnd.Intn(levels)), version.NewFileMeta(f.number, f.entries[0].key, f.entries[len(f.entries)-1].key, size)))
		}
		if err := vs.CommitFamilyEditLog(famDir, el); err != nil {
			cc.fail("C15/versionset-commit-error", "CommitFamilyEditLog: %v", err)
			return
		}
		// every reader is opened once; the sequential check comes first: what fails here is not a matter of concurrency
		seqOK = true
		for i, f := range model.files {
			r, err := cache.GetReader(famDir, f.name)
			if err != nil {
				cc.fail("C15/reader-open-error", "file %d %s: %v", i, entriesSummary(f.entries), err)
				seqOK = false
				return
			}
			f.reader = r
			if rs := verifyReader(cc, r, f.entries, fmt.Sprintf("file %d before the concurrent phase", i)); rs.failed {
				seqOK = false
			}
		}
		if !seqOK {
			return
		}
		sharedSnap := fv.GetSnapshot()
		defer sharedSnap.Close()

		// ---- the concurrent phase -------------------------------------------------------------------------------
		var failures atomic.Int64
		stats := make([]concStats, goroutines)
		seeds := make([]int64, goroutines)
		for g := range seeds {
			seeds[g] = rnd.Int63()
		}
		start := make(chan struct{})
		var wg sync.WaitGroup
		for g := 0; g < goroutines; g++ {
			wg.Add(1)
			go func(g int) {
				defer wg.Done()
				w := &concWorker{cc: cc, g: g, rnd: rand.New(rand.NewSource(seeds[g])), m: model, fv: fv, shared: sharedSnap,
					st: &stats[g], failures: &failures, ops: ops}
				defer func() {
					if e := recover(); e != nil {
						st := string(debug.Stack())
						if len(st) > 6000 {
							st = st[:6000]
						}
						failures.Add(1)
						cc.failW("C15/panic-in-concurrent-reader", map[string]interface{}{"panic": fmt.Sprint(e), "stack": st, "goroutine": g},
							"goroutine %d of %d panicked while reading shared table readers: %v", g, goroutines, e)
					}
				}()
				debug.SetPanicOnFault(true)
				<-start
				w.run()
			}(g)
		}
		close(start)
		wg.Wait()
		ran = true
		for g := range stats {
			total.add(&stats[g])
		}
		// ---- afterwards the readers still read the same -------------------------------------------------------
		if failures.Load() == 0 {
			saved := cc.classOverride
			cc.classOverride = "C15/reader-differs-after-concurrent-reads"
			for i, f := range model.files {
				if rs := verifyReader(cc, f.reader, f.entries, fmt.Sprintf("file %d after the concurrent phase", i)); rs.failed {
					seqOK = false
				}
			}
			cc.classOverride = saved
		} else {
			seqOK = false
		}
		var rs []table.Reader
		for _, f := range model.files {
			rs = append(rs, f.reader)
		}
		cache.ReleaseReaders(rs)
	})

	r := cc.r
	pfx := "conc_"
	if race {
		pfx = "race_conc_"
	}
	r.eval(1)
	r.count(pfx+"cases", 1)
	if !ran {
		return
	}
	r.count(pfx+"cases_run", 1)
	r.count(pfx+"goroutines", goroutines)
	r.count(pfx+"reader_objects_shared", len(model.files))
	if nFiles > 1 {
		r.count(pfx+"cases_with_several_files", 1)
	}
	for _, f := range model.files {
		r.count(pfx+"tables_offset_width_"+f.width, 1)
	}
	r.count(pfx+"gets_present", int(total.getsPresent))
	r.count(pfx+"gets_absent", int(total.getsAbsent))
	r.count(pfx+"gets_begun_while_another_goroutine_was_inside_the_same_reader", int(total.getsOverlapped))
	r.count(pfx+"iterations_full", int(total.iterFull))
	r.count(pfx+"iterations_partial", int(total.iterPartial))
	r.count(pfx+"iterations_begun_while_another_goroutine_was_inside_the_same_reader", int(total.iterOverlapped))
	r.count(pfx+"entries_iterated", int(total.iterEntries))
	r.count(pfx+"snapshot_loads", int(total.loads))
	r.count(pfx+"snapshot_loads_on_the_shared_snapshot", int(total.loadsShared))
	r.count(pfx+"snapshot_loads_of_absent_keys", int(total.loadsAbsent))
	r.count(pfx+"snapshot_load_values", int(total.loadValues))
	r.count(pfx+"findreaders_lookups", int(total.findReaders))
	r.count(pfx+"merged_iterations", int(total.merges))
	r.count(pfx+"merged_entries", int(total.mergedEntries))
	r.count(pfx+"snapshots_taken", int(total.snapshots))
	r.count(pfx+"snapshot_readers_identical_to_cached_reader", int(total.sameReaderFromSnapshot))
	r.count(pfx+fmt.Sprintf("cases_max_goroutines_inside_one_reader_ge_%d", minInt(int(total.maxInside), 4)), 1)
	if okGuard && seqOK && total.getsPresent > 0 && total.getsAbsent > 0 && total.iterFull > 0 && total.loads > 0 && total.getsOverlapped > 0 {
		r.nontrivial(cc.kind + "/" + hashKeyOf(model.unionKeys, sizesSig, goroutines, pattern, widths))
	}
	r.sample(cc.witness(map[string]interface{}{"gets_present": total.getsPresent, "gets_absent": total.getsAbsent,
		"gets_overlapping": total.getsOverlapped, "full_iterations": total.iterFull, "loads": total.loads, "max_goroutines_inside_one_reader": total.maxInside}))
}

// concWorker is one goroutine of the concurrent phase.
type concWorker struct {
	cc       *caseCtx
	g        int
	rnd      *rand.Rand
	m        *concModel
	fv       version.FamilyVersion
	shared   version.Snapshot
	own      version.Snapshot
	st       *concStats
	failures *atomic.Int64
	ops      int
	op       int
}

func (w *concWorker) fail(class string, extra map[string]interface{}, format string, args ...interface{}) {
	w.failures.Add(1)
	if extra == nil {
		extra = map[string]interface{}{}
	}
	extra["goroutine"] = w.g
	extra["operation"] = w.op
	w.cc.failW(class, extra, "goroutine %d operation %d: "+format, append([]interface{}{w.g, w.op}, args...)...)
}

// stop: after a handful of failures the case has said what it has to say.
func (w *concWorker) stop() bool { return w.failures.Load() >= 24 }

func (w *concWorker) enter(f *concFile) int32 {
	n := f.inflight.Add(1)
	if int64(n) > w.st.maxInside {
		w.st.maxInside = int64(n)
	}
	return n
}

func (w *concWorker) run() {
	m := w.m
	// every goroutine iterates every file completely once and merges all files once, at positions of its own
	fullAt := map[int][]int{}
	for i := range m.files {
		p := w.rnd.Intn(w.ops)
		fullAt[p] = append(fullAt[p], i)
	}
	mergeAt := -1
	if m.total <= 60000 {
		mergeAt = w.rnd.Intn(w.ops)
	}
	w.own = w.fv.GetSnapshot()
	w.st.snapshots++
	defer func() { w.own.Close() }()
	for w.op = 0; w.op < w.ops && !w.stop(); w.op++ {
		for _, i := range fullAt[w.op] {
			w.iterate(i, -1)
		}
		if w.op == mergeAt {
			w.merge()
		}
		switch x := w.rnd.Intn(100); {
		case x < 52:
			w.getPresent()
		case x < 66:
			w.getAbsent()
		case x < 78:
			w.load(w.shared, true)
		case x < 84:
			w.load(w.own, false)
		case x < 91:
			w.findReaders()
		case x < 97:
			w.iterate(w.rnd.Intn(len(m.files)), 1+w.rnd.Intn(48))
		default:
			// a new snapshot of the family: its readers are the cached ones
			w.own.Close()
			w.own = w.fv.GetSnapshot()
			w.st.snapshots++
			f := m.files[w.rnd.Intn(len(m.files))]
			r, err := w.own.GetReader(f.number)
			if err != nil {
				w.fail("C15/concurrent-snapshot-getreader-error", nil, "GetReader(%d) of a new snapshot: %v", f.number, err)
			} else if r != f.reader {
				w.fail("C15/cache-second-get-differs", nil, "GetReader(%d) of a new snapshot returned reader %p, the cache holds %p", f.number, r, f.reader)
			} else {
				w.st.sameReaderFromSnapshot++
			}
		}
	}
}

func (w *concWorker) getPresent() {
	fi := w.rnd.Intn(len(w.m.files))
	f := w.m.files[fi]
	i := w.rnd.Intn(len(f.entries))
	e := f.entries[i]
	n := w.enter(f)
	v, err := f.reader.Get(e.key)
	f.inflight.Add(-1)
	w.st.getsPresent++
	if n > 1 {
		w.st.getsOverlapped++
	}
	x := map[string]interface{}{"file": fi, "key": e.key, "entry": i, "goroutines_inside_reader_at_entry": n}
	switch {
	case errors.Is(err, table.ErrKeyNotExist):
		w.fail("C15/concurrent-get-present-key-reported-absent", x, "Get(%d) (file %d entry %d of %d, %d bytes) on a shared reader -> ErrKeyNotExist; %d goroutines inside the reader",
			e.key, fi, i, len(f.entries), len(e.value), n)
	case err != nil:
		w.fail("C15/concurrent-get-present-key-error", x, "Get(%d) (file %d entry %d of %d, %d bytes) on a shared reader -> %v; %d goroutines inside the reader",
			e.key, fi, i, len(f.entries), len(e.value), err, n)
	case !bytes.Equal(v, e.value):
		w.fail("C15/concurrent-get-wrong-bytes", x, "Get(%d) (file %d entry %d of %d) on a shared reader returned %d bytes %s, added %d bytes %s; %d goroutines inside the reader; the same lookup was right before the concurrent phase",
			e.key, fi, i, len(f.entries), len(v), shortBytes(v), len(e.value), shortBytes(e.value), n)
	}
}

func (w *concWorker) getAbsent() {
	fi := w.rnd.Intn(len(w.m.files))
	f := w.m.files[fi]
	if len(f.absent) == 0 {
		return
	}
	k := f.absent[w.rnd.Intn(len(f.absent))]
	n := w.enter(f)
	v, err := f.reader.Get(k)
	f.inflight.Add(-1)
	w.st.getsAbsent++
	if n > 1 {
		w.st.getsOverlapped++
	}
	x := map[string]interface{}{"file": fi, "key": k}
	switch {
	case err == nil:
		w.fail("C15/concurrent-get-absent-key-reported-present", x, "Get(%d) of a key never added to file %d returned %d bytes %s", k, fi, len(v), shortBytes(v))
	case !errors.Is(err, table.ErrKeyNotExist):
		w.fail("C15/concurrent-get-absent-key-other-error", x, "Get(%d) of a key never added to file %d -> %v", k, fi, err)
	case v != nil:
		w.fail("C15/concurrent-get-absent-key-returns-bytes", x, "Get(%d) -> ErrKeyNotExist together with %d bytes", k, len(v))
	}
}

// pickKey returns a key of the union (present) or a key that is in no file.
func (w *concWorker) pickKey() (uint32, bool) {
	if w.rnd.Intn(5) == 0 && len(w.m.absent) > 0 {
		return w.m.absent[w.rnd.Intn(len(w.m.absent))], false
	}
	return w.m.unionKeys[w.rnd.Intn(len(w.m.unionKeys))], true
}

func (w *concWorker) compareValues(got []string, k uint32, present bool, what string, shared bool) {
	x := map[string]interface{}{"key": k, "shared_snapshot": shared}
	want := w.m.want[k]
	if !present {
		if len(got) > 0 {
			w.fail("C15/concurrent-"+what+"-absent-key-loaded", x, "%s(%d) of a key in no file delivered %d values (first %s)", what, k, len(got), shortBytes([]byte(got[0])))
		}
		return
	}
	sort.Strings(got)
	if equalStrings(got, want) {
		return
	}
	class := "C15/concurrent-" + what + "-wrong-bytes"
	if len(got) < len(want) {
		class = "C15/concurrent-" + what + "-misses-value"
	} else if len(got) > len(want) {
		class = "C15/concurrent-" + what + "-extra-value"
	}
	g0, w0 := "", ""
	for i := 0; i < len(got) && i < len(want); i++ {
		if got[i] != want[i] {
			g0, w0 = shortBytes([]byte(got[i])), shortBytes([]byte(want[i]))
			break
		}
	}
	w.fail(class, x, "%s(%d) delivered %d values, %d files hold the key; first difference: got %s, written %s", what, k, len(got), len(want), g0, w0)
}

func (w *concWorker) load(snap version.Snapshot, shared bool) {
	k, present := w.pickKey()
	var got []string
	err := snap.Load(k, func(value []byte) error {
		got = append(got, string(value))
		return nil
	})
	w.st.loads++
	if shared {
		w.st.loadsShared++
	}
	if !present {
		w.st.loadsAbsent++
	}
	w.st.loadValues += int64(len(got))
	if err != nil {
		w.fail("C15/concurrent-load-error", map[string]interface{}{"key": k, "shared_snapshot": shared}, "Load(%d) (key present: %v, %d files hold it) -> %v", k, present, len(w.m.want[k]), err)
		return
	}
	w.compareValues(got, k, present, "load", shared)
}

func (w *concWorker) findReaders() {
	k, present := w.pickKey()
	readers, err := w.own.FindReaders(k)
	w.st.findReaders++
	if err != nil {
		w.fail("C15/concurrent-findreaders-error", map[string]interface{}{"key": k}, "FindReaders(%d): %v", k, err)
		return
	}
	var got []string
	for _, r := range readers {
		v, err := r.Get(k)
		if err == nil {
			got = append(got, string(v))
		} else if !errors.Is(err, table.ErrKeyNotExist) {
			w.fail("C15/concurrent-get-present-key-error", map[string]interface{}{"key": k, "via": "FindReaders"}, "reader %s of FindReaders(%d): Get -> %v", r.FileName(), k, err)
			return
		}
	}
	w.compareValues(got, k, present, "findreaders", false)
}

// iterate walks a new iterator of the shared reader over the first limit entries (limit<0: all, then the end).
func (w *concWorker) iterate(fi int, limit int) {
	f := w.m.files[fi]
	n := w.enter(f)
	defer f.inflight.Add(-1)
	if n > 1 {
		w.st.iterOverlapped++
	}
	full := limit < 0 || limit >= len(f.entries)
	if full {
		limit = len(f.entries)
		w.st.iterFull++
	} else {
		w.st.iterPartial++
	}
	it := f.reader.Iterator()
	for i := 0; i < limit; i++ {
		x := map[string]interface{}{"file": fi, "entry": i}
		if !it.HasNext() {
			w.fail("C15/concurrent-iterator-ends-early", x, "iterator of shared reader %d stopped after %d of %d entries", fi, i, len(f.entries))
			return
		}
		k := it.Key()
		v := it.Value()
		w.st.iterEntries++
		e := f.entries[i]
		if k != e.key {
			w.fail("C15/concurrent-iterator-wrong-key", x, "iterator of shared reader %d entry %d: key %d, want %d", fi, i, k, e.key)
			return
		}
		if !bytes.Equal(v, e.value) {
			w.fail("C15/concurrent-iterator-wrong-bytes", x, "iterator of shared reader %d entry %d key %d: %d bytes %s, added %d bytes %s; the same iteration was right before the concurrent phase",
				fi, i, k, len(v), shortBytes(v), len(e.value), shortBytes(e.value))
			return
		}
	}
	if full && it.HasNext() {
		w.fail("C15/concurrent-iterator-yields-extra-entry", map[string]interface{}{"file": fi}, "iterator of shared reader %d still HasNext() after all %d entries", fi, len(f.entries))
	}
}

// merge runs a merged iterator over new iterators of all shared readers: ordered by key, key by key the values of all files.
func (w *concWorker) merge() {
	m := w.m
	its := make([]table.Iterator, 0, len(m.files))
	for _, f := range m.files {
		its = append(its, f.reader.Iterator())
	}
	w.rnd.Shuffle(len(its), func(i, j int) { its[i], its[j] = its[j], its[i] })
	it := table.NewMergedIterator(its)
	w.st.merges++
	ui := 0 // position in the union of keys
	count := 0
	flush := func(k uint32, vals []string) bool {
		if ui >= len(m.unionKeys) || m.unionKeys[ui] != k {
			class := "C15/concurrent-merge-drops-entry"
			if _, ok := m.want[k]; !ok {
				class = "C15/concurrent-merge-yields-foreign-key"
			} else if ui > 0 && k <= m.unionKeys[ui-1] {
				class = "C15/concurrent-merge-not-ordered"
			}
			next := interface{}("(none)")
			if ui < len(m.unionKeys) {
				next = m.unionKeys[ui]
			}
			w.fail(class, map[string]interface{}{"key": k}, "merged iteration over %d shared readers yielded key %d where key %v is next", len(m.files), k, next)
			return false
		}
		ui++
		sort.Strings(vals)
		if !equalStrings(vals, m.want[k]) {
			class := "C15/concurrent-merge-wrong-value"
			if len(vals) < len(m.want[k]) {
				class = "C15/concurrent-merge-drops-entry"
			} else if len(vals) > len(m.want[k]) {
				class = "C15/concurrent-merge-duplicates-entry"
			}
			w.fail(class, map[string]interface{}{"key": k}, "merged iteration over %d shared readers: key %d came with %d values, %d files hold it (or other bytes than added)", len(m.files), k, len(vals), len(m.want[k]))
			return false
		}
		return true
	}
	var cur uint32
	var vals []string
	have := false
	for it.HasNext() {
		k := it.Key()
		v := it.Value()
		count++
		if count > m.total {
			w.fail("C15/concurrent-merge-yields-too-many", nil, "merged iteration over %d shared readers yielded more than %d entries", len(m.files), m.total)
			return
		}
		if have && k != cur {
			if !flush(cur, vals) {
				return
			}
			vals = vals[:0]
		}
		cur, have = k, true
		vals = append(vals, string(v))
	}
	w.st.mergedEntries += int64(count)
	if have && !flush(cur, vals) {
		return
	}
	if ui != len(m.unionKeys) {
		w.fail("C15/concurrent-merge-drops-entry", nil, "merged iteration over %d shared readers ended after %d of %d keys (%d of %d entries)", len(m.files), ui, len(m.unionKeys), count, m.total)
	}
}
