package main

import (
	"bytes"
	"errors"
	"fmt"
	"os"
	"path/filepath"
	"time"

	"github.com/lindb/lindb/kv/table"
)

const famDir = "fam"

func tableFileName(n int64) string { return fmt.Sprintf("%06d.sst", n) }

// buildTableFile builds one table file with the real builder. Returns false if the build failed.
func buildTableFile(cc *caseCtx, storeDir string, fileNumber int64, entries []entry, o writeOpts) (writeStats, uint32, bool) {
	path := filepath.Join(storeDir, famDir, tableFileName(fileNumber))
	if o.history != "" {
		o.history = leavePredecessor(cc, path, fileNumber, entries, o.history)
		o.prefix += " (built over " + o.history + " predecessor)"
	}
	b, err := table.NewStoreBuilder(table.FileNumber(fileNumber), path)
	if err != nil {
		cc.fail("C15/builder-create-error", "NewStoreBuilder(%s): %v", path, err)
		return writeStats{failed: true}, 0, false
	}
	if b.FileNumber() != table.FileNumber(fileNumber) {
		cc.fail("C15/builder-filenumber-wrong", "FileNumber()=%d want %d", b.FileNumber(), fileNumber)
	}
	st := writeEntries(cc, builderSink{b}, b, entries, o)
	if st.failed {
		_ = b.Abandon()
		return st, 0, false
	}
	if err := b.Close(); err != nil {
		cc.fail("C15/builder-close-error", "%s: Close() of a builder with %d keys: %v", o.prefix, len(entries), err)
		return st, 0, false
	}
	// after Close: count/min/max are what the flusher puts into the file meta
	if b.Count() != uint64(len(entries)) || b.MinKey() != entries[0].key || b.MaxKey() != entries[len(entries)-1].key {
		cc.fail("C15/builder-meta-wrong-after-close", "%s: after Close Count=%d Min=%d Max=%d, want %d/%d/%d",
			o.prefix, b.Count(), b.MinKey(), b.MaxKey(), len(entries), entries[0].key, entries[len(entries)-1].key)
		st.failed = true
	}
	fi, err := os.Stat(path)
	if err != nil {
		cc.fail("C15/table-file-missing", "%s: %v", o.prefix, err)
		return st, 0, false
	}
	if int64(b.Size()) != fi.Size() {
		cc.fail("C15/builder-size-differs-from-file", "%s: Size()=%d after Close, file has %d bytes", o.prefix, b.Size(), fi.Size())
		st.failed = true
	}
	return st, b.Size(), true
}

// leavePredecessor puts a LONGER file at the path a table is about to be built at: the output of an
// earlier build under the same file number (complete, abandoned midway, or torn). The new table must
// replace it completely. Returns the history really produced ("none" if the table is too big for it).
func leavePredecessor(cc *caseCtx, path string, fileNumber int64, entries []entry, kind string) string {
	total := 0
	for _, e := range entries {
		total += len(e.value)
	}
	// upper bound of the size of the new table file: values + offsets + key bitmap + footer
	bound := total + 16*len(entries) + 8192
	if bound > 6<<20 {
		return "none"
	}
	rnd := cc.rnd
	salt := rnd.Uint64()
	// the predecessor holds other keys and other bytes than the new table
	predEntries := func() []entry {
		var keys []uint32
		for i, e := range entries {
			if i >= 400 {
				break
			}
			keys = append(keys, e.key^5, e.key^0x10000)
		}
		for i := 0; i < 8; i++ {
			keys = append(keys, randU32(rnd))
		}
		keys = uniqSorted(keys)
		per := bound/len(keys) + 1 + rnd.Intn(64)
		es := make([]entry, len(keys))
		for i, k := range keys {
			es[i] = entry{k, fillValue(salt, k, per)}
		}
		return es
	}
	switch kind {
	case "complete", "abandoned":
		b, err := table.NewStoreBuilder(table.FileNumber(fileNumber), path)
		if err != nil {
			cc.fail("C15/builder-create-error", "predecessor NewStoreBuilder(%s): %v", path, err)
			return "none"
		}
		for _, e := range predEntries() {
			if err := b.Add(e.key, e.value); err != nil {
				cc.fail("C15/add-error-on-ascending-key", "predecessor Add(%d): %v", e.key, err)
			}
		}
		if kind == "complete" {
			if err := b.Close(); err != nil {
				cc.fail("C15/builder-close-error", "predecessor Close(): %v", err)
			}
		} else if err := b.Abandon(); err != nil {
			cc.fail("C15/abandon-error", "predecessor Abandon(): %v", err)
		}
	case "partial":
		if err := os.WriteFile(path, fillValue(salt, 1, bound+rnd.Intn(4096)), 0o644); err != nil {
			panic(err)
		}
	default: // slightly-longer: learn the exact size of the new table from a dry build, leave 1..40 bytes more
		kind = "slightly-longer"
		b, err := table.NewStoreBuilder(table.FileNumber(fileNumber), path)
		if err != nil {
			cc.fail("C15/builder-create-error", "dry NewStoreBuilder(%s): %v", path, err)
			return "none"
		}
		for _, e := range entries {
			_ = b.Add(e.key, e.value)
		}
		if err := b.Close(); err != nil {
			cc.fail("C15/builder-close-error", "dry Close(): %v", err)
			return "none"
		}
		if err := os.WriteFile(path, fillValue(salt, 2, int(b.Size())+1+rnd.Intn(40)), 0o644); err != nil {
			panic(err)
		}
	}
	if fi, err := os.Stat(path); err != nil || fi.Size() < int64(total) {
		panic(fmt.Sprintf("harness: predecessor at %s not in place: %v", path, err))
	}
	cc.r.count("tables_built_over_longer_predecessor_"+kind, 1)
	return kind
}

// checkRawPrefix checks that the file starts with exactly the concatenation of the accepted values
// (nothing of a rejected write reached the entries block).
func checkRawPrefix(cc *caseCtx, path string, entries []entry, prefix string) {
	f, err := os.Open(path)
	if err != nil {
		cc.fail("C15/table-file-missing", "%s: %v", prefix, err)
		return
	}
	defer f.Close()
	total := 0
	for _, e := range entries {
		total += len(e.value)
	}
	fi, _ := f.Stat()
	if fi.Size() < int64(total)+17 {
		cc.fail("C15/table-file-too-short", "%s: file has %d bytes, values alone are %d", prefix, fi.Size(), total)
		return
	}
	buf := make([]byte, 1<<20)
	off := int64(0)
	for _, e := range entries {
		v := e.value
		for len(v) > 0 {
			n := minInt(len(v), len(buf))
			if _, err := f.ReadAt(buf[:n], off); err != nil {
				cc.fail("C15/table-file-unreadable", "%s: %v", prefix, err)
				return
			}
			if !bytes.Equal(buf[:n], v[:n]) {
				cc.fail("C15/table-file-entries-block-differs", "%s: bytes at offset %d are not the value of key %d", prefix, off, e.key)
				return
			}
			off += int64(n)
			v = v[n:]
		}
	}
}

func runTableCase(cc *caseCtx) {
	rnd := cc.rnd
	thorough := !cc.quick
	// size of the case
	maxN := 400
	budget := 1 << 20
	maxValue := 512 << 10
	switch r := rnd.Intn(100); {
	case r < 3:
		maxN = 70000
	case r < 12:
		maxN = 6000
	case r < 40:
		maxN = 60
	}
	shape := ""
	profile := ""
	if maxN == 70000 && rnd.Intn(2) == 0 {
		shape = "full-container"
	}
	if thorough {
		// the thorough tier has 100x the cases: keep the multi-MiB share at a few hundred tables, not tens of thousands
		maxValue = 4 << 20
		budget = 128 << 10
		switch r := rnd.Intn(1000); {
		case r < 3:
			budget = 40 << 20
		case r < 30:
			budget = 2 << 20
		}
	} else if rnd.Intn(100) == 0 {
		budget = 20 << 20
		maxValue = 2 << 20
	}
	// a few cases aim at the 3->4 byte switch of the offset table (16 MiB of values)
	if (thorough && rnd.Intn(1000) == 0) || (!thorough && cc.idx%400 == 7) {
		profile = "width-edge-16M"
		budget = 1<<24 + 2<<20
		if !thorough {
			forcedEdgeDelta = (cc.idx/400)%3 - 1
		}
	}
	keys, shape := genKeys(rnd, maxN, shape)
	if profile == "width-edge-16M" && len(keys) < 3 {
		keys = uniqSorted(append(keys, keys[0]^0x10000, 77, maxU32-77))
	}
	if len(keys) > 20000 && profile == "" {
		profile = []string{"empty", "tiny", "tiny-nonempty", "mixed-empties"}[rnd.Intn(4)]
	}
	if budget < 1<<17 {
		budget = 1 << 17
	}
	sizes, profile := genSizes(rnd, len(keys), profile, budget, maxValue)
	forcedEdgeDelta = 99
	salt := rnd.Uint64()
	entries := makeEntries(salt, keys, sizes)
	mode := writeModes[rnd.Intn(len(writeModes))]
	inject := rnd.Intn(10) < 4
	history := ""
	if rnd.Intn(4) == 0 {
		history = pathHistories[rnd.Intn(len(pathHistories))]
	}
	total, maxOff := 0, 0
	for i, s := range sizes {
		if i == len(sizes)-1 {
			maxOff = total
		}
		total += s
	}
	cc.desc = map[string]interface{}{"shape": shape, "values": profile, "mode": mode, "inject": inject,
		"path_history": history, "keys": len(keys), "first_keys": headKeys(keys, 12), "last_key": keys[len(keys)-1], "total_bytes": total,
		"last_offset": maxOff, "salt": salt, "first_sizes": joinInts(sizes[:minInt(12, len(sizes))])}
	fmt.Printf("CASE T %d %v\n", cc.idx, cc.desc)

	storeDir := filepath.Join(cc.dir, fmt.Sprintf("t%d", cc.idx))
	if err := os.MkdirAll(filepath.Join(storeDir, famDir), 0o755); err != nil {
		panic(err)
	}
	defer os.RemoveAll(storeDir)
	fileNumber := int64(2 + rnd.Intn(1000))
	path := filepath.Join(storeDir, famDir, tableFileName(fileNumber))

	var ws writeStats
	var built bool
	if !cc.guard("C15/panic-in-builder", func() {
		ws, _, built = buildTableFile(cc, storeDir, fileNumber, entries, writeOpts{mode: mode, inject: inject, prefix: "table", history: history})
	}) || !built {
		return
	}
	checkRawPrefix(cc, path, entries, "table")

	cache := table.NewCache(storeDir, time.Hour)
	var rs readStats
	cc.guard("C15/panic-in-reader", func() {
		r, err := cache.GetReader(famDir, tableFileName(fileNumber))
		if err != nil {
			cc.fail("C15/reader-open-error", "table of %d keys (%d value bytes, last offset %d) cannot be opened: %v", len(keys), total, maxOff, err)
			return
		}
		if r.FileName() != tableFileName(fileNumber) || r.Path() != path {
			cc.fail("C15/reader-name-wrong", "reader reports path %q file %q", r.Path(), r.FileName())
		}
		rs = verifyReader(cc, r, entries, "table")
		// the cache hands out the same reader again; after an eviction a new reader reads the same
		r2, err := cache.GetReader(famDir, tableFileName(fileNumber))
		if err != nil || r2 != r {
			cc.fail("C15/cache-second-get-differs", "second GetReader: reader %p vs %p, err %v", r2, r, err)
		}
		cache.ReleaseReaders([]table.Reader{r, r2})
		if cc.idx%5 == 0 {
			cache.Evict(tableFileName(fileNumber))
			r3, err := cache.GetReader(famDir, tableFileName(fileNumber))
			if err != nil {
				cc.fail("C15/reader-open-error", "reopen after Evict: %v", err)
				return
			}
			i := rnd.Intn(len(entries))
			v, err := r3.Get(entries[i].key)
			if err != nil || !bytes.Equal(v, entries[i].value) {
				cc.fail("C15/get-wrong-bytes-after-reopen", "Get(%d) after Evict+reopen: %d bytes, err %v; added %d bytes", entries[i].key, len(v), err, len(entries[i].value))
			}
			cc.r.count("readers_reopened_after_evict", 1)
		}
	})
	_ = cache.Close()

	r := cc.r
	r.eval(1)
	r.count("tables_built", 1)
	r.count("keys_added", len(keys))
	r.count("value_bytes_added", total)
	r.count("adds", ws.adds)
	r.count("stream_commits", ws.streams)
	r.count("stream_write_chunks", ws.chunks)
	r.count("rejected_adds_injected", ws.injectedAdd)
	r.count("rejected_stream_writes_injected", ws.injectedStream)
	r.count("rejected_add_returned_nil_error", ws.rejectNil)
	r.count("rejected_add_returned_error", ws.rejectErr)
	r.count("double_commits", ws.doubleCommits)
	r.count("gets_present", rs.getsPresent)
	r.count("gets_absent", rs.getsAbsent)
	r.count("entries_iterated", rs.iterated)
	r.count("tables_shape_"+shape, 1)
	r.count("tables_values_"+profile, 1)
	r.count("tables_offset_width_"+widthClass(maxOff), 1)
	r.count("tables_mode_"+mode, 1)
	if maxOff >= 255 && maxOff <= 257 || maxOff >= 65535 && maxOff <= 65537 || maxOff >= 1<<24-1 && maxOff <= 1<<24+1 {
		r.count("tables_last_offset_at_width_switch", 1)
	}
	maxSize := 0
	for _, s := range sizes {
		if s > maxSize {
			maxSize = s
		}
	}
	if maxSize >= 256<<10 {
		r.count("tables_with_value_ge_256KiB", 1)
	}
	if maxSize >= 1<<20 {
		r.count("tables_with_value_ge_1MiB", 1)
	}
	if keys[0] == 0 {
		r.count("tables_with_key_0", 1)
	}
	if keys[len(keys)-1] == maxU32 {
		r.count("tables_with_key_max_uint32", 1)
	}
	if rs.getsPresent > 0 && rs.getsAbsent > 0 && rs.iterated > 0 && !rs.failed {
		r.nontrivial("T/" + hashKeyOf(keys, sizes, mode, inject))
	}
	r.sample(cc.witness(map[string]interface{}{"gets_present": rs.getsPresent, "gets_absent": rs.getsAbsent, "iterated": rs.iterated}))
}

// runBuilderEdgeCase: empty builder, abandoned builder.
func runBuilderEdgeCase(cc *caseCtx) {
	rnd := cc.rnd
	storeDir := filepath.Join(cc.dir, fmt.Sprintf("e%d", cc.idx))
	if err := os.MkdirAll(filepath.Join(storeDir, famDir), 0o755); err != nil {
		panic(err)
	}
	defer os.RemoveAll(storeDir)
	cc.desc = map[string]interface{}{"edge": "empty-and-abandoned-builder"}
	fmt.Printf("CASE E %d\n", cc.idx)
	cc.guard("C15/panic-in-builder", func() {
		// an empty builder cannot be closed into a table
		p := filepath.Join(storeDir, famDir, tableFileName(5))
		b, err := table.NewStoreBuilder(5, p)
		if err != nil {
			cc.fail("C15/builder-create-error", "%v", err)
			return
		}
		if b.Count() != 0 || b.Size() != 0 {
			cc.fail("C15/builder-count-wrong", "fresh builder Count=%d Size=%d", b.Count(), b.Size())
		}
		if err := b.Close(); !errors.Is(err, table.ErrEmptyKeys) {
			cc.fail("C15/empty-builder-close-no-error", "Close() of a builder without keys returned %v, want ErrEmptyKeys", err)
		}
		cc.r.count("empty_builders_closed", 1)
		// an abandoned builder leaves no readable table behind
		p2 := filepath.Join(storeDir, famDir, tableFileName(6))
		b2, err := table.NewStoreBuilder(6, p2)
		if err != nil {
			cc.fail("C15/builder-create-error", "%v", err)
			return
		}
		keys, _ := genKeys(rnd, 50, "")
		sizes, _ := genSizes(rnd, len(keys), "tiny-nonempty", 1<<16, 100)
		es := makeEntries(rnd.Uint64(), keys, sizes)
		writeEntries(cc, builderSink{b2}, b2, es, writeOpts{mode: "mixed", prefix: "abandoned"})
		if err := b2.Abandon(); err != nil {
			cc.fail("C15/abandon-error", "Abandon(): %v", err)
		}
		cache := table.NewCache(storeDir, time.Hour)
		if r, err := cache.GetReader(famDir, tableFileName(6)); err == nil {
			cc.fail("C15/abandoned-table-readable", "a reader opened the abandoned table (%d keys written), reader=%v", len(es), r != nil)
		}
		_ = cache.Close()
		cc.r.count("abandoned_builders", 1)
	})
	cc.r.eval(1)
}
