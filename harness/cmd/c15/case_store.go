package main

import (
	"bytes"
	"errors"
	"fmt"
	"os"
	"path/filepath"
	"sort"
	"sync/atomic"

	"github.com/lindb/lindb/kv"
	"github.com/lindb/lindb/kv/table"
	"github.com/lindb/lindb/kv/version"
)

const mergerName = "C15FrameMerger"

var mergerBadInput atomic.Int64
var mergerCalls atomic.Int64

// how the merger writes its output: 0 = Add only, 1 = alternate Add / a stream writer asked for per key,
// 2 = one stream writer taken when the merger is created (what lindb's own mergers do)
var mergerMode atomic.Int32

func init() {
	kv.RegisterMerger(mergerName, func(flusher kv.Flusher) (kv.Merger, error) {
		m := &frameMerger{flusher: flusher, mode: mergerMode.Load()}
		if m.mode == 2 {
			sw, err := flusher.StreamWriter()
			if err != nil {
				return nil, err
			}
			m.sw = sw
		}
		return m, nil
	})
}

// frameMerger merges the values of one key into the sorted concatenation of their frames.
type frameMerger struct {
	flusher kv.Flusher
	sw      table.StreamWriter
	mode    int32
	n       int
}

func (m *frameMerger) Init(map[string]interface{}) {}

func (m *frameMerger) Merge(key uint32, values [][]byte) error {
	mergerCalls.Add(1)
	var frames []string
	for _, v := range values {
		fs, ok := splitFrames(v)
		if !ok {
			mergerBadInput.Add(1)
			return fmt.Errorf("c15 merger: value of key %d is not a frame sequence", key)
		}
		frames = append(frames, fs...)
	}
	sort.Strings(frames)
	var out []byte
	for _, f := range frames {
		out = append(out, frame([]byte(f))...)
	}
	m.n++
	if m.mode == 0 || (m.mode == 1 && m.n%2 == 0) {
		return m.flusher.Add(key, out)
	}
	sw := m.sw
	if sw == nil {
		var err error
		if sw, err = m.flusher.StreamWriter(); err != nil {
			return err
		}
	}
	sw.Prepare(key)
	half := len(out) / 2
	if _, err := sw.Write(out[:half]); err != nil {
		return err
	}
	if _, err := sw.Write(out[half:]); err != nil {
		return err
	}
	return sw.Commit()
}

// fileModel is a table file whose content the harness knows (written by a flush).
type fileModel struct {
	number  table.FileNumber
	entries []entry
}

// familyModel is what the family must hold.
type familyModel struct {
	framed    bool                // values are frame sequences (cases with compaction)
	anyLevel  bool                // known files may sit in any level (bare version set cases)
	files     []fileModel         // files flushed since the last compaction (content known, must be in level 0)
	compacted bool                // after a compaction the layout of the older data is lindb's choice
	values    map[uint32][]string // key -> raw values (framed==false) or payload frames (framed==true), one per flush holding the key
}

type metaView struct {
	number   table.FileNumber
	min, max uint32
	size     uint32
	level    int
}

func metasOf(v version.Version, levels int) []metaView {
	var out []metaView
	for l := 0; l < levels; l++ {
		for _, f := range v.GetFiles(l) {
			out = append(out, metaView{f.GetFileNumber(), f.GetMinKey(), f.GetMaxKey(), f.GetFileSize(), l})
		}
	}
	sort.Slice(out, func(i, j int) bool { return out[i].number < out[j].number })
	return out
}

func numbersOf(files []*version.FileMeta) []int64 {
	var out []int64
	for _, f := range files {
		out = append(out, f.GetFileNumber().Int64())
	}
	sort.Slice(out, func(i, j int) bool { return out[i] < out[j] })
	return out
}

func equalInt64s(a, b []int64) bool {
	if len(a) != len(b) {
		return false
	}
	for i := range a {
		if a[i] != b[i] {
			return false
		}
	}
	return true
}

type famStats struct {
	probesPresent, probesAbsent, keysInSeveralFiles, maxFilesPerKey, filesChecked, loads, readersFound int
	filesSkippedByRange, emptyKeysKept, emptyKeysDropped                                               int
	ok                                                                                                 bool
}

// verifySnapshot checks one snapshot of a family (or of a bare family version) against the model.
// dir is the family directory, levels the number of levels of the store.
func verifySnapshot(cc *caseCtx, snap version.Snapshot, dir string, levels int, model *familyModel, phase string) famStats {
	st := famStats{ok: true}
	rnd := cc.rnd
	bad := func(class, format string, args ...interface{}) {
		st.ok = false
		cc.fail(class, phase+": "+format, args...)
	}
	v := snap.GetCurrent()
	metas := metasOf(v, levels)
	all := v.GetAllFiles()
	if len(all) != len(metas) {
		bad("C15/getallfiles-differs-from-levels", "GetAllFiles() has %d files, the levels hold %d", len(all), len(metas))
	}
	// 1. file list and meta against the model
	known := map[table.FileNumber][]entry{}
	{
		for _, f := range model.files {
			known[f.number] = f.entries
		}
		var want []int64
		for _, f := range model.files {
			want = append(want, f.number.Int64())
		}
		sort.Slice(want, func(i, j int) bool { return want[i] < want[j] })
		got := numbersOf(all)
		if !model.compacted {
			if !equalInt64s(want, got) {
				bad("C15/version-file-list-wrong", "version holds files %v, flushed files are %v", got, want)
			}
		} else {
			have := map[int64]bool{}
			for _, n := range got {
				have[n] = true
			}
			for _, n := range want {
				if !have[n] {
					bad("C15/version-file-list-wrong", "version holds files %v, file %d flushed after the last compaction is missing", got, n)
				}
			}
		}
	}
	// 2. every file: content through the real reader, meta range = content range
	actual := map[table.FileNumber][]entry{}
	for _, m := range metas {
		r, err := snap.GetReader(m.number)
		if err != nil {
			bad("C15/reader-open-error", "file %d (level %d): %v", m.number, m.level, err)
			continue
		}
		es, _ := drain(r.Iterator(), 1<<30)
		actual[m.number] = es
		st.filesChecked++
		if len(es) == 0 {
			bad("C15/table-file-empty", "file %d iterates no entry", m.number)
			continue
		}
		for i := 1; i < len(es); i++ {
			if es[i].key <= es[i-1].key {
				bad("C15/iterator-not-ascending", "file %d entry %d: key %d after %d", m.number, i, es[i].key, es[i-1].key)
				break
			}
		}
		if m.min != es[0].key || m.max != es[len(es)-1].key {
			bad("C15/file-meta-range-wrong", "file %d (level %d) meta [%d,%d] but the table holds keys %d..%d", m.number, m.level, m.min, m.max, es[0].key, es[len(es)-1].key)
		}
		if fi, err := os.Stat(filepath.Join(dir, version.Table(m.number))); err != nil || int64(m.size) != fi.Size() {
			bad("C15/file-meta-size-wrong", "file %d meta size %d, on disk %v (%v)", m.number, m.size, fileSizeOf(fi), err)
		}
		if want, ok := known[m.number]; ok {
			rs := verifyReader(cc, r, want, fmt.Sprintf("%s file %d", phase, m.number))
			if rs.failed {
				st.ok = false
			}
			if m.level != 0 && !model.anyLevel {
				bad("C15/flushed-file-not-in-level0", "file %d is in level %d", m.number, m.level)
			}
		}
	}
	// 3. probes
	var keys []uint32
	for k := range model.values {
		keys = append(keys, k)
	}
	keys = uniqSorted(keys)
	probes := keys
	if len(probes) > 2500 {
		probes = nil
		step := len(keys)/2500 + 1
		for i := rnd.Intn(step); i < len(keys); i += step {
			probes = append(probes, keys[i])
		}
		probes = append(probes, keys[0], keys[len(keys)-1])
	}
	absent := absentProbes(rnd, keys, 300)
	for _, m := range metas {
		// edges of every file range are interesting for the range lookup
		for _, k := range []int64{int64(m.min) - 1, int64(m.min), int64(m.max), int64(m.max) + 1} {
			if k >= 0 && k <= maxU32 {
				if _, ok := model.values[uint32(k)]; ok {
					probes = append(probes, uint32(k))
				} else {
					absent = append(absent, uint32(k))
				}
			}
		}
	}
	probes = uniqSorted(probes)
	absent = uniqSorted(absent)
	holds := func(num table.FileNumber, k uint32) (int, bool) {
		es := actual[num]
		i := sort.Search(len(es), func(i int) bool { return es[i].key >= k })
		return i, i < len(es) && es[i].key == k
	}
	probe := func(k uint32, present bool) {
		// range lookup
		found := v.FindFiles(k)
		foundSet := map[table.FileNumber]bool{}
		for _, f := range found {
			if foundSet[f.GetFileNumber()] {
				bad("C15/findfiles-returns-file-twice", "FindFiles(%d) lists file %d twice", k, f.GetFileNumber())
			}
			foundSet[f.GetFileNumber()] = true
		}
		holders := 0
		for _, m := range metas {
			_, has := holds(m.number, k)
			inRange := k >= m.min && k <= m.max
			if has {
				holders++
			}
			switch {
			case has && !foundSet[m.number]:
				bad("C15/findfiles-misses-file-holding-key", "FindFiles(%d) = %v misses file %d (level %d, range [%d,%d]) which holds the key", k, numbersOf(found), m.number, m.level, m.min, m.max)
			case inRange && !foundSet[m.number]:
				bad("C15/findfiles-misses-file-in-range", "FindFiles(%d) = %v misses file %d (level %d, range [%d,%d])", k, numbersOf(found), m.number, m.level, m.min, m.max)
			case !inRange && foundSet[m.number]:
				bad("C15/findfiles-returns-file-outside-range", "FindFiles(%d) lists file %d with range [%d,%d]", k, m.number, m.min, m.max)
			}
			if !inRange {
				st.filesSkippedByRange++
			}
		}
		if holders > 1 {
			st.keysInSeveralFiles++
		}
		if holders > st.maxFilesPerKey {
			st.maxFilesPerKey = holders
		}
		// Load
		var loaded []string
		err := snap.Load(k, func(value []byte) error {
			loaded = append(loaded, string(value))
			return nil
		})
		st.loads++
		if err != nil {
			bad("C15/load-error", "Load(%d): %v", k, err)
		}
		if !present {
			if len(loaded) > 0 {
				bad("C15/load-absent-key-loaded", "Load(%d) of a key never written called the loader %d times (first %s)", k, len(loaded), shortBytes([]byte(loaded[0])))
			}
		} else {
			if len(loaded) != holders {
				bad("C15/load-call-count-differs-from-files", "Load(%d) called the loader %d times, %d files hold the key", k, len(loaded), holders)
			}
			got := loaded
			if model.framed {
				got = nil
				for _, l := range loaded {
					fs, ok := splitFrames([]byte(l))
					if !ok {
						bad("C15/load-wrong-bytes", "Load(%d) delivered bytes that are not what was written: %s", k, shortBytes([]byte(l)))
					}
					got = append(got, fs...)
				}
			}
			want := sortedCopy(model.values[k])
			got = sortedCopy(got)
			if !equalStrings(want, got) {
				class := "C15/load-wrong-bytes"
				if len(got) < len(want) {
					class = "C15/load-misses-value"
				} else if len(got) > len(want) {
					class = "C15/load-extra-value"
				}
				bad(class, "Load(%d) delivered %d values, %d were written for the key (files holding it: %d of %d)", k, len(got), len(want), holders, len(metas))
			}
		}
		// FindReaders
		readers, err := snap.FindReaders(k)
		if err != nil {
			bad("C15/findreaders-error", "FindReaders(%d): %v", k, err)
			return
		}
		st.readersFound += len(readers)
		names := map[string]bool{}
		for _, r := range readers {
			names[r.FileName()] = true
		}
		if len(names) != len(foundSet) {
			bad("C15/findreaders-differs-from-findfiles", "FindReaders(%d) gave %d readers, FindFiles %d files", k, len(names), len(foundSet))
		}
		var viaReaders []string
		for _, r := range readers {
			val, err := r.Get(k)
			if err == nil {
				viaReaders = append(viaReaders, string(val))
			} else if !errors.Is(err, table.ErrKeyNotExist) {
				bad("C15/get-present-key-error", "reader %s Get(%d): %v", r.FileName(), k, err)
			}
		}
		if !equalStrings(sortedCopy(viaReaders), sortedCopy(loaded)) {
			bad("C15/findreaders-values-differ-from-load", "Get(%d) over FindReaders gave %d values, Load %d", k, len(viaReaders), len(loaded))
		}
	}
	for _, k := range probes {
		probe(k, true)
		st.probesPresent++
	}
	for _, k := range absent {
		probe(k, false)
		st.probesAbsent++
	}
	// 4. merged iteration over all files of the version
	if len(metas) > 0 {
		var its []table.Iterator
		var inputs [][]entry
		for _, m := range metas {
			r, err := snap.GetReader(m.number)
			if err != nil {
				continue
			}
			its = append(its, r.Iterator())
			inputs = append(inputs, actual[m.number])
		}
		total := 0
		for _, in := range inputs {
			total += len(in)
		}
		got, overflow := drain(table.NewMergedIterator(its), total)
		if !checkMerged(cc, got, overflow, inputs, phase+" merge of all files") {
			st.ok = false
		}
		// and against the model: key by key the written values
		byKey := map[uint32][]string{}
		for _, e := range got {
			if model.framed {
				fs, _ := splitFrames(e.value)
				byKey[e.key] = append(byKey[e.key], fs...)
			} else {
				byKey[e.key] = append(byKey[e.key], string(e.value))
			}
		}
		// a key whose values were all empty may be dropped by a compaction (compactFlusher.Add skips an empty
		// merged value, the stream writer path keeps it as an empty value); every other key must be in a file
		for k, want := range model.values {
			_, have := byKey[k]
			switch {
			case len(want) == 0 && model.compacted:
				if have {
					st.emptyKeysKept++
				} else {
					st.emptyKeysDropped++
				}
			case !have:
				bad("C15/version-keyset-differs", "key %d (%d values written) is in no file of the version", k, len(want))
			}
			if !st.ok {
				break
			}
		}
		for k := range byKey {
			if _, ok := model.values[k]; !ok {
				bad("C15/version-holds-foreign-key", "the files of the version hold key %d which was never written", k)
				break
			}
		}
		for k, want := range model.values {
			if !equalStrings(sortedCopy(want), sortedCopy(byKey[k])) {
				bad("C15/version-content-differs", "key %d: files hold %d values, %d were written", k, len(byKey[k]), len(want))
				break
			}
		}
	}
	return st
}

func fileSizeOf(fi os.FileInfo) interface{} {
	if fi == nil {
		return "missing"
	}
	return fi.Size()
}

// flushOne writes one flush through the real flusher and returns the number of the new file.
// A flush whose values are ALL empty stores nothing: lindb's convention is "empty value = nothing to store"
// (storeFlusher.Commit abandons a builder without value bytes, compactFlusher.Add skips empty values);
// for such a flush (expectNone) the version must not change.
func flushOne(cc *caseCtx, fam kv.Family, levels int, entries []entry, o writeOpts, expectNone bool) (table.FileNumber, writeStats, bool) {
	before := map[table.FileNumber]bool{}
	s0 := fam.GetSnapshot()
	for _, m := range metasOf(s0.GetCurrent(), levels) {
		before[m.number] = true
	}
	s0.Close()
	fl := fam.NewFlusher()
	ws := writeEntries(cc, fl, nil, entries, o)
	if rndSeq := cc.rnd.Intn(3); rndSeq == 0 {
		fl.Sequence(int32(cc.rnd.Intn(3)), int64(cc.rnd.Intn(1000)))
	}
	err := fl.Commit()
	fl.Release()
	if err != nil {
		cc.fail("C15/flush-commit-error", "%s: Commit(): %v", o.prefix, err)
		return 0, ws, false
	}
	if ws.failed {
		return 0, ws, false
	}
	s1 := fam.GetSnapshot()
	defer s1.Close()
	var added []metaView
	for _, m := range metasOf(s1.GetCurrent(), levels) {
		if !before[m.number] {
			added = append(added, m)
		}
	}
	if expectNone {
		if len(added) != 0 {
			cc.fail("C15/flush-of-only-empty-values-added-file", "%s: a flush of %d keys with only empty values added %d files to the version", o.prefix, len(entries), len(added))
			return 0, ws, false
		}
		return 0, ws, true
	}
	if len(added) != 1 {
		cc.fail("C15/flush-file-count-wrong", "%s: a committed flush of %d keys added %d files to the version", o.prefix, len(entries), len(added))
		return 0, ws, false
	}
	return added[0].number, ws, true
}

func runStoreCase(cc *caseCtx) {
	rnd := cc.rnd
	nFlush := 1 + rnd.Intn(12)
	if cc.idx < 12 {
		nFlush = cc.idx + 1
	}
	pattern := overlapPatterns[rnd.Intn(len(overlapPatterns))]
	maxPer := []int{3, 25, 150}[rnd.Intn(3)]
	if rnd.Intn(25) == 0 {
		maxPer = 1500
	}
	compact1 := rnd.Intn(3) == 0
	compact2 := compact1 && rnd.Intn(2) == 0
	nFlush2 := 0
	if compact1 || rnd.Intn(4) == 0 {
		nFlush2 = rnd.Intn(5)
	}
	reopen := rnd.Intn(3) == 0
	framed := compact1
	levels := 2 + rnd.Intn(2)
	maxFileSize := uint32(0)
	if rnd.Intn(2) == 0 {
		maxFileSize = uint32(32 << rnd.Intn(10))
	}
	inject := rnd.Intn(3) == 0
	// how the compaction merger writes: Add only / alternating / the one stream writer taken at creation;
	// combined with a small max file size the output rolls over to further files under each of them
	mode := int32(rnd.Intn(3))
	if cc.kind == "SR" {
		// compaction whose output rolls over to further files while the merger writes through the one
		// stream writer it took at creation, like lindb's own mergers
		nFlush = 2 + rnd.Intn(6)
		compact1, framed, mode = true, true, 2
		maxFileSize = uint32(64 << rnd.Intn(4))
		maxPer = 150
		cc.classOverride = "C15/compaction-streamwriter-stale-after-output-rollover"
	}
	mergerMode.Store(mode)
	cc.desc = map[string]interface{}{"merger_mode": mode, "flushes": nFlush, "overlap": pattern, "max_keys_per_flush": maxPer, "compact_after_phase1": compact1,
		"flushes_phase2": nFlush2, "compact_after_phase2": compact2, "reopen": reopen, "levels": levels, "max_file_size": maxFileSize, "inject": inject}
	fmt.Printf("CASE %s %d %v\n", cc.kind, cc.idx, cc.desc)

	name := filepath.Join(cc.dir, fmt.Sprintf("store-%d", cc.idx))
	defer os.RemoveAll(name)
	opt := kv.DefaultStoreOption()
	opt.Levels = levels
	famOpt := kv.FamilyOption{Merger: mergerName, MaxFileSize: maxFileSize}
	mgr := kv.GetStoreManager()
	open := func() (kv.Family, bool) {
		store, err := mgr.CreateStore(name, opt)
		if err != nil {
			cc.fail("C15/store-open-error", "CreateStore(%s): %v", name, err)
			return nil, false
		}
		fam, err := store.CreateFamily("f", famOpt)
		if err != nil {
			cc.fail("C15/store-open-error", "CreateFamily: %v", err)
			return nil, false
		}
		return fam, true
	}
	closed := false
	closeStore := func() {
		if !closed {
			if err := mgr.CloseStore(name); err != nil {
				cc.fail("C15/store-close-error", "CloseStore: %v", err)
			}
			closed = true
		}
	}
	defer closeStore()
	famDirPath := filepath.Join(name, "f")

	model := &familyModel{framed: framed, values: map[uint32][]string{}}
	var agg famStats
	agg.ok = true
	add := func(s famStats) {
		agg.probesPresent += s.probesPresent
		agg.probesAbsent += s.probesAbsent
		agg.keysInSeveralFiles += s.keysInSeveralFiles
		agg.filesChecked += s.filesChecked
		agg.loads += s.loads
		agg.readersFound += s.readersFound
		agg.filesSkippedByRange += s.filesSkippedByRange
		agg.emptyKeysKept += s.emptyKeysKept
		agg.emptyKeysDropped += s.emptyKeysDropped
		if s.maxFilesPerKey > agg.maxFilesPerKey {
			agg.maxFilesPerKey = s.maxFilesPerKey
		}
		agg.ok = agg.ok && s.ok
	}
	flushes := 0
	doFlushes := func(fam kv.Family, n int, phase string) bool {
		if n == 0 {
			return true
		}
		sets := genOverlapping(rnd, n, pattern, maxPer)
		for i, ks := range sets {
			salt := rnd.Uint64()
			var es []entry
			nonEmpty := false
			allEmpty := rnd.Intn(15) == 0
			for _, k := range ks {
				var val []byte
				switch {
				case allEmpty:
					val = fillValue(salt, k, 0)
				case framed:
					// an empty value is a sequence of zero frames
					if rnd.Intn(6) > 0 {
						val = frame(fillValue(salt, k, rnd.Intn(40)))
					}
				default:
					sz := rnd.Intn(60)
					if rnd.Intn(4) == 0 {
						sz = 0
					}
					val = fillValue(salt, k, sz)
				}
				nonEmpty = nonEmpty || len(val) > 0
				es = append(es, entry{k, val})
			}
			num, _, ok := flushOne(cc, fam, levels, es, writeOpts{mode: writeModes[rnd.Intn(len(writeModes))], inject: inject && nonEmpty,
				prefix: fmt.Sprintf("%s flush %d", phase, i)}, !nonEmpty)
			if !ok {
				return false
			}
			if !nonEmpty {
				// nothing was flushed: the model does not change
				cc.r.count("flushes_of_only_empty_values_modelled_as_nothing", 1)
				continue
			}
			flushes++
			model.files = append(model.files, fileModel{num, es})
			for _, e := range es {
				if framed {
					fs, _ := splitFrames(e.value)
					model.values[e.key] = append(model.values[e.key], fs...)
				} else {
					model.values[e.key] = append(model.values[e.key], string(e.value))
				}
			}
		}
		return true
	}
	verify := func(fam kv.Family, phase string) {
		snap := fam.GetSnapshot()
		defer snap.Close()
		add(verifySnapshot(cc, snap, famDirPath, levels, model, phase))
	}
	compact := func(fam kv.Family, phase string) {
		s := fam.GetSnapshot()
		l0 := s.GetCurrent().NumberOfFilesInLevel(0)
		s.Close()
		fam.Compact()
		kv.VerifFamilyWait(fam)
		if l0 > 1 {
			model.compacted = true
			model.files = nil
			cc.r.count("compactions", 1)
			s := fam.GetSnapshot()
			left := s.GetCurrent().NumberOfFilesInLevel(0)
			up := s.GetCurrent().NumberOfFilesInLevel(1)
			s.Close()
			if left != 0 {
				cc.fail("C15/compaction-left-level0-files", "%s: %d level-0 files before Compact(), %d after (level 1: %d)", phase, l0, left, up)
			}
			cc.r.count("level1_files_after_compaction", up)
		}
	}
	cc.guard("C15/panic-in-store", func() {
		fam, ok := open()
		if !ok {
			return
		}
		if !doFlushes(fam, nFlush, "phase1") {
			return
		}
		verify(fam, "after phase1")
		if compact1 {
			compact(fam, "compaction 1")
			verify(fam, "after compaction 1")
		}
		if nFlush2 > 0 {
			if !doFlushes(fam, nFlush2, "phase2") {
				return
			}
			verify(fam, "after phase2")
		}
		if compact2 {
			compact(fam, "compaction 2")
			verify(fam, "after compaction 2")
		}
		if reopen {
			closeStore()
			closed = false
			fam, ok = open()
			if !ok {
				return
			}
			cc.r.count("stores_reopened", 1)
			verify(fam, "after reopen")
		}
	})
	if n := mergerBadInput.Swap(0); n > 0 {
		cc.fail("C15/compaction-merger-got-foreign-bytes", "the merger received %d values that are not what was flushed", n)
	}
	r := cc.r
	r.eval(1)
	if cc.kind == "SR" {
		r.count("compactions_with_output_rollover_and_one_stream_writer", 1)
		return
	}
	r.count("stores", 1)
	r.count("store_flushes", flushes)
	r.count(fmt.Sprintf("stores_with_%02d_files_phase1", nFlush), 1)
	r.count("store_probes_present", agg.probesPresent)
	r.count("store_probes_absent", agg.probesAbsent)
	r.count("store_probe_keys_in_several_files", agg.keysInSeveralFiles)
	r.count("store_files_verified", agg.filesChecked)
	r.count("store_loads", agg.loads)
	r.count("store_readers_found", agg.readersFound)
	r.count("store_files_outside_key_range_skipped", agg.filesSkippedByRange)
	r.count("compacted_keys_with_only_empty_values_kept_as_empty", agg.emptyKeysKept)
	r.count("compacted_keys_with_only_empty_values_dropped", agg.emptyKeysDropped)
	r.count(fmt.Sprintf("stores_max_files_per_key_%02d", agg.maxFilesPerKey), 1)
	if agg.ok && agg.probesPresent > 0 && agg.probesAbsent > 0 {
		r.nontrivial("S/" + hashKeyOf(cc.idx, nFlush, pattern, nFlush2, compact1, compact2, reopen, len(model.values), flushes))
	}
	r.sample(cc.witness(map[string]interface{}{"probes_present": agg.probesPresent, "probes_absent": agg.probesAbsent, "max_files_per_key": agg.maxFilesPerKey}))
}

// runEmptyFlushCase: a flush whose values are all empty stores nothing (lindb's convention "empty value =
// nothing to store"); the version must stay as it was and later flushes must work.
func runEmptyFlushCase(cc *caseCtx) {
	cc.desc = map[string]interface{}{"edge": "flush of keys with only empty values, then a normal flush"}
	fmt.Printf("CASE SE %d\n", cc.idx)
	name := filepath.Join(cc.dir, fmt.Sprintf("store-empty-%d", cc.idx))
	defer os.RemoveAll(name)
	mgr := kv.GetStoreManager()
	cc.guard("C15/panic-in-store", func() {
		store, err := mgr.CreateStore(name, kv.DefaultStoreOption())
		if err != nil {
			cc.fail("C15/store-open-error", "%v", err)
			return
		}
		defer mgr.CloseStore(name)
		fam, err := store.CreateFamily("f", kv.FamilyOption{Merger: mergerName})
		if err != nil {
			cc.fail("C15/store-open-error", "%v", err)
			return
		}
		model := &familyModel{values: map[uint32][]string{}}
		empties := []entry{{3, nil}, {70000, []byte{}}, {maxU32, nil}}
		if _, _, ok := flushOne(cc, fam, 2, empties, writeOpts{mode: "mixed", prefix: "all-empty flush"}, true); !ok {
			return
		}
		cc.r.count("flushes_of_only_empty_values_modelled_as_nothing", 1)
		es := []entry{{3, nil}, {4, []byte("x")}, {maxU32, []byte{}}}
		num, _, ok := flushOne(cc, fam, 2, es, writeOpts{mode: "mixed", prefix: "flush with some empty values"}, false)
		if !ok {
			return
		}
		model.files = append(model.files, fileModel{num, es})
		for _, e := range es {
			model.values[e.key] = append(model.values[e.key], string(e.value))
		}
		snap := fam.GetSnapshot()
		defer snap.Close()
		verifySnapshot(cc, snap, filepath.Join(name, "f"), 2, model, "after an all-empty and a partly empty flush")
	})
	cc.r.eval(1)
}

var _ = bytes.Equal

// runStoreLeftoverCase: outputs of flushes that never committed stay in the family directory, the store
// is closed and opened again, the file numbers of the leftovers are handed out again (the next file number
// is only persisted with a committed edit log) and - in most cases - the cleanup at open could not list the
// directory. The new flushes must produce exactly their own tables at those paths.
func runStoreLeftoverCase(cc *caseCtx) {
	rnd := cc.rnd
	nCommitted := 1 + rnd.Intn(3)
	nLeft := 1 + rnd.Intn(3)
	nAfter := 1 + rnd.Intn(4)
	cleanupFails := rnd.Intn(3) > 0
	completeLeftover := rnd.Intn(2) == 0
	levels := 2
	cc.desc = map[string]interface{}{"committed_flushes": nCommitted, "uncommitted_flushes": nLeft, "flushes_after_reopen": nAfter,
		"cleanup_at_open_cannot_list_dir": cleanupFails, "leftover_completed_as_table": completeLeftover}
	fmt.Printf("CASE SL %d %v\n", cc.idx, cc.desc)
	name := filepath.Join(cc.dir, fmt.Sprintf("store-left-%d", cc.idx))
	defer os.RemoveAll(name)
	famPath := filepath.Join(name, "f")
	mgr := kv.GetStoreManager()
	opened := false
	defer func() {
		if opened {
			_ = mgr.CloseStore(name)
		}
	}()
	open := func() (kv.Family, bool) {
		store, err := mgr.CreateStore(name, kv.DefaultStoreOption())
		if err != nil {
			cc.fail("C15/store-open-error", "CreateStore(%s): %v", name, err)
			return nil, false
		}
		opened = true
		fam, err := store.CreateFamily("f", kv.FamilyOption{Merger: mergerName})
		if err != nil {
			cc.fail("C15/store-open-error", "CreateFamily: %v", err)
			return nil, false
		}
		return fam, true
	}
	listSST := func() map[string]int64 {
		out := map[string]int64{}
		des, _ := os.ReadDir(famPath)
		for _, de := range des {
			if filepath.Ext(de.Name()) == ".sst" {
				if fi, err := de.Info(); err == nil {
					out[de.Name()] = fi.Size()
				}
			}
		}
		return out
	}
	model := &familyModel{values: map[uint32][]string{}}
	genEntries := func(maxPer, maxSize int) []entry {
		ks, _ := genKeys(rnd, maxPer, []string{"dense", "sparse", "runs", "boundary", "extremes"}[rnd.Intn(5)])
		salt := rnd.Uint64()
		es := make([]entry, len(ks))
		for i, k := range ks {
			es[i] = entry{k, fillValue(salt, k, 1+rnd.Intn(maxSize))}
		}
		return es
	}
	commit := func(fam kv.Family, es []entry, prefix string) (table.FileNumber, bool) {
		num, _, ok := flushOne(cc, fam, levels, es, writeOpts{mode: writeModes[rnd.Intn(len(writeModes))], prefix: prefix}, false)
		if ok {
			model.files = append(model.files, fileModel{num, es})
			for _, e := range es {
				model.values[e.key] = append(model.values[e.key], string(e.value))
			}
		}
		return num, ok
	}
	reissued := 0
	var agg famStats
	cc.guard("C15/panic-in-store", func() {
		fam, ok := open()
		if !ok {
			return
		}
		for i := 0; i < nCommitted; i++ {
			if _, ok := commit(fam, genEntries(60, 80), fmt.Sprintf("committed flush %d", i)); !ok {
				return
			}
		}
		before := listSST()
		// flushes that never commit: big enough that bytes pass the 256 KiB write buffer and reach the file
		for i := 0; i < nLeft; i++ {
			fl := fam.NewFlusher()
			for _, e := range genEntries(40, 40<<10) {
				_ = fl.Add(e.key, e.value)
			}
			fl.Release()
		}
		var leftovers []string
		for n := range listSST() {
			if _, ok := before[n]; !ok {
				leftovers = append(leftovers, n)
			}
		}
		sort.Strings(leftovers)
		if len(leftovers) != nLeft {
			panic(fmt.Sprintf("harness: %d uncommitted flushers left %d files", nLeft, len(leftovers)))
		}
		if err := mgr.CloseStore(name); err != nil {
			cc.fail("C15/store-close-error", "CloseStore: %v", err)
		}
		opened = false
		if completeLeftover {
			// the flush had closed its table but died before the edit log was committed: a complete, big table stays
			for _, n := range leftovers {
				d := version.ParseFileName(n)
				b, err := table.NewStoreBuilder(d.FileNumber, filepath.Join(famPath, n))
				if err != nil {
					panic(err)
				}
				for _, e := range genEntries(300, 4<<10) {
					_ = b.Add(e.key, e.value)
				}
				if err := b.Close(); err != nil {
					panic(err)
				}
			}
		}
		left := listSST()
		orig := kv.VerifGetSeams()
		if cleanupFails {
			kv.VerifSetSeams(kv.VerifSeams{ListDir: func(path string) ([]string, error) {
				return nil, fmt.Errorf("c15: injected list error for %s", path)
			}})
		}
		fam, ok = open()
		kv.VerifSetSeams(kv.VerifSeams{ListDir: orig.ListDir})
		if !ok {
			return
		}
		cc.r.count("stores_reopened", 1)
		for i := 0; i < nAfter; i++ {
			present := listSST()
			num, ok := commit(fam, genEntries(30, 60), fmt.Sprintf("flush %d after reopen", i))
			if !ok {
				return
			}
			fn := version.Table(num)
			if sz, was := present[fn]; was {
				if _, l := left[fn]; l {
					reissued++
					cc.r.count("flushes_into_reissued_file_number_over_leftover", 1)
					if fi, err := os.Stat(filepath.Join(famPath, fn)); err == nil && fi.Size() < sz {
						cc.r.count("flushes_over_longer_leftover", 1)
					}
				}
			}
		}
		snap := fam.GetSnapshot()
		agg = verifySnapshot(cc, snap, famPath, levels, model, "after flushes over leftovers")
		snap.Close()
	})
	r := cc.r
	r.eval(1)
	r.count("store_leftover_cases", 1)
	r.count("store_probes_present", agg.probesPresent)
	r.count("store_probes_absent", agg.probesAbsent)
	r.count("store_files_verified", agg.filesChecked)
	if agg.ok && agg.probesPresent > 0 {
		r.nontrivial("SL/" + hashKeyOf(cc.idx, nCommitted, nLeft, nAfter, cleanupFails, completeLeftover, reissued))
	}
}
