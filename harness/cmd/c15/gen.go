package main

import (
	"math"
	"math/rand"
	"sort"
)

const maxU32 = math.MaxUint32

var specialKeys = []uint32{0, 1, 2, 4095, 4096, 65534, 65535, 65536, 65537, 131071, 131072,
	1<<31 - 1, 1 << 31, 1<<31 + 1, maxU32 - 65536, maxU32 - 65535, maxU32 - 2, maxU32 - 1, maxU32}

func uniqSorted(keys []uint32) []uint32 {
	sort.Slice(keys, func(i, j int) bool { return keys[i] < keys[j] })
	out := keys[:0]
	for i, k := range keys {
		if i == 0 || k != keys[i-1] {
			out = append(out, k)
		}
	}
	return out
}

func randU32(rnd *rand.Rand) uint32 { return uint32(rnd.Uint64()) }

// randChunk picks a high-16 part, biased to the edges of the range.
func randChunk(rnd *rand.Rand) uint32 {
	switch rnd.Intn(6) {
	case 0:
		return 0
	case 1:
		return 65535
	case 2:
		return uint32(rnd.Intn(4))
	case 3:
		return 65535 - uint32(rnd.Intn(4))
	default:
		return uint32(rnd.Intn(65536))
	}
}

var keyShapes = []string{"single", "dense", "sparse", "runs", "boundary", "extremes",
	"container-threshold", "full-container", "same-low16", "mixed"}

// genKeys returns an ascending duplicate-free key set of at most maxN keys and the name of its shape.
func genKeys(rnd *rand.Rand, maxN int, shape string) ([]uint32, string) {
	if maxN < 1 {
		maxN = 1
	}
	if shape == "" {
		shape = keyShapes[rnd.Intn(len(keyShapes))]
	}
	if shape == "full-container" && maxN < 66000 {
		shape = "container-threshold"
	}
	if shape == "container-threshold" && maxN < 4200 {
		shape = "runs"
	}
	var keys []uint32
	switch shape {
	case "single":
		if rnd.Intn(3) == 0 {
			keys = []uint32{randU32(rnd)}
		} else {
			keys = []uint32{specialKeys[rnd.Intn(len(specialKeys))]}
		}
	case "dense":
		n := 2 + rnd.Intn(maxN)
		if n > maxN {
			n = maxN
		}
		var start uint64
		switch rnd.Intn(4) {
		case 0: // cross a 65536*k boundary
			b := uint64(randChunk(rnd)) << 16
			off := uint64(rnd.Intn(n + 1))
			if b >= off {
				start = b - off
			}
		case 1: // end exactly at 2^32-1
			start = uint64(maxU32) - uint64(n) + 1
		case 2:
			start = 0
		default:
			start = uint64(randU32(rnd))
		}
		if start+uint64(n) > uint64(maxU32)+1 {
			start = uint64(maxU32) + 1 - uint64(n)
		}
		for i := 0; i < n; i++ {
			keys = append(keys, uint32(start+uint64(i)))
		}
	case "sparse":
		n := 1 + rnd.Intn(maxN)
		for i := 0; i < n; i++ {
			keys = append(keys, randU32(rnd))
		}
	case "runs":
		n := 0
		cur := uint64(0)
		if rnd.Intn(3) > 0 {
			cur = uint64(randU32(rnd)) / 2
		}
		for n < maxN && cur <= maxU32 {
			l := 1 + rnd.Intn(1+maxN/4)
			for i := 0; i < l && n < maxN && cur <= maxU32; i++ {
				keys = append(keys, uint32(cur))
				cur++
				n++
			}
			switch rnd.Intn(4) {
			case 0:
				cur += 1 + uint64(rnd.Intn(3))
			case 1:
				cur += uint64(rnd.Intn(70000))
			case 2:
				cur += uint64(rnd.Intn(1 << 28))
			default:
				cur += 1 + uint64(rnd.Intn(300))
			}
			if rnd.Intn(12) == 0 {
				break
			}
		}
	case "boundary":
		nb := 1 + rnd.Intn(6)
		for j := 0; j < nb; j++ {
			b := int64(randChunk(rnd)) << 16
			w := int64(1 + rnd.Intn(4))
			for d := -w; d <= w; d++ {
				if rnd.Intn(5) == 0 {
					continue
				}
				k := b + d
				if k >= 0 && k <= maxU32 {
					keys = append(keys, uint32(k))
				}
			}
		}
		if len(keys) == 0 {
			keys = []uint32{65535, 65536}
		}
	case "extremes":
		keys = []uint32{0, maxU32}
		for i := rnd.Intn(8); i > 0; i-- {
			keys = append(keys, specialKeys[rnd.Intn(len(specialKeys))])
		}
		for i := rnd.Intn(5); i > 0; i-- {
			keys = append(keys, randU32(rnd))
		}
	case "container-threshold":
		// roaring switches from array to bitmap container above 4096 values in one chunk
		hi := randChunk(rnd) << 16
		n := 4094 + rnd.Intn(5)
		perm := rnd.Perm(65536)
		if rnd.Intn(3) == 0 {
			perm = rnd.Perm(8192) // denser: run containers after RunOptimize are likely
		}
		for i := 0; i < n && i < len(perm); i++ {
			keys = append(keys, hi|uint32(perm[i]))
		}
		if rnd.Intn(2) == 0 {
			keys = append(keys, randU32(rnd), randU32(rnd))
		}
	case "full-container":
		hi := randChunk(rnd) << 16
		for i := 0; i < 65536; i++ {
			keys = append(keys, hi|uint32(i))
		}
		if hi > 0 && rnd.Intn(2) == 0 {
			keys = append(keys, hi-1)
		}
		if hi>>16 < 65535 && rnd.Intn(2) == 0 {
			keys = append(keys, hi+65536)
		}
	case "same-low16":
		low := uint32(rnd.Intn(65536))
		if rnd.Intn(3) == 0 {
			low = []uint32{0, 65535, 1}[rnd.Intn(3)]
		}
		n := 2 + rnd.Intn(40)
		for i := 0; i < n; i++ {
			keys = append(keys, randChunk(rnd)<<16|low)
		}
	default: // mixed
		shape = "mixed"
		parts := 2 + rnd.Intn(2)
		for p := 0; p < parts; p++ {
			sub := []string{"dense", "sparse", "runs", "boundary", "extremes", "same-low16", "single"}[rnd.Intn(7)]
			k, _ := genKeys(rnd, 1+maxN/parts, sub)
			keys = append(keys, k...)
		}
	}
	switch rnd.Intn(10) {
	case 0:
		keys = append(keys, 0)
	case 1:
		keys = append(keys, maxU32)
	case 2:
		keys = append(keys, 0, maxU32)
	}
	keys = uniqSorted(keys)
	if len(keys) > maxN && shape != "full-container" && shape != "container-threshold" {
		// thin out but keep first and last
		last := keys[len(keys)-1]
		keys = keys[:maxN]
		keys[maxN-1] = last
		keys = uniqSorted(keys)
	}
	return keys, shape
}

// forcedEdgeDelta, if in [-1,1], fixes where a "width-edge-16M" table puts its last offset relative to 2^24
// (the quick tier has only five such tables; both sides of the switch must be seen whatever the seed).
var forcedEdgeDelta = 99

var sizeProfiles = []string{"empty", "tiny", "tiny-nonempty", "mixed-empties", "medium", "width-edge", "large"}

// genSizes returns the value size of every key. budget caps the total number of value bytes.
func genSizes(rnd *rand.Rand, n int, profile string, budget int, maxValue int) ([]int, string) {
	if profile == "" {
		profile = sizeProfiles[rnd.Intn(len(sizeProfiles))]
	}
	force16M := false
	if profile == "width-edge-16M" {
		profile, force16M = "width-edge", true
	}
	if profile == "width-edge" && n < 2 {
		profile = "tiny"
	}
	sizes := make([]int, n)
	switch profile {
	case "empty":
	case "tiny":
		for i := range sizes {
			sizes[i] = rnd.Intn(9)
		}
	case "tiny-nonempty":
		for i := range sizes {
			sizes[i] = 1 + rnd.Intn(16)
		}
	case "mixed-empties":
		for i := range sizes {
			if rnd.Intn(2) == 0 {
				sizes[i] = 1 + rnd.Intn(64)
			}
		}
		switch rnd.Intn(4) {
		case 0:
			sizes[0] = 0
		case 1:
			sizes[n-1] = 0
			if n > 1 {
				sizes[n-2] = 0
			}
		case 2:
			sizes[0] = 0
			sizes[n-1] = 0
		}
	case "medium":
		per := 4096
		if n > 0 && budget/n < per {
			per = budget/n + 1
		}
		for i := range sizes {
			sizes[i] = rnd.Intn(per + 1)
		}
	case "width-edge":
		// the offset table is written with the byte width of the LAST offset (= sum of all sizes but the last);
		// put it exactly at / next to a width switch.
		edges := []int{1 << 8, 1 << 16}
		if budget > 1<<24+1<<20 {
			edges = append(edges, 1<<24)
		}
		if force16M {
			edges = []int{1 << 24}
		}
		target := edges[rnd.Intn(len(edges))] + rnd.Intn(3) - 1
		if force16M && forcedEdgeDelta >= -1 && forcedEdgeDelta <= 1 {
			target = 1<<24 + forcedEdgeDelta
		}
		// random split of target over the first n-1 values
		cuts := make([]int, n-2)
		for i := range cuts {
			if rnd.Intn(3) == 0 {
				cuts[i] = rnd.Intn(target + 1)
			} else {
				// keep most values small so that many keys fit
				cuts[i] = rnd.Intn(1 + minInt(target, 16*(n-1)))
			}
		}
		sort.Ints(cuts)
		prev := 0
		for i := 0; i < n-2; i++ {
			sizes[i] = cuts[i] - prev
			prev = cuts[i]
		}
		sizes[n-2] = target - prev
		sizes[n-1] = rnd.Intn(20)
		// move the bulk to a random position so that not always the last-but-one value is the big one
		if n > 2 {
			j := rnd.Intn(n - 1)
			sizes[j], sizes[n-2] = sizes[n-2], sizes[j]
		}
	case "large":
		for i := range sizes {
			sizes[i] = rnd.Intn(32)
		}
		big := 1 + rnd.Intn(3)
		for b := 0; b < big; b++ {
			var s int
			switch rnd.Intn(4) {
			case 0:
				s = 256*1024 + rnd.Intn(3) - 1 // the builder's write buffer size
			case 1:
				s = 64*1024 + rnd.Intn(64*1024)
			default:
				s = 1 + rnd.Intn(maxValue)
			}
			sizes[rnd.Intn(n)] = s
		}
	}
	// cap the total
	total := 0
	for i, s := range sizes {
		if total+s > budget {
			sizes[i] = 0
			if budget-total > 0 && profile != "width-edge" {
				sizes[i] = rnd.Intn(minInt(budget-total, 64) + 1)
			}
		}
		total += sizes[i]
	}
	return sizes, profile
}

func minInt(a, b int) int {
	if a < b {
		return a
	}
	return b
}

// absentProbes returns keys that are not in the (sorted) key set: neighbours, same low bits in
// other chunks, edges of the range and random keys.
func absentProbes(rnd *rand.Rand, keys []uint32, limit int) []uint32 {
	present := func(k uint32) bool {
		i := sort.Search(len(keys), func(i int) bool { return keys[i] >= k })
		return i < len(keys) && keys[i] == k
	}
	var out []uint32
	add := func(k int64) {
		if k < 0 || k > maxU32 {
			return
		}
		if !present(uint32(k)) {
			out = append(out, uint32(k))
		}
	}
	step := 1
	if len(keys) > limit {
		step = len(keys)/limit + 1
	}
	for i := 0; i < len(keys); i += step {
		k := int64(keys[i])
		add(k - 1)
		add(k + 1)
		if i%7 == 0 {
			add(k + 65536)
			add(k - 65536)
			add(k ^ 1<<16)
			add(k ^ 1<<31)
		}
	}
	if len(keys) > 0 {
		add(int64(keys[0]) - 1)
		add(int64(keys[len(keys)-1]) + 1)
		add(int64(keys[len(keys)-1]) - 1)
	}
	for _, k := range specialKeys {
		add(int64(k))
	}
	for i := 0; i < 24; i++ {
		add(int64(randU32(rnd)))
	}
	return out
}
