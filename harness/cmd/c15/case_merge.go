package main

import (
	"fmt"
	"math/rand"
	"os"
	"path/filepath"
	"sort"
	"time"

	"github.com/lindb/lindb/kv/table"
)

var overlapPatterns = []string{"disjoint", "interleaved", "identical", "common-key", "random-overlap",
	"chain", "nested", "extremes", "singletons", "free"}

// genOverlapping returns m ascending key sets with the given overlap pattern.
func genOverlapping(rnd *rand.Rand, m int, pattern string, maxPer int) [][]uint32 {
	sets := make([][]uint32, m)
	per := func() int { return 1 + rnd.Intn(maxPer) }
	switch pattern {
	case "disjoint":
		// consecutive blocks of one ascending universe, handed out in a shuffled order
		uni, _ := genKeys(rnd, m*maxPer, []string{"dense", "sparse", "runs", "mixed"}[rnd.Intn(4)])
		for len(uni) < m {
			uni = uniqSorted(append(uni, randU32(rnd)))
		}
		perm := rnd.Perm(m)
		cuts := []int{0}
		for _, c := range rnd.Perm(len(uni) - 1)[:m-1] {
			cuts = append(cuts, c+1)
		}
		sort.Ints(cuts)
		cuts = append(cuts, len(uni))
		for i := 0; i < m; i++ {
			sets[perm[i]] = append([]uint32(nil), uni[cuts[i]:cuts[i+1]]...)
		}
	case "interleaved":
		uni, _ := genKeys(rnd, m*maxPer, []string{"dense", "sparse", "runs", "boundary"}[rnd.Intn(4)])
		for len(uni) < m {
			uni = uniqSorted(append(uni, randU32(rnd)))
		}
		rr := rnd.Intn(2) == 0
		for i, k := range uni {
			j := i % m
			if !rr && i >= m {
				j = rnd.Intn(m)
			}
			sets[j] = append(sets[j], k)
		}
	case "identical":
		uni, _ := genKeys(rnd, maxPer, "")
		if len(uni) > maxPer*2 {
			uni = uni[:maxPer*2]
		}
		for i := range sets {
			sets[i] = append([]uint32(nil), uni...)
		}
	case "common-key":
		base := genOverlapping(rnd, m, "disjoint", maxPer)
		common := []uint32{randU32(rnd)}
		switch rnd.Intn(4) {
		case 0:
			common = []uint32{0}
		case 1:
			common = []uint32{maxU32}
		case 2:
			common = []uint32{0, maxU32, 65536}
		}
		for i := range base {
			sets[i] = uniqSorted(append(base[i], common...))
		}
	case "random-overlap":
		u := 2 + rnd.Intn(3*maxPer)
		uni, _ := genKeys(rnd, u, []string{"dense", "sparse", "runs", "boundary", "mixed"}[rnd.Intn(5)])
		for i := range sets {
			p := 0.1 + rnd.Float64()*0.9
			for _, k := range uni {
				if rnd.Float64() < p {
					sets[i] = append(sets[i], k)
				}
			}
			if len(sets[i]) == 0 {
				sets[i] = []uint32{uni[rnd.Intn(len(uni))]}
			}
		}
	case "chain":
		s := uint64(1 + rnd.Intn(maxPer))
		stride := uint64(1 + rnd.Intn(3))
		start := uint64(rnd.Int63n(int64(maxU32) - int64(s*stride)*int64(m+2)*2))
		for i := range sets {
			lo := start + uint64(i)*s*stride
			for k := lo; k < lo+s*stride*3/2+1; k += stride {
				sets[i] = append(sets[i], uint32(k))
			}
		}
	case "nested":
		lo, hi := uint64(0), uint64(maxU32)
		for i := range sets {
			n := per()
			ks := []uint32{uint32(lo), uint32(hi)}
			for j := 0; j < n; j++ {
				ks = append(ks, uint32(lo+uint64(rnd.Int63n(int64(hi-lo)+1))))
			}
			sets[i] = uniqSorted(ks)
			span := hi - lo
			lo += span / 8
			hi -= span / 8
		}
	case "extremes":
		for i := range sets {
			ks := []uint32{0, maxU32}
			for j := rnd.Intn(4); j > 0; j-- {
				ks = append(ks, specialKeys[rnd.Intn(len(specialKeys))])
			}
			sets[i] = uniqSorted(ks)
		}
	case "singletons":
		same := rnd.Intn(2) == 0
		k0 := specialKeys[rnd.Intn(len(specialKeys))]
		for i := range sets {
			if same {
				sets[i] = []uint32{k0}
			} else {
				sets[i] = []uint32{randU32(rnd)}
			}
		}
	default: // free: every input its own shape
		for i := range sets {
			sets[i], _ = genKeys(rnd, maxPer, "")
			if len(sets[i]) > 4*maxPer {
				sets[i] = sets[i][:4*maxPer]
			}
		}
	}
	for i := range sets {
		if len(sets[i]) == 0 {
			sets[i] = []uint32{randU32(rnd)}
		}
	}
	return sets
}

// maybeHistory picks a path history for one table in 1 of n builds.
func maybeHistory(rnd *rand.Rand, n int) string {
	if rnd.Intn(n) != 0 {
		return ""
	}
	return pathHistories[rnd.Intn(len(pathHistories))]
}

func maxInt(a, b int) int {
	if a > b {
		return a
	}
	return b
}

// taggedValue makes the value of (input, key) recognisable; some are empty or equal across inputs on purpose.
func taggedValue(rnd *rand.Rand, input int, key uint32, style int) []byte {
	switch style {
	case 1: // equal bytes in every input
		return []byte(fmt.Sprintf("k%d", key))
	case 2:
		if rnd.Intn(3) == 0 {
			return nil
		}
	}
	v := []byte(fmt.Sprintf("i%d.k%d.", input, key))
	return append(v, fillValue(uint64(input), key, rnd.Intn(24))...)
}

func runMergeCase(cc *caseCtx) {
	rnd := cc.rnd
	m := 1 + rnd.Intn(12)
	if cc.idx < 12 {
		m = cc.idx + 1 // every input count 1..12 is hit at least once
	}
	pattern := overlapPatterns[rnd.Intn(len(overlapPatterns))]
	maxPer := []int{3, 20, 120, 600}[rnd.Intn(4)]
	if !cc.quick && rnd.Intn(50) == 0 {
		maxPer = 5000
	}
	sets := genOverlapping(rnd, m, pattern, maxPer)
	style := rnd.Intn(3)
	inputs := make([][]entry, m)
	sizesSig := []int{}
	allKeys := []uint32{}
	for i, ks := range sets {
		for _, k := range ks {
			inputs[i] = append(inputs[i], entry{key: k, value: taggedValue(rnd, i, k, style)})
		}
		sizesSig = append(sizesSig, len(ks))
		allKeys = append(allKeys, ks...)
	}
	withExhausted := rnd.Intn(6) == 0
	nested := m >= 3 && rnd.Intn(5) == 0
	twice := rnd.Intn(8) == 0
	cc.desc = map[string]interface{}{"inputs": m, "overlap": pattern, "input_sizes": joinInts(sizesSig), "value_style": style,
		"with_exhausted_input": withExhausted, "nested": nested, "one_reader_twice": twice, "first_keys_input0": headKeys(sets[0], 10)}
	fmt.Printf("CASE M %d %v\n", cc.idx, cc.desc)

	storeDir := filepath.Join(cc.dir, fmt.Sprintf("m%d", cc.idx))
	if err := os.MkdirAll(filepath.Join(storeDir, famDir), 0o755); err != nil {
		panic(err)
	}
	defer os.RemoveAll(storeDir)
	okBuild := true
	cc.guard("C15/panic-in-builder", func() {
		for i := range inputs {
			_, _, ok := buildTableFile(cc, storeDir, int64(10+i), inputs[i],
				writeOpts{mode: writeModes[rnd.Intn(len(writeModes))], prefix: fmt.Sprintf("merge input %d", i), history: maybeHistory(rnd, 6)})
			okBuild = okBuild && ok
		}
	})
	if !okBuild {
		return
	}
	cache := table.NewCache(storeDir, time.Hour)
	defer cache.Close()
	merged := 0
	ok := cc.guard("C15/panic-in-merged-iterator", func() {
		var its []table.Iterator
		expect := inputs
		for i := range inputs {
			r, err := cache.GetReader(famDir, tableFileName(int64(10+i)))
			if err != nil {
				cc.fail("C15/reader-open-error", "merge input %d %s: %v", i, entriesSummary(inputs[i]), err)
				return
			}
			its = append(its, r.Iterator())
			if twice && i == 0 {
				its = append(its, r.Iterator())
				expect = append(append([][]entry(nil), inputs...), inputs[0])
			}
		}
		if withExhausted {
			r, _ := cache.GetReader(famDir, tableFileName(10))
			ex := r.Iterator()
			for ex.HasNext() {
				_ = ex.Key()
				_ = ex.Value()
			}
			pos := rnd.Intn(len(its) + 1)
			its = append(its[:pos], append([]table.Iterator{ex}, its[pos:]...)...)
		}
		rnd.Shuffle(len(its), func(i, j int) { its[i], its[j] = its[j], its[i] })
		var it table.Iterator
		if nested {
			cut := 1 + rnd.Intn(len(its)-1)
			it = table.NewMergedIterator([]table.Iterator{table.NewMergedIterator(its[:cut]), table.NewMergedIterator(its[cut:])})
		} else {
			it = table.NewMergedIterator(its)
		}
		total := 0
		for _, in := range expect {
			total += len(in)
		}
		got, overflow := drain(it, total)
		merged = len(got)
		if checkMerged(cc, got, overflow, expect, fmt.Sprintf("merge of %d inputs (%s)", m, pattern)) {
			if it.HasNext() {
				cc.fail("C15/merge-yields-too-many", "merged iterator HasNext() again after it was exhausted")
			}
		}
	})
	r := cc.r
	r.eval(1)
	r.count("merges", 1)
	r.count(fmt.Sprintf("merges_with_%02d_inputs", m), 1)
	r.count("merges_overlap_"+pattern, 1)
	r.count("merged_entries", merged)
	if withExhausted {
		r.count("merges_with_exhausted_input", 1)
	}
	if nested {
		r.count("merges_nested", 1)
	}
	// keys that occur in more than one input
	seen := map[uint32]int{}
	for _, k := range allKeys {
		seen[k]++
	}
	dup := 0
	for _, n := range seen {
		if n > 1 {
			dup++
		}
	}
	r.count("merged_keys_in_several_inputs", dup)
	if ok && merged > 0 {
		r.nontrivial("M/" + hashKeyOf(allKeys, sizesSig, pattern, nested, withExhausted, twice))
	}
	r.sample(cc.witness(map[string]interface{}{"merged_entries": merged}))
}

func runEmptyMergeCase(cc *caseCtx) {
	cc.desc = map[string]interface{}{"edge": "merge of zero inputs"}
	fmt.Printf("CASE M0 %d\n", cc.idx)
	cc.guard("C15/panic-in-merged-iterator", func() {
		it := table.NewMergedIterator(nil)
		if it.HasNext() {
			cc.fail("C15/merge-yields-too-many", "merged iterator over no inputs has an entry")
		}
	})
	cc.r.eval(1)
	cc.r.count("merges_with_00_inputs", 1)
}
