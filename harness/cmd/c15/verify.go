package main

import (
	"bytes"
	"errors"
	"fmt"

	"github.com/lindb/lindb/kv/table"
)

type readStats struct {
	getsPresent, getsAbsent, iterated int
	failed                            bool
}

// verifyReader checks a real table reader against the entries that were added to its table:
// every key returns its exact bytes, absent keys are absent, the iterator walks the entries in ascending order.
func verifyReader(cc *caseCtx, r table.Reader, entries []entry, prefix string) readStats {
	var st readStats
	keys := make([]uint32, len(entries))
	for i, e := range entries {
		keys[i] = e.key
	}
	// lookups of present keys (in a shuffled order for small tables: Get must be stateless)
	order := make([]int, len(entries))
	for i := range order {
		order[i] = i
	}
	if len(entries) <= 5000 {
		cc.rnd.Shuffle(len(order), func(i, j int) { order[i], order[j] = order[j], order[i] })
	}
	for _, i := range order {
		e := entries[i]
		v, err := r.Get(e.key)
		st.getsPresent++
		if err != nil {
			if errors.Is(err, table.ErrKeyNotExist) {
				cc.fail("C15/get-present-key-reported-absent", "%s: Get(%d) (entry %d of %d, %d bytes) -> ErrKeyNotExist", prefix, e.key, i, len(entries), len(e.value))
			} else {
				cc.fail("C15/get-present-key-error", "%s: Get(%d) (entry %d of %d, %d bytes) -> %v", prefix, e.key, i, len(entries), len(e.value), err)
			}
			st.failed = true
			continue
		}
		if !bytes.Equal(v, e.value) {
			cc.fail("C15/get-wrong-bytes", "%s: Get(%d) (entry %d of %d) returned %d bytes %s, added %d bytes %s",
				prefix, e.key, i, len(entries), len(v), shortBytes(v), len(e.value), shortBytes(e.value))
			st.failed = true
		}
	}
	// absent keys
	for _, k := range absentProbes(cc.rnd, keys, 1500) {
		v, err := r.Get(k)
		st.getsAbsent++
		if err == nil {
			cc.fail("C15/get-absent-key-reported-present", "%s: Get(%d) of a key never added returned %d bytes %s", prefix, k, len(v), shortBytes(v))
			st.failed = true
		} else if !errors.Is(err, table.ErrKeyNotExist) {
			cc.fail("C15/get-absent-key-other-error", "%s: Get(%d) of a key never added -> %v", prefix, k, err)
			st.failed = true
		} else if v != nil {
			cc.fail("C15/get-absent-key-returns-bytes", "%s: Get(%d) -> ErrKeyNotExist together with %d bytes", prefix, k, len(v))
			st.failed = true
		}
	}
	// iteration, two iterators of the same reader one step apart (they must not share state)
	it := r.Iterator()
	it2 := r.Iterator()
	step := func(it table.Iterator, i int, name string) bool {
		if !it.HasNext() {
			cc.fail("C15/iterator-ends-early", "%s: %s stopped after %d of %d entries", prefix, name, i, len(entries))
			st.failed = true
			return false
		}
		k := it.Key()
		v := it.Value()
		st.iterated++
		if k != entries[i].key {
			cls := "C15/iterator-wrong-key"
			if i > 0 && k <= entries[i-1].key {
				cls = "C15/iterator-not-ascending"
			}
			cc.fail(cls, "%s: %s entry %d: key %d, want %d (previous %v)", prefix, name, i, k, entries[i].key, prevKey(entries, i))
			st.failed = true
			return false
		}
		if !bytes.Equal(v, entries[i].value) {
			cc.fail("C15/iterator-wrong-bytes", "%s: %s entry %d key %d: %d bytes %s, added %d bytes %s",
				prefix, name, i, k, len(v), shortBytes(v), len(entries[i].value), shortBytes(entries[i].value))
			st.failed = true
			return false
		}
		return true
	}
	ok := true
	for i := range entries {
		if !step(it, i, "iterator") {
			ok = false
			break
		}
		if i > 0 && !step(it2, i-1, "second iterator") {
			ok = false
			break
		}
	}
	if ok {
		if it.HasNext() || it.HasNext() {
			cc.fail("C15/iterator-yields-extra-entry", "%s: iterator still HasNext() after all %d entries", prefix, len(entries))
			st.failed = true
		}
		if len(entries) > 0 && step(it2, len(entries)-1, "second iterator") && it2.HasNext() {
			cc.fail("C15/iterator-yields-extra-entry", "%s: second iterator still HasNext() after all %d entries", prefix, len(entries))
			st.failed = true
		}
	}
	return st
}

// drain reads an iterator with the protocol lindb's own callers use (HasNext, Key, Value).
func drain(it table.Iterator, limit int) (out []entry, overflow bool) {
	for it.HasNext() {
		k := it.Key()
		v := it.Value()
		out = append(out, entry{key: k, value: append([]byte(nil), v...)})
		if len(out) > limit {
			return out, true
		}
	}
	return out, false
}

// checkMerged compares what a merged iterator yielded with the inputs: ordered by key and, key by key,
// the same multiset of values (every entry of every input exactly once).
func checkMerged(cc *caseCtx, got []entry, overflow bool, inputs [][]entry, prefix string) bool {
	total := 0
	want := map[uint32]map[string]int{}
	for _, in := range inputs {
		total += len(in)
		for _, e := range in {
			m := want[e.key]
			if m == nil {
				m = map[string]int{}
				want[e.key] = m
			}
			m[string(e.value)]++
		}
	}
	if overflow {
		cc.fail("C15/merge-yields-too-many", "%s: merged iterator yielded more than %d entries for inputs with %d entries", prefix, len(got)-1, total)
		return false
	}
	for i := 1; i < len(got); i++ {
		if got[i].key < got[i-1].key {
			cc.fail("C15/merge-not-ordered", "%s: merged entry %d has key %d after key %d", prefix, i, got[i].key, got[i-1].key)
			return false
		}
	}
	seen := map[uint32]map[string]int{}
	for i, e := range got {
		m := seen[e.key]
		if m == nil {
			m = map[string]int{}
			seen[e.key] = m
		}
		m[string(e.value)]++
		w := want[e.key]
		if w == nil {
			cc.fail("C15/merge-yields-foreign-key", "%s: merged entry %d has key %d that is in no input", prefix, i, e.key)
			return false
		}
		if m[string(e.value)] > w[string(e.value)] {
			if w[string(e.value)] == 0 {
				cc.fail("C15/merge-wrong-value", "%s: merged entry %d key %d carries %s which no input holds for that key", prefix, i, e.key, shortBytes(e.value))
			} else {
				cc.fail("C15/merge-duplicates-entry", "%s: merged entry %d key %d value %s yielded %d times, inputs hold it %d times",
					prefix, i, e.key, shortBytes(e.value), m[string(e.value)], w[string(e.value)])
			}
			return false
		}
	}
	if len(got) != total {
		// find a dropped one
		for k, w := range want {
			for v, n := range w {
				if seen[k][v] < n {
					cc.fail("C15/merge-drops-entry", "%s: merged iteration yielded %d of %d entries; key %d value %s seen %d times, inputs hold it %d times",
						prefix, len(got), total, k, shortBytes([]byte(v)), seen[k][v], n)
					return false
				}
			}
		}
		cc.fail("C15/merge-drops-entry", "%s: merged iteration yielded %d of %d entries", prefix, len(got), total)
		return false
	}
	return true
}

func entriesSummary(es []entry) string {
	if len(es) == 0 {
		return "[]"
	}
	return fmt.Sprintf("[%d keys %d..%d]", len(es), es[0].key, es[len(es)-1].key)
}
