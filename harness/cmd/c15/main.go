// Engine of property C15: table files and merged iteration return exactly what was added.
//
// It drives the real kv/table builder and reader, table.NewMergedIterator, kv/version range lookups
// and the same through a real kv.Store, under generated key sets / value sizes / write mixes, and
// compares with a map + sorted slice. Cases run in child processes (a fault on a mapped page or a
// panic in a background goroutine must not take the evidence with it).
package main

import (
	"encoding/json"
	"fmt"
	"os"
	"os/exec"
	"path/filepath"
	"runtime"
	"sort"
	"strconv"
	"strings"
	"sync"
	"time"

	"github.com/lindb/lindb/verif/internal/core"
	"github.com/lindb/lindb/verif/internal/racefilter"
)

type batchTime struct {
	Batch   string  `json:"batch"`
	Seconds float64 `json:"seconds"`
}

type batch struct {
	kind     string
	from, to int
	asan     bool
	race     bool // kind CR: the child is the -race build of the engine
}

func main() {
	if len(os.Args) > 2 && os.Args[2] == "child" {
		childMain(os.Args[3:])
		return
	}
	c := core.New("C15", "exploration")
	c.SetRule("cases are drawn from VERIF_SEED by case index: T = one table (key-set shape x value-size profile x write mode " +
		"add/stream/mixed x injected out-of-order keys) built with table.NewStoreBuilder and read back through table.NewCache readers; " +
		"M = 1-12 real table iterators with a chosen overlap pattern through table.NewMergedIterator; " +
		"S = a real kv.Store (store manager, flusher, snapshot, optional compaction and reopen) with 1-12 overlapping flushes; " +
		"SL = flushes into file numbers re-issued after a reopen over leftovers of flushes that never committed; a quarter of the T tables (a sixth of the M/VR tables) " +
		"are built at a path where a longer earlier output (complete / abandoned / torn) already lies; " +
		"V/VR = version range lookups on file metas alone and on real files in arbitrary levels, through the manifest and back; " +
		"C = 1-4 table files (offset widths 1-4 bytes by case index, values of differing sizes) committed to a family version, every reader opened ONCE through the table cache and checked sequentially, " +
		"then 8-16 goroutines each doing a fixed number of operations on those reader objects (Get of present and absent keys, new iterators, merged iterators, Snapshot.Load on one shared snapshot, " +
		"Load/FindReaders/GetReader on snapshots of their own); CR = the same under the race detector. " +
		"A case is non-trivial when present lookups, absent lookups and an iteration (T), >=1 merged entry (M), present and absent probes (S, VR) " +
		"or >=2 file ranges (V) were really checked, or (C) present and absent lookups, a full iteration, a Load and at least one lookup begun while another goroutine was inside the same reader; distinct = distinct hash of key sets, sizes and case parameters")
	c.Assume("the harness map/sorted-slice model and its value generator are right; value bytes are a deterministic function of (salt,key,size)")
	c.Assume("callers keep the StreamWriter protocol Prepare-Write*-Commit and do not interleave Add between Prepare and Commit (lindb's own callers do)")
	c.Assume("a rejected (not ascending) key is one that is ignored: lindb's builder logs it and returns a nil error by design; the oracle requires that nothing else changes, not that an error comes back")
	c.Assume("tables stay below 4 GiB (the format stores 32-bit offsets)")
	c.Assume("a table reader is immutable after it was opened and is shared by every snapshot of its family (table cache), so any number of goroutines may call Get / Iterator on it and Load on one snapshot at the same time; " +
		"FindReaders/GetReader of ONE snapshot object are not called concurrently (they record the readers to release) - every goroutine takes its own snapshot for them")
	c.Assume("race detector: a report decides only when the top lindb frame of one of the two accesses lies in kv/table, kv/version or pkg/encoding; the plain oracle does not depend on it")
	c.Assume("lindb's convention 'empty value = nothing to store': kv.Flusher.Commit abandons a flush whose values are ALL empty (modelled as nothing flushed, " +
		"the version must not change), and a compaction may drop a key whose merged value is empty (compactFlusher.Add skips it; the stream writer path keeps it as empty). " +
		"Empty values inside a flush that also has value bytes are stored and checked exactly; the table builder/reader themselves are checked with all-empty tables in the T cases")

	nT := c.Pick(2000, 200_000)
	nM := c.Pick(500, 50_000)
	nS := c.Pick(168, 8_000)
	nV := c.Pick(300, 20_000)
	nVR := c.Pick(160, 6_000)
	nC := c.Pick(36, 1_200)
	nCR := c.Pick(6, 60)
	raceBin := os.Getenv("VERIF_RACE_BIN")
	if raceBin == "" {
		c.Inconclusive("no race variant of the engine available (VERIF_RACE_BIN unset): the concurrent-reader phase cannot run under the race detector")
		nCR = 0
	}
	var batches []batch
	split := func(kind string, n, per int) {
		for from := 0; from < n; from += per {
			to := from + per
			if to > n {
				to = n
			}
			batches = append(batches, batch{kind: kind, from: from, to: to})
		}
	}
	// concurrent-reader cases use several cores each and store cases are the slowest per case: start them first
	split("CR", nCR, c.Pick(2, 6))
	split("C", nC, c.Pick(6, 40))
	split("S", nS, c.Pick(12, 200))
	split("SR", c.Pick(6, 60), c.Pick(6, 20))
	split("SL", c.Pick(32, 1200), c.Pick(8, 100))
	split("T", nT, c.Pick(80, 500))
	split("M", nM, c.Pick(50, 1250))
	split("VR", nVR, c.Pick(20, 300))
	split("V", nV, c.Pick(150, 1000))

	scratch := c.Scratch()
	asanBin := ""
	if !c.Quick() && os.Getenv("VERIF_C15_NOASAN") == "" {
		asanBin = buildASan(c, scratch)
		if asanBin != "" {
			perKind := map[string]int{}
			for i := range batches {
				perKind[batches[i].kind]++
				if perKind[batches[i].kind]%8 == 1 && batches[i].kind != "CR" {
					batches[i].asan = true
				}
			}
		}
	}
	timeout := time.Duration(c.Pick(170, 75*60)) * time.Second
	workers := runtime.NumCPU()
	if workers > 16 {
		workers = 16
	}
	var mu sync.Mutex
	var durations []batchTime
	samplesByKind := map[string]bool{}
	core.Parallel(len(batches), workers, func(i int) {
		b := batches[i]
		dir := filepath.Join(scratch, fmt.Sprintf("b%03d-%s", i, b.kind))
		_ = os.MkdirAll(dir, 0o755)
		resFile := filepath.Join(dir, "result.json")
		logFile := filepath.Join(dir, "log.txt")
		bin := ""
		if b.asan {
			bin = asanBin
		}
		env := []string{"LOG_LEVEL=fatal", "GOMAXPROCS=2", "GOTRACEBACK=all", "ASAN_OPTIONS=detect_leaks=0"}
		if b.kind == "C" || b.kind == "CR" {
			// the goroutines of a concurrent-reader case must really run side by side
			env[1] = "GOMAXPROCS=8"
		}
		if b.kind == "CR" {
			bin = raceBin
			env = append(env, "GORACE=halt_on_error=0 exitcode=0 log_path="+filepath.Join(dir, "race"))
		}
		t0 := time.Now()
		res := core.RunChild(bin, []string{c.Tier, "child", b.kind, strconv.Itoa(b.from), strconv.Itoa(b.to), dir, resFile},
			env, timeout, logFile)
		raceOut := ""
		if b.kind == "CR" {
			raceOut = racefilter.ReadLogs(filepath.Join(dir, "race"), logFile)
		}
		var r rec
		data, err := os.ReadFile(resFile)
		if err == nil {
			err = json.Unmarshal(data, &r)
		}
		mu.Lock()
		defer mu.Unlock()
		if b.kind == "CR" {
			reports := racefilter.Parse(raceOut)
			c.Count("race_reports_total", len(reports))
			c.Count("race_batches_run", 1)
			for _, rep := range racefilter.Attributed(reports, []string{"kv/table/", "kv/version/", "pkg/encoding/"}) {
				c.Violation("C15/data-race-between-concurrent-readers/"+strings.Join(rep.TopFrames, "+"),
					fmt.Sprintf("CR[%d,%d): the race detector reports a data race between goroutines that only read shared table readers / snapshots; top lindb frames %v",
						b.from, b.to, rep.TopFrames), map[string]interface{}{"report": rep.Text, "last_case": lastCaseLine(logFile)})
			}
		}
		durations = append(durations, batchTime{fmt.Sprintf("%s[%d,%d) asan=%v", b.kind, b.from, b.to, b.asan), time.Since(t0).Seconds()})
		if err != nil || !r.Done {
			lastCase := lastCaseLine(logFile)
			tail := res.Output
			if len(tail) > 12000 {
				tail = tail[len(tail)-12000:]
			}
			head := headOfCrash(logFile)
			switch {
			case res.TimedOut:
				c.Inconclusive("child of batch %s[%d,%d) hit the %s watchdog; last case: %s", b.kind, b.from, b.to, timeout, lastCase)
			case b.kind == "SR" && strings.Contains(head, "compactFlusher"):
				c.Violation("C15/compaction-streamwriter-stale-after-output-rollover", fmt.Sprintf("child died in the compaction goroutine (exit %d): %s; last case: %s",
					res.ExitCode, oneLine(head, 300), lastCase), map[string]interface{}{"last_case": lastCase, "output": head})
			case strings.Contains(head+tail, "AddressSanitizer"):
				c.Violation("C15/asan-report-in-"+b.kind, fmt.Sprintf("AddressSanitizer stopped the child of batch %s[%d,%d); last case: %s", b.kind, b.from, b.to, lastCase),
					map[string]interface{}{"last_case": lastCase, "output": head, "tail": tail})
			case strings.Contains(head, "github.com/lindb/lindb/kv") || strings.Contains(head, "github.com/lindb/lindb/pkg/encoding") ||
				strings.Contains(head, "github.com/lindb/roaring"):
				c.Violation("C15/child-process-died-in-"+b.kind, fmt.Sprintf("child of batch %s[%d,%d) died (exit %d) with lindb frames on the stack; last case: %s",
					b.kind, b.from, b.to, res.ExitCode, lastCase), map[string]interface{}{"last_case": lastCase, "output": head})
			default:
				c.Inconclusive("child of batch %s[%d,%d) ended without a result (exit %d, err %v); last case: %s; output: %s",
					b.kind, b.from, b.to, res.ExitCode, res.Err, lastCase, oneLine(head, 600))
			}
			if err == nil {
				// partial results are still observations
				mergeRec(c, &r, b, samplesByKind)
			}
			return
		}
		mergeRec(c, &r, b, samplesByKind)
		if b.asan {
			c.Count("batches_run_under_asan_checkptr", 1)
			c.Count("cases_run_under_asan_checkptr", r.Cases)
		}
		if os.Getenv("VERIF_KEEP_SCRATCH") == "" {
			_ = os.RemoveAll(dir)
		}
	})

	// did the run observe what the oracles rely on?
	need := map[string]int64{
		"tables_built": int64(nT) * 9 / 10, "merges": int64(nM) * 9 / 10, "stores": int64(nS) * 9 / 10,
		"version_meta_cases": int64(nV) * 9 / 10, "version_real_cases": int64(nVR) * 9 / 10,
		"rejected_adds_injected": 50, "rejected_stream_writes_injected": 50, "stream_commits": 1000, "adds": 1000,
		"gets_absent": 1000, "store_probe_keys_in_several_files": 100, "merged_keys_in_several_inputs": 100,
		"tables_with_key_0": 5, "tables_with_key_max_uint32": 5, "tables_last_offset_at_width_switch": 10,
		"tables_offset_width_w1": 5, "tables_offset_width_w2": 5, "tables_offset_width_w3": 5, "tables_offset_width_w4": 1,
		"tables_with_value_ge_256KiB": 3, "compactions": 5, "stores_reopened": 5, "manifest_recoveries": 20,
		"tables_shape_full-container": 1, "tables_shape_container-threshold": 3,
		"tables_built_over_longer_predecessor_complete": 20, "tables_built_over_longer_predecessor_abandoned": 20,
		"tables_built_over_longer_predecessor_partial": 20, "tables_built_over_longer_predecessor_slightly-longer": 20,
		"flushes_over_longer_leftover": 5,
		// concurrent readers of shared reader objects
		"conc_cases_run": int64(nC) * 9 / 10, "conc_cases_with_several_files": int64(nC) / 4,
		"conc_tables_offset_width_w1": 3, "conc_tables_offset_width_w2": 3, "conc_tables_offset_width_w3": 3, "conc_tables_offset_width_w4": 1,
		"conc_gets_present": int64(nC) * 10000, "conc_gets_absent": int64(nC) * 2000,
		"conc_gets_begun_while_another_goroutine_was_inside_the_same_reader": int64(nC) * 2000,
		"conc_iterations_full": int64(nC) * 8, "conc_iterations_begun_while_another_goroutine_was_inside_the_same_reader": int64(nC) * 20,
		"conc_snapshot_loads_on_the_shared_snapshot": int64(nC) * 2000, "conc_findreaders_lookups": int64(nC) * 1000,
		"conc_merged_iterations": int64(nC) * 4, "conc_snapshot_readers_identical_to_cached_reader": int64(nC) * 100,
	}
	if nCR > 0 {
		need["race_conc_cases_run"] = int64(nCR) * 9 / 10
		need["race_batches_run"] = 1
		need["race_conc_gets_begun_while_another_goroutine_was_inside_the_same_reader"] = int64(nCR) * 200
		need["race_conc_snapshot_loads_on_the_shared_snapshot"] = int64(nCR) * 200
	}
	if !c.Quick() {
		need["tables_with_value_ge_1MiB"] = 20
	}
	for i := 1; i <= 12; i++ {
		need[fmt.Sprintf("merges_with_%02d_inputs", i)] = 1
	}
	if c.Violations() == 0 {
		var short []string
		for k, v := range need {
			if c.Counter(k) < v {
				short = append(short, fmt.Sprintf("%s=%d(<%d)", k, c.Counter(k), v))
			}
		}
		sort.Strings(short)
		if len(short) > 0 {
			c.Inconclusive("too few observations: %s", strings.Join(short, " "))
		}
	}
	sort.Slice(durations, func(i, j int) bool { return durations[i].Seconds > durations[j].Seconds })
	if len(durations) > 5 {
		durations = durations[:5]
	}
	c.Set("slowest_batches", durations)
	c.Set("batches", len(batches))
	c.Set("asan_variant", asanBin != "")
	c.Set("race_variant", raceBin != "")
	c.Finish()
}

func mergeRec(c *core.Ctx, r *rec, b batch, samplesByKind map[string]bool) {
	c.Eval(int(r.Evals))
	for k, v := range r.Counters {
		c.Count(k, int(v))
	}
	for _, k := range r.Nontrivial {
		c.Nontrivial(k)
	}
	if !samplesByKind[b.kind] && len(r.Samples) > 0 {
		samplesByKind[b.kind] = true
		c.Sample(r.Samples[0])
	}
	for _, v := range r.Violations {
		for i := 0; i < v.Count; i++ {
			c.Violation(v.Class, v.Msg, v.Witness)
		}
	}
}

func oneLine(s string, n int) string {
	s = strings.ReplaceAll(s, "\n", " | ")
	if len(s) > n {
		s = s[:n] + "..."
	}
	return s
}

func lastCaseLine(logFile string) string {
	data, err := os.ReadFile(logFile)
	if err != nil {
		return "(no log)"
	}
	lines := strings.Split(string(data), "\n")
	for i := len(lines) - 1; i >= 0; i-- {
		if strings.HasPrefix(lines[i], "CASE ") {
			return oneLine(lines[i], 700)
		}
	}
	return "(none logged)"
}

// headOfCrash returns the log from the first line that looks like the start of a crash report.
func headOfCrash(logFile string) string {
	data, err := os.ReadFile(logFile)
	if err != nil {
		return ""
	}
	s := string(data)
	idx := -1
	for _, marker := range []string{"panic:", "fatal error:", "unexpected fault address", "SIGSEGV", "SIGBUS", "AddressSanitizer", "HARNESS-ERROR"} {
		if i := strings.Index(s, marker); i >= 0 && (idx < 0 || i < idx) {
			idx = i
		}
	}
	if idx < 0 {
		if len(s) > 4000 {
			return s[len(s)-4000:]
		}
		return s
	}
	s = s[idx:]
	if len(s) > 12000 {
		s = s[:12000]
	}
	return s
}

// buildASan builds this engine with -asan and checkptr instrumentation; "" if that is not possible here.
func buildASan(c *core.Ctx, scratch string) string {
	_, file, _, ok := runtime.Caller(0)
	if !ok {
		c.Count("asan_build_unavailable", 1)
		return ""
	}
	harness := filepath.Dir(filepath.Dir(filepath.Dir(file)))
	if _, err := os.Stat(filepath.Join(harness, "go.mod")); err != nil {
		c.Count("asan_build_unavailable", 1)
		return ""
	}
	out := filepath.Join(scratch, "c15-asan")
	args := []string{"build", "-asan", "-gcflags=all=-d=checkptr", "-tags", "verif", "-o", out}
	if mf := filepath.Join(c.Root, "go.mod"); c.Root != filepath.Dir(harness) {
		if _, err := os.Stat(mf); err == nil {
			args = append(args, "-modfile="+mf)
		}
	}
	args = append(args, "./cmd/c15")
	cmd := exec.Command("go", args...)
	cmd.Dir = harness
	cmd.Env = append(os.Environ(), "GOFLAGS=-mod=mod", "GOPROXY=off", "GOSUMDB=off", "GOTOOLCHAIN=local", "CGO_ENABLED=1")
	if outp, err := cmd.CombinedOutput(); err != nil {
		c.Count("asan_build_unavailable", 1)
		c.Set("asan_build_error", oneLine(string(outp), 500))
		return ""
	}
	return out
}

// ---------------------------------------------------------------------------

func childMain(args []string) {
	if len(args) != 5 {
		fmt.Println("HARNESS-ERROR usage: c15 <tier> child <kind> <from> <to> <dir> <result>")
		os.Exit(3)
	}
	kind := args[0]
	from, _ := strconv.Atoi(args[1])
	to, _ := strconv.Atoi(args[2])
	dir, resFile := args[3], args[4]
	c := core.New("C15", "exploration")
	r := newRec()
	for idx := from; idx < to; idx++ {
		cc := &caseCtx{r: r, rnd: c.Rand(fmt.Sprintf("%s/%d", kind, idx)), dir: dir, kind: kind, idx: idx, quick: c.Quick()}
		switch kind {
		case "T":
			if idx == 0 {
				ce := *cc
				ce.kind = "E"
				runBuilderEdgeCase(&ce)
			}
			runTableCase(cc)
		case "M":
			if idx == 0 {
				ce := *cc
				ce.kind = "M0"
				runEmptyMergeCase(&ce)
			}
			runMergeCase(cc)
		case "SR":
			runStoreCase(cc)
		case "SL":
			runStoreLeftoverCase(cc)
		case "S":
			if idx == 0 {
				ce := *cc
				ce.kind = "SE"
				runEmptyFlushCase(&ce)
			}
			runStoreCase(cc)
		case "V":
			runVersionMetaCase(cc)
		case "VR":
			runVersionRealCase(cc)
		case "C":
			runConcCase(cc, false)
		case "CR":
			runConcCase(cc, true)
		default:
			fmt.Println("HARNESS-ERROR unknown kind", kind)
			os.Exit(3)
		}
		r.Cases++
		if r.Cases%50 == 0 {
			_ = r.write(resFile) // partial results survive a crash
		}
	}
	r.Done = true
	if err := r.write(resFile); err != nil {
		fmt.Println("HARNESS-ERROR cannot write result:", err)
		os.Exit(3)
	}
}
