package main

import (
	"fmt"
	"hash/crc32"

	"github.com/lindb/lindb/kv/table"
)

// sink is the write side shared by table.Builder and kv.Flusher.
type sink interface {
	Add(key uint32, value []byte) error
	StreamWriter() (table.StreamWriter, error)
}

type builderSink struct{ b table.Builder }

func (s builderSink) Add(key uint32, value []byte) error { return s.b.Add(key, value) }
func (s builderSink) StreamWriter() (table.StreamWriter, error) {
	return s.b.StreamWriter(), nil
}

// inspector is what a table.Builder reports while it is being filled.
type inspector interface {
	MinKey() uint32
	MaxKey() uint32
	Count() uint64
	Size() uint32
}

type entry struct {
	key   uint32
	value []byte
}

var writeModes = []string{"add", "stream-shared", "stream-fresh", "mixed"}

type writeOpts struct {
	mode   string
	inject bool // inject out-of-order / duplicate keys
	prefix string
	// history: what already lies at the table's path when the builder is created ("" = nothing):
	// a longer complete table, a longer abandoned build, longer raw bytes, or raw bytes a few bytes longer
	history string
}

var pathHistories = []string{"complete", "abandoned", "partial", "slightly-longer"}

type writeStats struct {
	adds, streams, chunks, injectedAdd, injectedStream, doubleCommits int
	rejectErr, rejectNil                                              int
	failed                                                            bool
}

// writeEntries pushes the ascending entries into the sink through Add and/or the stream writer and,
// if asked, injects keys that are not greater than the last key. With an inspector (a table.Builder)
// it checks count/min/max/size after every step.
func writeEntries(cc *caseCtx, s sink, insp inspector, entries []entry, o writeOpts) writeStats {
	var st writeStats
	rnd := cc.rnd
	var shared table.StreamWriter
	total := 0
	check := func(i int, what string) {
		if insp == nil {
			return
		}
		wantCount := uint64(i + 1)
		if insp.Count() != wantCount {
			cc.fail("C15/builder-count-wrong", "%s: after %d accepted keys (%s) Count()=%d", o.prefix, wantCount, what, insp.Count())
			st.failed = true
		}
		if i >= 0 {
			if insp.MinKey() != entries[0].key {
				cc.fail("C15/builder-minkey-wrong", "%s: after %s MinKey()=%d want %d", o.prefix, what, insp.MinKey(), entries[0].key)
				st.failed = true
			}
			if insp.MaxKey() != entries[i].key {
				cc.fail("C15/builder-maxkey-wrong", "%s: after %s MaxKey()=%d want %d", o.prefix, what, insp.MaxKey(), entries[i].key)
				st.failed = true
			}
		}
		if insp.Size() != uint32(total) {
			cc.fail("C15/builder-size-wrong", "%s: after %s Size()=%d want %d", o.prefix, what, insp.Size(), total)
			st.failed = true
		}
	}
	streamWrite := func(sw table.StreamWriter, key uint32, value []byte, bad bool) bool {
		sw.Prepare(key)
		if sw.Size() != 0 {
			cc.fail("C15/streamwriter-size-not-reset", "%s: Size()=%d right after Prepare(%d)", o.prefix, sw.Size(), key)
		}
		rest := value
		nchunks := 0
		if len(value) > 0 || rnd.Intn(2) == 0 {
			pieces := 1 + rnd.Intn(4)
			for p := 0; p < pieces; p++ {
				var chunk []byte
				if p == pieces-1 {
					chunk = rest
				} else {
					cut := 0
					if len(rest) > 0 {
						cut = rnd.Intn(len(rest) + 1)
					}
					chunk = rest[:cut]
				}
				rest = rest[len(chunk):]
				n, err := sw.Write(chunk)
				nchunks++
				if err != nil {
					cc.fail("C15/streamwriter-write-error", "%s: Write of %d bytes for key %d: %v", o.prefix, len(chunk), key, err)
					return false
				}
				if !bad && n != len(chunk) {
					cc.fail("C15/streamwriter-short-write", "%s: Write returned %d for %d bytes (key %d)", o.prefix, n, len(chunk), key)
					return false
				}
			}
		}
		st.chunks += nchunks
		if !bad {
			if int(sw.Size()) != len(value) {
				cc.fail("C15/streamwriter-size-wrong", "%s: key %d: Size()=%d after writing %d bytes", o.prefix, key, sw.Size(), len(value))
			}
			if sw.CRC32CheckSum() != crc32.ChecksumIEEE(value) {
				cc.fail("C15/streamwriter-crc-wrong", "%s: key %d: CRC32CheckSum()=%08x want %08x (%d bytes)", o.prefix, key, sw.CRC32CheckSum(), crc32.ChecksumIEEE(value), len(value))
			}
		}
		if err := sw.Commit(); err != nil {
			cc.fail("C15/streamwriter-commit-error", "%s: Commit of key %d: %v", o.prefix, key, err)
			return false
		}
		return true
	}
	getSW := func(fresh bool) (table.StreamWriter, bool) {
		if !fresh && shared != nil {
			return shared, true
		}
		sw, err := s.StreamWriter()
		if err != nil || sw == nil {
			cc.fail("C15/streamwriter-unavailable", "%s: StreamWriter(): %v", o.prefix, err)
			st.failed = true
			return nil, false
		}
		if !fresh {
			shared = sw
		}
		return sw, true
	}
	for i, e := range entries {
		useStream, fresh := false, false
		switch o.mode {
		case "stream-shared":
			useStream = true
		case "stream-fresh":
			useStream, fresh = true, true
		case "mixed":
			useStream = rnd.Intn(2) == 0
			fresh = rnd.Intn(3) == 0
		}
		if useStream {
			sw, ok := getSW(fresh)
			if !ok {
				return st
			}
			if !streamWrite(sw, e.key, e.value, false) {
				st.failed = true
				return st
			}
			st.streams++
			total += len(e.value)
			check(i, fmt.Sprintf("stream write of key %d (%d bytes)", e.key, len(e.value)))
			if rnd.Intn(10) == 0 {
				// a second Commit without Prepare must not add the entry again
				_ = sw.Commit()
				st.doubleCommits++
				check(i, fmt.Sprintf("second Commit of key %d", e.key))
			}
		} else {
			if err := s.Add(e.key, e.value); err != nil {
				cc.fail("C15/add-error-on-ascending-key", "%s: Add(%d, %d bytes) after key %v: %v", o.prefix, e.key, len(e.value), prevKey(entries, i), err)
				st.failed = true
				return st
			}
			st.adds++
			total += len(e.value)
			check(i, fmt.Sprintf("Add of key %d (%d bytes)", e.key, len(e.value)))
		}
		if o.inject && rnd.Intn(4) == 0 {
			for n := 1 + rnd.Intn(2); n > 0; n-- {
				var bad uint32
				switch rnd.Intn(5) {
				case 0:
					bad = e.key // duplicate of the last key
				case 1:
					bad = entries[0].key
				case 2:
					bad = entries[rnd.Intn(i+1)].key
				case 3:
					if e.key > 0 {
						bad = e.key - 1
					}
				default:
					if e.key > 0 {
						bad = uint32(rnd.Int63n(int64(e.key) + 1))
					}
				}
				val := fillValue(0xBAD, bad, 1+rnd.Intn(40))
				if rnd.Intn(2) == 0 {
					err := s.Add(bad, val)
					if err != nil {
						st.rejectErr++
					} else {
						st.rejectNil++
					}
					st.injectedAdd++
					check(i, fmt.Sprintf("rejected Add(%d) after key %d", bad, e.key))
				} else {
					sw, ok := getSW(rnd.Intn(2) == 0)
					if !ok {
						return st
					}
					streamWrite(sw, bad, val, true)
					st.injectedStream++
					check(i, fmt.Sprintf("rejected stream write of key %d after key %d", bad, e.key))
				}
			}
		}
	}
	return st
}

func prevKey(entries []entry, i int) interface{} {
	if i == 0 {
		return "(none)"
	}
	return entries[i-1].key
}

func makeEntries(salt uint64, keys []uint32, sizes []int) []entry {
	es := make([]entry, len(keys))
	for i, k := range keys {
		es[i] = entry{key: k, value: fillValue(salt, k, sizes[i])}
	}
	return es
}
