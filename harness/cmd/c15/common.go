package main

import (
	"encoding/binary"
	"encoding/json"
	"fmt"
	"hash/fnv"
	"math/rand"
	"os"
	"runtime/debug"
	"sort"
	"strings"
	"sync"
)

// vio is one violation observed by a child.
type vio struct {
	Class   string      `json:"class"`
	Msg     string      `json:"msg"`
	Witness interface{} `json:"witness,omitempty"`
	Count   int         `json:"count"`
}

// rec is what one child batch observed; it is written as JSON for the parent.
type rec struct {
	mu         sync.Mutex
	Evals      int64            `json:"evals"`
	Counters   map[string]int64 `json:"counters"`
	Nontrivial []string         `json:"nontrivial"`
	Samples    []interface{}    `json:"samples"`
	Violations []*vio           `json:"violations"`
	Cases      int              `json:"cases"`
	Done       bool             `json:"done"`

	nt map[string]struct{}
	vi map[string]*vio
}

func newRec() *rec {
	return &rec{Counters: map[string]int64{}, nt: map[string]struct{}{}, vi: map[string]*vio{}}
}

func (r *rec) count(name string, n int) {
	r.mu.Lock()
	r.Counters[name] += int64(n)
	r.mu.Unlock()
}

func (r *rec) eval(n int) { r.mu.Lock(); r.Evals += int64(n); r.mu.Unlock() }

func (r *rec) nontrivial(key string) {
	r.mu.Lock()
	if _, ok := r.nt[key]; !ok {
		r.nt[key] = struct{}{}
		r.Nontrivial = append(r.Nontrivial, key)
	}
	r.mu.Unlock()
}

func (r *rec) sample(v interface{}) {
	r.mu.Lock()
	if len(r.Samples) < 2 {
		r.Samples = append(r.Samples, v)
	}
	r.mu.Unlock()
}

func (r *rec) viol(class, msg string, witness interface{}) {
	r.mu.Lock()
	defer r.mu.Unlock()
	if v, ok := r.vi[class]; ok {
		v.Count++
		return
	}
	v := &vio{Class: class, Msg: msg, Witness: witness, Count: 1}
	r.vi[class] = v
	r.Violations = append(r.Violations, v)
}

func (r *rec) write(path string) error {
	r.mu.Lock()
	defer r.mu.Unlock()
	data, err := json.Marshal(r)
	if err != nil {
		return err
	}
	tmp := path + ".tmp"
	if err := os.WriteFile(tmp, data, 0o644); err != nil {
		return err
	}
	return os.Rename(tmp, path)
}

// caseCtx is handed to one case: its PRNG, its directory, where to report.
type caseCtx struct {
	r     *rec
	rnd   *rand.Rand
	dir   string
	kind  string
	idx   int
	quick bool
	desc  map[string]interface{} // description of the case (goes into witnesses and samples)
	// classOverride, if set, is the violation class of every failure of this case (cases that exist to
	// watch one specific behaviour outside the core of the property)
	classOverride string
}

func (cc *caseCtx) witness(extra map[string]interface{}) map[string]interface{} {
	w := map[string]interface{}{"kind": cc.kind, "case": cc.idx}
	for k, v := range cc.desc {
		w[k] = v
	}
	for k, v := range extra {
		w[k] = v
	}
	return w
}

func (cc *caseCtx) fail(class, format string, args ...interface{}) {
	if cc.classOverride != "" {
		format = "[" + class + "] " + format
		class = cc.classOverride
	}
	msg := fmt.Sprintf("%s case %d: ", cc.kind, cc.idx) + fmt.Sprintf(format, args...)
	cc.r.viol(class, msg, cc.witness(nil))
}

func (cc *caseCtx) failW(class string, extra map[string]interface{}, format string, args ...interface{}) {
	if cc.classOverride != "" {
		format = "[" + class + "] " + format
		class = cc.classOverride
	}
	msg := fmt.Sprintf("%s case %d: ", cc.kind, cc.idx) + fmt.Sprintf(format, args...)
	cc.r.viol(class, msg, cc.witness(extra))
}

// guard runs fn and turns a panic (including a memory fault on a mapped page) into a violation.
func (cc *caseCtx) guard(class string, fn func()) (ok bool) {
	defer func() {
		if e := recover(); e != nil {
			ok = false
			st := string(debug.Stack())
			if len(st) > 6000 {
				st = st[:6000]
			}
			cc.failW(class, map[string]interface{}{"panic": fmt.Sprint(e), "stack": st}, "panic: %v", e)
		}
	}()
	debug.SetPanicOnFault(true)
	fn()
	return true
}

// ---------------------------------------------------------------------------
// value bytes: a deterministic function of (salt, key, size) so witnesses stay small

func fillValue(salt uint64, key uint32, size int) []byte {
	if size == 0 {
		// alternate nil and empty non-nil slices
		if key&1 == 0 {
			return nil
		}
		return []byte{}
	}
	b := make([]byte, size)
	x := salt*0x9E3779B97F4A7C15 ^ (uint64(key)+1)*0xBF58476D1CE4E5B9 ^ uint64(size)<<40
	if x == 0 {
		x = 1
	}
	i := 0
	for i+8 <= size {
		x ^= x << 13
		x ^= x >> 7
		x ^= x << 17
		binary.LittleEndian.PutUint64(b[i:], x)
		i += 8
	}
	for ; i < size; i++ {
		x ^= x << 13
		x ^= x >> 7
		x ^= x << 17
		b[i] = byte(x)
	}
	return b
}

// frame wraps a payload so that concatenations of frames can be split again.
func frame(payload []byte) []byte {
	var buf [binary.MaxVarintLen64]byte
	n := binary.PutUvarint(buf[:], uint64(len(payload)))
	out := make([]byte, 0, n+len(payload))
	out = append(out, buf[:n]...)
	return append(out, payload...)
}

// splitFrames splits a concatenation of frames; ok=false if the bytes are not a frame sequence.
func splitFrames(v []byte) (frames []string, ok bool) {
	for len(v) > 0 {
		l, n := binary.Uvarint(v)
		if n <= 0 || uint64(len(v)-n) < l {
			return frames, false
		}
		frames = append(frames, string(v[n:n+int(l)]))
		v = v[n+int(l):]
	}
	return frames, true
}

func sortedCopy(s []string) []string {
	c := append([]string(nil), s...)
	sort.Strings(c)
	return c
}

func equalStrings(a, b []string) bool {
	if len(a) != len(b) {
		return false
	}
	for i := range a {
		if a[i] != b[i] {
			return false
		}
	}
	return true
}

func hashKeyOf(parts ...interface{}) string {
	h := fnv.New64a()
	for _, p := range parts {
		switch v := p.(type) {
		case []uint32:
			var b [4]byte
			for _, k := range v {
				binary.LittleEndian.PutUint32(b[:], k)
				_, _ = h.Write(b[:])
			}
		case []int:
			var b [8]byte
			for _, k := range v {
				binary.LittleEndian.PutUint64(b[:], uint64(k))
				_, _ = h.Write(b[:])
			}
		default:
			_, _ = fmt.Fprint(h, v, "|")
		}
	}
	return fmt.Sprintf("%016x", h.Sum64())
}

func shortBytes(b []byte) string {
	if len(b) <= 24 {
		return fmt.Sprintf("%x", b)
	}
	return fmt.Sprintf("%x..(%d bytes)", b[:24], len(b))
}

func headKeys(keys []uint32, n int) []uint32 {
	if len(keys) <= n {
		return keys
	}
	return keys[:n]
}

func widthClass(maxOffset int) string {
	switch {
	case maxOffset < 1<<8:
		return "w1"
	case maxOffset < 1<<16:
		return "w2"
	case maxOffset < 1<<24:
		return "w3"
	default:
		return "w4"
	}
}

func joinInts(v []int) string {
	s := make([]string, len(v))
	for i, x := range v {
		s[i] = fmt.Sprint(x)
	}
	return strings.Join(s, ",")
}
