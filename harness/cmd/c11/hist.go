package main

import (
	"encoding/json"
	"fmt"
	"hash/fnv"
	"math/rand"
	"os"
	"path/filepath"
	"regexp"
	"sort"
	"strings"
	"time"

	"github.com/lindb/lindb/models"
	"github.com/lindb/lindb/pkg/timeutil"
	"github.com/lindb/lindb/tsdb"
	"github.com/lindb/lindb/verif/internal/core"
	"github.com/lindb/lindb/verif/internal/node"
)

// caseResult is what a child reports back.
type caseResult struct {
	Kind       string           `json:"kind"`
	Index      int              `json:"index"`
	Counters   map[string]int   `json:"counters"`
	Violations []core.Violation `json:"violations"`
	Nontrivial []string         `json:"nontrivial"`
	Sample     interface{}      `json:"sample,omitempty"`
	Evals      int              `json:"evals"`
	Notes      []string         `json:"notes,omitempty"`
}

func (r *caseResult) count(name string, n int) {
	if r.Counters == nil {
		r.Counters = map[string]int{}
	}
	r.Counters[name] += n
}

func (r *caseResult) violation(class, msg string, witness interface{}) {
	for _, v := range r.Violations {
		if v.Class == class {
			r.count("violations."+class, 1)
			return
		}
	}
	r.count("violations."+class, 1)
	r.Violations = append(r.Violations, core.Violation{Class: class, Message: msg, Witness: witness})
}

func hashKey(parts ...interface{}) string {
	h := fnv.New64a()
	fmt.Fprint(h, parts...)
	return fmt.Sprintf("%x", h.Sum64())
}

// runner executes operations against one node and checks queries against the model.
type runner struct {
	res       *caseResult
	dir       string
	sc        *schema
	opts      node.Options
	n         *node.Node
	c         *node.Cluster
	m         *node.Model
	caseID    string
	placement string
	history   []string // executed operations (compact log for witnesses)
	rnd       *rand.Rand
	flushGen  int
	track     *memTracker
	arrival   bool // write calls are sequential: the arrival rule of first/last fields is checked
}

func newRunner(res *caseResult, dir string, sc *schema, caseID, placementName string, rnd *rand.Rand, extra func(o *node.Options)) (*runner, error) {
	r := &runner{res: res, dir: dir, sc: sc, caseID: caseID, placement: placementName, rnd: rnd, m: node.NewModel(slotMs)}
	// no pacing of memory database creation: several memory databases of a shard may be created within one tick of
	// lindb's 5ms clock (that used to lose data, see C11/memdb/same-tick-...; the behaviour stays exercised)
	r.opts = node.Options{Dir: dir, NoTickGuard: true}
	for i := 0; i < sc.Shards; i++ {
		r.opts.ShardIDs = append(r.opts.ShardIDs, models.ShardID(i))
	}
	if extra != nil {
		extra(&r.opts)
	}
	n, err := node.Open(r.opts)
	if err != nil {
		return nil, err
	}
	r.n = n
	r.c = node.NewCluster(n, node.Layout{})
	r.track = newMemTracker(sc.Shards)
	return r, nil
}

func (r *runner) close() {
	if r.c != nil {
		r.c.Close()
	}
	if r.n != nil {
		r.n.Close()
	}
}

func (r *runner) log(format string, args ...interface{}) {
	s := fmt.Sprintf(format, args...)
	r.history = append(r.history, s)
	fmt.Println(time.Now().Format("15:04:05.000"), r.placement, s) // child log, written before the operation runs
}

func (r *runner) write(points []node.Point) error {
	rep, err := r.n.Write(points)
	if err != nil {
		return err
	}
	r.m.Add(points)
	r.track.add(points, rep.Order)
	if os.Getenv("C11_VERBOSE") != "" {
		for _, b := range rep.Batches {
			if b.Created {
				f, _ := r.n.Family(b.ShardID, b.FamilyTime)
				ticks, ok := node.MemDBCreatedTicks(f)
				fmt.Println("    created memdb", f.Indicator(), ticks, ok)
			}
		}
	}
	r.res.count("write_calls", 1)
	r.res.count("points_written", rep.Rows)
	for _, b := range rep.Batches {
		if b.Created {
			r.res.count("memory_databases_created", 1)
		}
	}
	return nil
}

func (r *runner) families() []tsdb.DataFamily { return r.n.AllFamilies() }

// allDataFamilies opens and returns every data family of the data hours (also those not touched since a reopen).
func (r *runner) allDataFamilies() []tsdb.DataFamily {
	var rs []tsdb.DataFamily
	tr := timeutil.TimeRange{Start: r.sc.Base - hourMs, End: r.sc.Base + int64(r.sc.Hours+2)*hourMs}
	for _, id := range r.opts.ShardIDs {
		if shard, ok := r.n.Shard(id); ok {
			rs = append(rs, shard.GetDataFamilies(timeutil.Interval(slotMs).Type(), tr)...)
		}
	}
	return rs
}

// checkSchema verifies after an operation that every field and tag key of the written points still resolves
// through the metadata database (a query cannot name what the schema lost).
func (r *runner) checkSchema(after string) {
	for _, nm := range r.m.Metrics() {
		fields, tagKeys, err := r.n.SchemaOf(nm[0], nm[1])
		if err != nil {
			r.res.violation("C11/metadata/metric-not-resolvable/after-"+after, fmt.Sprintf("%s [%s]: metric %s: %v", r.caseID, r.placement, nm[1], err),
				map[string]interface{}{"case": r.caseID, "placement": r.placement, "operations": tailStrings(r.history, 60)})
			continue
		}
		var missing []string
		for f := range r.m.FieldKinds(nm[0], nm[1]) {
			if _, ok := fields[f]; !ok {
				missing = append(missing, "field "+f)
			}
		}
		have := map[string]bool{}
		for _, k := range tagKeys {
			have[k] = true
		}
		for _, k := range r.m.TagKeys(nm[0], nm[1]) {
			if !have[k] {
				missing = append(missing, "tag key "+k)
			}
		}
		if len(missing) > 0 {
			sort.Strings(missing)
			r.res.violation("C11/metadata/schema-lost-field-or-tag-key/after-"+after,
				fmt.Sprintf("%s [%s]: after %s the schema of metric %s no longer has %v (schema now: fields %v, tag keys %v)",
					r.caseID, r.placement, after, nm[1], missing, fields, tagKeys),
				map[string]interface{}{"case": r.caseID, "placement": r.placement, "operations": tailStrings(r.history, 80), "schema": r.sc})
		}
	}
}

func (r *runner) exec(o op, writes []writeBatch) error {
	err := r.exec0(o, writes)
	if err == nil && r.n != nil {
		r.res.count("schema_checks", 1)
		r.checkSchema(o.Kind)
	}
	return err
}

func (r *runner) exec0(o op, writes []writeBatch) error {
	switch o.Kind {
	case "write":
		w := writes[o.Batch]
		r.log("write batch %d (%d points, epoch %d)", o.Batch, len(w.Points), w.Epoch)
		return r.write(w.Points)
	case "flush":
		r.log("flush all")
		r.flushGen++
		r.res.count("op.flush", 1)
		r.track.flush(-1, -1)
		return r.n.FlushAll()
	case "flush-one":
		fs := r.families()
		if len(fs) == 0 {
			return nil
		}
		f := fs[r.rnd.Intn(len(fs))]
		if want := os.Getenv("DBG_FLUSHONE"); want != "" {
			for _, c := range fs {
				if c.Indicator() == want {
					f = c
				}
			}
		}
		r.log("flush family %s", f.Indicator())
		r.flushGen++
		r.res.count("op.flush_one_family", 1)
		r.track.flush(f.FamilyTime(), int(f.Shard().ShardID()))
		return r.n.FlushFamily(f)
	case "compact":
		r.log("compact data families")
		for _, f := range r.allDataFamilies() {
			if node.Level0Files(f) > 1 {
				r.track.compacted(f.FamilyTime(), int(f.Shard().ShardID()))
			}
		}
		k := r.n.CompactStores("data")
		r.res.count("op.compact_data", 1)
		r.res.count("data_families_compacted_with_2+_files", k)
	case "compact-index":
		if os.Getenv("C11_NO_COMPACT_INDEX") != "" {
			return nil
		}
		r.log("compact index and meta families")
		k := r.n.CompactStores("index") + r.n.CompactStores("meta")
		r.res.count("op.compact_index_meta", 1)
		r.res.count("index_meta_families_compacted_with_2+_files", k)
	case "reopen":
		r.log("close + reopen")
		r.res.count("op.reopen", 1)
		r.track.flush(-1, -1)
		r.track.reopened()
		r.c.Close()
		n2, err := r.n.Reopen()
		if err != nil {
			r.n, r.c = nil, nil
			return fmt.Errorf("reopen: %w", err)
		}
		r.n = n2
		r.c = node.NewCluster(n2, node.Layout{})
	}
	return nil
}

// storageState describes where the data of the queried metric lives in the families the query range touches.
type storageState struct {
	Mem, Immutable int // families with a mutable / immutable memory database
	Files          int // table blocks of the metric
	SingleField    [][]string
	Families       int
	Label          string
}

func (r *runner) state(q *node.Query) storageState {
	var st storageState
	plan := r.m.PlanOf(q)
	tr := timeutil.TimeRange{Start: plan.Start, End: plan.End}
	for _, id := range r.opts.ShardIDs {
		shard, ok := r.n.Shard(id)
		if !ok {
			continue
		}
		for _, f := range shard.GetDataFamilies(timeutil.Interval(slotMs).Type(), tr) {
			st.Families++
			for _, s := range f.GetState().MemoryDatabases {
				if s.NumOfSeries == 0 {
					continue
				}
				if s.State == "mutable" {
					st.Mem++
				} else {
					st.Immutable++
				}
			}
			blocks, _ := r.n.FileBlocks(f, q.Namespace, q.Metric)
			st.Files += len(blocks)
			for _, b := range blocks {
				if len(b.Fields) == 1 {
					st.SingleField = append(st.SingleField, b.Fields)
				}
			}
		}
	}
	switch {
	case st.Mem+st.Immutable > 0 && st.Files > 0:
		st.Label = "mem+file"
	case st.Mem+st.Immutable > 0:
		st.Label = "mem"
	case st.Files > 1:
		st.Label = "files"
	case st.Files == 1:
		st.Label = "file"
	default:
		st.Label = "none"
	}
	return st
}

func exprFields(e node.Expr, out map[string]bool, quant *bool) {
	switch x := e.(type) {
	case node.FieldRef:
		out[x.Name] = true
	case node.Call:
		exprFields(x.Arg, out, quant)
	case node.Binary:
		exprFields(x.L, out, quant)
		exprFields(x.R, out, quant)
	case node.Paren:
		exprFields(x.E, out, quant)
	case node.Quantile:
		*quant = true
	}
}

func queryFields(q *node.Query) ([]string, bool) {
	set := map[string]bool{}
	quant := false
	for _, it := range q.Items {
		exprFields(it.Expr, set, &quant)
	}
	var fs []string
	for f := range set {
		fs = append(fs, f)
	}
	sort.Strings(fs)
	return fs, quant
}

var digits = regexp.MustCompile(`[0-9]+`)

func normErr(err error) string {
	s := digits.ReplaceAllString(err.Error(), "N")
	s = strings.Map(func(c rune) rune {
		if (c >= 'a' && c <= 'z') || (c >= 'A' && c <= 'Z') || c == 'N' {
			return c
		}
		return '-'
	}, s)
	if len(s) > 48 {
		s = s[:48]
	}
	return s
}

type checkOutcome struct {
	OK     bool
	Class  string
	Result *node.QueryResult
	Exp    *node.Expected
	Diffs  []node.Diff
}

// run executes a query and compares it with the reference computed by eval (default: the runner's model).
func (r *runner) run(q *node.Query, m *node.Model) (*node.QueryResult, *node.Expected, []node.Diff, string) {
	res := r.c.Query(q.SQL())
	exp := m.Eval(q)
	if res.TimedOut {
		return res, exp, nil, "watchdog"
	}
	if res.Stuck {
		return res, exp, nil, "stuck"
	}
	if res.Err != nil {
		if exp.Empty() && strings.Contains(res.Err.Error(), "not found") {
			return res, exp, nil, "" // nothing to find: lindb answers an empty selection with a not-found error
		}
		return res, exp, nil, "error"
	}
	// arrival: values of one (series, storage slot) written by successive Write calls - the later call wins for a last
	// field, the earlier one for a first field (not decidable when calls run concurrently)
	return res, exp, node.Compare(exp, res.ResultSet, q.GroupBy, node.CompareOptions{Arrival: r.arrival}), ""
}

// check runs one query at the current state and reports a violation when it differs from the model.
func (r *runner) check(q *node.Query, stage string) *checkOutcome {
	st := r.state(q)
	res, exp, diffs, status := r.run(q, r.m)
	out := &checkOutcome{Result: res, Exp: exp, Diffs: diffs}
	r.res.Evals++
	r.res.count("queries", 1)
	fields, quant := queryFields(q)
	if len(fields) > 1 {
		r.res.count("queries_with_2+_fields", 1)
	}
	if quant {
		r.res.count("queries_with_quantile", 1)
	}
	if len(q.GroupBy) > 0 {
		r.res.count("queries_with_group_by", 1)
	}
	if q.Cond != nil {
		r.res.count("queries_with_tag_condition", 1)
	}
	if exp.Plan.Ratio > 1 {
		r.res.count("queries_with_interval_ratio>1", 1)
	}
	r.res.count("state."+st.Label, 1)
	if len(st.SingleField) > 0 && len(fields) > 1 {
		r.res.count("multi_field_queries_over_a_single_field_block", 1)
	}
	if st.Families > 1 {
		r.res.count("queries_over_2+_families", 1)
	}
	values, multi := 0, 0
	for _, s := range exp.Series {
		for _, it := range s.Items {
			for _, v := range it {
				values++
				if v.Contributors > 1 {
					multi++
				}
			}
		}
	}
	r.res.count("expected_values", values)
	r.res.count("expected_values_with_2+_contributing_cells", multi)
	r.res.count("expected_values_lenient", exp.LenientValues)
	r.res.count("expected_values_not_enumerable", exp.UnknownValues)
	if exp.ErrorExpected != "" {
		r.res.count("queries_the_language_rejects", 1)
	}
	if values > 0 && (multi > 0 || st.Label == "mem+file" || st.Label == "files") {
		r.res.Nontrivial = append(r.res.Nontrivial, hashKey(r.caseID, r.placement, len(r.history), q.SQL()))
	}
	if r.res.Sample == nil && values > 3 && st.Label == "mem+file" {
		r.res.Sample = map[string]interface{}{"case": r.caseID, "placement": r.placement, "sql": q.SQL(),
			"state": st, "expected_values": values, "operations_before": len(r.history)}
	}
	witness := func() map[string]interface{} {
		w := map[string]interface{}{
			"case": r.caseID, "placement": r.placement, "stage": stage, "sql": q.SQL(), "state": st,
			"operations": tailStrings(r.history, 60), "schema": r.sc,
		}
		if res.Err != nil {
			w["error"] = res.Err.Error()
		}
		if len(diffs) > 0 {
			w["diffs"] = headDiffs(diffs, 12)
			w["diff_count"] = len(diffs)
		}
		if res.ResultSet != nil {
			w["result"] = strings.Split(node.Canonical(res.ResultSet, q.GroupBy), "\n")
		}
		if res.StuckDump != "" {
			w["stuck_dump"] = strings.Split(res.StuckDump, "\n")
		}
		return w
	}
	switch status {
	case "watchdog":
		r.res.Notes = append(r.res.Notes, "watchdog: "+q.SQL())
		r.res.count("queries_hit_watchdog", 1)
		return out
	case "stuck":
		out.Class = "C11/query-never-answers"
		r.res.violation(out.Class, fmt.Sprintf("%s %s: the cluster is quiescent and the root still waits: %s", r.caseID, stage, q.SQL()), witness())
		return out
	case "error":
		if exp.ErrorExpected != "" {
			r.res.count("queries_rejected_as_expected", 1)
			out.OK = true
			return out
		}
		out.Class = "C11/query-error/" + normErr(res.Err)
		r.res.violation(out.Class, fmt.Sprintf("%s %s: %s -> error %v, reference has %d values", r.caseID, stage, q.SQL(), res.Err, values), witness())
		return out
	}
	if exp.ErrorExpected != "" {
		// the language as the reference reads it rejects the query; lindb answered: only counted (the generator does
		// not aim at rejected queries)
		r.res.count("queries_answered_although_reference_rejects", 1)
		return out
	}
	if len(diffs) == 0 {
		out.OK = true
		return out
	}
	out.Class = r.classify(q, st, diffs, fields)
	if strings.HasPrefix(out.Class, "C11/result/") {
		// The label comes from up to a few dozen further live queries; repeat it once before settling on "unexplained"
		// (the verdict - the result differs from the reference - is already fixed and does not depend on it).
		r.res.count("classification_repeated", 1)
		r.c.WaitQuiescent(5 * time.Second)
		if _, _, d2, s2 := r.run(q, r.m); s2 == "" && len(d2) > 0 {
			if cl := r.classify(q, r.state(q), d2, fields); !strings.HasPrefix(cl, "C11/result/") {
				r.res.count("classification_repeated_and_explained", 1)
				out.Class = cl
			}
		}
	}
	if os.Getenv("C11_VERBOSE") != "" {
		fmt.Println("MISMATCH", out.Class, q.SQL())
		for _, d := range headDiffs(diffs, 8) {
			fmt.Println("    ", d)
		}
		fmt.Println("    result:", strings.ReplaceAll(node.Canonical(res.ResultSet, q.GroupBy), "\n", "\n            "))
		if strings.HasPrefix(out.Class, "C11/result/") {
			_, _, d2, s2 := r.run(q, r.m)
			fmt.Println("    again:", s2, headDiffs(d2, 3))
			q2 := *q
			q2.GroupBy = nil
			_, _, d3, s3 := r.run(&q2, r.m)
			fmt.Println("    without group by:", s3, headDiffs(d3, 3))
			q3 := *q
			q3.Cond = nil
			_, _, d4, s4 := r.run(&q3, r.m)
			fmt.Println("    without condition:", s4, headDiffs(d4, 3))
			fmt.Printf("    state: %+v\n", st)
			for _, f := range r.allDataFamilies() {
				ticks, ok := node.MemDBCreatedTicks(f)
				fmt.Println("    family", f.Indicator(), "memdb creation ticks", ticks, ok, "l0 files", node.Level0Files(f))
			}
		}
	}
	r.res.violation(out.Class, fmt.Sprintf("%s [%s] %s: %s differs from the reference in %d places, e.g. %s (data in: %s)",
		r.caseID, r.placement, stage, q.SQL(), len(diffs), diffs[0].String(), st.Label), witness())
	return out
}

func tailStrings(s []string, n int) []string {
	if len(s) > n {
		return s[len(s)-n:]
	}
	return s
}

func headDiffs(d []node.Diff, n int) []string {
	var out []string
	for i, x := range d {
		if i >= n {
			break
		}
		out = append(out, x.String())
	}
	return out
}

func diffKind(k string) string {
	switch {
	case strings.HasPrefix(k, "missing"):
		return "missing-data"
	case strings.HasPrefix(k, "unexpected"):
		return "unexpected-data"
	default:
		return k
	}
}

// classify names the kind of failure. A multi-field query whose fields each answer correctly when asked alone, over a
// family that holds a table block carrying exactly one of the queried fields, is the "single-field block" shape of
// metricsdata.metricReader.readSeriesData; everything else is classified by what differs and where the data lived.
func (r *runner) classify(q *node.Query, st storageState, diffs []node.Diff, fields []string) string {
	const (
		clsWindow   = "C11/memdb/window-end-offset-shrinks-on-out-of-order-write-inside-the-window"
		clsPlaces   = "C11/downsampling/values-of-one-slot-in-several-places-combined-by-the-query-function"
		clsFamDrop  = "C11/family/memdb-results-dropped-when-no-table-file-matches-field-or-series"
		clsFileDrop = "C11/family/table-file-results-dropped-when-memdb-does-not-know-the-field"
		clsTwoAgg   = "C11/field-agg/two-aggregate-types-of-one-field-cross-applied-at-merge"
		clsReader   = "C11/reader/single-field-block-mapped-to-first-query-field"
		// kv/version FindFiles + kv/compact_job.go makeInputIterator
		clsLevelOrder = "C11/arrival-order/level1-table-file-ranked-younger-than-level0-files"
	)
	type variation struct {
		w, p, d, f bool
		names      []string
	}
	hasWindow := r.track.altModel(true, false, nil) != nil
	var vars []variation
	for mask := 0; mask < 16; mask++ {
		v := variation{w: mask&1 != 0, p: mask&2 != 0, d: mask&4 != 0, f: mask&8 != 0}
		if v.w && !hasWindow {
			continue
		}
		if v.w {
			v.names = append(v.names, "window-end-offset")
		}
		if v.p {
			v.names = append(v.names, "places")
		}
		if v.d {
			v.names = append(v.names, "memdb-dropped-with-unmatched-files")
		}
		if v.f {
			v.names = append(v.names, "files-dropped-with-unmatched-memdb")
		}
		vars = append(vars, v)
	}
	// the reference variation for one query: the dropped families depend on the fields the query reads
	modelFor := func(qq *node.Query, v variation) *node.Model {
		if !v.w && !v.p && !v.d && !v.f {
			return r.m
		}
		var drop, dropFile map[famKey]bool
		if v.d {
			fs, _ := queryFields(qq)
			drop = r.droppedFamilies(qq, fs)
			if len(drop) == 0 {
				return nil
			}
		}
		if v.f {
			dropFile = r.droppedFileFamilies(qq)
			if len(dropFile) == 0 {
				return nil
			}
		}
		return r.track.altModelFull(v.w, v.p, drop, dropFile)
	}
	matches := func(qq *node.Query, v variation) bool {
		m := modelFor(qq, v)
		if m == nil {
			return false
		}
		_, _, d, status := r.run(qq, m)
		r.res.count("diagnostic_queries", 1)
		if os.Getenv("C11_VERBOSE") != "" && (status != "" || len(d) > 0) {
			fmt.Println("      diagnostic", qq.SQL(), "reference variation:", v.names, status, headDiffs(d, 4))
		}
		return status == "" && len(d) == 0
	}
	dataClass := func(v variation) string {
		if len(v.names) == 1 {
			switch {
			case v.w:
				return clsWindow
			case v.p:
				return clsPlaces
			case v.d:
				return clsFamDrop
			default:
				return clsFileDrop
			}
		}
		return "C11/combined/" + strings.Join(v.names, "+")
	}
	for _, v := range vars[1:] {
		if matches(q, v) {
			return dataClass(v)
		}
	}
	// level order: a level 1 table file (older data) is listed after the level 0 files at query time and at compaction
	for _, withPlaces := range []bool{false, true} {
		m := r.track.altModelLevelOrder(withPlaces)
		if m == nil {
			break
		}
		_, _, d, status := r.run(q, m)
		r.res.count("diagnostic_queries", 1)
		if status == "" && len(d) == 0 {
			if withPlaces {
				return "C11/combined/places+level-order"
			}
			return clsLevelOrder
		}
	}
	aggs := r.m.AggTypes(q)
	twoAggs := false
	for _, a := range aggs {
		if len(a) > 1 {
			twoAggs = true
		}
	}
	singleBlock := false
	if len(fields) > 1 {
		for _, b := range st.SingleField {
			for _, f := range fields {
				if b[0] == f {
					singleBlock = true
				}
			}
		}
	}
	if twoAggs || singleBlock {
		// ask for every (field, aggregate type) of the query alone: such queries have one field and one aggregate type
		kinds := r.m.FieldKinds(q.Namespace, q.Metric)
		var atoms []*node.Query
		for f, as := range aggs {
			if strings.HasPrefix(f, "__bucket_") {
				continue
			}
			for _, a := range as {
				sq := *q
				var e node.Expr = node.Call{Func: a, Arg: node.FieldRef{Name: f}}
				if !node.Supported(kinds[f], a) {
					e = node.FieldRef{Name: f}
				}
				sq.Items = []node.SelectItem{{Expr: e, Alias: "d1"}}
				atoms = append(atoms, &sq)
			}
		}
		// every atom must be explained; the data level variation may differ per atom only in the dropped families
		for _, v := range vars {
			all := true
			usedDrop := false
			for _, a := range atoms {
				if matches(a, v) {
					continue
				}
				// the same variation without / with the family drop (an atom reads one field, so the families whose
				// files carry none of its fields differ from atom to atom)
				explained := false
				for _, alt := range []variation{{w: v.w, p: v.p, d: !v.d, f: v.f}, {w: v.w, p: v.p, d: v.d, f: !v.f}, {w: v.w, p: v.p, d: !v.d, f: !v.f}} {
					if matches(a, alt) {
						explained = true
						break
					}
				}
				if explained {
					usedDrop = true
					continue
				}
				all = false
				break
			}
			if !all {
				continue
			}
			names := append([]string(nil), v.names...)
			if usedDrop {
				names = append(names, "family-results-dropped")
			}
			var ql []string
			if twoAggs {
				ql = append(ql, "two-aggregate-types")
			}
			if singleBlock {
				ql = append(ql, "single-field-block")
			}
			if len(names) == 0 && len(ql) == 1 {
				if twoAggs {
					return clsTwoAgg
				}
				return clsReader
			}
			return "C11/combined/" + strings.Join(append(ql, names...), "+")
		}
	}
	multi := "single-field-query"
	if len(fields) > 1 {
		multi = "multi-field-query"
	}
	return fmt.Sprintf("C11/result/%s/%s/%s", diffKind(diffs[0].Kind), multi, st.Label)
}

// droppedFamilies lists the data families in the query range that hold table blocks of the metric overlapping the
// queried slots none of which carries both a queried field and a selected series: the shape in which
// dataFamily.Filter returns the file filter's not-found error and loses the memory results with it. (Labelling only;
// the blocks are the tracker's view of what each flush wrote.)
func (r *runner) droppedFamilies(q *node.Query, fields []string) map[famKey]bool {
	out := map[famKey]bool{}
	plan := r.m.PlanOf(q)
	want := map[string]bool{}
	for _, f := range fields {
		want[f] = true
	}
	for f := range r.m.AggTypes(q) {
		if strings.HasPrefix(f, "__bucket_") {
			f = "__bucket"
		}
		want[f] = true
	}
	// the series the tag condition selects
	selected := map[string]bool{}
	for _, tags := range r.m.SeriesTags(q.Namespace, q.Metric) {
		if q.Cond == nil || q.Cond.Match(tags) {
			p := node.Point{Namespace: q.Namespace, Metric: q.Metric, Tags: tags}
			selected[p.SeriesKey()] = true
		}
	}
	for fk, blocks := range r.track.fileBlocks(q.Metric) {
		if plan.End < fk.family || plan.Start > fk.family+hourMs-1 {
			continue
		}
		lo, hi := 0, slotsPerHr-1
		if plan.Start > fk.family {
			lo = int((plan.Start - fk.family) / slotMs)
		}
		if plan.End < fk.family+hourMs-1 {
			hi = int((plan.End - fk.family) / slotMs)
		}
		considered, matched := 0, 0
		for _, b := range blocks {
			if b.hi < lo || b.lo > hi {
				continue
			}
			considered++
			fieldOK, seriesOK := false, false
			for f := range b.fields {
				if want[f] {
					fieldOK = true
				}
			}
			for sk := range b.series {
				if selected[sk] {
					seriesOK = true
				}
			}
			if fieldOK && seriesOK {
				matched++
			}
		}
		if considered > 0 && matched == 0 {
			out[fk] = true
		}
	}
	return out
}

// droppedFileFamilies lists the families in the query range whose memory database holds data of the metric in the
// queried slots while none of the queried fields has been written for the metric since the engine was opened: the shape
// in which memoryDatabase.Filter answers "field not found" and dataFamily.Filter drops the table files with it.
// (Labelling only.)
func (r *runner) droppedFileFamilies(q *node.Query) map[famKey]bool {
	plan := r.m.PlanOf(q)
	var fields []string
	for f := range r.m.AggTypes(q) {
		fields = append(fields, f)
	}
	selected := map[string]bool{}
	for _, tags := range r.m.SeriesTags(q.Namespace, q.Metric) {
		if q.Cond == nil || q.Cond.Match(tags) {
			p := node.Point{Namespace: q.Namespace, Metric: q.Metric, Tags: tags}
			selected[p.SeriesKey()] = true
		}
	}
	return r.track.memFamiliesWithoutFields(q.Metric, fields, selected, func(fk famKey) (int, int, bool) {
		if plan.End < fk.family || plan.Start > fk.family+hourMs-1 {
			return 0, 0, false
		}
		lo, hi := 0, slotsPerHr-1
		if plan.Start > fk.family {
			lo = int((plan.Start - fk.family) / slotMs)
		}
		if plan.End < fk.family+hourMs-1 {
			hi = int((plan.End - fk.family) / slotMs)
		}
		return lo, hi, true
	})
}

// ---------------------------------------------------------------------------------------------
// the sequential history case

func dataSlotsOf(writes []writeBatch, upto int, base int64) []int {
	var s []int
	for i := 0; i <= upto && i < len(writes); i++ {
		for _, p := range writes[i].Points {
			s = append(s, int((p.Timestamp-base)/slotMs))
		}
	}
	return s
}

func runHistCase(idx int, dir, tier string, seed int64) *caseResult {
	res := &caseResult{Kind: "hist", Index: idx}
	rnd := rand.New(rand.NewSource(seed*7919 + int64(idx)*104729 + 17))
	sc := genSchema(rnd, idx%3 != 2)
	nb := 14 + rnd.Intn(22)
	if tier == "thorough" {
		nb = 20 + rnd.Intn(50)
	}
	writes, wstats := genWrites(rnd, sc, nb)
	for k, v := range wstats {
		res.count(k, v)
	}
	res.count("histories", 1)
	qg := &queryGen{rnd: rnd, sc: sc}
	caseID := fmt.Sprintf("hist-%d", idx)

	// final queries: generated from the final model, identical for every placement
	final := node.NewModel(slotMs)
	for _, w := range writes {
		final.Add(w.Points)
	}
	allSlots := dataSlotsOf(writes, len(writes), sc.Base)
	var finalQueries []*node.Query
	nFinal := 12
	for len(finalQueries) < nFinal {
		if q := qg.query(final, allSlots); q != nil {
			finalQueries = append(finalQueries, q)
		}
	}

	styles := []string{"generated", "memory", "eager"}
	if tier == "thorough" || idx%2 == 0 {
		styles = append(styles, "random")
	}
	type finalRes struct {
		ok     []bool
		canon  []map[string]float64
		states []string
	}
	finals := map[string]*finalRes{}
	for _, style := range styles {
		if only := os.Getenv("C11_ONLY_STYLE"); only != "" && only != style {
			continue
		}
		prnd := rand.New(rand.NewSource(seed*31 + int64(idx)*1009 + int64(len(style))))
		ops := placement(prnd, writes, style)
		pdir := filepath.Join(dir, style)
		_ = os.MkdirAll(pdir, 0o755)
		r, err := newRunner(res, pdir, sc, caseID, style, prnd, nil)
		if err != nil {
			res.Notes = append(res.Notes, fmt.Sprintf("%s: open failed: %v", style, err))
			continue
		}
		r.arrival = true
		res.count("placements", 1)
		failed := false
		lastBatch := -1
		for oi, o := range ops {
			if stop := os.Getenv("C11_STOP_AFTER_OPS"); stop != "" && fmt.Sprint(oi) == stop {
				for _, raw := range strings.Split(os.Getenv("C11_EXTRA_SQL"), ";") {
					if raw == "" {
						continue
					}
					qr := r.c.Query(raw)
					fmt.Println("EXTRA", raw, qr.Err, qr.Stuck)
					if qr.Statement != nil {
						fmt.Println(node.Canonical(qr.ResultSet, qr.Statement.GroupBy))
					}
				}
				for _, f := range r.allDataFamilies() {
					for _, ms := range sc.Metrics {
						blocks, _ := r.n.FileBlocks(f, "", ms.Name)
						fmt.Printf("EXTRA family %s metric %s memdbs %+v blocks %+v\n", f.Indicator(), ms.Name, f.GetState().MemoryDatabases, blocks)
					}
				}
				for _, ms := range sc.Metrics {
					for fk, blocks := range r.track.fileBlocks(ms.Name) {
						for pl, b := range blocks {
							fmt.Printf("EXTRA tracker %s family %v place %s slots %d-%d fields %v series %d\n", ms.Name, fk, pl, b.lo, b.hi, b.fields, len(b.series))
						}
					}
					fmt.Printf("EXTRA tracker %s fieldIdx %v\n", ms.Name, r.track.fieldIdx[ms.Name])
				}
				fmt.Printf("EXTRA tracker memIdx %v\n", r.track.memIdx)
				os.Exit(0)
			}
			if os.Getenv("C11_VERBOSE") != "" {
				fmt.Println("op", oi)
			}
			if err := r.exec(o, writes); err != nil {
				res.Notes = append(res.Notes, fmt.Sprintf("%s: %s failed: %v", style, o.Kind, err))
				res.violation("C11/operation-failed/"+o.Kind, fmt.Sprintf("%s [%s]: %s failed: %v", caseID, style, o.Kind, err),
					map[string]interface{}{"case": caseID, "placement": style, "operations": tailStrings(r.history, 60)})
				failed = true
				break
			}
			if o.Kind == "write" {
				lastBatch = o.Batch
			}
			// queries after the step: always after a structural operation, sometimes after a write
			nq := 0
			switch {
			case style == "generated" && o.Kind != "write":
				nq = 2
			case style == "generated" && prnd.Intn(3) == 0:
				nq = 1
			case style != "generated" && o.Kind != "write" && prnd.Intn(4) == 0:
				nq = 1
			}
			for i := 0; i < nq; i++ {
				if q := qg.query(r.m, dataSlotsOf(writes, lastBatch, sc.Base)); q != nil {
					r.check(q, "after "+o.Kind)
				}
			}
		}
		if !failed {
			fr := &finalRes{}
			for _, q := range finalQueries {
				out := r.check(q, "final")
				fr.ok = append(fr.ok, out.OK)
				vals := map[string]float64{}
				if out.Result.ResultSet != nil {
					for _, s := range out.Result.ResultSet.Series {
						g := node.GroupKeyOf(q.GroupBy, s.Tags)
						for item, pts := range s.Fields {
							for ts, v := range pts {
								vals[fmt.Sprintf("%s|%s|%d", g, item, ts)] = v
							}
						}
					}
				}
				fr.canon = append(fr.canon, vals)
				fr.states = append(fr.states, r.state(q).Label)
			}
			finals[style] = fr
		}
		if cell := os.Getenv("C11_DUMP_CELL"); cell != "" {
			// debugging: <metric>,<field>,<tag>=<value>,<from ms>,<to ms> - the executed operations of this placement and
			// every written value of the cell in write order
			dumpCell(cell, style, r.history, writes)
		}
		r.close()
		_ = os.RemoveAll(pdir)
	}

	// metamorphic check: the same writes under different flush/compaction placements give identical results. Only
	// queries whose result agreed with the reference under both placements are compared here (a placement whose
	// result already differs from the reference has been reported above with its own class), so a difference can
	// only sit in a value for which the reference grants latitude.
	base := finals["memory"]
	if base != nil {
		for _, style := range styles {
			other := finals[style]
			if other == nil || style == "memory" {
				continue
			}
			for qi, q := range finalQueries {
				if !base.ok[qi] || !other.ok[qi] {
					continue
				}
				res.count("metamorphic_query_pairs", 1)
				exp := final.Eval(q)
				var differing []string
				firstLast, oneCell := true, false
				for key, v := range base.canon[qi] {
					ov, ok := other.canon[qi][key]
					if ok && (ov == v || (ov-v < 1e-9 && v-ov < 1e-9)) {
						continue
					}
					if ev := expValueOfKey(exp, key); ev == nil || ev.Lenient {
						continue // the reference accepts a value as well as no value here (missing operand / quantile zero fill)
					}
					differing = append(differing, fmt.Sprintf("%s: memory=%v %s=%v(present=%v)", key, v, style, ov, ok))
					parts := strings.Split(key, "|")
					var ts int64
					fmt.Sscan(parts[2], &ts)
					ev := expValue(exp, parts[0], parts[1], ts)
					// several possible values - or too many to enumerate - only arise where first/last values meet
					if ev == nil || (len(ev.Possible) < 2 && !ev.Unknown) {
						firstLast = false
					}
					if ev != nil && ev.Contributors < 2 {
						oneCell = true // fed by a single (series, storage slot): pure arrival order of the write calls
					}
				}
				for key := range other.canon[qi] {
					if ev := expValueOfKey(exp, key); ev == nil || ev.Lenient {
						continue // zero fill / lenient value
					}
					if _, ok := base.canon[qi][key]; !ok {
						differing = append(differing, fmt.Sprintf("%s: only under %s", key, style))
						firstLast = false
					}
				}
				if len(differing) == 0 {
					continue
				}
				sort.Strings(differing)
				class := "C11/metamorphic/value-depends-on-flush-placement"
				switch {
				case firstLast && oneCell:
					// values of one series and one storage slot written by successive calls: the later call wins for last,
					// the earlier for first, wherever the flushes fell (see the directed arrival-order scenarios)
					class = "C11/metamorphic/first-last-value-of-one-slot-depends-on-flush-placement"
				case firstLast:
					// a query bucket fed by several (series, storage slot) cells that lie in different places
					class = "C11/metamorphic/first-last-value-depends-on-flush-placement"
				}
				res.violation(class, fmt.Sprintf("%s: %s gives different results for the same writes under placements memory and %s (%s at the end): %s",
					caseID, q.SQL(), style, other.states[qi], strings.Join(headStrings(differing, 4), "; ")),
					map[string]interface{}{"case": caseID, "sql": q.SQL(), "placements": []string{"memory", style}, "differing": headStrings(differing, 20), "schema": sc,
						"first_differing_cell_written": cellWrites(q, exp, differing[0], writes)})
			}
		}
	}
	return res
}

func headStrings(s []string, n int) []string {
	if len(s) > n {
		return s[:n]
	}
	return s
}

func expValueOfKey(exp *node.Expected, key string) *node.ExpValue {
	parts := strings.Split(key, "|")
	if len(parts) != 3 {
		return nil
	}
	var ts int64
	fmt.Sscan(parts[2], &ts)
	return expValue(exp, parts[0], parts[1], ts)
}

func expValue(exp *node.Expected, group, item string, ts int64) *node.ExpValue {
	s := exp.Series[group]
	if s == nil {
		return nil
	}
	return s.Items[item][ts]
}

func writeResult(dir string, res *caseResult) {
	data, _ := json.Marshal(res)
	_ = os.WriteFile(filepath.Join(dir, "result.json"), data, 0o644)
}

func dumpCell(cell, style string, history []string, writes []writeBatch) {
	parts := strings.Split(cell, ",")
	if len(parts) != 5 {
		return
	}
	kv := strings.SplitN(parts[2], "=", 2)
	var from, to int64
	fmt.Sscan(parts[3], &from)
	fmt.Sscan(parts[4], &to)
	fmt.Printf("DUMP placement %s operations:\n", style)
	for _, h := range history {
		fmt.Println("DUMP   ", h)
	}
	for bi, w := range writes {
		for pi, p := range w.Points {
			if p.Metric != parts[0] || p.Tags[kv[0]] != kv[1] || p.Timestamp < from || p.Timestamp >= to {
				continue
			}
			for _, f := range p.Fields {
				if f.Name == parts[1] {
					fmt.Printf("DUMP batch %d point %d ts %d (slot %d) %s=%v\n", bi, pi, p.Timestamp, p.Timestamp/slotMs%360, f.Name, f.Value)
				}
			}
		}
	}
}

// cellWrites lists, in write order, the points behind one result cell ("<group>|<item>|<bucket ms>: ..."): write batch,
// series, storage slot and the fields the point carried.
func cellWrites(q *node.Query, exp *node.Expected, differing string, writes []writeBatch) []string {
	parts := strings.Split(strings.SplitN(differing, ": ", 2)[0], "|")
	if len(parts) != 3 || exp.Plan.IntervalMs <= 0 {
		return nil
	}
	var ts int64
	fmt.Sscan(parts[2], &ts)
	var out []string
	for bi, w := range writes {
		for _, p := range w.Points {
			if p.Metric != q.Metric || p.Timestamp < ts || p.Timestamp >= ts+exp.Plan.IntervalMs || node.GroupKeyOf(q.GroupBy, p.Tags) != parts[0] {
				continue
			}
			var fs []string
			for _, f := range p.Fields {
				fs = append(fs, fmt.Sprintf("%s=%v", f.Name, f.Value))
			}
			if p.Histogram != nil {
				fs = append(fs, "histogram")
			}
			out = append(out, fmt.Sprintf("batch %d series %s slot %d: %s", bi, p.SeriesKey(), p.Timestamp/slotMs, strings.Join(fs, " ")))
		}
	}
	return headStrings(out, 30)
}
