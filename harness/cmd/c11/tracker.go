package main

import (
	"fmt"
	"math"
	"os"
	"sort"
	"strings"

	"github.com/lindb/lindb/verif/internal/node"
)

// memTracker is used only to LABEL a mismatch that the naive reference has already established - never to accept one.
// It follows every written field value through the places lindb keeps it in (write buffer window / compress buffer of
// a memory database generation, a flushed table file, a compacted table file) and builds variations of the
// reference that reproduce four behaviours of the unchanged tree (two here, two in runner.droppedFamilies /
// droppedFileFamilies: a family whose table blocks - or whose memory database - answer "not found" for the queried
// fields/series loses the results of the other side too):
//
//   - window: writing a new slot inside the 15-slot window sets the window's end offset to that slot's offset even
//     when a later slot of the window already holds a value; cells beyond the end offset are not returned by a query
//     and are not written by a flush or a window compaction  => those contributions are removed;
//   - places: the values one (series, slot) has in different places (window, compress buffer, table files) are each
//     down-sampled on their own and then combined with the aggregate of the query function instead of the aggregate of
//     the field type (max(sum_field) over a slot whose sum is split over two places gives the larger part)
//     => every place becomes a pseudo series of its own (the reference combines series with the function's aggregate).
//
// If such a variation explains a result exactly, the mismatch gets the class of that defect.
type memTracker struct {
	shards  int
	batches [][]node.Point
	wins    map[string]*fieldWin // family|series|field -> window
	shardOf map[string]int       // series key -> shard index
	dropped map[string]bool      // contribution id -> lost for good
	place   map[string]string    // contribution id -> place id
	fam     map[string]famKey    // contribution id -> family
	gen     map[famKey]int
	meta    map[string]contribMeta
	// fields written per metric since the engine was (re)opened: what the in-memory metadata of the process knows
	sinceOpen map[string]map[string]bool
	// fieldIdx mirrors the per metric field index the in-memory metric store hands out (order of first appearance since
	// the engine was opened); memIdx is the set of field indexes that own a write buffer in the current memory
	// database of a family (a buffer is shared by all metrics using that index)
	fieldIdx map[string]map[string]int
	memIdx   map[famKey]map[int]bool
	// series written per metric and shard since the engine was opened (the shard level memory series index)
	memSeries map[string]map[string]bool
	// genFields: per family and generation, the fields each metric's flushed block will list (every field of the
	// metric whose index owns a write buffer in that memory database, whoever created the buffer)
	genFields map[famKey]map[int]map[string]map[string]bool
	// placeFields: the same per table file place
	placeFields map[string]map[string]map[string]bool
	// genSeries / placeSeries: a flushed block lists every series of the metric the shard's memory index knew at
	// flush time (whether or not it has data in that memory database)
	genSeries   map[famKey]map[int]map[string]map[string]bool
	placeSeries map[string]map[string]map[string]bool
	seq         int
	events      int // writes that shrank an end offset
	// ord: the position a contribution has among the values of its cell when lindb combines them (write order, until a
	// compaction re-orders the merged file, see compacted); level1: table file places produced by a compaction
	ord    map[string]int
	ordSeq int
	level1 map[string]bool
}

type contribMeta struct {
	metric string
	series string
	slot   int
	field  string
}

type famKey struct {
	family int64
	shard  int
}

type fieldWin struct {
	fk    famKey
	seq   int
	start int
	end   int
	cells map[int][]string // slot -> contribution ids
}

func newMemTracker(shards int) *memTracker {
	return &memTracker{shards: shards, wins: map[string]*fieldWin{}, shardOf: map[string]int{}, dropped: map[string]bool{},
		place: map[string]string{}, fam: map[string]famKey{}, gen: map[famKey]int{}, meta: map[string]contribMeta{},
		sinceOpen: map[string]map[string]bool{}, fieldIdx: map[string]map[string]int{}, memIdx: map[famKey]map[int]bool{},
		memSeries: map[string]map[string]bool{}, genFields: map[famKey]map[int]map[string]map[string]bool{},
		placeFields: map[string]map[string]map[string]bool{}, genSeries: map[famKey]map[int]map[string]map[string]bool{},
		placeSeries: map[string]map[string]map[string]bool{}, ord: map[string]int{}, level1: map[string]bool{}}
}

func contribID(batch, point int, field string) string {
	return fmt.Sprintf("%d.%d.%s", batch, point, field)
}

func (t *memTracker) newWin(fk famKey, slot int, id string) *fieldWin {
	t.seq++
	w := &fieldWin{fk: fk, seq: t.seq, start: slot, cells: map[int][]string{slot: {id}}}
	t.place[id] = fmt.Sprintf("m%d/w%d", t.gen[fk], w.seq)
	return w
}

// add records one Write call; order lists the point indices in the order lindb applied the rows.
func (t *memTracker) add(points []node.Point, order []int) {
	b := len(t.batches)
	t.batches = append(t.batches, points)
	if len(order) != len(points) {
		order = order[:0]
		for i := range points {
			order = append(order, i)
		}
	}
	for _, i := range order {
		p := &points[i]
		sk := p.SeriesKey()
		sh, ok := t.shardOf[sk]
		if !ok {
			sh, _ = node.ShardOf(*p, t.shards)
			t.shardOf[sk] = sh
		}
		family := p.Timestamp / hourMs * hourMs
		fk := famKey{family, sh}
		slot := int((p.Timestamp - family) / slotMs)
		var names, real []string
		for _, f := range p.Fields {
			names = append(names, f.Name)
			real = append(real, f.Name)
		}
		if p.Histogram != nil {
			names = append(names, "__hist")
			real = append(real, "HistogramMin", "HistogramMax", "HistogramSum", "HistogramCount")
			for bi, c := range p.Histogram.Counts {
				if c > 0 {
					ub := math.Inf(1)
					if bi < len(p.Histogram.Bounds) {
						ub = p.Histogram.Bounds[bi]
					}
					real = append(real, node.BucketFieldName(ub))
				}
			}
		}
		if t.fieldIdx[p.Metric] == nil {
			t.fieldIdx[p.Metric] = map[string]int{}
		}
		msKey := fmt.Sprintf("%s|%d", p.Metric, sh)
		if t.memSeries[msKey] == nil {
			t.memSeries[msKey] = map[string]bool{}
		}
		t.memSeries[msKey][sk] = true
		if t.memIdx[fk] == nil {
			t.memIdx[fk] = map[int]bool{}
		}
		for _, f := range real {
			if _, ok := t.fieldIdx[p.Metric][f]; !ok {
				t.fieldIdx[p.Metric][f] = len(t.fieldIdx[p.Metric])
			}
			t.memIdx[fk][t.fieldIdx[p.Metric][f]] = true
		}
		for _, name := range names {
			key := fmt.Sprintf("%d|%s|%s", family, sk, name)
			id := contribID(b, i, name)
			t.ordSeq++
			t.ord[id] = t.ordSeq
			t.fam[id] = fk
			t.meta[id] = contribMeta{p.Metric, sk, slot, name}
			if t.sinceOpen[p.Metric] == nil {
				t.sinceOpen[p.Metric] = map[string]bool{}
			}
			if name == "__hist" {
				for _, hf := range []string{"HistogramSum", "HistogramCount", "HistogramMin", "HistogramMax", "__bucket"} {
					t.sinceOpen[p.Metric][hf] = true
				}
			} else {
				t.sinceOpen[p.Metric][name] = true
			}
			w := t.wins[key]
			switch {
			case w == nil:
				t.wins[key] = t.newWin(fk, slot, id)
			case slot < w.start || slot > w.start+memdbWindow-1:
				t.settle(w, fmt.Sprintf("m%d/c", t.gen[fk]))
				t.wins[key] = t.newWin(fk, slot, id)
			default:
				if _, ok := w.cells[slot]; ok {
					w.cells[slot] = append(w.cells[slot], id)
				} else {
					// the end offset of the window only moves forward (before lindb commit 0b8d479 it followed every new
					// slot and cells behind it got lost; the "window" variation below is inert since then)
					if slot-w.start > w.end {
						w.end = slot - w.start
					}
					w.cells[slot] = []string{id}
				}
				t.place[id] = fmt.Sprintf("m%d/w%d", t.gen[fk], w.seq)
			}
		}
	}
}

// settle: the window is compacted into the compress buffer or flushed - cells beyond the end offset are gone, the
// others move to the given place.
func (t *memTracker) settle(w *fieldWin, to string) {
	for slot, ids := range w.cells {
		for _, id := range ids {
			if slot-w.start > w.end {
				t.dropped[id] = true
			} else {
				t.place[id] = to
			}
		}
	}
}

func matchFam(fk famKey, family int64, shard int) bool {
	return (family < 0 || fk.family == family) && (shard < 0 || fk.shard == shard)
}

// switchGen: the mutable memory databases of the given family (all families when family < 0) of a shard (all when
// shard < 0) become immutable: their windows are closed (cells beyond the end offset stay invisible and will not be
// written), the next write starts a new generation.
func (t *memTracker) switchGen(family int64, shard int) {
	touched := map[famKey]bool{}
	for key, w := range t.wins {
		if matchFam(w.fk, family, shard) {
			t.settle(w, fmt.Sprintf("m%d/w%d", t.gen[w.fk], w.seq))
			delete(t.wins, key)
			touched[w.fk] = true
		}
	}
	for id, pl := range t.place {
		fk := t.fam[id]
		if matchFam(fk, family, shard) && strings.HasPrefix(pl, fmt.Sprintf("m%d/", t.gen[fk])) {
			touched[fk] = true
		}
	}
	for fk := range touched {
		// what the blocks of this generation will list
		fields := map[string]map[string]bool{}
		for metric, idx := range t.fieldIdx {
			for f, i := range idx {
				if t.memIdx[fk][i] {
					if fields[metric] == nil {
						fields[metric] = map[string]bool{}
					}
					name := f
					if strings.HasPrefix(f, "__bucket_") {
						name = "__bucket"
					}
					fields[metric][name] = true
				}
			}
		}
		if t.genFields[fk] == nil {
			t.genFields[fk] = map[int]map[string]map[string]bool{}
		}
		t.genFields[fk][t.gen[fk]] = fields
		series := map[string]map[string]bool{}
		for key, set := range t.memSeries {
			i := strings.LastIndexByte(key, '|')
			if key[i+1:] != fmt.Sprint(fk.shard) {
				continue
			}
			series[key[:i]] = map[string]bool{}
			for sk := range set {
				series[key[:i]][sk] = true
			}
		}
		if t.genSeries[fk] == nil {
			t.genSeries[fk] = map[int]map[string]map[string]bool{}
		}
		t.genSeries[fk][t.gen[fk]] = series
		t.gen[fk]++
	}
	for fk := range t.memIdx {
		if matchFam(fk, family, shard) {
			delete(t.memIdx, fk)
		}
	}
}

// flushEnd: the immutable generations of the family are in one table file now (window and compress buffer merged).
func (t *memTracker) flushEnd(family int64, shard int) {
	files := map[famKey]string{}
	for id, pl := range t.place {
		fk := t.fam[id]
		if !matchFam(fk, family, shard) || !strings.HasPrefix(pl, "m") || t.dropped[id] {
			continue
		}
		var g int
		fmt.Sscanf(pl, "m%d/", &g)
		if g >= t.gen[fk] {
			continue // current (mutable) generation
		}
		if _, ok := files[fk]; !ok {
			t.seq++
			files[fk] = fmt.Sprintf("f%d", t.seq)
		}
		t.place[id] = files[fk]
		t.mergePlaceFields(files[fk], t.genFields[fk][g])
		t.mergeInto(t.placeSeries, files[fk], t.genSeries[fk][g])
	}
}

func (t *memTracker) mergeInto(dst map[string]map[string]map[string]bool, place string, src map[string]map[string]bool) {
	if dst[place] == nil {
		dst[place] = map[string]map[string]bool{}
	}
	for metric, set := range src {
		if dst[place][metric] == nil {
			dst[place][metric] = map[string]bool{}
		}
		for k := range set {
			dst[place][metric][k] = true
		}
	}
}

func (t *memTracker) mergePlaceFields(place string, fields map[string]map[string]bool) {
	if t.placeFields[place] == nil {
		t.placeFields[place] = map[string]map[string]bool{}
	}
	for metric, fs := range fields {
		if t.placeFields[place][metric] == nil {
			t.placeFields[place][metric] = map[string]bool{}
		}
		for f := range fs {
			t.placeFields[place][metric][f] = true
		}
	}
}

// flush = switchGen + flushEnd (a flush nobody observes from the inside).
func (t *memTracker) flush(family int64, shard int) {
	t.switchGen(family, shard)
	t.flushEnd(family, shard)
}

// compacted: the table files of a data family were merged into one. The merged block of a metric lists the fields of
// the blocks the metric had (a file without a block of the metric contributes nothing).
func (t *memTracker) compacted(family int64, shard int) {
	t.seq++
	to := fmt.Sprintf("f%d", t.seq)
	oldPlaceSeq := map[string]int{} // contribution -> number of the table file it sat in (flush order)
	for id, pl := range t.place {
		if strings.HasPrefix(pl, "f") {
			var n int
			fmt.Sscanf(pl, "f%d", &n)
			oldPlaceSeq[id] = n
		}
	}
	has := map[string]map[string]bool{} // old place -> metrics with data there
	for id, pl := range t.place {
		fk := t.fam[id]
		if fk.family == family && fk.shard == shard && strings.HasPrefix(pl, "f") && !t.dropped[id] {
			if has[pl] == nil {
				has[pl] = map[string]bool{}
			}
			has[pl][t.meta[id].metric] = true
		}
	}
	for pl, metrics := range has {
		fields := map[string]map[string]bool{}
		for metric := range metrics {
			fields[metric] = t.placeFields[pl][metric]
		}
		t.mergePlaceFields(to, fields)
		series := map[string]map[string]bool{}
		for metric := range metrics {
			series[metric] = t.placeSeries[pl][metric]
		}
		t.mergeInto(t.placeSeries, to, series)
	}
	// kv/compact_job.go makeInputIterator lists the level 0 files (file number order) before the overlapping level 1
	// file and the merger applies the values of one key in that order: inside the merged file the values of the old
	// level 1 file count as the youngest
	var low, up []string
	for id, pl := range t.place {
		fk := t.fam[id]
		if fk.family == family && fk.shard == shard && strings.HasPrefix(pl, "f") {
			if t.level1[pl] {
				up = append(up, id)
			} else {
				low = append(low, id)
			}
			t.place[id] = to
		}
	}
	byOrd := func(ids []string, placeOf map[string]int) {
		sort.Slice(ids, func(i, j int) bool {
			if placeOf[ids[i]] != placeOf[ids[j]] {
				return placeOf[ids[i]] < placeOf[ids[j]]
			}
			return t.ord[ids[i]] < t.ord[ids[j]]
		})
	}
	byOrd(low, oldPlaceSeq)
	byOrd(up, nil)
	for _, id := range append(low, up...) {
		t.ordSeq++
		t.ord[id] = t.ordSeq
	}
	t.level1[to] = true
}

func (t *memTracker) hidden() map[string]bool {
	hidden := map[string]bool{}
	for id := range t.dropped {
		hidden[id] = true
	}
	for _, w := range t.wins {
		for slot, ids := range w.cells {
			if slot-w.start > w.end {
				for _, id := range ids {
					hidden[id] = true
				}
			}
		}
	}
	return hidden
}

// altModel builds a variation of the reference: window = without the contributions behind an end offset, places = one
// pseudo series per place. It returns nil when the variation equals the reference.
// block is what one table file holds of one metric in one family, as far as the tracker followed it.
type block struct {
	lo, hi int
	fields map[string]bool
	series map[string]bool
}

// fileBlocks returns, per family, the table blocks of the metric.
func (t *memTracker) fileBlocks(metric string) map[famKey]map[string]*block {
	out := map[famKey]map[string]*block{}
	for id, pl := range t.place {
		if !strings.HasPrefix(pl, "f") || t.dropped[id] {
			continue
		}
		mt := t.meta[id]
		if mt.metric != metric {
			continue
		}
		fk := t.fam[id]
		if out[fk] == nil {
			out[fk] = map[string]*block{}
		}
		b := out[fk][pl]
		if b == nil {
			b = &block{lo: mt.slot, hi: mt.slot, fields: map[string]bool{}, series: map[string]bool{}}
			out[fk][pl] = b
		}
		if mt.slot < b.lo {
			b.lo = mt.slot
		}
		if mt.slot > b.hi {
			b.hi = mt.slot
		}
		b.series[mt.series] = true
		for sk := range t.placeSeries[pl][metric] {
			b.series[sk] = true
		}
		for f := range t.placeFields[pl][metric] {
			b.fields[f] = true
		}
		if mt.field == "__hist" {
			for _, hf := range []string{"HistogramSum", "HistogramCount", "HistogramMin", "HistogramMax", "__bucket"} {
				b.fields[hf] = true
			}
		} else {
			b.fields[mt.field] = true
		}
	}
	return out
}

// reopened: the process level in-memory metadata starts empty again.
func (t *memTracker) reopened() {
	t.sinceOpen = map[string]map[string]bool{}
	t.fieldIdx = map[string]map[string]int{}
	t.memIdx = map[famKey]map[int]bool{}
	t.memSeries = map[string]map[string]bool{}
}

// memFamiliesWithoutFields lists the families that hold unflushed data of the metric in slots [lo,hi] of the family
// while none of the given fields has been written for the metric since the engine was opened.
func (t *memTracker) memFamiliesWithoutFields(metric string, fields []string, selected map[string]bool, slotsOf func(fk famKey) (lo, hi int, ok bool)) map[famKey]bool {
	out := map[famKey]bool{}
	type rng struct{ lo, hi int }
	mem := map[famKey]*rng{}
	for id, pl := range t.place {
		if !strings.HasPrefix(pl, "m") || t.meta[id].metric != metric || t.dropped[id] {
			continue
		}
		fk := t.fam[id]
		r := mem[fk]
		if r == nil {
			r = &rng{t.meta[id].slot, t.meta[id].slot}
			mem[fk] = r
		}
		if t.meta[id].slot < r.lo {
			r.lo = t.meta[id].slot
		}
		if t.meta[id].slot > r.hi {
			r.hi = t.meta[id].slot
		}
	}
	for fk, r := range mem {
		lo, hi, ok := slotsOf(fk)
		if !ok || r.lo > hi || lo > r.hi {
			continue
		}
		// does any queried field own a write buffer in the current memory database of the family?
		has := false
		for _, f := range fields {
			if idx, ok := t.fieldIdx[metric][f]; ok && t.memIdx[fk][idx] {
				has = true
			}
		}
		// is any selected series in the shard's memory series index of the metric?
		hasSeries := false
		for sk := range t.memSeries[fmt.Sprintf("%s|%d", metric, fk.shard)] {
			if selected[sk] {
				hasSeries = true
			}
		}
		if os.Getenv("C11_VERBOSE") != "" {
			fmt.Println("        filedrop?", metric, fields, "family", fk, "mem slots", r.lo, r.hi, "query slots", lo, hi, "buffer", has, "series", hasSeries, "fieldIdx", t.fieldIdx[metric], "memIdx", t.memIdx[fk])
		}
		if !has || !hasSeries {
			out[fk] = true
		}
	}
	return out
}

// altModelFull is altModel plus dropFile: families whose table files a query does not read.
func (t *memTracker) altModelFull(window, places bool, dropMem, dropFile map[famKey]bool) *node.Model {
	extra := map[string]bool{}
	for id, pl := range t.place {
		if dropFile[t.fam[id]] && strings.HasPrefix(pl, "f") {
			extra[id] = true
		}
	}
	return t.altModelHidden(extra, places, dropMem, window)
}

func (t *memTracker) altModel(window, places bool, dropMem map[famKey]bool) *node.Model {
	return t.altModelHidden(nil, places, dropMem, window)
}

func (t *memTracker) altModelHidden(extra map[string]bool, places bool, dropMem map[famKey]bool, windowOpt ...bool) *node.Model {
	window := len(windowOpt) > 0 && windowOpt[0]
	hidden := map[string]bool{}
	if window {
		hidden = t.hidden()
	}
	for id := range extra {
		hidden[id] = true
	}
	// dropMem: families whose memory databases a query does not see (see runner.droppedFamilies)
	for id, pl := range t.place {
		if dropMem[t.fam[id]] && strings.HasPrefix(pl, "m") {
			hidden[id] = true
		}
	}
	if !places && len(hidden) == 0 {
		return nil
	}
	m := node.NewModel(slotMs)
	for b, points := range t.batches {
		var out []node.Point
		for i, p := range points {
			if !places {
				cp := p
				cp.Fields = nil
				for _, f := range p.Fields {
					if !hidden[contribID(b, i, f.Name)] {
						cp.Fields = append(cp.Fields, f)
					}
				}
				if p.Histogram != nil && hidden[contribID(b, i, "__hist")] {
					cp.Histogram = nil
				}
				if len(cp.Fields) > 0 || cp.Histogram != nil {
					out = append(out, cp)
				}
				continue
			}
			withPlace := func(id string) map[string]string {
				tags := map[string]string{"zz_place": t.place[id]}
				for k, v := range p.Tags {
					tags[k] = v
				}
				return tags
			}
			for _, f := range p.Fields {
				id := contribID(b, i, f.Name)
				if hidden[id] {
					continue
				}
				out = append(out, node.Point{Namespace: p.Namespace, Metric: p.Metric, Tags: withPlace(id), Timestamp: p.Timestamp, Fields: []node.Field{f}})
			}
			if p.Histogram != nil && !hidden[contribID(b, i, "__hist")] {
				out = append(out, node.Point{Namespace: p.Namespace, Metric: p.Metric, Tags: withPlace(contribID(b, i, "__hist")), Timestamp: p.Timestamp, Histogram: p.Histogram})
			}
		}
		m.Add(out) // keeps the batch numbering of the original
	}
	full := node.NewModel(slotMs)
	for _, points := range t.batches {
		full.Add(points)
	}
	m.InheritSchema(full)
	return m
}

// snapshotImmutable returns the places (window / compress buffer) of the contributions held by the not yet flushed
// older generations of a family: what an immutable memory database still holds while its flush is in progress.
func (t *memTracker) snapshotImmutable(family int64, shard int) map[string]string {
	out := map[string]string{}
	for id, pl := range t.place {
		fk := t.fam[id]
		if !matchFam(fk, family, shard) || !strings.HasPrefix(pl, "m") || t.dropped[id] {
			continue
		}
		var g int
		fmt.Sscanf(pl, "m%d/", &g)
		if g < t.gen[fk] {
			out[id] = pl
		}
	}
	return out
}

// altModelDoubleRead: every place is a pseudo series of its own (see altModel) and the contributions in still are
// read a second time from the places they had in the still attached immutable memory database.
func (t *memTracker) altModelDoubleRead(still map[string]string) *node.Model {
	m := t.altModel(false, true, nil)
	if m == nil || len(still) == 0 {
		return nil
	}
	var extra []node.Point
	for b, points := range t.batches {
		for i, p := range points {
			tagsFor := func(id string) map[string]string {
				tags := map[string]string{"zz_place": "attached/" + still[id]}
				for k, v := range p.Tags {
					tags[k] = v
				}
				return tags
			}
			for _, f := range p.Fields {
				if id := contribID(b, i, f.Name); still[id] != "" {
					extra = append(extra, node.Point{Namespace: p.Namespace, Metric: p.Metric, Tags: tagsFor(id), Timestamp: p.Timestamp, Fields: []node.Field{f}})
				}
			}
			if id := contribID(b, i, "__hist"); p.Histogram != nil && still[id] != "" {
				extra = append(extra, node.Point{Namespace: p.Namespace, Metric: p.Metric, Tags: tagsFor(id), Timestamp: p.Timestamp, Histogram: p.Histogram})
			}
		}
	}
	m.Add(extra)
	return m
}

// altModelLevelOrder: the reference with the arrival order lindb's kv layer gives the values of one cell: at query time
// version.FindFiles lists level 0 files (file number order) BEFORE level 1 files although a level 1 file holds the older
// data, then come the immutable and the mutable memory database; a compaction merges in the same order (see compacted).
// Every contribution is added as a Write call of its own in that order (only first/last fields depend on it).
// nil if no family holds a level 1 file (the order is then the write order).
func (t *memTracker) altModelLevelOrder(places bool) *node.Model {
	if len(t.level1) == 0 {
		return nil
	}
	type item struct {
		id            string
		b, i          int
		rank, pl, ord int
	}
	var items []item
	for b, points := range t.batches {
		for i, p := range points {
			ids := []string{}
			for _, f := range p.Fields {
				ids = append(ids, contribID(b, i, f.Name))
			}
			if p.Histogram != nil {
				ids = append(ids, contribID(b, i, "__hist"))
			}
			for _, id := range ids {
				if t.dropped[id] {
					continue
				}
				pl := t.place[id]
				it := item{id: id, b: b, i: i, ord: t.ord[id]}
				switch {
				case strings.HasPrefix(pl, "f") && t.level1[pl]:
					it.rank = 1
				case strings.HasPrefix(pl, "f"):
					fmt.Sscanf(pl, "f%d", &it.pl)
				default:
					var g int
					fmt.Sscanf(pl, "m%d/", &g)
					it.rank, it.pl = 2, g
				}
				items = append(items, it)
			}
		}
	}
	sort.Slice(items, func(x, y int) bool {
		a, b := items[x], items[y]
		if a.rank != b.rank {
			return a.rank < b.rank
		}
		if a.pl != b.pl {
			return a.pl < b.pl
		}
		return a.ord < b.ord
	})
	m := node.NewModel(slotMs)
	for _, it := range items {
		p := t.batches[it.b][it.i]
		tags := p.Tags
		if places {
			tags = map[string]string{"zz_place": t.place[it.id]}
			for k, v := range p.Tags {
				tags[k] = v
			}
		}
		np := node.Point{Namespace: p.Namespace, Metric: p.Metric, Tags: tags, Timestamp: p.Timestamp}
		if strings.HasSuffix(it.id, ".__hist") {
			np.Histogram = p.Histogram
		} else {
			for _, f := range p.Fields {
				if contribID(it.b, it.i, f.Name) == it.id {
					np.Fields = []node.Field{f}
				}
			}
		}
		m.Add([]node.Point{np})
	}
	full := node.NewModel(slotMs)
	for _, points := range t.batches {
		full.Add(points)
	}
	m.InheritSchema(full)
	return m
}
