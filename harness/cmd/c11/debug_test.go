package main

import (
	"fmt"
	"math/rand"
	"os"
	"strconv"
	"strings"
	"testing"

	"github.com/lindb/lindb/verif/internal/node"
)

// TestDebugHist replays history DBG_IDX under placement DBG_STYLE up to (and including) the op number DBG_OPS and
// prints the state; DBG_SQL restricts the checks to queries containing the substring.
func TestDebugHist(t *testing.T) {
	if os.Getenv("DBG_IDX") == "" {
		t.Skip()
	}
	idx, _ := strconv.Atoi(os.Getenv("DBG_IDX"))
	seed := int64(1)
	if s := os.Getenv("VERIF_SEED"); s != "" {
		seed, _ = strconv.ParseInt(s, 10, 64)
	}
	style := os.Getenv("DBG_STYLE")
	maxOps, _ := strconv.Atoi(os.Getenv("DBG_OPS"))
	rnd := rand.New(rand.NewSource(seed*7919 + int64(idx)*104729 + 17))
	sc := genSchema(rnd, idx%3 != 2)
	nb := 14 + rnd.Intn(22)
	writes, _ := genWrites(rnd, sc, nb)
	prnd := rand.New(rand.NewSource(seed*31 + int64(idx)*1009 + int64(len(style))))
	ops := placement(prnd, writes, style)
	dir, _ := os.MkdirTemp("", "c11dbg")
	defer os.RemoveAll(dir)
	res := &caseResult{}
	r, err := newRunner(res, dir, sc, "dbg", style, prnd, nil)
	if err != nil {
		t.Fatal(err)
	}
	defer r.close()
	for i, o := range ops {
		if maxOps > 0 && i >= maxOps {
			break
		}
		if o.Kind == "write" && os.Getenv("DBG_POINTS") != "" {
			for j, p := range writes[o.Batch].Points {
				fmt.Println("   P", o.Batch, j, p.Metric, p.Tags, (p.Timestamp-sc.Base)/slotMs, p.Fields, p.Histogram != nil)
			}
		}
		if err := r.exec(o, writes); err != nil {
			fmt.Println("exec failed", err)
		}
	}
	for _, raw := range strings.Split(os.Getenv("DBG_RAWSQL"), ";") {
		if raw == "" {
			continue
		}
		qr := r.c.Query(raw)
		fmt.Println(raw, qr.Err, qr.Stuck)
		fmt.Println(node.Canonical(qr.ResultSet, qr.Statement.GroupBy))
	}
	for _, line := range strings.Split(os.Getenv("DBG_Q"), ";") {
		// metric|field|startSlot|endSlot|intervalSec|groupby
		parts := strings.Split(line, "|")
		if len(parts) < 4 {
			continue
		}
		a, _ := strconv.Atoi(parts[2])
		b, _ := strconv.Atoi(parts[3])
		q := &node.Query{Metric: parts[0], Items: []node.SelectItem{{Expr: node.FieldRef{Name: parts[1]}}}, Start: sc.Base + int64(a)*slotMs, End: sc.Base + int64(b)*slotMs}
		if len(parts) > 4 {
			iv, _ := strconv.Atoi(parts[4])
			q.IntervalMs = int64(iv) * 1000
		}
		if len(parts) > 5 && parts[5] != "" {
			q.GroupBy = strings.Split(parts[5], ",")
		}
		qr, _, diffs, status := r.run(q, r.m)
		fmt.Println(q.SQL(), status, qr.Err)
		for _, d := range headDiffs(diffs, 10) {
			fmt.Println("   ", d)
		}
		fmt.Println(node.Canonical(qr.ResultSet, q.GroupBy))
		fmt.Printf("state %+v\n", r.state(q))
	}
}
