package main

import (
	"fmt"
	"math/rand"

	"github.com/lindb/lindb/verif/internal/node"
)

// The "big" case: one memory database holding more than 65 536 series of one metric, so that the series ids fill more
// than one roaring container. shardScanStage creates one grouping / data load stage per container and the Scanner pool
// runs them in parallel; everything they share inside the memory database's filter result set has to be safe for that.
// The same data is then flushed and read from the table file (one loader per container as well, but no shared state).
func runBigCase(idx int, dir, tier string, seed int64) *caseResult {
	res := &caseResult{Kind: "big", Index: idx}
	rnd := rand.New(rand.NewSource(seed*3571 + int64(idx)*29 + 1))
	sc := &schema{Shards: 1, Hours: 3, Base: baseTime(3)}
	r, err := newRunner(res, dir, sc, fmt.Sprintf("big-%d", idx), "big", rnd, nil)
	if err != nil {
		res.Notes = append(res.Notes, "open failed: "+err.Error())
		return res
	}
	defer r.close()
	r.track = nil // the labelling tracker is not used here
	n := 65536 + 2400 + rnd.Intn(6000)
	// a host value selects about as many series of the first container (series ids are handed out in creation order)
	// as of the second one: their two data load stages then take the same time
	per := 300 + rnd.Intn(500)
	hosts0, hosts := 65535/per, (n-65535)/per
	slot0 := 30 + rnd.Intn(280)
	var batch []node.Point
	flushBatch := func() bool {
		if len(batch) == 0 {
			return true
		}
		if _, err := r.n.Write(batch); err != nil {
			res.Notes = append(res.Notes, "write failed: "+err.Error())
			return false
		}
		r.m.Add(batch)
		res.count("points_written", len(batch))
		batch = nil
		return true
	}
	// two series at both ends of the hour: the metric's slot range in the memory database spans the whole family, every
	// series load walks all of it (the time a load spends on one series' buffer is what the stages overlap in)
	for i, slot := range []int{0, 359} {
		batch = append(batch, node.Point{Metric: "big", Timestamp: sc.Base + int64(slot)*slotMs + 1000,
			Tags:   map[string]string{"uid": fmt.Sprintf("edge%d", i), "host": "edge"},
			Fields: []node.Field{{Name: "f", Type: node.Sum, Value: 0.5}}})
	}
	hostOf := func(i int) int {
		if i+2 < 65535 { // the two edge series were created first
			return i % hosts0
		}
		return i % hosts
	}
	for i := 0; i < n; i++ {
		batch = append(batch, node.Point{Metric: "big", Timestamp: sc.Base + int64(slot0+i%12)*slotMs + 1000,
			Tags:   map[string]string{"uid": fmt.Sprintf("u%d", i), "host": fmt.Sprintf("h%d", hostOf(i))},
			Fields: []node.Field{{Name: "f", Type: node.Sum, Value: float64(i + 1)}}})
		if len(batch) == 4000 && !flushBatch() {
			return res
		}
	}
	if !flushBatch() {
		return res
	}
	res.count("big_series_in_one_memory_database", n)
	nq := 24
	if tier == "thorough" {
		nq = 80
	}
	queries := make([]*node.Query, nq)
	for i := range queries {
		queries[i] = &node.Query{Metric: "big", Items: []node.SelectItem{{Expr: node.FieldRef{Name: "f"}}},
			Start: sc.Base, End: sc.Base + hourMs - 1000, GroupBy: []string{"uid"}}
		if i%10 != 9 { // every tenth query reads all series
			queries[i].Cond = node.TagCmp{Key: "host", Op: "=", Values: []string{fmt.Sprintf("h%d", rnd.Intn(hosts))}}
		}
	}
	type bad struct {
		q     *node.Query
		diffs []node.Diff
		st    string
		err   error
	}
	var inMemory []bad
	wrong := map[int]bool{}
	for i, q := range queries {
		qr, exp, diffs, status := r.run(q, r.m)
		res.Evals++
		res.count("queries", 1)
		res.count("big_queries_over_2_series_containers_in_memory", 1)
		res.Nontrivial = append(res.Nontrivial, hashKey("big", idx, i, "mem"))
		values := 0
		for _, s := range exp.Series {
			for _, it := range s.Items {
				values += len(it)
			}
		}
		res.count("expected_values", values)
		if status != "" || len(diffs) > 0 {
			inMemory = append(inMemory, bad{q, diffs, status, qr.Err})
			wrong[i] = true
		}
	}
	if err := r.n.FlushAll(); err != nil {
		res.Notes = append(res.Notes, "flush failed: "+err.Error())
		return res
	}
	fileOK := true
	for i, q := range queries {
		if i >= 12 && !wrong[i] {
			continue // the table file is read by the first queries and by those that were wrong in memory
		}
		qr, _, diffs, status := r.run(q, r.m)
		res.Evals++
		res.count("queries", 1)
		res.Nontrivial = append(res.Nontrivial, hashKey("big", idx, i, "file"))
		if status != "" || len(diffs) > 0 {
			fileOK = false
			first := ""
			if len(diffs) > 0 {
				first = diffs[0].String()
			}
			res.violation("C11/result/big-metric/table-file", fmt.Sprintf("big-%d: %d series of one metric flushed into one table file: %s -> %s %v %s (%d differences)",
				idx, n, q.SQL(), status, qr.Err, first, len(diffs)), map[string]interface{}{"sql": q.SQL(), "series": n, "diffs": headDiffs(diffs, 12)})
		}
	}
	res.count("big_queries_wrong_in_memory", len(inMemory))
	for i, b := range inMemory {
		if i >= 4 {
			break // one witness per query, a few are enough
		}
		first := ""
		if len(b.diffs) > 0 {
			first = b.diffs[0].String()
		}
		class := "C11/result/big-metric/memory-database"
		if b.st == "" && fileOK {
			// wrong values of other series while the data sat in the memory database, right once read from the file
			class = "C11/memdb/parallel-series-container-loads-share-field-entry"
		}
		res.violation(class, fmt.Sprintf("big-%d: %d series of one metric in one memory database (2 series id containers, one data load stage each, run in parallel): %s -> %s %v %s (%d differences; %d of %d queries wrong; the same queries over the flushed data %s)",
			idx, n, b.q.SQL(), b.st, b.err, first, len(b.diffs), len(inMemory), len(queries), map[bool]string{true: "are right", false: "differ too"}[fileOK]),
			map[string]interface{}{"sql": b.q.SQL(), "series": n, "diffs": headDiffs(b.diffs, 12)})
	}
	return res
}
