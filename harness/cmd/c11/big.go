package main

import (
	"fmt"
	"math/rand"

	"github.com/lindb/lindb/verif/internal/node"
)

// The "big" case: one memory database holding more than 65 536 series of one metric, so that the series ids fill more
// than one roaring container. shardScanStage creates one grouping / data load stage per container and the Scanner pool
// runs them in parallel; everything they share inside the memory database's filter result set has to be safe for that.
// The same data is then flushed and read from the table file (one loader per container as well, but no shared state).
func runBigCase(idx int, dir, tier string, seed int64) *caseResult {
	res := &caseResult{Kind: "big", Index: idx}
	rnd := rand.New(rand.NewSource(seed*3571 + int64(idx)*29 + 1))
	sc := &schema{Shards: 1, Hours: 3, Base: baseTime(3)}
	r, err := newRunner(res, dir, sc, fmt.Sprintf("big-%d", idx), "big", rnd, nil)
	if err != nil {
		res.Notes = append(res.Notes, "open failed: "+err.Error())
		return res
	}
	defer r.close()
	r.track = nil // the labelling tracker is not used here
	n := 65536 + 600 + rnd.Intn(8000)
	hosts := 40
	slot0 := 30 + rnd.Intn(200)
	var batch []node.Point
	flushBatch := func() bool {
		if len(batch) == 0 {
			return true
		}
		if _, err := r.n.Write(batch); err != nil {
			res.Notes = append(res.Notes, "write failed: "+err.Error())
			return false
		}
		r.m.Add(batch)
		res.count("points_written", len(batch))
		batch = nil
		return true
	}
	for i := 0; i < n; i++ {
		batch = append(batch, node.Point{Metric: "big", Timestamp: sc.Base + int64(slot0+i%12)*slotMs + 1000,
			Tags:   map[string]string{"uid": fmt.Sprintf("u%d", i), "host": fmt.Sprintf("h%d", i%hosts)},
			Fields: []node.Field{{Name: "f", Type: node.Sum, Value: float64(i + 1)}}})
		if len(batch) == 4000 && !flushBatch() {
			return res
		}
	}
	if !flushBatch() {
		return res
	}
	res.count("big_series_in_one_memory_database", n)
	nq := 30
	if tier == "thorough" {
		nq = 100
	}
	queries := make([]*node.Query, nq)
	for i := range queries {
		queries[i] = &node.Query{Metric: "big", Items: []node.SelectItem{{Expr: node.FieldRef{Name: "f"}}},
			Start: sc.Base, End: sc.Base + hourMs - 1000, GroupBy: []string{"uid"}}
		if i%10 != 9 { // every tenth query reads all series
			queries[i].Cond = node.TagCmp{Key: "host", Op: "=", Values: []string{fmt.Sprintf("h%d", rnd.Intn(hosts))}}
		}
	}
	type bad struct {
		q     *node.Query
		diffs []node.Diff
		st    string
		err   error
	}
	var inMemory []bad
	for i, q := range queries {
		qr, exp, diffs, status := r.run(q, r.m)
		res.Evals++
		res.count("queries", 1)
		res.count("big_queries_over_2_series_containers_in_memory", 1)
		res.Nontrivial = append(res.Nontrivial, hashKey("big", idx, i, "mem"))
		values := 0
		for _, s := range exp.Series {
			for _, it := range s.Items {
				values += len(it)
			}
		}
		res.count("expected_values", values)
		if status != "" || len(diffs) > 0 {
			inMemory = append(inMemory, bad{q, diffs, status, qr.Err})
		}
	}
	if err := r.n.FlushAll(); err != nil {
		res.Notes = append(res.Notes, "flush failed: "+err.Error())
		return res
	}
	fileOK := true
	for i, q := range queries {
		qr, _, diffs, status := r.run(q, r.m)
		res.Evals++
		res.count("queries", 1)
		res.Nontrivial = append(res.Nontrivial, hashKey("big", idx, i, "file"))
		if status != "" || len(diffs) > 0 {
			fileOK = false
			first := ""
			if len(diffs) > 0 {
				first = diffs[0].String()
			}
			res.violation("C11/result/big-metric/table-file", fmt.Sprintf("big-%d: %d series of one metric flushed into one table file: %s -> %s %v %s (%d differences)",
				idx, n, q.SQL(), status, qr.Err, first, len(diffs)), map[string]interface{}{"sql": q.SQL(), "series": n, "diffs": headDiffs(diffs, 12)})
		}
	}
	for _, b := range inMemory {
		first := ""
		if len(b.diffs) > 0 {
			first = b.diffs[0].String()
		}
		class := "C11/result/big-metric/memory-database"
		if b.st == "" && fileOK {
			// wrong values of other series while the data sat in the memory database, right once read from the file
			class = "C11/memdb/parallel-series-container-loads-share-field-entry"
		}
		res.violation(class, fmt.Sprintf("big-%d: %d series of one metric in one memory database (2 series id containers, one data load stage each, run in parallel): %s -> %s %v %s (%d differences; the same queries over the flushed data %s)",
			idx, n, b.q.SQL(), b.st, b.err, first, len(b.diffs), map[bool]string{true: "are right", false: "differ too"}[fileOK]),
			map[string]interface{}{"sql": b.q.SQL(), "series": n, "diffs": headDiffs(b.diffs, 12)})
	}
	return res
}
