package main

import (
	"fmt"
	"math/rand"
	"os"
	"sort"
	"strconv"
	"time"

	"github.com/lindb/lindb/verif/internal/node"
)

const (
	slotMs      = int64(10_000)
	hourMs      = int64(3600_000)
	slotsPerHr  = 360
	memdbWindow = 15 // slots per memdb write buffer page: (pageSize 128 - header 8) / 8
)

// ---------------------------------------------------------------------------------------------
// schema

type fieldSpec struct {
	Name string         `json:"name"`
	Type node.FieldType `json:"type"`
}

type metricSpec struct {
	Name   string              `json:"name"`
	Series []map[string]string `json:"series"`
	Fields []fieldSpec         `json:"fields"`
	Bounds []float64           `json:"bounds,omitempty"` // histogram metric when non-empty
}

type schema struct {
	Metrics []metricSpec `json:"metrics"`
	Shards  int          `json:"shards"`
	Base    int64        `json:"base"`  // start of the first of the data hours
	Hours   int          `json:"hours"` // data hours (families per shard)
}

// baseTime returns the start of the first data hour: the data hours end at least one hour before the current hour,
// the whole workload lies in the past and far from any clock driven edge (write window is 1 day, retention 30 days).
func baseTime(hours int) int64 {
	if v := os.Getenv("C11_BASE"); v != "" { // debugging: replay a case with the base hour of an earlier run (unix ms)
		if b, err := strconv.ParseInt(v, 10, 64); err == nil {
			return b
		}
	}
	now := time.Now().UnixMilli()
	cur := now - now%hourMs
	return cur - int64(hours+1)*hourMs
}

var (
	hostPool = []string{"h1", "h2", "h3", "h4", "h5"}
	dcPool   = []string{"east", "west"}
	appPool  = []string{"api", "db"}
)

func genSchema(rnd *rand.Rand, withHist bool) *schema {
	sc := &schema{Shards: 1, Hours: 3}
	if rnd.Intn(4) == 0 {
		sc.Shards = 2
	}
	sc.Base = baseTime(sc.Hours)
	nm := 1 + rnd.Intn(2)
	allTypes := []node.FieldType{node.Sum, node.Min, node.Max, node.Last, node.First}
	for i := 0; i < nm; i++ {
		ms := metricSpec{Name: fmt.Sprintf("cpu%d", i)}
		// fields: always two sum fields (multi-field arithmetic is exact on them), plus 1-4 of the other types
		ms.Fields = append(ms.Fields, fieldSpec{"s1", node.Sum}, fieldSpec{"s2", node.Sum})
		extra := 1 + rnd.Intn(4)
		perm := rnd.Perm(len(allTypes))
		for j := 0; j < extra; j++ {
			t := allTypes[perm[j]]
			ms.Fields = append(ms.Fields, fieldSpec{fmt.Sprintf("%s_%d", t.String()[:2], j), t})
		}
		rnd.Shuffle(len(ms.Fields), func(a, b int) { ms.Fields[a], ms.Fields[b] = ms.Fields[b], ms.Fields[a] })
		ms.Series = genSeries(rnd, 2+rnd.Intn(5))
		sc.Metrics = append(sc.Metrics, ms)
	}
	if withHist {
		ms := metricSpec{Name: "lat", Bounds: []float64{1, 5, 10, 50}}
		if rnd.Intn(2) == 0 {
			ms.Bounds = []float64{0.5, 2, 8}
		}
		if rnd.Intn(2) == 0 {
			ms.Fields = append(ms.Fields, fieldSpec{"calls", node.Sum})
		}
		ms.Series = genSeries(rnd, 1+rnd.Intn(3))
		sc.Metrics = append(sc.Metrics, ms)
	}
	return sc
}

func genSeries(rnd *rand.Rand, n int) []map[string]string {
	seen := map[string]bool{}
	var rs []map[string]string
	for len(rs) < n {
		tags := map[string]string{"host": hostPool[rnd.Intn(len(hostPool))]}
		if rnd.Intn(5) != 0 {
			tags["dc"] = dcPool[rnd.Intn(len(dcPool))]
		}
		if rnd.Intn(3) == 0 {
			tags["app"] = appPool[rnd.Intn(len(appPool))]
		}
		p := node.Point{Metric: "x", Tags: tags}
		if seen[p.SeriesKey()] {
			continue
		}
		seen[p.SeriesKey()] = true
		rs = append(rs, tags)
	}
	return rs
}

// ---------------------------------------------------------------------------------------------
// writes

type writeBatch struct {
	Epoch  int          `json:"epoch"`
	Points []node.Point `json:"points"`
	Kinds  []string     `json:"kinds"` // timestamp pattern of every point
}

type writeGen struct {
	rnd    *rand.Rand
	sc     *schema
	cursor map[string]int // series key -> last slot (0..Hours*360-1)
	// tracker of the memdb write window per (series, field): mirrors the definition "a page holds 15 consecutive slots
	// starting at the first slot written after a reset" to count how often a write leaves the window (coverage only)
	winStart map[string]int
	used     map[string]bool // series|slot written before (duplicate detection)
	stats    map[string]int
	// monotonic: every series only repeats its slot or moves forward (used where the harness cannot know the memory
	// database generation a write lands in)
	monotonic bool
	// allFields: every point carries every field of its metric (no table block or memory database lacks a field)
	allFields bool
}

func newWriteGen(rnd *rand.Rand, sc *schema) *writeGen {
	return &writeGen{rnd: rnd, sc: sc, cursor: map[string]int{}, winStart: map[string]int{}, used: map[string]bool{}, stats: map[string]int{}}
}

func smallInt(rnd *rand.Rand, allowNeg bool) float64 {
	if allowNeg && rnd.Intn(5) == 0 {
		return -float64(1 + rnd.Intn(5))
	}
	return float64(rnd.Intn(10))
}

// epochFields chooses, per metric, the fields written during one epoch: sometimes all, sometimes a subset, sometimes
// exactly one field (a flush of such an epoch leaves a table block that carries a single field).
func (g *writeGen) epochFields() map[string][]fieldSpec {
	rs := map[string][]fieldSpec{}
	for _, ms := range g.sc.Metrics {
		if len(ms.Fields) == 0 {
			continue
		}
		var fs []fieldSpec
		choice := g.rnd.Intn(4)
		if g.allFields {
			choice = 0
		}
		switch choice {
		case 0:
			fs = append(fs, ms.Fields...)
		case 1:
			fs = append(fs, ms.Fields[g.rnd.Intn(len(ms.Fields))])
		default:
			for _, f := range ms.Fields {
				if g.rnd.Intn(2) == 0 {
					fs = append(fs, f)
				}
			}
			if len(fs) == 0 {
				fs = append(fs, ms.Fields[g.rnd.Intn(len(ms.Fields))])
			}
		}
		rs[ms.Name] = fs
	}
	return rs
}

func (g *writeGen) nextSlot(key string) (int, string) {
	total := g.sc.Hours * slotsPerHr
	cur, ok := g.cursor[key]
	if !ok {
		cur = 6 + g.rnd.Intn(slotsPerHr-60)
		g.cursor[key] = cur
		return cur, "first"
	}
	var slot int
	var kind string
	if g.monotonic {
		switch r := g.rnd.Intn(100); {
		case r < 30:
			slot, kind = cur, "dup"
		case r < 75:
			slot, kind = cur+1+g.rnd.Intn(3), "advance"
		default:
			slot, kind = cur+memdbWindow+g.rnd.Intn(30), "jump"
		}
		if slot >= total {
			slot, kind = cur, "dup"
		}
		g.cursor[key] = slot
		return slot, kind
	}
	switch r := g.rnd.Intn(100); {
	case r < 22:
		slot, kind = cur, "dup"
	case r < 50:
		slot, kind = cur+1+g.rnd.Intn(3), "advance"
	case r < 62:
		slot, kind = cur-1-g.rnd.Intn(6), "back-near"
	case r < 74:
		slot, kind = cur+memdbWindow+g.rnd.Intn(30), "jump"
	case r < 86:
		slot, kind = cur-memdbWindow-g.rnd.Intn(40), "back-far"
	case r < 93:
		// the hour boundary: a slot within a minute of the next/previous family
		h := (cur/slotsPerHr + 1) % g.sc.Hours
		slot, kind = h*slotsPerHr+g.rnd.Intn(6), "family-edge"
		if g.rnd.Intn(2) == 0 {
			slot = h*slotsPerHr + slotsPerHr - 1 - g.rnd.Intn(6)
		}
	default:
		slot, kind = g.rnd.Intn(total), "anywhere"
	}
	if slot < 0 {
		slot = g.rnd.Intn(10)
	}
	if slot >= total {
		slot = total - 1 - g.rnd.Intn(10)
	}
	g.cursor[key] = slot
	return slot, kind
}

func (g *writeGen) histogram(ms *metricSpec) *node.Histogram {
	h := &node.Histogram{Bounds: ms.Bounds}
	total := 0.0
	for i := 0; i <= len(ms.Bounds); i++ {
		c := float64(1 + g.rnd.Intn(5)) // every bucket gets observations: bucket fields exist wherever data exists
		h.Counts = append(h.Counts, c)
		total += c
	}
	h.Count = total
	h.Sum = float64(10 + g.rnd.Intn(90))
	h.Min = float64(g.rnd.Intn(3))
	h.Max = float64(20 + g.rnd.Intn(50))
	return h
}

func (g *writeGen) batch(epoch int, fields map[string][]fieldSpec) writeBatch {
	wb := writeBatch{Epoch: epoch}
	n := 1 + g.rnd.Intn(6)
	inBatch := map[string]bool{}
	for i := 0; i < n; i++ {
		ms := &g.sc.Metrics[g.rnd.Intn(len(g.sc.Metrics))]
		tags := ms.Series[g.rnd.Intn(len(ms.Series))]
		p := node.Point{Metric: ms.Name, Tags: tags}
		key := p.SeriesKey()
		slot, kind := g.nextSlot(key)
		cell := fmt.Sprintf("%s|%d", key, slot)
		if inBatch[cell] {
			// two rows of one call for one (series, slot) have no defined order inside lindb's batch sorts; keep the
			// order of arrival observable by putting such duplicates into different calls
			continue
		}
		inBatch[cell] = true
		p.Timestamp = g.sc.Base + int64(slot)*slotMs + int64(g.rnd.Intn(int(slotMs)))
		for _, f := range fields[ms.Name] {
			if !g.allFields && len(fields[ms.Name]) > 1 && g.rnd.Intn(6) == 0 {
				continue
			}
			p.Fields = append(p.Fields, node.Field{Name: f.Name, Type: f.Type, Value: smallInt(g.rnd, f.Type != node.Sum)})
		}
		if len(ms.Bounds) > 0 {
			p.Histogram = g.histogram(ms)
		}
		if len(p.Fields) == 0 && p.Histogram == nil {
			continue
		}
		// coverage tracking
		if g.used[cell] {
			g.stats["points_into_an_already_written_slot"]++
		}
		g.used[cell] = true
		g.stats["pattern."+kind]++
		for _, f := range p.Fields {
			wk := key + "|" + f.Name
			if st, ok := g.winStart[wk]; ok && (slot < st || slot > st+memdbWindow-1) {
				g.stats["field_writes_leaving_the_15_slot_window"]++
				g.winStart[wk] = slot
			} else if !ok {
				g.winStart[wk] = slot
			}
		}
		wb.Points = append(wb.Points, p)
		wb.Kinds = append(wb.Kinds, kind)
	}
	return wb
}

// genWrites produces the write sequence: epochs of 1-5 batches sharing a field subset.
func genWrites(rnd *rand.Rand, sc *schema, batches int) ([]writeBatch, map[string]int) {
	g := newWriteGen(rnd, sc)
	var out []writeBatch
	epoch := 0
	for len(out) < batches {
		fields := g.epochFields()
		k := 1 + rnd.Intn(5)
		for j := 0; j < k && len(out) < batches; j++ {
			wb := g.batch(epoch, fields)
			if len(wb.Points) > 0 {
				out = append(out, wb)
			}
		}
		epoch++
	}
	return out, g.stats
}

// ---------------------------------------------------------------------------------------------
// placements

type op struct {
	Kind  string `json:"k"`           // write | flush | flush-one | compact | compact-index | reopen | query
	Batch int    `json:"b,omitempty"` // write: index of the batch
}

// placement interleaves the writes with flush / compact / reopen operations.
// style: "generated" (random, flush likely at epoch boundaries), "memory" (nothing: all data stays in the memory
// databases), "eager" (flush after every batch, compaction at the end), "random" (uniform).
func placement(rnd *rand.Rand, writes []writeBatch, style string) []op {
	var ops []op
	for i, w := range writes {
		ops = append(ops, op{Kind: "write", Batch: i})
		last := i == len(writes)-1
		boundary := last || writes[i+1].Epoch != w.Epoch
		switch style {
		case "memory":
		case "eager":
			ops = append(ops, op{Kind: "flush"})
			if rnd.Intn(6) == 0 {
				ops = append(ops, op{Kind: "compact"})
			}
		case "random":
			switch r := rnd.Intn(12); {
			case r < 3:
				ops = append(ops, op{Kind: "flush"})
			case r == 3:
				ops = append(ops, op{Kind: "flush-one"})
			case r == 4:
				ops = append(ops, op{Kind: "compact"})
			case r == 5:
				ops = append(ops, op{Kind: "reopen"})
			}
		default:
			p := 10
			if boundary {
				p = 70
			}
			if rnd.Intn(100) < p {
				if rnd.Intn(4) == 0 {
					ops = append(ops, op{Kind: "flush-one"})
				} else {
					ops = append(ops, op{Kind: "flush"})
				}
				if rnd.Intn(3) == 0 {
					ops = append(ops, op{Kind: "compact"})
				}
				if rnd.Intn(8) == 0 {
					ops = append(ops, op{Kind: "compact-index"})
				}
			}
			if rnd.Intn(14) == 0 {
				ops = append(ops, op{Kind: "reopen"})
			}
		}
	}
	if style == "eager" {
		ops = append(ops, op{Kind: "compact"})
	}
	return ops
}

// ---------------------------------------------------------------------------------------------
// queries

type queryGen struct {
	rnd *rand.Rand
	sc  *schema
	// clean: every field is read with the aggregate of its own type only (bare field or the matching function), so
	// one field never needs two aggregate types and the function's aggregate equals the field type's
	clean bool
	// noCond: no tag conditions
	noCond bool
}

var aliasSeq int

func (g *queryGen) item(ms *metricSpec, written map[string]string) (node.SelectItem, bool) {
	// fields that exist in the model (written at least once)
	var simple []fieldSpec
	for _, f := range ms.Fields {
		if _, ok := written[f.Name]; ok {
			simple = append(simple, f)
		}
	}
	hist := len(ms.Bounds) > 0 && written["HistogramCount"] != ""
	if hist {
		simple = append(simple, fieldSpec{"HistogramSum", node.Sum}, fieldSpec{"HistogramCount", node.Sum},
			fieldSpec{"HistogramMin", node.Min}, fieldSpec{"HistogramMax", node.Max})
	}
	if len(simple) == 0 && !hist {
		return node.SelectItem{}, false
	}
	aliasSeq++
	alias := fmt.Sprintf("a%d", aliasSeq)
	fieldExpr := func() node.Expr {
		f := simple[g.rnd.Intn(len(simple))]
		fns := map[node.FieldType][]string{
			node.Sum:   {"sum", "min", "max", "rate"},
			node.Min:   {"min"},
			node.Max:   {"max"},
			node.Last:  {"sum", "min", "max", "last"},
			node.First: {"sum", "min", "max", "first"},
		}[f.Type]
		if g.rnd.Intn(2) == 0 {
			return node.FieldRef{Name: f.Name}
		}
		if g.clean {
			own := map[node.FieldType]string{node.Sum: "sum", node.Min: "min", node.Max: "max", node.Last: "last", node.First: "first"}[f.Type]
			if f.Type == node.Sum && g.rnd.Intn(3) == 0 {
				own = "rate"
			}
			return node.Call{Func: own, Arg: node.FieldRef{Name: f.Name}}
		}
		return node.Call{Func: fns[g.rnd.Intn(len(fns))], Arg: node.FieldRef{Name: f.Name}}
	}
	switch r := g.rnd.Intn(100); {
	case hist && r < 30:
		qs := []float64{0.5, 0.9, 0.99, 0.25}
		return node.SelectItem{Expr: node.Quantile{Q: qs[g.rnd.Intn(len(qs))]}, Alias: alias}, true
	case len(simple) == 0:
		return node.SelectItem{Expr: node.Quantile{Q: 0.9}, Alias: alias}, true
	case r < 55:
		e := fieldExpr()
		if fr, ok := e.(node.FieldRef); ok && g.rnd.Intn(2) == 0 {
			return node.SelectItem{Expr: fr}, true // bare field, keyed by its name
		}
		return node.SelectItem{Expr: e, Alias: alias}, true
	case r < 85:
		ops := []byte{'+', '-', '*', '/'}
		l, rr := fieldExpr(), fieldExpr()
		var e node.Expr = node.Binary{Op: ops[g.rnd.Intn(4)], L: l, R: rr}
		if g.rnd.Intn(3) == 0 {
			e = node.Binary{Op: ops[g.rnd.Intn(4)], L: node.Paren{E: e}, R: node.Number{V: float64(1 + g.rnd.Intn(4))}}
		}
		return node.SelectItem{Expr: e, Alias: alias}, true
	default:
		ops := []byte{'+', '-', '*', '/'}
		if g.rnd.Intn(2) == 0 {
			return node.SelectItem{Expr: node.Binary{Op: ops[g.rnd.Intn(4)], L: fieldExpr(), R: node.Number{V: float64(1 + g.rnd.Intn(9))}}, Alias: alias}, true
		}
		return node.SelectItem{Expr: node.Binary{Op: ops[g.rnd.Intn(4)], L: node.Number{V: float64(1 + g.rnd.Intn(9))}, R: fieldExpr()}, Alias: alias}, true
	}
}

// cond builds a tag condition from tag values of series that have been written (a condition naming a tag value the
// index has never seen belongs to the tag filtering property, C10).
func (g *queryGen) cond(ms *metricSpec, written []map[string]string) node.Cond {
	if len(written) == 0 {
		return nil
	}
	atom := func() node.Cond {
		s := written[g.rnd.Intn(len(written))]
		keys := make([]string, 0, len(s))
		for k := range s {
			keys = append(keys, k)
		}
		sort.Strings(keys)
		k := keys[g.rnd.Intn(len(keys))]
		v := s[k]
		switch g.rnd.Intn(7) {
		case 0:
			return node.TagCmp{Key: k, Op: "!=", Values: []string{v}}
		case 1:
			o := written[g.rnd.Intn(len(written))]
			vs := []string{v}
			if ov, ok := o[k]; ok && ov != v {
				vs = append(vs, ov)
			}
			return node.TagCmp{Key: k, Op: "in", Values: vs}
		case 2:
			return node.TagCmp{Key: k, Op: "like", Values: []string{v[:1] + "*"}}
		case 3:
			return node.TagCmp{Key: k, Op: "notin", Values: []string{v}}
		default:
			return node.TagCmp{Key: k, Op: "=", Values: []string{v}}
		}
	}
	switch g.rnd.Intn(5) {
	case 0:
		return node.And{L: atom(), R: atom()}
	case 1:
		return node.Or{L: atom(), R: atom()}
	default:
		return atom()
	}
}

// query generates one query for the current model. dataSlots are slots that hold data (to aim ranges at data).
func (g *queryGen) query(m *node.Model, dataSlots []int) *node.Query {
	for attempt := 0; attempt < 20; attempt++ {
		ms := &g.sc.Metrics[g.rnd.Intn(len(g.sc.Metrics))]
		written := m.FieldKinds("", ms.Name)
		if len(written) == 0 {
			continue
		}
		q := &node.Query{Metric: ms.Name}
		ni := 1
		switch r := g.rnd.Intn(10); {
		case r < 3:
			ni = 1
		case r < 7:
			ni = 2
		case r < 9:
			ni = 3
		default:
			ni = 4
		}
		keys := map[string]bool{}
		for i := 0; i < ni; i++ {
			it, ok := g.item(ms, written)
			if !ok {
				break
			}
			if keys[it.Key()] {
				continue
			}
			keys[it.Key()] = true
			q.Items = append(q.Items, it)
		}
		if len(q.Items) == 0 {
			continue
		}
		// time range
		total := int64(g.sc.Hours) * hourMs
		base := g.sc.Base
		switch r := g.rnd.Intn(100); {
		case r < 25:
			q.Start, q.End = base, base+total-1000 // everything (< 3h)
		case r < 40:
			h := int64(g.rnd.Intn(g.sc.Hours))
			q.Start, q.End = base+h*hourMs, base+(h+1)*hourMs-1000 // one family
		case r < 60:
			h := int64(1 + g.rnd.Intn(g.sc.Hours-1))
			w := int64(1+g.rnd.Intn(20)) * 60_000
			q.Start, q.End = base+h*hourMs-w, base+h*hourMs+w // cuts a family boundary
		default:
			// a window around data, with edges that are not slot aligned
			if len(dataSlots) == 0 {
				q.Start, q.End = base, base+total-1000
				break
			}
			s := dataSlots[g.rnd.Intn(len(dataSlots))]
			before := int64(g.rnd.Intn(40)) * slotMs
			after := int64(g.rnd.Intn(120)) * slotMs
			q.Start = base + int64(s)*slotMs - before + int64(g.rnd.Intn(10))*1000
			q.End = base + int64(s)*slotMs + after + int64(g.rnd.Intn(10))*1000
		}
		if q.Start < base-hourMs {
			q.Start = base - hourMs
		}
		if q.End <= q.Start {
			q.End = q.Start + 60_000
		}
		q.Start = q.Start / 1000 * 1000
		q.End = q.End / 1000 * 1000
		// interval: multiples of the storage interval, sometimes none, rarely a non-multiple
		switch r := g.rnd.Intn(100); {
		case r < 30:
		case r < 45:
			q.IntervalMs = 10_000
		case r < 58:
			q.IntervalMs = 30_000
		case r < 75:
			q.IntervalMs = 60_000
		case r < 85:
			q.IntervalMs = 300_000
		case r < 92:
			q.IntervalMs = 3600_000
		case r < 96:
			q.IntervalMs = 20_000
		default:
			q.IntervalMs = 25_000
		}
		if g.rnd.Intn(3) == 0 && !g.noCond {
			q.Cond = g.cond(ms, m.SeriesTags("", ms.Name))
		}
		switch g.rnd.Intn(6) {
		case 0:
			q.GroupBy = []string{"host"}
		case 1:
			q.GroupBy = []string{"dc"}
		case 2:
			q.GroupBy = []string{"host", "dc"}
		case 3:
			q.GroupBy = []string{"app"}
		}
		return q
	}
	return nil
}
