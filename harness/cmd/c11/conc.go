package main

import (
	"fmt"
	"math/rand"
	"strings"
	"sync"
	"sync/atomic"
	"time"

	"github.com/lindb/lindb/tsdb"
	"github.com/lindb/lindb/verif/internal/node"
	"github.com/lindb/lindb/verif/internal/seam"
)

// The concurrent variant: queries while a flush is in progress, only for data whose write call had returned.
//
// even index ("parked"): the flush of one data family is stopped at a chosen point of DataFamily.Flush and queries
// (and sometimes a further write into the same family) run while it is parked there:
//
//	table-create / table-write / table-close   file-system seams of the table builder (kv/table hooks through
//	                                            internal/seam): the memory database is immutable, the table file is not
//	                                            yet part of the family's version
//	ack-window                                  the AckSequence callback of the family - where the production local
//	                                            replicator acknowledges its WAL sequence: the table file is committed, the
//	                                            flushed memory database is still attached to the family
//
// odd index ("free"): a flusher goroutine flushes and compacts continuously, a second writer keeps writing rows that no
// query asks for (other metric / an hour outside every queried range, existing series only), and the main goroutine
// alternates writes and queries.

type gate struct {
	mu      sync.Mutex
	point   string // armed point ("" = open)
	target  string // substring of the table file path (family directory)
	parked  chan string
	release chan struct{}
	hit     bool
}

func (g *gate) arm(point, target string) {
	g.mu.Lock()
	g.point, g.target, g.hit = point, target, false
	g.parked = make(chan string, 1)
	g.release = make(chan struct{})
	g.mu.Unlock()
}

func (g *gate) disarm() {
	g.mu.Lock()
	g.point = ""
	g.mu.Unlock()
}

// at is called from the flush goroutine at a candidate park point.
func (g *gate) at(point, path string) {
	g.mu.Lock()
	if g.point != point || g.hit || (g.target != "" && !strings.Contains(path, g.target)) {
		g.mu.Unlock()
		return
	}
	g.hit = true
	parked, release := g.parked, g.release
	g.mu.Unlock()
	parked <- path
	<-release
}

// Do implements seam.Interceptor.
func (g *gate) Do(label string, op func() error) error {
	if strings.Contains(label, "/segment/") && strings.HasSuffix(label, ".sst") {
		switch {
		case strings.HasPrefix(label, "create "):
			err := op() // park after the file exists
			g.at("table-create", label)
			return err
		case strings.HasPrefix(label, "write "), strings.HasPrefix(label, "flush "):
			g.at("table-write", label)
		case strings.HasPrefix(label, "sync "), strings.HasPrefix(label, "close "):
			g.at("table-close", label)
		}
	}
	return op()
}

func familyDir(f tsdb.DataFamily) string {
	// table files of a data family live in <segment dir>/<yyyymmdd>/<family name>/ where the name is the hour of the day
	h := (f.FamilyTime() % (24 * hourMs)) / hourMs
	return fmt.Sprintf("/%s/%d/", time.UnixMilli(f.FamilyTime()).UTC().Format("20060102"), h)
}

func runConcCase(idx int, dir, tier string, seed int64) *caseResult {
	res := &caseResult{Kind: "conc", Index: idx}
	rnd := rand.New(rand.NewSource(seed*5711 + int64(idx)*7877 + 3))
	if idx%2 == 0 {
		runParked(res, idx, dir, tier, rnd)
	} else {
		runFree(res, idx, dir, tier, rnd)
	}
	return res
}

// pendingTracker remembers which points went into the current (unflushed) generation of every family.
type pendingTracker struct {
	mu      sync.Mutex
	base    int64
	pending map[int64][]node.Point // family time -> points written since the last completed flush of that family
}

func (p *pendingTracker) add(points []node.Point) {
	p.mu.Lock()
	for _, pt := range points {
		ft := pt.Timestamp / hourMs * hourMs
		p.pending[ft] = append(p.pending[ft], pt)
	}
	p.mu.Unlock()
}

func (p *pendingTracker) take(ft int64) []node.Point {
	p.mu.Lock()
	defer p.mu.Unlock()
	pts := p.pending[ft]
	delete(p.pending, ft)
	return pts
}

func (p *pendingTracker) peek(ft int64) []node.Point {
	p.mu.Lock()
	defer p.mu.Unlock()
	return append([]node.Point(nil), p.pending[ft]...)
}

// explainedByDoubleRead reports whether the result equals the reference with the given points counted twice.
func explainedByDoubleRead(r *runner, q *node.Query, dup []node.Point) bool {
	if len(dup) == 0 {
		return false
	}
	alt := r.m.Clone()
	alt.Add(dup)
	_, _, diffs, status := r.run(q, alt)
	return status == "" && len(diffs) == 0
}

// explainedByDoubleReadAndPlaces: the flushed generation is read twice AND the parts of a slot in different places are
// combined with the query function (both causes are open): the table file is one place, the window and the compress
// buffer of the still attached memory database are further places.
func explainedByDoubleReadAndPlaces(r *runner, q *node.Query, still map[string]string) bool {
	alt := r.track.altModelDoubleRead(still)
	if alt == nil {
		return false
	}
	_, _, diffs, status := r.run(q, alt)
	return status == "" && len(diffs) == 0
}

func runParked(res *caseResult, idx int, dir, tier string, rnd *rand.Rand) {
	sc := genSchema(rnd, idx%4 == 0)
	sc.Shards = 1
	g := &gate{}
	seam.InstallKV(g, nil)
	defer seam.Restore()
	r, err := newRunner(res, dir, sc, fmt.Sprintf("conc-%d", idx), "parked", rnd, func(o *node.Options) {
		o.ReplicaSequences, o.Leader = true, 1
	})
	if err != nil {
		res.Notes = append(res.Notes, "open failed: "+err.Error())
		return
	}
	defer r.close()
	r.arrival = true // one writer, sequential calls
	r.n.AckHook = func(f tsdb.DataFamily, _ int64) { g.at("ack-window", familyDir(f)) }
	// the same write and query shapes as the sequential histories (the labelling tracker follows the parked flush)
	wg := newWriteGen(rnd, sc)
	qg := &queryGen{rnd: rnd, sc: sc}
	track := &pendingTracker{base: sc.Base, pending: map[int64][]node.Point{}}
	rounds := 8
	if tier == "thorough" {
		rounds = 16
	}
	points := []string{"table-create", "table-write", "table-close", "ack-window", "ack-window"}
	var slots []int
	fields := wg.epochFields()
	for round := 0; round < rounds; round++ {
		if rnd.Intn(3) == 0 {
			fields = wg.epochFields()
		}
		nb := 1 + rnd.Intn(3)
		var lastPoints []node.Point
		for b := 0; b < nb; b++ {
			wb := wg.batch(round, fields)
			if len(wb.Points) == 0 {
				continue
			}
			r.log("write %d points", len(wb.Points))
			if err := r.write(wb.Points); err != nil {
				res.Notes = append(res.Notes, "write failed: "+err.Error())
				return
			}
			track.add(wb.Points)
			lastPoints = wb.Points
			for _, p := range wb.Points {
				slots = append(slots, int((p.Timestamp-sc.Base)/slotMs))
			}
		}
		if len(lastPoints) == 0 {
			continue
		}
		// the family to flush: one that holds unflushed data
		target, err := r.n.Family(0, lastPoints[rnd.Intn(len(lastPoints))].Timestamp)
		if err != nil || !node.HasMutableMemDB(target) {
			continue
		}
		point := points[rnd.Intn(len(points))]
		generation := track.peek(target.FamilyTime())
		l0Before := node.Level0Files(target)
		g.arm(point, familyDir(target))
		r.log("flush family %s, to be parked at %s", target.Indicator(), point)
		done := make(chan error, 1)
		r.track.switchGen(target.FamilyTime(), 0) // the memory database is switched when the flush starts
		go func() { done <- r.n.FlushFamily(target) }()
		parkedOK := false
		select {
		case <-g.parked:
			parkedOK = true
		case err := <-done:
			// the flush finished without reaching the point (nothing to write for it)
			done <- err
		case <-time.After(20 * time.Second):
			res.Notes = append(res.Notes, "watchdog: flush neither parked nor finished")
		}
		if parkedOK {
			res.count("flushes_parked_with_queries_inside", 1)
			res.count("parked_at."+point, 1)
			// If the flush is parked while it holds a lock the queries need (a tree that commits the table file under the
			// family lock), the queries below would wait for the release and the release for them: a guard opens the
			// gate after a few seconds (workload pacing, nothing is decided on it).
			var once sync.Once
			release := g.release
			releaseGate := func() { once.Do(func() { close(release) }) }
			var guardFired int32
			guard := time.AfterFunc(5*time.Second, func() {
				atomic.StoreInt32(&guardFired, 1)
				releaseGate()
			})
			defer func() {
				if atomic.LoadInt32(&guardFired) == 1 {
					res.count("parked_flush_released_by_guard", 1)
				}
			}()
			st := target.GetState()
			imm := false
			for _, s := range st.MemoryDatabases {
				if s.State == "immutable" {
					imm = true
				}
			}
			committed := node.Level0Files(target) > l0Before
			var still map[string]string
			if imm {
				res.count("parked_with_immutable_memdb", 1)
			}
			if committed {
				// the table file of the parked generation is part of the family's version now: the labelling tracker
				// has to know the file (window and compress buffer of the generation are merged into one place)
				if imm {
					// ... and the generation is still attached as immutable memory database (a tree without 094b8ca)
					res.count("parked_with_immutable_memdb_and_committed_table", 1)
					still = r.track.snapshotImmutable(target.FamilyTime(), 0)
				} else {
					res.count("parked_with_committed_table_and_detached_memdb", 1)
				}
				r.track.flushEnd(target.FamilyTime(), 0)
			}
			inside := func(tag string) {
				nq := 1 + rnd.Intn(3)
				for i := 0; i < nq; i++ {
					q := qg.query(r.m, slots)
					if q == nil {
						continue
					}
					stLabel := r.state(q)
					qr, exp, diffs, status := r.run(q, r.m)
					res.Evals++
					res.count("queries", 1)
					res.count("queries_inside_a_parked_flush", 1)
					if !exp.Empty() {
						res.Nontrivial = append(res.Nontrivial, hashKey(r.caseID, round, tag, i, q.SQL()))
					}
					if status == "" && len(diffs) == 0 {
						continue
					}
					if status == "error" && exp.ErrorExpected != "" {
						continue
					}
					w := map[string]interface{}{"case": r.caseID, "round": round, "parked_at": point, "stage": tag, "sql": q.SQL(),
						"family": target.Indicator(), "immutable_memdb": imm, "table_committed": committed,
						"operations": tailStrings(r.history, 40), "diffs": headDiffs(diffs, 12), "schema": sc}
					if qr.Err != nil {
						w["error"] = qr.Err.Error()
					}
					class := ""
					switch {
					case status == "stuck":
						class = "C11/query-never-answers/during-flush"
					case status == "watchdog":
						res.Notes = append(res.Notes, "watchdog: "+q.SQL())
						continue
					case status == "error":
						class = "C11/query-error/during-flush/" + normErr(qr.Err)
					case imm && committed && explainedByDoubleRead(r, q, generation):
						class = "C11/family/flush-commit-window/table-file-and-flushed-memdb-both-read"
					case imm && committed && explainedByDoubleReadAndPlaces(r, q, still):
						class = "C11/combined/places+flush-commit-window"
					default:
						fs, _ := queryFields(q)
						cl := r.classify(q, stLabel, diffs, fs)
						if !strings.HasPrefix(cl, "C11/result/") {
							class = cl
						} else {
							class = fmt.Sprintf("C11/result-during-flush/%s/parked-at-%s", diffKind(diffs[0].Kind), point)
						}
					}
					first := ""
					if len(diffs) > 0 {
						first = diffs[0].String()
					}
					res.violation(class, fmt.Sprintf("%s round %d: flush of %s parked at %s (immutable memdb attached=%v, new table committed=%v), %s: %s -> %s %s",
						r.caseID, round, target.Indicator(), point, imm, committed, tag, q.SQL(), status, first), w)
				}
			}
			inside("queries while parked")
			if rnd.Intn(2) == 0 {
				// a write into the parked family: it gets a fresh mutable memory database next to the immutable one
				extra := wg.batch(round, fields)
				var same []node.Point
				for _, p := range extra.Points {
					if p.Timestamp/hourMs*hourMs == target.FamilyTime() {
						same = append(same, p)
					}
				}
				if len(same) > 0 {
					r.log("write %d points into the parked family", len(same))
					if err := r.write(same); err == nil {
						res.count("writes_into_a_family_with_parked_flush", 1)
						for _, p := range same {
							slots = append(slots, int((p.Timestamp-sc.Base)/slotMs))
						}
						inside("queries while parked, after a write into the same family")
						// these points belong to the next generation of the family (kept under a side key until the
						// parked flush is done)
						track.mu.Lock()
						track.pending[-target.FamilyTime()-1] = append(track.pending[-target.FamilyTime()-1], same...)
						track.mu.Unlock()
					}
				}
			}
			releaseGate()
			guard.Stop()
		}
		g.disarm()
		select {
		case err := <-done:
			if err != nil {
				res.violation("C11/operation-failed/flush", fmt.Sprintf("%s: flush failed: %v", r.caseID, err), tailStrings(r.history, 40))
			}
		case <-time.After(60 * time.Second):
			res.Notes = append(res.Notes, "watchdog: flush did not finish after release")
			return
		}
		// generation bookkeeping: the flushed generation is gone; points written while parked start the next one
		r.track.flushEnd(target.FamilyTime(), 0)
		track.take(target.FamilyTime())
		next := track.take(-target.FamilyTime() - 1)
		track.add(next)
		// and a query after the flush
		if q := qg.query(r.m, slots); q != nil {
			r.check(q, "after the parked flush")
		}
		if rnd.Intn(4) == 0 {
			_ = r.exec(op{Kind: "compact"}, nil)
		}
	}
	for i := 0; i < 4; i++ {
		if q := qg.query(r.m, slots); q != nil {
			r.check(q, "final")
		}
	}
}

type span struct{ from, to int64 }

func runFree(res *caseResult, idx int, dir, tier string, rnd *rand.Rand) {
	sc := genSchema(rnd, idx%4 == 1)
	sc.Shards = 1
	r, err := newRunner(res, dir, sc, fmt.Sprintf("conc-%d", idx), "free", rnd, func(o *node.Options) {
		o.ReplicaSequences, o.Leader = true, 1
	})
	if err != nil {
		res.Notes = append(res.Notes, "open failed: "+err.Error())
		return
	}
	defer r.close()
	var clock int64 // logical stamps
	stamp := func() int64 { return atomic.AddInt64(&clock, 1) }
	var mu sync.Mutex
	var flushSpans, ackSpans []span
	var ackOpen = map[string]int64{}
	track := &pendingTracker{base: sc.Base, pending: map[int64][]node.Point{}}
	ackGen := map[int64][][]node.Point{} // family time -> generations whose ack window was seen
	// wmu keeps the instant at which a flush switches the memory database apart from the queried writes, so the harness
	// knows exactly which points a flushed generation holds (queries and the rest of the flush still overlap freely)
	var wmu sync.Mutex
	flushing := map[int64][]node.Point{} // family time -> the generation being flushed
	r.n.AckHook = func(f tsdb.DataFamily, _ int64) {
		mu.Lock()
		ackOpen[f.Indicator()] = stamp()
		gens := append(ackGen[f.FamilyTime()], flushing[f.FamilyTime()])
		if len(gens) > 3 {
			gens = gens[len(gens)-3:]
		}
		ackGen[f.FamilyTime()] = gens
		mu.Unlock()
	}
	wg := newWriteGen(rnd, sc)
	// One restriction is left, for a cause that is still open: every field is read with the aggregate of its own type.
	// With another function the parts a slot has in several places are combined wrongly (C11/downsampling/...), and the
	// harness cannot label that here because it does not follow the places while flushes run freely.
	qg := &queryGen{rnd: rnd, sc: sc, clean: true}
	// noise: existing series of a metric nobody queries, and the queried metrics in an hour outside every range
	noiseRnd := rand.New(rand.NewSource(rnd.Int63()))
	reserved := sc.Base + int64(sc.Hours)*hourMs
	noisePoint := func(i int) node.Point {
		if i%2 == 0 {
			return node.Point{Metric: "noise", Tags: map[string]string{"host": hostPool[i%3]}, Timestamp: sc.Base + int64(noiseRnd.Intn(sc.Hours*slotsPerHr))*slotMs,
				Fields: []node.Field{{Name: "n", Type: node.Sum, Value: 1}}}
		}
		ms := sc.Metrics[0]
		p := node.Point{Metric: ms.Name, Tags: ms.Series[0], Timestamp: reserved + int64(noiseRnd.Intn(300))*slotMs}
		if len(ms.Fields) > 0 {
			p.Fields = []node.Field{{Name: ms.Fields[0].Name, Type: ms.Fields[0].Type, Value: 1}}
		} else {
			p.Histogram = wg.histogram(&ms)
		}
		return p
	}
	// create every noise series / field before anything runs concurrently (no index inserts later)
	var warm []node.Point
	for i := 0; i < 6; i++ {
		warm = append(warm, noisePoint(i))
	}
	if _, err := r.n.Write(warm); err != nil {
		res.Notes = append(res.Notes, "write failed: "+err.Error())
		return
	}
	// every metric, series and field the queried workload will use is created and its metadata flushed before
	// anything runs concurrently: creating names while the metadata stores are being flushed is the subject of C09
	// (and races outside C11's mechanisms on the unchanged tree)
	var first []node.Point
	for mi := range sc.Metrics {
		ms := &sc.Metrics[mi]
		for si, tags := range ms.Series {
			p := node.Point{Metric: ms.Name, Tags: tags, Timestamp: sc.Base + int64(3+si)*slotMs + 500}
			for _, f := range ms.Fields {
				p.Fields = append(p.Fields, node.Field{Name: f.Name, Type: f.Type, Value: 1})
			}
			if len(ms.Bounds) > 0 {
				p.Histogram = wg.histogram(ms)
			}
			first = append(first, p)
			wg.cursor[p.SeriesKey()] = 3 + si
		}
	}
	if err := r.write(first); err != nil {
		res.Notes = append(res.Notes, "write failed: "+err.Error())
		return
	}
	if err := r.n.FlushAll(); err != nil {
		res.Notes = append(res.Notes, "flush failed: "+err.Error())
		return
	}
	r.track.flush(-1, -1)
	stop := make(chan struct{})
	var bg sync.WaitGroup
	bg.Add(2)
	var flushes, noiseWrites int64
	go func() { // flusher
		defer bg.Done()
		frnd := rand.New(rand.NewSource(int64(idx)*17 + 1))
		for {
			select {
			case <-stop:
				return
			default:
			}
			from := stamp()
			// the production order: metadata, shard index, then every family
			ferr := r.n.FlushMeta()
			if ferr == nil {
				ferr = r.n.FlushIndex()
			}
			for _, f := range r.n.AllFamilies() {
				if ferr != nil {
					break
				}
				fam := f
				wmu.Lock()
				mu.Lock()
				flushing[fam.FamilyTime()] = track.take(fam.FamilyTime())
				mu.Unlock()
				done := make(chan error, 1)
				go func() { done <- fam.Flush() }()
				// hold the writers until the memory database has been switched (or the flush is over)
				switched := false
				for !switched {
					select {
					case ferr = <-done:
						done <- ferr
						switched = true
					default:
						hasMutable := false
						for _, st := range fam.GetState().MemoryDatabases {
							if st.State == "mutable" {
								hasMutable = true
							}
						}
						if !hasMutable {
							switched = true
						} else {
							time.Sleep(20 * time.Microsecond)
						}
					}
				}
				wmu.Unlock()
				ferr = <-done
			}
			if ferr != nil {
				mu.Lock()
				res.Notes = append(res.Notes, "flush failed: "+ferr.Error())
				mu.Unlock()
			}
			to := stamp()
			mu.Lock()
			flushSpans = append(flushSpans, span{from, to})
			for fam, a := range ackOpen {
				ackSpans = append(ackSpans, span{a, to})
				delete(ackOpen, fam)
			}
			mu.Unlock()
			atomic.AddInt64(&flushes, 1)
			if frnd.Intn(5) == 0 {
				r.n.CompactStores("data")
			}
			time.Sleep(time.Duration(frnd.Intn(1500)) * time.Microsecond)
		}
	}()
	go func() { // noise writer
		defer bg.Done()
		i := 0
		for {
			select {
			case <-stop:
				return
			default:
			}
			i++
			if _, err := r.n.Write([]node.Point{noisePoint(i)}); err == nil {
				atomic.AddInt64(&noiseWrites, 1)
			}
			time.Sleep(200 * time.Microsecond)
		}
	}()
	rounds := 30
	if tier == "thorough" {
		rounds = 80
	}
	var slots []int
	fields := wg.epochFields()
	overlapping := 0
	for round := 0; round < rounds; round++ {
		if rnd.Intn(4) == 0 {
			fields = wg.epochFields()
		}
		wb := wg.batch(round, fields)
		if len(wb.Points) > 0 {
			wmu.Lock()
			track.add(wb.Points)
			err := r.write(wb.Points)
			wmu.Unlock()
			if err != nil {
				res.Notes = append(res.Notes, "write failed: "+err.Error())
				break
			}
			for _, p := range wb.Points {
				slots = append(slots, int((p.Timestamp-sc.Base)/slotMs))
			}
		}
		for i := 0; i < 3; i++ {
			q := qg.query(r.m, slots)
			if q == nil {
				continue
			}
			if q.End >= reserved {
				q.End = reserved - 1000
			}
			from := stamp()
			qr, exp, diffs, status := r.run(q, r.m)
			to := stamp()
			res.Evals++
			res.count("queries", 1)
			mu.Lock()
			ov := false
			for _, s := range flushSpans {
				if s.from < to && from < s.to {
					ov = true
				}
			}
			// a flush still running has no span yet: it started after the last completed one
			ackOv := false
			for _, s := range ackSpans {
				if s.from < to && from < s.to {
					ackOv = true
				}
			}
			if len(ackOpen) > 0 {
				ackOv = true
			}
			gens := map[int64][][]node.Point{}
			for k, v := range ackGen {
				gens[k] = v
			}
			// a generation whose table file may already be committed although its ack callback has not run yet
			for k, v := range flushing {
				gens[k] = append(append([][]node.Point(nil), gens[k]...), v)
			}
			mu.Unlock()
			if ov {
				overlapping++
				res.count("queries_overlapping_a_completed_flush_span", 1)
				if !exp.Empty() {
					res.Nontrivial = append(res.Nontrivial, hashKey(r.caseID, round, i, q.SQL()))
				}
			}
			if (status == "" && len(diffs) == 0) || (status == "error" && exp.ErrorExpected != "") {
				continue
			}
			if status == "watchdog" {
				res.Notes = append(res.Notes, "watchdog: "+q.SQL())
				continue
			}
			// transient or persistent? ask again with the background work stopped (below) - first classify
			class := ""
			switch {
			case status == "stuck":
				class = "C11/query-never-answers/during-flush"
			case status == "error":
				class = "C11/query-error/during-flush/" + normErr(qr.Err)
			default:
				explained := false
				for _, list := range gens {
					for _, gen := range list {
						if !explained && explainedByDoubleRead(r, q, gen) {
							explained = true
						}
					}
				}
				if explained {
					class = "C11/family/flush-commit-window/table-file-and-flushed-memdb-both-read"
				} else {
					fs, _ := queryFields(q)
					cl := r.classify(q, r.state(q), diffs, fs)
					if !strings.HasPrefix(cl, "C11/result/") {
						class = cl
					} else {
						class = fmt.Sprintf("C11/result-during-flush/%s/free-running", diffKind(diffs[0].Kind))
					}
				}
			}
			first := ""
			if len(diffs) > 0 {
				first = diffs[0].String()
			}
			w := map[string]interface{}{"case": r.caseID, "round": round, "sql": q.SQL(), "overlapped_flush": ov, "overlapped_ack_window": ackOv,
				"diffs": headDiffs(diffs, 12), "schema": sc, "operations": tailStrings(r.history, 30)}
			if qr.Err != nil {
				w["error"] = qr.Err.Error()
			}
			res.violation(class, fmt.Sprintf("%s round %d (flusher and second writer running): %s -> %s %s", r.caseID, round, q.SQL(), status, first), w)
		}
	}
	close(stop)
	bg.Wait()
	res.count("free_running_flushes", int(atomic.LoadInt64(&flushes)))
	res.count("free_running_noise_writes", int(atomic.LoadInt64(&noiseWrites)))
	res.count("flushes_parked_with_queries_inside", 0)
	// after everything settled the same model must still hold
	for i := 0; i < 4; i++ {
		if q := qg.query(r.m, slots); q != nil {
			if q.End >= reserved {
				q.End = reserved - 1000
			}
			r.check(q, "final, background work stopped")
		}
	}
	_ = overlapping
}
