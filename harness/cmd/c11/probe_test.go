package main

import (
	"fmt"
	"math/rand"
	"testing"

	"github.com/lindb/lindb/verif/internal/node"
)

func TestDumpWrites(t *testing.T) {
	idx, seed := 19, int64(2)
	rnd := rand.New(rand.NewSource(seed*7919 + int64(idx)*104729 + 17))
	sc := genSchema(rnd, idx%3 != 2)
	nb := 14 + rnd.Intn(22)
	writes, _ := genWrites(rnd, sc, nb)
	fmt.Println("shards", sc.Shards)
	for i, w := range writes[:9] {
		for j, p := range w.Points {
			sh, _ := node.ShardOf(p, sc.Shards)
			fmt.Println("P", i, j, p.Metric, p.Tags, "shard", sh, "hour", (p.Timestamp-sc.Base)/hourMs, (p.Timestamp-sc.Base)/slotMs, p.Fields, p.Histogram != nil)
		}
	}
}
