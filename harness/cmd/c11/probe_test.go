package main

import (
	"fmt"
	"os"
	"testing"
	"time"

	"github.com/lindb/lindb/verif/internal/node"
)

func TestProbeTagAfterFlush(t *testing.T) {
	dir, _ := os.MkdirTemp("", "c11probe")
	defer os.RemoveAll(dir)
	n, err := node.Open(node.Options{Dir: dir})
	if err != nil {
		t.Fatal(err)
	}
	defer n.Close()
	now := time.Now().UnixMilli()
	t0 := now - now%3600_000 - 2*3600_000
	c := node.NewCluster(n, node.Layout{})
	w := func(host, dc string, ts int64) {
		n.Write([]node.Point{{Metric: "m", Tags: map[string]string{"host": host, "dc": dc}, Timestamp: ts, Fields: []node.Field{{Name: "f", Type: node.Sum, Value: 1}}}})
	}
	q := func(cond string) {
		sql := fmt.Sprintf("select f from 'm' where %s and time >= '%s' and time <= '%s' group by host,dc", cond, node.FormatTime(t0), node.FormatTime(t0+3600_000-1000))
		res := c.Query(sql)
		fmt.Println(cond, "->", res.Err, node.Canonical(res.ResultSet, []string{"host", "dc"}))
	}
	w("h1", "east", t0+10_000)
	q("dc = 'east'")
	switch os.Getenv("MODE") {
	case "flushall":
		n.FlushAll()
	case "meta":
		n.FlushMeta()
	case "index":
		n.FlushIndex()
	case "metaindex":
		n.FlushMeta()
		n.FlushIndex()
	}
	w("h2", "west", t0+20_000)
	q("dc = 'west'")
	q("dc = 'east'")
	q("host = 'h2'")
	w("h3", "west", t0+30_000)
	q("dc = 'west'")
	n.FlushAll()
	q("dc = 'west'")
}
