// C11 — A query returns what a naive model computes from the written points.
//
// Children (one process per case: lindb keeps the kv store manager, the family manager and the storage config in
// process-wide singletons) drive a real tsdb.Engine through the write path of the local replicator, place flush /
// compaction / close+reopen between the writes, and ask SQL queries through query.MetricDataSearch over a loopback
// cluster (internal/node). Every ResultSet is compared with a reference that stores every point.
//
//	hist      sequential histories under several flush/compaction placements + metamorphic comparison
//	conc      queries during flushes: flushes parked at chosen points of DataFamily.Flush, and free running flushes
//	directed  fixed scenarios: arrival order of first/last fields, two memory databases created in one clock tick
//	big       > 65 536 series of one metric in one memory database (parallel data load stages per series container)
//
// Debugging one case by hand (LOG_LEVEL=fatal TZ=UTC VERIF_SEED=n bin/c11 case hist <idx> <dir> quick):
// C11_VERBOSE=1 prints every mismatch with its diagnostics, C11_ONLY_STYLE=<placement> runs one placement,
// C11_STOP_AFTER_OPS=<k> with C11_EXTRA_SQL="sql;sql" stops before operation k, runs the statements and dumps the
// families' memory databases and table blocks.
package main

import (
	"encoding/json"
	"fmt"
	"os"
	"path/filepath"
	"runtime"
	"runtime/debug"
	"strconv"
	"strings"
	"time"

	"github.com/lindb/lindb/verif/internal/core"
)

type job struct {
	kind string
	idx  int
}

func main() {
	if len(os.Args) > 1 && os.Args[1] == "case" {
		runCaseChild()
		return
	}
	c := core.New("C11", "exploration")
	c.SetRule("one case = one query issued at one state of one generated history (schema of 1-3 metrics with sum/min/max/last/first fields and " +
		"histograms, 2-6 series; write batches with duplicate, out-of-order, window-leaving and family-crossing slots, fields written only in " +
		"some epochs; flush / flush-one-family / compact / compact-index / close+reopen placed between the batches by 3-4 placements of the " +
		"same writes), compared value by value with a reference that stores every point; plus queries issued while a flush is parked inside " +
		"DataFamily.Flush or running freely, and directed scenarios. Non-trivial = the reference result is non-empty and either a value " +
		"combines >= 2 (series, storage slot) cells or the queried families hold the metric in >= 2 places (memory database + table file, " +
		"or >= 2 table blocks); distinct by (history, placement, position in the history, SQL).")
	c.Assume("lindb's language semantics as read from the code base: default function = the field type's aggregate; function support per type as in series/field/type.go; " +
		"time range inclusive on both ends after truncation to the storage interval; bucket k = floor((slot - start)/interval) from the truncated start; " +
		"binary operators treat a missing operand as 0 (accepted also as missing); quantile = Prometheus histogram_quantile over the buckets present")
	c.Assume("first/last fields: where a bucket combines several contributed values the reference accepts any of them, except in the directed " +
		"arrival-order scenarios (one series, one slot, one value per write call) where the rule of memdb's write() - the later call wins for last, the earlier for first - is required")
	c.Assume("timestamps lie 1-5 hours in the past, aligned to whole hours of the process clock at case start; TZ=UTC for the children; " +
		"memory database creation is not paced: several memory databases of a shard may get the same stamp of lindb's 5ms clock (a directed " +
		"scenario produces that on purpose and verifies the collision logically)")
	c.Assume("race detector reports do not decide C11 (the unchanged tree races outside the anchored mechanisms); no race variant is built")

	var jobs []job
	nHist := c.Pick(40, 600)
	for i := 0; i < nHist; i++ {
		jobs = append(jobs, job{"hist", i})
	}
	nConc := c.Pick(20, 300)
	for i := 0; i < nConc; i++ {
		jobs = append(jobs, job{"conc", i})
	}
	nDir := c.Pick(2, 12)
	for i := 0; i < nDir; i++ {
		jobs = append(jobs, job{"directed", i})
	}
	nBig := c.Pick(1, 4)
	for i := 0; i < nBig; i++ {
		// first in the list: the longest cases
		jobs = append([]job{{"big", i}}, jobs...)
	}
	scratch := c.Scratch()
	results := make([]*caseResult, len(jobs))
	died := make([]string, len(jobs))
	workers := runtime.NumCPU()
	if workers > 16 {
		workers = 16
	}
	core.Parallel(len(jobs), workers, func(i int) {
		j := jobs[i]
		dir := filepath.Join(scratch, fmt.Sprintf("%s%04d", j.kind, j.idx))
		_ = os.MkdirAll(dir, 0o755)
		out := filepath.Join(dir, "child.log")
		timeout := 5 * time.Minute
		if !c.Quick() {
			timeout = 15 * time.Minute
		}
		cr := core.RunChild("", []string{"case", j.kind, strconv.Itoa(j.idx), dir, c.Tier},
			[]string{"VERIF_SEED=" + strconv.FormatInt(c.Seed, 10), "TZ=UTC"}, timeout, out)
		r := &caseResult{}
		data, err := os.ReadFile(filepath.Join(dir, "result.json"))
		if err == nil {
			err = json.Unmarshal(data, r)
		}
		switch {
		case cr.TimedOut:
			died[i] = "watchdog\n" + tail(cr.Output, 3000)
		case err != nil || cr.ExitCode != 0:
			died[i] = fmt.Sprintf("exit=%d err=%v\n%s", cr.ExitCode, err, tail(cr.Output, 6000))
		default:
			results[i] = r
		}
		_ = os.RemoveAll(dir)
	})
	deaths := 0
	for i, r := range results {
		j := jobs[i]
		if r == nil {
			msg := died[i]
			if strings.HasPrefix(msg, "watchdog") {
				c.Inconclusive("%s %d: child watchdog fired", j.kind, j.idx)
				continue
			}
			// a crash of the child: a violation only if the failing stack is in the anchored files; else an observation
			if frame := anchoredFrame(msg); frame != "" {
				c.Violation("C11/process-died/"+frame, fmt.Sprintf("%s %d: child died in anchored code: %s", j.kind, j.idx, tail(msg, 1500)),
					map[string]interface{}{"kind": j.kind, "index": j.idx, "output": tail(msg, 6000)})
			} else {
				// e.g. "fatal error: concurrent map read and map write" outside the anchored mechanisms (the unchanged tree
				// races there): an observation, the case is lost
				c.Count("children_died_outside_anchored_code", 1)
				c.Set(fmt.Sprintf("child_death_%s_%d", j.kind, j.idx), tail(msg, 1200))
				deaths++
			}
			continue
		}
		c.Eval(r.Evals)
		c.Count("cases."+j.kind, 1)
		for k, v := range r.Counters {
			c.Count(k, v)
		}
		for _, k := range r.Nontrivial {
			c.Nontrivial(k)
		}
		if r.Sample != nil {
			c.Sample(r.Sample)
		}
		for _, n := range r.Notes {
			if strings.HasPrefix(n, "watchdog") {
				c.Inconclusive("%s %d: %s", j.kind, j.idx, n)
			}
		}
		for _, v := range r.Violations {
			c.Violation(v.Class, v.Message, v.Witness)
		}
	}
	if deaths*10 > len(jobs) {
		c.Inconclusive("%d of %d children died outside the anchored code", deaths, len(jobs))
	}
	if c.Counter("flushes_parked_with_queries_inside") < 5 {
		c.Inconclusive("only %d flushes were parked with queries inside", c.Counter("flushes_parked_with_queries_inside"))
	}
	if c.Counter("big_queries_over_2_series_containers_in_memory") < 10 {
		c.Inconclusive("only %d queries ran over a memory database with 2 series containers of one metric", c.Counter("big_queries_over_2_series_containers_in_memory"))
	}
	if c.Counter("multi_field_queries_over_a_single_field_block") < 3 {
		c.Inconclusive("only %d multi-field queries ran over a single-field table block", c.Counter("multi_field_queries_over_a_single_field_block"))
	}
	c.Finish()
}

func runCaseChild() {
	kind := os.Args[2]
	idx, _ := strconv.Atoi(os.Args[3])
	dir := os.Args[4]
	tier := os.Args[5]
	seed := int64(1)
	if s := os.Getenv("VERIF_SEED"); s != "" {
		seed, _ = strconv.ParseInt(s, 10, 64)
	}
	debug.SetTraceback("all")
	var res *caseResult
	switch kind {
	case "hist":
		res = runHistCase(idx, dir, tier, seed)
	case "conc":
		res = runConcCase(idx, dir, tier, seed)
	case "directed":
		res = runDirectedCase(idx, dir, tier, seed)
	case "big":
		res = runBigCase(idx, dir, tier, seed)
	default:
		fmt.Println("unknown case kind", kind)
		os.Exit(4)
	}
	writeResult(dir, res)
}

func tail(s string, n int) string {
	if len(s) > n {
		return s[len(s)-n:]
	}
	return s
}

func firstLine(s string) string {
	for _, l := range strings.Split(s, "\n") {
		if strings.HasPrefix(l, "panic:") || strings.HasPrefix(l, "fatal error:") {
			return l
		}
	}
	if i := strings.IndexByte(s, '\n'); i >= 0 {
		return s[:i]
	}
	return s
}

// anchoredFiles are the files the property anchors (properties.jsonl).
var anchoredFiles = []string{
	"tsdb/memdb/database.go", "tsdb/memdb/field_writer.go", "tsdb/memdb/metric_store_filter.go", "tsdb/memdb/time_series_index.go",
	"tsdb/data_family.go", "tsdb/tblstore/metricsdata/reader.go", "tsdb/tblstore/metricsdata/filter.go",
	"tsdb/tblstore/metricsdata/metric_data_loader.go", "flow/context.go", "query/leaf_processor.go", "query/stage/shard_scan_stage.go",
	"query/stage/grouping_stage.go", "query/stage/data_load_stage.go", "query/context/leaf_reduce_context.go",
	"aggregation/series_agg.go", "aggregation/field_agg.go", "aggregation/group_agg.go", "aggregation/expression.go",
	"aggregation/function/functions.go", "series/field/type.go",
}

// anchoredFrame returns the anchored file of the first goroutine's stack (the crashing one) in a Go crash dump.
func anchoredFrame(out string) string {
	i := strings.Index(out, "\ngoroutine ")
	start := strings.Index(out, "panic:")
	if f := strings.Index(out, "fatal error:"); f >= 0 && (start < 0 || f < start) {
		start = f
	}
	if start < 0 || i < 0 {
		return ""
	}
	rest := out[start:]
	g := strings.Index(rest, "\ngoroutine ")
	if g < 0 {
		return ""
	}
	stack := rest[g+1:]
	if e := strings.Index(stack, "\n\n"); e >= 0 {
		stack = stack[:e]
	}
	for _, f := range anchoredFiles {
		if strings.Contains(stack, "/"+f+":") {
			return strings.ReplaceAll(f, "/", "_")
		}
	}
	return ""
}
