package main

// Minimal reproductions of the C11 findings, one test each. They FAIL on a tree that has the defect and PASS once it
// is repaired (the expectation is the naive reference, not current behaviour). They are skipped unless C11_REPRO=1:
//
//	cd /verif/harness && C11_REPRO=1 LOG_LEVEL=fatal TZ=UTC GOFLAGS=-mod=mod GOPROXY=off GOSUMDB=off GOTOOLCHAIN=local \
//	  go test -tags verif -count=1 -v -run 'TestRepro' ./cmd/c11/
//
// One node per test, sequentially (lindb's singletons), in a temp dir.

import (
	"fmt"
	"os"
	"testing"
	"time"

	"github.com/lindb/common/pkg/fasttime"

	"github.com/lindb/lindb/tsdb"
	"github.com/lindb/lindb/verif/internal/node"
)

type repro struct {
	t  *testing.T
	n  *node.Node
	c  *node.Cluster
	m  *node.Model
	t0 int64
}

func newRepro(t *testing.T, opt func(o *node.Options)) *repro {
	if os.Getenv("C11_REPRO") == "" {
		t.Skip("set C11_REPRO=1")
	}
	dir, err := os.MkdirTemp("", "c11repro")
	if err != nil {
		t.Fatal(err)
	}
	t.Cleanup(func() { os.RemoveAll(dir) })
	o := node.Options{Dir: dir}
	if opt != nil {
		opt(&o)
	}
	n, err := node.Open(o)
	if err != nil {
		t.Fatal(err)
	}
	now := time.Now().UnixMilli()
	r := &repro{t: t, n: n, c: node.NewCluster(n, node.Layout{}), m: node.NewModel(10_000), t0: now - now%3600_000 - 3*3600_000}
	t.Cleanup(func() { r.c.Close(); r.n.Close() })
	return r
}

// w writes one point (series host=<host>) at slot (10s slots from t0).
func (r *repro) w(host string, slot int, fields ...node.Field) {
	p := []node.Point{{Metric: "m", Tags: map[string]string{"host": host}, Timestamp: r.t0 + int64(slot)*10_000 + 1000, Fields: fields}}
	if _, err := r.n.Write(p); err != nil {
		r.t.Fatal(err)
	}
	r.m.Add(p)
}

func sum(name string, v float64) node.Field { return node.Field{Name: name, Type: node.Sum, Value: v} }
func last(name string, v float64) node.Field {
	return node.Field{Name: name, Type: node.Last, Value: v}
}

func (r *repro) check(what string, arrival bool, items ...node.SelectItem) {
	q := &node.Query{Metric: "m", Items: items, Start: r.t0, End: r.t0 + 3*3600_000 - 1000}
	res := r.c.Query(q.SQL())
	if res.Err != nil || res.Stuck {
		r.t.Errorf("%s: %s -> err=%v stuck=%v", what, q.SQL(), res.Err, res.Stuck)
		return
	}
	diffs := node.Compare(r.m.Eval(q), res.ResultSet, nil, node.CompareOptions{Arrival: arrival})
	for _, d := range diffs {
		r.t.Errorf("%s: %s: %s", what, q.SQL(), d)
	}
	if len(diffs) == 0 {
		fmt.Println("ok:", what)
	}
}

func f(name string) node.SelectItem { return node.SelectItem{Expr: node.FieldRef{Name: name}} }
func fn(fun, name, alias string) node.SelectItem {
	return node.SelectItem{Expr: node.Call{Func: fun, Arg: node.FieldRef{Name: name}}, Alias: alias}
}

// metricsdata reader: a table block with a single field is mapped to query field index 0.
func TestReproReaderSingleFieldBlock(t *testing.T) {
	r := newRepro(t, nil)
	r.w("a", 5, sum("f1", 1))
	r.n.FlushAll()
	r.w("a", 5, sum("f2", 10)) // this generation holds only f2
	r.w("a", 6, sum("f2", 100))
	r.n.FlushAll()
	r.check("select f1,f2 over a block that carries only f2", false, f("f1"), f("f2"))
}

// aggregation/field_agg.go Aggregate: two aggregate types of one field are cross applied at every merge.
func TestReproTwoAggregateTypes(t *testing.T) {
	r := newRepro(t, nil)
	r.w("a", 5, sum("f", 5))
	r.check("select f, max(f): one series, one point f=5", false, f("f"), fn("max", "f", "mx"))
}

// memdb field_writer.write: the window's end offset moves back on an out-of-order write inside the window.
func TestReproWindowEndOffset(t *testing.T) {
	r := newRepro(t, nil)
	r.w("a", 26, sum("f", 4))
	r.w("a", 29, sum("f", 7))
	r.w("a", 27, sum("f", 2)) // slot 29 is no longer returned
	r.check("slots 26,29 then 27 in memory", false, f("f"))
	r.n.FlushAll()
	r.check("the same after a flush (the value is gone for good)", false, f("f"))
}

// the parts one slot has in different places are combined with the query function, not the field type.
func TestReproPlaces(t *testing.T) {
	r := newRepro(t, nil)
	r.w("a", 5, sum("f", 10))
	r.n.FlushAll()
	r.w("a", 5, sum("f", 16)) // slot sum is 26: 10 in a table file, 16 in the memory database
	r.check("max(f) of a sum field split over file + memdb", false, fn("max", "f", "mx"))
	r.n.FlushAll()
	r.n.CompactStores("data")
	r.check("after compaction", false, fn("max", "f", "mx"))
}

// dataFamily.Filter: the file filter's not-found drops the memory results (field variant and series variant).
func TestReproMemdbResultsDropped(t *testing.T) {
	r := newRepro(t, nil)
	r.w("a", 5, sum("f1", 1))
	r.n.FlushAll() // a block with f1 only
	r.w("a", 6, sum("f2", 2))
	r.check("select f2: in memory only, the family has a table block without f2", false, f("f2"))
	r.w("b", 7, sum("f1", 3)) // a new series, in memory only
	q := &node.Query{Metric: "m", Items: []node.SelectItem{f("f1")}, Start: r.t0, End: r.t0 + 3600_000, Cond: node.TagCmp{Key: "host", Op: "=", Values: []string{"b"}}}
	res := r.c.Query(q.SQL())
	for _, d := range node.Compare(r.m.Eval(q), res.ResultSet, nil, node.CompareOptions{}) {
		t.Errorf("series variant: %s: %s (err=%v)", q.SQL(), d, res.Err)
	}
}

// dataFamily.Filter: the memory database's field-not-found drops the table files.
func TestReproFileResultsDropped(t *testing.T) {
	r := newRepro(t, nil)
	r.w("a", 5, sum("f1", 1))
	r.n.FlushAll()
	r.w("a", 6, sum("f2", 2)) // the family's memory database knows f2 only (no write buffer for f1)
	r.check("select f1: flushed, the memory database of the family holds only f2", false, f("f1"))
}

// flush commit window: the table file is committed before the flushed memory database is detached.
func TestReproFlushCommitWindow(t *testing.T) {
	r := newRepro(t, func(o *node.Options) { o.ReplicaSequences, o.Leader = true, 1 })
	r.w("a", 5, sum("f", 1))
	r.w("a", 6, sum("f", 2))
	parked, release := make(chan struct{}), make(chan struct{})
	r.n.AckHook = func(tsdb.DataFamily, int64) { parked <- struct{}{}; <-release }
	done := make(chan error, 1)
	go func() { done <- r.n.FlushAll() }()
	<-parked // inside DataFamily.Flush, where the local replicator acknowledges the WAL sequence
	r.check("query while the flush is inside the ack callback", false, f("f"))
	r.n.AckHook = nil
	close(release)
	<-done
	r.check("after the flush", false, f("f"))
}

// two memory databases of one shard created in one tick of the 5ms clock.
func TestReproSameTickMemoryDatabases(t *testing.T) {
	r := newRepro(t, func(o *node.Options) { o.NoTickGuard = true })
	r.w("a", 2*360+50, sum("f", 1)) // ids first
	r.n.FlushAll()
	for try := 0; try < 40; try++ {
		node.WaitNextTick(fasttime.UnixNano())
		r.w("a", 6+try, sum("f", 1))     // family of hour 0
		r.w("a", 360+6+try, sum("f", 2)) // family of hour 1, right after
		fa, _ := r.n.Family(0, r.t0)
		fb, _ := r.n.Family(0, r.t0+3600_000)
		ta, ok1 := node.MemDBCreatedTicks(fa)
		tb, ok2 := node.MemDBCreatedTicks(fb)
		same := ok1 && ok2 && ta["mutable"] == tb["mutable"]
		r.n.FlushFamily(fa)
		if same {
			r.check("family B after family A (same creation tick) was flushed", false, f("f"))
			r.n.FlushFamily(fb)
			r.check("after flushing family B too", false, f("f"))
			return
		}
		r.n.FlushFamily(fb)
	}
	t.Skip("no tick collision produced in 40 attempts")
}

// first/last fields: the later call wins for last (write() rule) - also across compress buffer, flush and files.
func TestReproArrivalOrder(t *testing.T) {
	r := newRepro(t, nil)
	r.w("a", 40, last("l", 1))
	r.w("a", 70, last("l", 9)) // leaves the window: slot 40 goes to the compress buffer
	r.w("a", 40, last("l", 2)) // a new window holding slot 40 again
	r.check("compress buffer + window in memory", true, f("l"))
	r.n.FlushAll()
	r.check("merged at flush", true, f("l"))
	r.w("a", 40, last("l", 3))
	r.check("table file + memory database", true, f("l"))
}

// memdb time_series_index.go Load: the []*fieldEntry of one memFilterResultSet is shared by the loaders of all series
// containers; they run in parallel on the Scanner pool and each positions the entry on its current series' buffer
// (fm.Reset(buf) then DownSampling(fm)). More than 65 536 series of one metric in one memory database (2 containers)
// -> values of other series, different every run. From the table file the same queries are right.
func TestReproParallelContainerLoadsShareFieldEntry(t *testing.T) {
	r := newRepro(t, nil)
	r.m = node.NewModel(10_000)
	const n = 65536 + 4000
	// the metric's slot range spans the hour: every series load walks 360 slots over the shared entry
	batch := []node.Point{
		{Metric: "m", Timestamp: r.t0 + 1000, Tags: map[string]string{"uid": "e0", "host": "edge"}, Fields: []node.Field{sum("f", 0.5)}},
		{Metric: "m", Timestamp: r.t0 + 359*10_000 + 1000, Tags: map[string]string{"uid": "e1", "host": "edge"}, Fields: []node.Field{sum("f", 0.5)}},
	}
	// a host selects 500 series of each container (series ids follow creation order): both loads take the same time
	hostOf := func(i int) int {
		if i+2 < 65535 {
			return i % 131
		}
		return i % 8
	}
	for i := 0; i < n; i++ {
		batch = append(batch, node.Point{Metric: "m", Timestamp: r.t0 + int64(50+i%12)*10_000 + 1000,
			Tags:   map[string]string{"uid": fmt.Sprintf("u%d", i), "host": fmt.Sprintf("h%d", hostOf(i))},
			Fields: []node.Field{sum("f", float64(i+1))}})
		if len(batch) == 4000 || i == n-1 {
			if _, err := r.n.Write(batch); err != nil {
				t.Fatal(err)
			}
			r.m.Add(batch)
			batch = nil
		}
	}
	for round := 0; round < 2; round++ {
		bad := 0
		for h := 0; h < 24; h++ {
			q := &node.Query{Metric: "m", Items: []node.SelectItem{f("f")}, Start: r.t0, End: r.t0 + 3600_000 - 1000, GroupBy: []string{"uid"},
				Cond: node.TagCmp{Key: "host", Op: "=", Values: []string{fmt.Sprintf("h%d", h%8)}}}
			res := r.c.Query(q.SQL())
			if res.Err != nil || res.Stuck {
				t.Fatalf("%s -> err=%v stuck=%v", q.SQL(), res.Err, res.Stuck)
			}
			if diffs := node.Compare(r.m.Eval(q), res.ResultSet, []string{"uid"}, node.CompareOptions{}); len(diffs) > 0 {
				bad++
				if bad <= 3 {
					t.Errorf("%s (%s): %d differences, first %s", q.SQL(), map[int]string{0: "memory database", 1: "table file"}[round], len(diffs), diffs[0])
				}
			}
		}
		fmt.Printf("%d series, 24 queries over the %s: %d wrong\n", n, map[int]string{0: "memory database", 1: "table file"}[round], bad)
		r.n.FlushAll()
	}
}

// last/first over a query bucket wider than the storage slot: every place is down-sampled on its own and the results are
// combined in place order, the source slot is lost. Slot 95 (value 7) is written first, slot 94 (value -3) afterwards
// (the write window restarts at 94, slot 95 moves to the compress buffer): the last value of the 30s bucket is the one
// of slot 95 - in memory lindb answers -3, after a flush (one table stream, walked in time order) 7.
func TestReproFirstLastBucketOverPlaces(t *testing.T) {
	r := newRepro(t, nil)
	r.w("a", 95, last("l", 7))
	r.w("a", 94, last("l", -3))
	ask := func(what string) {
		q := &node.Query{Metric: "m", Items: []node.SelectItem{f("l")}, Start: r.t0, End: r.t0 + 3600_000 - 1000, IntervalMs: 30_000}
		res := r.c.Query(q.SQL())
		if res.Err != nil || res.Stuck {
			t.Fatalf("%s: %s -> err=%v stuck=%v", what, q.SQL(), res.Err, res.Stuck)
		}
		got := node.Canonical(res.ResultSet, nil)
		fmt.Printf("%s: %s\n", what, got)
		for _, s := range res.ResultSet.Series {
			for _, pts := range s.Fields {
				for _, v := range pts {
					if v != 7 {
						t.Errorf("%s: last value of the bucket holding slots 94 (-3) and 95 (7) = %v, want 7", what, v)
					}
				}
			}
		}
	}
	ask("compress buffer + write window")
	r.n.FlushAll()
	ask("one table file")
}
