package main

import (
	"fmt"
	"math/rand"
	"os"
	"path/filepath"

	"github.com/lindb/common/pkg/fasttime"

	"github.com/lindb/lindb/verif/internal/node"
)

// Directed scenarios.
//
// even index: arrival order of last/first fields. One series, one storage slot, one value per write call: memdb's
// write() combines an incoming value with the stored one as Aggregate(stored, incoming), i.e. the later call wins
// for a last field and the earlier one for a first field. Every other place that combines two values of that cell
// (window -> compress buffer merge, flush merge, union of memory database and table files at query time, table
// merge at compaction) has to keep that rule, otherwise the answer depends on where the flush fell.
//
// odd index: two memory databases of one shard created within one tick of lindb's 5ms clock.

func runDirectedCase(idx int, dir, tier string, seed int64) *caseResult {
	res := &caseResult{Kind: "directed", Index: idx}
	rnd := rand.New(rand.NewSource(seed*911 + int64(idx)*13 + 5))
	if idx%2 == 0 {
		runArrivalScenarios(res, idx, dir, rnd)
	} else {
		runTickScenario(res, idx, dir, rnd)
	}
	return res
}

type arrivalStep struct {
	op    string  // w | flush | compact | reopen | check
	slot  int     // w: slot offset relative to X
	value float64 // w
	stage string  // check: class suffix
}

func runArrivalScenarios(res *caseResult, idx int, dir string, rnd *rand.Rand) {
	x := 40 + rnd.Intn(200)
	v := func() float64 { return float64(1 + rnd.Intn(9)) }
	// distinct values so that the winner is identifiable
	vals := rnd.Perm(9)
	a, b, c, d := float64(vals[0]+1), float64(vals[1]+1), float64(vals[2]+1), float64(vals[3]+1)
	_ = v
	scenarios := map[string][]arrivalStep{
		"same-window": {
			{op: "w", value: a}, {op: "w", value: b}, {op: "check", stage: "memdb-same-window"},
			{op: "flush"}, {op: "check", stage: "memdb-same-window-flushed"},
		},
		"compress-buffer": {
			{op: "w", value: a}, {op: "w", slot: 30, value: 7}, {op: "w", value: b},
			{op: "check", stage: "memdb-compress-buffer-plus-window"},
			{op: "w", slot: 60, value: 7}, // the window holding b is merged into the compress buffer holding a
			{op: "check", stage: "memdb-compress-buffer-merged-in-memory"},
		},
		"compress-buffer-flush": {
			{op: "w", value: a}, {op: "w", slot: 30, value: 7}, {op: "w", value: b},
			{op: "flush"}, {op: "check", stage: "memdb-compress-buffer-merged-at-flush"},
		},
		"file-plus-memdb": {
			{op: "w", value: a}, {op: "flush"}, {op: "w", value: b}, {op: "check", stage: "table-file-plus-memdb-at-query"},
		},
		"two-files": {
			{op: "w", value: a}, {op: "flush"}, {op: "w", value: b}, {op: "flush"}, {op: "check", stage: "two-table-files-at-query"},
			{op: "compact"}, {op: "check", stage: "table-files-merged-by-compaction"},
			{op: "reopen"}, {op: "check", stage: "table-files-merged-by-compaction-reopened"},
		},
		"three-generations": {
			{op: "w", value: a}, {op: "flush"}, {op: "w", value: b}, {op: "flush"}, {op: "w", value: c},
			{op: "check", stage: "two-table-files-plus-memdb-at-query"},
		},
		// a and b merged into a level 1 file, c in a younger level 0 file (version.FindFiles lists level 0 first), then a
		// memory database on top, then everything merged
		"level1-plus-level0": {
			{op: "w", value: a}, {op: "flush"}, {op: "w", value: b}, {op: "flush"}, {op: "compact"},
			{op: "w", value: c}, {op: "flush"}, {op: "check", stage: "level1-file-plus-level0-file-at-query"},
			{op: "w", value: d}, {op: "check", stage: "level1-file-plus-level0-file-plus-memdb-at-query"},
			{op: "flush"}, {op: "check", stage: "level1-file-plus-two-level0-files-at-query"},
			{op: "compact"}, {op: "check", stage: "level1-file-merged-with-level0-files-by-compaction"},
			{op: "reopen"}, {op: "check", stage: "level1-file-merged-with-level0-files-by-compaction-reopened"},
		},
		// immutable memory database (flush parked is not needed: the mutable one of the next generation after reopen)
		"file-plus-compress-buffer-plus-window": {
			{op: "w", value: a}, {op: "flush"}, {op: "w", value: b}, {op: "w", slot: 30, value: 7}, {op: "w", value: c},
			{op: "check", stage: "table-file-plus-compress-buffer-plus-window-at-query"},
			{op: "flush"}, {op: "check", stage: "table-file-plus-flushed-compress-buffer-and-window-at-query"},
		},
	}
	names := []string{"same-window", "compress-buffer", "compress-buffer-flush", "file-plus-memdb", "two-files", "three-generations",
		"level1-plus-level0", "file-plus-compress-buffer-plus-window"}
	sc := &schema{Shards: 1, Hours: 3, Base: baseTime(3)}
	for _, name := range names {
		sdir := filepath.Join(dir, name)
		_ = os.MkdirAll(sdir, 0o755)
		r, err := newRunner(res, sdir, sc, fmt.Sprintf("directed-%d/%s", idx, name), name, rnd, nil)
		if err != nil {
			res.Notes = append(res.Notes, "open failed: "+err.Error())
			continue
		}
		res.count("arrival_scenarios", 1)
		q := &node.Query{Metric: "ar", Items: []node.SelectItem{{Expr: node.FieldRef{Name: "la"}}, {Expr: node.FieldRef{Name: "fi"}}},
			Start: sc.Base, End: sc.Base + 3*hourMs - 1000}
		for _, st := range scenarios[name] {
			switch st.op {
			case "w":
				ts := sc.Base + int64(x+st.slot)*slotMs + 1000
				r.log("write slot %d value %v", x+st.slot, st.value)
				if err := r.write([]node.Point{{Metric: "ar", Tags: map[string]string{"host": "h1"}, Timestamp: ts,
					Fields: []node.Field{{Name: "la", Type: node.Last, Value: st.value}, {Name: "fi", Type: node.First, Value: st.value}}}}); err != nil {
					res.Notes = append(res.Notes, "write failed: "+err.Error())
				}
			case "flush", "compact", "reopen":
				if err := r.exec(op{Kind: st.op}, nil); err != nil {
					res.Notes = append(res.Notes, st.op+" failed: "+err.Error())
				}
			case "check":
				qr, exp, _, status := r.run(q, r.m)
				res.Evals++
				res.count("arrival_checks", 1)
				res.Nontrivial = append(res.Nontrivial, hashKey("arrival", idx, name, st.stage))
				if status != "" {
					res.violation("C11/arrival-order/"+st.stage+"/query-"+status, fmt.Sprintf("%s: query %s: %v", name, status, qr.Err), r.history)
					continue
				}
				diffs := node.Compare(exp, qr.ResultSet, nil, node.CompareOptions{Arrival: true})
				for _, d := range diffs {
					kind := "first"
					if d.Item == "la" {
						kind = "last"
					}
					class := fmt.Sprintf("C11/arrival-order/%s/%s-field", st.stage, kind)
					if d.Kind != "arrival-order" {
						class = fmt.Sprintf("C11/arrival-order/%s/%s", st.stage, diffKind(d.Kind))
					}
					res.violation(class, fmt.Sprintf("scenario %s (one series, one slot, values written by successive calls: see operations): %s", name, d.String()),
						map[string]interface{}{"scenario": name, "operations": r.history, "sql": q.SQL(), "diff": d.String()})
				}
			}
		}
		r.close()
		_ = os.RemoveAll(sdir)
	}
}

// runTickScenario: memdb.memoryDatabase takes createdTime from fasttime.UnixNano(), a clock that advances every 5ms, and
// uses it as the key of the metric level slot range in the shard level timeSeriesIndex.families map. Two memory
// databases of one shard (two data families written back to back - one batch crossing an hour boundary is enough)
// created within one tick share that entry; closing one of them after its flush deletes it. The scenario produces
// the collision (verified logically: equal creation stamps derived from MemoryDatabase.Uptime()), flushes family A and
// checks that family B's written points are still returned, then flushes B and checks again.
func runTickScenario(res *caseResult, idx int, dir string, rnd *rand.Rand) {
	sc := &schema{Shards: 1, Hours: 3, Base: baseTime(3)}
	r, err := newRunner(res, dir, sc, fmt.Sprintf("directed-%d/tick", idx), "tick", rnd, func(o *node.Options) { o.NoTickGuard = true })
	if err != nil {
		res.Notes = append(res.Notes, "open failed: "+err.Error())
		return
	}
	defer r.close()
	pt := func(ts int64, v float64) []node.Point {
		return []node.Point{{Metric: "tk", Tags: map[string]string{"host": "h1"}, Timestamp: ts, Fields: []node.Field{{Name: "f", Type: node.Sum, Value: v}}}}
	}
	// create metric / series / field ids first so the two writes below are short
	if err := r.write(pt(sc.Base+2*hourMs+600_000, 1)); err != nil {
		res.Notes = append(res.Notes, err.Error())
		return
	}
	_ = r.n.FlushAll()
	q := &node.Query{Metric: "tk", Items: []node.SelectItem{{Expr: node.FieldRef{Name: "f"}}}, Start: sc.Base, End: sc.Base + 2*hourMs - 1000}
	produced := false
	for try := 0; try < 40 && !produced; try++ {
		node.WaitNextTick(fasttime.UnixNano())
		tsA := sc.Base + 60_000 + int64(try)*slotMs
		tsB := sc.Base + hourMs + 60_000 + int64(try)*slotMs
		r.log("try %d: write family A then family B right after a clock tick", try)
		if err := r.write(pt(tsA, 1)); err != nil {
			break
		}
		if err := r.write(pt(tsB, 2)); err != nil {
			break
		}
		fa, _ := r.n.Family(0, tsA)
		fb, _ := r.n.Family(0, tsB)
		ta, ok1 := node.MemDBCreatedTicks(fa)
		tb, ok2 := node.MemDBCreatedTicks(fb)
		same := ok1 && ok2 && ta["mutable"] != 0 && ta["mutable"] == tb["mutable"]
		res.count("tick_attempts", 1)
		if same {
			produced = true
			res.count("memory_databases_created_in_one_clock_tick", 1)
			res.Nontrivial = append(res.Nontrivial, hashKey("tick", idx, try))
		}
		stage := func(name string) {
			qr, exp, diffs, status := r.run(q, r.m)
			res.Evals++
			if status != "" || len(diffs) > 0 {
				if !same {
					res.violation("C11/result/after-family-flush/no-tick-collision", fmt.Sprintf("tick scenario without collision: %s %v %v", name, status, headDiffs(diffs, 3)), r.history)
					return
				}
				msg := fmt.Sprintf("two memory databases of shard 0 (families %s and %s) were created in the same 5ms clock tick (createdTime %d); %s: %s",
					fa.Indicator(), fb.Indicator(), ta["mutable"], name, q.SQL())
				if status != "" {
					msg += fmt.Sprintf(" -> %s %v", status, qr.Err)
				} else {
					msg += fmt.Sprintf(" differs from the reference: %v", headDiffs(diffs, 4))
				}
				res.violation("C11/memdb/same-tick-memory-databases-share-slot-range-key", msg,
					map[string]interface{}{"operations": r.history, "sql": q.SQL(), "created_ticks_A": ta, "created_ticks_B": tb, "diffs": headDiffs(diffs, 10), "expected_values": exp.Cells})
			}
		}
		stage("both families in memory")
		r.log("flush family A only")
		_ = r.n.FlushFamily(fa)
		stage("after flushing family A only (family B still in memory)")
		r.log("flush family B")
		_ = r.n.FlushFamily(fb)
		stage("after flushing family B as well")
	}
	if !produced {
		res.count("tick_collision_not_produced", 1)
	}
}
