package main

import (
	"encoding/json"
	"fmt"
	"math/rand"
	"os"
	"path/filepath"
	"runtime/debug"
	"strconv"
	"strings"
	"time"
)

func seqRand(seed int64, idx int) *rand.Rand {
	return rand.New(rand.NewSource(seed*1000003 + int64(idx)*7919 + 8))
}

// runSequence runs one fault sequence in its own scratch directory.
func runSequence(base string, seed int64, idx int, evs []event) (res *seqResult) {
	res = &seqResult{Index: idx, Counters: map[string]int{}}
	_ = os.RemoveAll(base)
	if err := os.MkdirAll(base, 0o755); err != nil {
		res.Fatal = "harness: " + err.Error()
		return res
	}
	defer os.RemoveAll(base)
	rnd := seqRand(seed, idx)
	if evs == nil {
		evs = genSequence(rnd, idx, 8+rnd.Intn(18))
	}
	w, err := newWorld(base, len(evs) > 0 && evs[0].Kind == "old")
	if err != nil {
		res.Fatal = "harness: " + err.Error()
		return res
	}
	d := newDriver(w, rnd, res)
	defer func() {
		if r := recover(); r != nil {
			st := string(debug.Stack())
			kind := "harness-panic:"
			// a panic whose innermost non-runtime frame is lindb replication code is an observation about lindb
			for _, line := range strings.Split(st, "\n") {
				if strings.Contains(line, "runtime/") || strings.Contains(line, "panic(") || strings.HasPrefix(line, "goroutine") || strings.TrimSpace(line) == "" {
					continue
				}
				if strings.Contains(line, "lindb/replica") || strings.Contains(line, "lindb/pkg/queue") || strings.Contains(line, "lindb/app/storage/rpc") {
					kind = "panic-in-lindb:"
				}
				if strings.Contains(line, ".go:") {
					break
				}
			}
			res.Fatal = fmt.Sprintf("%s sequence %d [%s] event %d: %v\n%s", kind, idx, res.Script, d.evIdx, r, st)
		}
		res.Trace = d.trace
		res.Nontrivial = d.nontrivialKey()
		func() {
			defer func() { _ = recover() }()
			w.close()
		}()
	}()
	d.run(evs)
	return res
}

func runBatch() {
	kind := os.Args[2]
	from, _ := strconv.Atoi(os.Args[3])
	to, _ := strconv.Atoi(os.Args[4])
	dir := os.Args[5]
	seed, _ := strconv.ParseInt(os.Getenv("VERIF_SEED"), 10, 64)
	logDir := dir
	if b := os.Getenv("C08_LOG_BASE"); b != "" {
		logDir = filepath.Join(b, filepath.Base(dir))
		defer os.RemoveAll(logDir)
	}
	out := &batchResult{From: from, To: to, Counters: map[string]int{}}
	byClass := map[string]*batchViolation{}
	write := func() {
		data, _ := json.Marshal(out)
		if err := os.WriteFile(filepath.Join(dir, "result.json"), data, 0o644); err != nil {
			fmt.Println(err)
			os.Exit(3)
		}
	}
	abandon := false
	for idx := from; idx < to; idx++ {
		fmt.Printf("sequence %d starts\n", idx) // logged before it runs
		done := make(chan *seqResult, 1)
		go func() {
			if kind == "free" {
				done <- runFree(filepath.Join(logDir, fmt.Sprintf("free%06d", idx)), seed, idx)
				return
			}
			done <- runSequence(filepath.Join(logDir, fmt.Sprintf("seq%06d", idx)), seed, idx, nil)
		}()
		var r *seqResult
		select {
		case r = <-done:
		case <-time.After(3 * time.Minute):
			out.Hung = fmt.Sprintf("sequence %d did not return within 3 minutes (watchdog, not an oracle)", idx)
			write()
			os.Exit(0)
		}
		out.Done++
		out.Evals += r.Evals
		for k, v := range r.Counters {
			out.Counters[k] += v
		}
		if strings.HasPrefix(r.Fatal, "watchdog:") {
			// the other runs of this batch would wait just as long: one report is enough
			out.Fatal = append(out.Fatal, r.Fatal)
			break
		}
		abandon = abandon || r.AbandonBatch
		if r.Fatal != "" && !strings.HasPrefix(r.Fatal, "stop:") {
			out.Fatal = append(out.Fatal, r.Fatal)
		}
		if r.Nontrivial != "" {
			out.Nontrivial = append(out.Nontrivial, r.Nontrivial)
		}
		if idx < 2 && kind != "free" {
			out.Samples = append(out.Samples, r)
		}
		for _, v := range r.Violations {
			bv := byClass[v.Class]
			if bv == nil {
				bv = &batchViolation{Class: v.Class, Message: v.Message, Seq: &seqResult{Index: r.Index, Script: r.Script}, Trace: r.Trace}
				byClass[v.Class] = bv
				out.Violations = append(out.Violations, *bv)
			}
			bv.Count++
		}
		if abandon {
			// a goroutine of that sequence cannot be stopped (see releaseSpinner): what was decided so far is written
			// now, before it can take the process down
			break
		}
	}
	for i := range out.Violations {
		out.Violations[i].Count = byClass[out.Violations[i].Class].Count
	}
	write()
	if abandon {
		os.Exit(0)
	}
}

// runScript replays one event list given in text form and prints the trace: `c08 script "a3 s s lr:back1 s a1 s"`.
func runScript() {
	var evs []event
	for _, tok := range strings.Fields(strings.Join(os.Args[2:], " ")) {
		e, err := parseEvent(tok)
		if err != nil {
			fmt.Println(err)
			os.Exit(3)
		}
		evs = append(evs, e)
	}
	// same naming as the engine's private tmpfs directory, so a killed replay is cleaned up by the next run
	root := fastScratch()
	if root == "" {
		var err error
		if root, err = os.MkdirTemp(os.Getenv("VERIF_SCRATCH"), "verif-C08-script-"); err != nil {
			fmt.Println(err)
			os.Exit(3)
		}
	}
	defer os.RemoveAll(root)
	base := filepath.Join(root, "script")
	seed, _ := strconv.ParseInt(os.Getenv("VERIF_SEED"), 10, 64)
	r := runSequence(base, seed, 0, evs)
	for i, t := range r.Trace {
		fmt.Printf("%3d %-14s %s  [%s]\n", i, t.Ev, t.After, t.Took)
		for _, n := range t.Notes {
			fmt.Printf("      - %s\n", n)
		}
	}
	if r.Fatal != "" {
		fmt.Println("FATAL:", r.Fatal)
	}
	for _, v := range r.Violations {
		fmt.Printf("VIOLATION %s: %s\n", v.Class, v.Message)
	}
	if len(r.Violations) > 0 {
		_ = os.RemoveAll(root)
		os.Exit(1)
	}
}
