package main

import (
	"context"
	"errors"
	"fmt"
	"io"
	"os"
	"path/filepath"
	"runtime"
	"sync"
	"sync/atomic"
	"time"

	"google.golang.org/grpc"
	"google.golang.org/grpc/codes"
	"google.golang.org/grpc/metadata"
	"google.golang.org/grpc/status"

	storagerpc "github.com/lindb/lindb/app/storage/rpc"
	"github.com/lindb/lindb/coordinator/storage"
	"github.com/lindb/lindb/models"
	"github.com/lindb/lindb/pkg/option"
	"github.com/lindb/lindb/pkg/queue"
	"github.com/lindb/lindb/pkg/timeutil"
	protoReplicaV1 "github.com/lindb/lindb/proto/gen/v1/replica"
	"github.com/lindb/lindb/replica"
	"github.com/lindb/lindb/rpc"
	"github.com/lindb/lindb/tsdb"
	"github.com/lindb/lindb/verif/internal/imgfs"
)

const (
	leaderID   = models.NodeID(1)
	followerID = models.NodeID(2)
	dbName     = "c08db"
	shardID    = models.ShardID(3)
	pageSize   = 128 << 20
)

// ---------------------------------------------------------------------------------------------
// tsdb fakes: structs embedding the lindb interfaces, overriding exactly what partition /
// local replicator / ReplicaHandler call. Any other method would panic on the nil interface,
// which the child turns into a visible failure instead of silently doing nothing.
// ---------------------------------------------------------------------------------------------

type fakeDB struct {
	tsdb.Database
	opt *option.DatabaseOption
}

func (d *fakeDB) Name() string                      { return dbName }
func (d *fakeDB) GetOption() *option.DatabaseOption { return d.opt }

type fakeShard struct {
	tsdb.Shard
	db *fakeDB
}

func (s *fakeShard) Database() tsdb.Database { return s.db }
func (s *fakeShard) ShardID() models.ShardID { return shardID }

type fakeFamily struct {
	tsdb.DataFamily
	tr timeutil.TimeRange
}

func (f *fakeFamily) TimeRange() timeutil.TimeRange          { return f.tr }
func (f *fakeFamily) FamilyTime() int64                      { return f.tr.Start }
func (f *fakeFamily) AckSequence(_ int32, _ func(seq int64)) {}
func (f *fakeFamily) Retain()                                {}
func (f *fakeFamily) Release()                               {}
func (f *fakeFamily) GetState() models.DataFamilyState       { return models.DataFamilyState{} }

// ---------------------------------------------------------------------------------------------
// storage.StateManager fake: live flag of the follower + the watchers the replicator registers.
// One instance per leader incarnation (the watcher of a dead incarnation must never be called).
// ---------------------------------------------------------------------------------------------

type fakeStateMgr struct {
	storage.StateManager
	live     *atomic.Bool
	mu       sync.Mutex
	watchers []func(state models.NodeStateType)
	// afterOfflineAnswer, if set, runs once right after GetLiveNode has decided to answer "not live"
	// (the node comes online, and its notification is delivered, before the caller acts on the answer)
	afterOfflineAnswer func()
}

func (m *fakeStateMgr) GetLiveNode(nodeID models.NodeID) (models.StatefulNode, bool) {
	if nodeID != followerID || !m.live.Load() {
		m.mu.Lock()
		h := m.afterOfflineAnswer
		m.afterOfflineAnswer = nil
		m.mu.Unlock()
		if h != nil {
			h()
		}
		return models.StatefulNode{}, false
	}
	return models.StatefulNode{
		StatelessNode: models.StatelessNode{HostIP: "127.0.0.2", HostName: "follower", GRPCPort: 2891},
		ID:            followerID,
	}, true
}

func (m *fakeStateMgr) WatchNodeStateChangeEvent(nodeID models.NodeID, fn func(state models.NodeStateType)) {
	if nodeID != followerID {
		return
	}
	m.mu.Lock()
	m.watchers = append(m.watchers, fn)
	m.mu.Unlock()
}

func (m *fakeStateMgr) notify(st models.NodeStateType) {
	m.mu.Lock()
	ws := append([]func(models.NodeStateType){}, m.watchers...)
	m.mu.Unlock()
	for _, fn := range ws {
		fn(st)
	}
}

// ---------------------------------------------------------------------------------------------
// follower side: WriteAheadLogManager / WriteAheadLog fakes handing the real follower partition to
// the real ReplicaHandler; a queue wrapper to make the follower's Put fail on demand.
// ---------------------------------------------------------------------------------------------

type fakeWALMgr struct {
	replica.WriteAheadLogManager
	w *world
}

func (m *fakeWALMgr) GetOrCreateLog(database string) replica.WriteAheadLog {
	return &fakeWAL{w: m.w, database: database}
}

type fakeWAL struct {
	replica.WriteAheadLog
	w        *world
	database string
}

func (l *fakeWAL) GetOrCreatePartition(shard models.ShardID, familyTime int64, leader models.NodeID) (replica.Partition, error) {
	w := l.w
	if l.database != dbName || shard != shardID || familyTime != w.family.tr.Start || leader != leaderID {
		w.metaMismatch = fmt.Sprintf("handler asked for partition db=%s shard=%d family=%d leader=%d", l.database, shard, familyTime, leader)
		return nil, errors.New("unknown partition")
	}
	w.partMu.Lock()
	defer w.partMu.Unlock()
	if !w.fUp {
		return nil, errors.New("follower is down")
	}
	return w.fPart, nil
}

type faultQueue struct {
	queue.Queue
	w        *world
	failPuts *int32
	putErrs  *int32
}

var errInjectedPut = errors.New("injected: follower cannot append (no space left on device)")

// parkedPut is a follower append that has passed partition.ReplicaLog's index check and has not reached the queue yet.
type parkedPut struct{ release, done chan struct{} }

func (q *faultQueue) Put(msg []byte) error {
	w := q.w
	// an append that got here earlier goes first (it is only delayed, never reordered behind a later one)
	if w.releaseParkedPut() {
		// two appends had passed ReplicaLog's index check at the same time
		atomic.AddInt32(&w.overtakes, 1)
	}
	if atomic.LoadInt32(q.failPuts) > 0 {
		atomic.AddInt32(q.failPuts, -1)
		atomic.AddInt32(q.putErrs, 1)
		return errInjectedPut
	}
	if w.parkNextPut.CompareAndSwap(true, false) {
		p := &parkedPut{release: make(chan struct{}), done: make(chan struct{})}
		w.putMu.Lock()
		w.parkedPut = p
		entered := w.putParkedCh
		w.putMu.Unlock()
		close(entered)
		<-p.release
		err := q.Queue.Put(msg)
		close(p.done)
		return err
	}
	return q.Queue.Put(msg)
}

// releaseParkedPut lets a parked follower append finish and waits for it.
func (w *world) releaseParkedPut() bool {
	w.putMu.Lock()
	p := w.parkedPut
	w.parkedPut = nil
	w.putMu.Unlock()
	if p == nil {
		return false
	}
	close(p.release)
	<-p.done
	atomic.AddInt32(&w.landed, 1)
	return true
}

func (w *world) hasParkedPut() bool {
	w.putMu.Lock()
	defer w.putMu.Unlock()
	return w.parkedPut != nil
}

// inflightGrace is how long the driver lets a later call wait behind a parked append before it lets the parked
// append finish. lindb as it is never waits (ReplicaLog takes no lock), so the parked append is overtaken at once;
// an implementation that serialises ReplicaLog makes the later call block, and the grace period then resolves it.
// Driver pacing only: no verdict depends on it.
const inflightGrace = 200 * time.Millisecond

// callWithRelease runs a unary handler call; if it does not return while an append is parked, the append is released.
func (t *transport) callWithRelease(fn func()) {
	if !t.w.hasParkedPut() {
		fn()
		return
	}
	done := make(chan struct{})
	go func() { defer close(done); fn() }()
	select {
	case <-done:
	case <-time.After(inflightGrace):
		t.w.releaseParkedPut()
		<-done
	}
}

// armInflightPut makes the follower's next append park after the index check.
func (w *world) armInflightPut() {
	w.putMu.Lock()
	w.putParkedCh = make(chan struct{})
	w.putMu.Unlock()
	w.parkNextPut.Store(true)
}

type faultFanOut struct {
	queue.FanOutQueue
	q *faultQueue
}

func (f *faultFanOut) Queue() queue.Queue { return f.q }

// ---------------------------------------------------------------------------------------------
// transport: ReplicaServiceClient + stream pair in process, with one-shot faults.
// ---------------------------------------------------------------------------------------------

type faults struct {
	createClient  bool // CreateReplicaServiceClient fails
	getAck        bool // GetReplicaAckIndex fails before delivery
	reset         bool // Reset fails before delivery
	resetRespLost bool // Reset applied by the follower, response lost
	streamOpen    bool // Replica() stream cannot be created
	send          bool // Send fails before delivery
	reqLost       bool // Send returns nil, request never reaches the follower, Recv fails
	respLost      bool // request delivered and handled, response lost
	inflight      bool // request delivered; the connection dies while the follower is still inside ReplicaLog (append in flight)
}

type sendRec struct {
	Idx       int64
	Head      string // first bytes of the record offered
	Delivered bool
	RespIdx   int64
	RespAck   int64
	RespErr   string
	GotResp   bool
}

type transport struct {
	w       *world
	handler *storagerpc.ReplicaHandler
	mu      sync.Mutex // guards f, streams and the observations (the free-running variant arms faults from another goroutine)
	f       faults
	streams []*stream
	// beforeStreamOpen, if set, runs once at the start of the next stream creation (after the handshake's unary calls)
	beforeStreamOpen func()
	// observations of the current step (reset by the driver)
	obsCreateClient int
	obsGetAck       []int64 // answered values
	obsGetAckErr    int
	obsReset        []int64 // requested append index
	obsResetErr     int
	obsStreamOpen   int
	obsStreamErr    int
	obsSends        []sendRec
	fired           []string // faults that actually fired
}

// take consumes a one-shot fault.
func (t *transport) take(flag *bool, name string) bool {
	t.mu.Lock()
	defer t.mu.Unlock()
	if *flag {
		*flag = false
		t.fired = append(t.fired, name)
		return true
	}
	return false
}

func (t *transport) obs(fn func()) {
	t.mu.Lock()
	fn()
	t.mu.Unlock()
}

func (t *transport) setFaults(f faults) {
	t.mu.Lock()
	t.f = f
	t.beforeStreamOpen = nil
	t.mu.Unlock()
}

// lastSend returns the most recent send record.
func (t *transport) lastSend() (sendRec, bool) {
	t.mu.Lock()
	defer t.mu.Unlock()
	if n := len(t.obsSends); n > 0 {
		return t.obsSends[n-1], true
	}
	return sendRec{}, false
}

func (t *transport) armFault(fn func(f *faults)) {
	t.mu.Lock()
	fn(&t.f)
	t.mu.Unlock()
}

func (t *transport) clearObs() {
	t.mu.Lock()
	defer t.mu.Unlock()
	t.obsCreateClient, t.obsGetAck, t.obsGetAckErr, t.obsReset, t.obsResetErr = 0, nil, 0, nil, 0
	t.obsStreamOpen, t.obsStreamErr, t.obsSends, t.fired = 0, 0, nil, nil
}

var errUnavailable = status.Error(codes.Unavailable, "injected: connection refused")

// clientFactory implements rpc.ClientStreamFactory.
type clientFactory struct {
	rpc.ClientStreamFactory
	t *transport
}

func (c *clientFactory) CreateReplicaServiceClient(target models.Node) (protoReplicaV1.ReplicaServiceClient, error) {
	t := c.t
	t.obs(func() { t.obsCreateClient++ })
	if t.take(&t.f.createClient, "createClient") {
		return nil, errors.New("injected: cannot create client connection")
	}
	return &client{t: t}, nil
}

type client struct{ t *transport }

func (c *client) GetReplicaAckIndex(ctx context.Context, in *protoReplicaV1.GetReplicaAckIndexRequest, _ ...grpc.CallOption) (*protoReplicaV1.GetReplicaAckIndexResponse, error) {
	t := c.t
	if t.take(&t.f.getAck, "getAck") {
		t.obs(func() { t.obsGetAckErr++ })
		return nil, errUnavailable
	}
	t.w.fMu.RLock() // the follower cannot stop while it serves the call
	defer t.w.fMu.RUnlock()
	if !t.w.fUp {
		t.obs(func() { t.obsGetAckErr++ })
		return nil, errUnavailable
	}
	var resp *protoReplicaV1.GetReplicaAckIndexResponse
	var err error
	t.callWithRelease(func() { resp, err = t.handler.GetReplicaAckIndex(ctx, in) })
	if err != nil {
		t.obs(func() { t.obsGetAckErr++ })
		return nil, err
	}
	t.obs(func() { t.obsGetAck = append(t.obsGetAck, resp.AckIndex) })
	return resp, nil
}

func (c *client) Reset(ctx context.Context, in *protoReplicaV1.ResetIndexRequest, _ ...grpc.CallOption) (*protoReplicaV1.ResetIndexResponse, error) {
	t := c.t
	if t.take(&t.f.reset, "reset") {
		t.obs(func() { t.obsResetErr++ })
		return nil, errUnavailable
	}
	t.w.fMu.RLock()
	defer t.w.fMu.RUnlock()
	if !t.w.fUp {
		t.obs(func() { t.obsResetErr++ })
		return nil, errUnavailable
	}
	var resp *protoReplicaV1.ResetIndexResponse
	var err error
	t.callWithRelease(func() { resp, err = t.handler.Reset(ctx, in) })
	if err != nil {
		t.obs(func() { t.obsResetErr++ })
		return nil, err
	}
	t.obs(func() { t.obsReset = append(t.obsReset, in.AppendIndex) })
	if t.take(&t.f.resetRespLost, "resetRespLost") {
		t.obs(func() { t.obsResetErr++ })
		return nil, errUnavailable
	}
	return resp, nil
}

func (c *client) Replica(ctx context.Context, _ ...grpc.CallOption) (protoReplicaV1.ReplicaService_ReplicaClient, error) {
	t := c.t
	t.obs(func() { t.obsStreamOpen++ })
	// the window between the handshake (unary calls) and the stream: the follower may restart in it
	t.mu.Lock()
	hook := t.beforeStreamOpen
	t.beforeStreamOpen = nil
	t.mu.Unlock()
	if hook != nil {
		t.obs(func() { t.fired = append(t.fired, "wipeBeforeStream") })
		hook()
	}
	if t.take(&t.f.streamOpen, "streamOpen") {
		t.obs(func() { t.obsStreamErr++ })
		return nil, errUnavailable
	}
	t.w.fMu.RLock() // no stream is born while the follower stops
	defer t.w.fMu.RUnlock()
	if !t.w.fUp {
		t.obs(func() { t.obsStreamErr++ })
		return nil, errUnavailable
	}
	// what the replicator put into the outgoing metadata is what the handler finds as incoming metadata
	md, _ := metadata.FromOutgoingContext(ctx)
	sctx := metadata.NewIncomingContext(context.Background(), md.Copy())
	s := &stream{
		t: t, sctx: sctx, cctx: ctx,
		reqCh: make(chan *protoReplicaV1.ReplicaRequest), respCh: make(chan *protoReplicaV1.ReplicaResponse),
		closeSend: make(chan struct{}), broken: make(chan struct{}), serverDone: make(chan struct{}),
		inLoop: make(chan struct{}),
	}
	t.obs(func() { t.streams = append(t.streams, s) })
	go func() {
		defer close(s.serverDone)
		s.serverErr = t.handler.Replica(&serverStream{s: s})
	}()
	// the stream counts as open once its handler has resolved the partition and waits for the first request (or has
	// given up): no later event of the driver can fall into the handler's set-up
	for waiting := true; waiting; {
		var grace <-chan time.Time
		if t.w.hasParkedPut() {
			grace = time.After(inflightGrace)
		}
		select {
		case <-s.inLoop:
			waiting = false
		case <-s.serverDone:
			waiting = false
		case <-grace:
			t.w.releaseParkedPut()
		}
	}
	return &clientStream{s: s}, nil
}

type stream struct {
	t          *transport
	sctx, cctx context.Context
	reqCh      chan *protoReplicaV1.ReplicaRequest
	respCh     chan *protoReplicaV1.ReplicaResponse
	closeSend  chan struct{}
	broken     chan struct{}
	serverDone chan struct{}
	serverErr  error
	closeOnce  sync.Once
	breakOnce  sync.Once
	inLoop     chan struct{} // closed when the handler asks for its first request
	loopOnce   sync.Once
	reqLost    bool
}

var errStreamBroken = status.Error(codes.Unavailable, "injected: transport is closing")

// breakNow kills the stream and waits until the handler goroutine has left the follower partition.
func (s *stream) breakNow() {
	s.breakOnce.Do(func() { close(s.broken) })
	<-s.serverDone
}

func (s *stream) isBroken() bool {
	select {
	case <-s.broken:
		return true
	default:
		return false
	}
}

type clientStream struct {
	grpc.ClientStream
	s *stream
}

func (c *clientStream) Context() context.Context { return c.s.cctx }

func (c *clientStream) CloseSend() error {
	c.s.closeOnce.Do(func() { close(c.s.closeSend) })
	select {
	case <-c.s.serverDone:
	case <-c.s.broken:
	}
	return nil
}

func (c *clientStream) Send(req *protoReplicaV1.ReplicaRequest) error {
	s := c.s
	t := s.t
	rec := sendRec{Idx: req.ReplicaIndex}
	if n := len(req.Record); n > 24 {
		rec.Head = string(req.Record[:24])
	} else {
		rec.Head = string(req.Record)
	}
	defer func() { t.obs(func() { t.obsSends = append(t.obsSends, rec) }) }()
	if s.isBroken() {
		return errStreamBroken
	}
	if t.take(&t.f.send, "send") {
		s.breakNow()
		return errStreamBroken
	}
	if t.take(&t.f.reqLost, "reqLost") {
		s.reqLost = true
		return nil
	}
	for {
		var grace <-chan time.Time
		if t.w.hasParkedPut() {
			grace = time.After(inflightGrace)
		}
		select {
		case s.reqCh <- req:
			rec.Delivered = true
			return nil
		case <-s.serverDone:
			return errStreamBroken
		case <-grace:
			t.w.releaseParkedPut()
		}
	}
}

func (c *clientStream) Recv() (*protoReplicaV1.ReplicaResponse, error) {
	s := c.s
	t := s.t
	if s.reqLost {
		s.breakNow()
		return nil, errStreamBroken
	}
	if s.isBroken() {
		return nil, errStreamBroken
	}
	if t.take(&t.f.inflight, "inflightPut") {
		t.w.putMu.Lock()
		entered := t.w.putParkedCh
		t.w.putMu.Unlock()
	inflight:
		var grace <-chan time.Time
		if t.w.hasParkedPut() {
			select {
			case <-entered: // the parked append is this request's own
			default:
				grace = time.After(inflightGrace) // an older one: this request's handler may be waiting behind it
			}
		}
		select {
		case <-grace:
			t.w.releaseParkedPut()
			goto inflight
		case <-entered:
			// the client sees the connection die now; the follower's handler is still inside ReplicaLog and will
			// finish its append later (a gRPC server does not cancel a handler synchronously with the client's error)
			s.breakOnce.Do(func() { close(s.broken) })
			return nil, errStreamBroken
		case resp := <-s.respCh:
			// the follower answered without appending: nothing is in flight
			t.w.parkNextPut.Store(false)
			t.obs(func() {
				t.fired = t.fired[:len(t.fired)-1]
				if n := len(t.obsSends); n > 0 {
					r := &t.obsSends[n-1]
					r.GotResp, r.RespIdx, r.RespAck, r.RespErr = true, resp.ReplicaIndex, resp.AckIndex, resp.Err
				}
			})
			return resp, nil
		case <-s.serverDone:
			t.w.parkNextPut.Store(false)
			return nil, errStreamBroken
		}
	}
	for {
		var grace <-chan time.Time
		if t.w.hasParkedPut() {
			grace = time.After(inflightGrace)
		}
		select {
		case resp := <-s.respCh:
			t.obs(func() {
				if n := len(t.obsSends); n > 0 {
					r := &t.obsSends[n-1]
					r.GotResp, r.RespIdx, r.RespAck, r.RespErr = true, resp.ReplicaIndex, resp.AckIndex, resp.Err
				}
			})
			if t.take(&t.f.respLost, "respLost") {
				s.breakNow()
				return nil, errStreamBroken
			}
			return resp, nil
		case <-s.serverDone:
			if s.serverErr != nil {
				return nil, s.serverErr
			}
			return nil, errStreamBroken
		case <-grace:
			// this request's handler waits behind the parked append (a serialised ReplicaLog): let that one finish
			t.w.releaseParkedPut()
		}
	}
}

type serverStream struct {
	grpc.ServerStream
	s *stream
}

func (ss *serverStream) Context() context.Context { return ss.s.sctx }

func (ss *serverStream) Recv() (*protoReplicaV1.ReplicaRequest, error) {
	ss.s.loopOnce.Do(func() { close(ss.s.inLoop) })
	select {
	case req := <-ss.s.reqCh:
		return req, nil
	case <-ss.s.closeSend:
		return nil, io.EOF
	case <-ss.s.broken:
		return nil, errStreamBroken
	}
}

func (ss *serverStream) Send(resp *protoReplicaV1.ReplicaResponse) error {
	select {
	case ss.s.respCh <- resp:
		return nil
	case <-ss.s.broken:
		return errStreamBroken
	}
}

func (t *transport) breakAll() int {
	n := 0
	t.w.releaseParkedPut() // a handler parked inside its append finishes before its stream is torn down
	t.mu.Lock()
	streams := t.streams
	t.streams = nil
	t.mu.Unlock()
	for _, s := range streams {
		select {
		case <-s.serverDone:
		default:
			n++
		}
		s.breakNow()
	}
	return n
}

// ---------------------------------------------------------------------------------------------
// world: both nodes of one fault sequence
// ---------------------------------------------------------------------------------------------

type snapshot struct {
	dir      string
	appended int64
	event    int
	line     map[int64]int // position -> uid of the harness payload the log contained there when the copy was taken
}

// prefixOf reports whether everything the snapshot's log contained is still what the log contains now:
// only then is going back to it "losing the tail" and not "switching to another history".
func (s *snapshot) prefixOf(cur map[int64]int) bool {
	for pos, uid := range s.line {
		if c, ok := cur[pos]; !ok || c != uid {
			return false
		}
	}
	return true
}

type world struct {
	base        string
	leaderDir   string
	followerDir string
	ctx         context.Context
	cancel      context.CancelFunc

	shard  *fakeShard
	family *fakeFamily

	live *atomic.Bool

	// leader
	lUp   bool
	lLog  queue.FanOutQueue
	lPart replica.Partition
	lRep  replica.Replicator
	lSM   *fakeStateMgr
	lCG   queue.ConsumerGroup

	// follower
	fMu      sync.RWMutex // held for writing while the follower stops/starts, for reading while it serves a call
	partMu   sync.Mutex   // guards fUp/fPart against the handler goroutines of streams
	fUp      bool
	fReal    queue.FanOutQueue
	fPart    replica.Partition
	failPuts int32
	putErrs  int32

	landed      int32 // number of parked appends that have reached the follower's queue
	overtakes   int32 // number of times an append of a new stream overtook a parked append of a dead stream
	parkNextPut atomic.Bool
	putMu       sync.Mutex
	parkedPut   *parkedPut
	putParkedCh chan struct{}

	tr *transport

	parked chan bool // result channel of a Prepare parked while the follower is offline

	lSnaps, fSnaps []snapshot
	snapN          int

	metaMismatch    string
	onlineRaceFired bool
	notWoken        bool // an online notification was delivered and the parked replicator stayed parked
}

func newWorld(base string) (*world, error) {
	w := &world{base: base, leaderDir: filepath.Join(base, "leader"), followerDir: filepath.Join(base, "follower")}
	w.ctx, w.cancel = context.WithCancel(context.Background())
	opt := &option.DatabaseOption{}
	opt.Default()
	now := time.Now().UnixMilli()
	hour := int64(3600 * 1000)
	start := now - now%hour
	// the family ends one day from now: partition.IsExpire (used as the leader's Sync+GC) never takes its expiry path
	w.family = &fakeFamily{tr: timeutil.TimeRange{Start: start, End: start + 24*hour}}
	w.shard = &fakeShard{db: &fakeDB{opt: opt}}
	w.live = &atomic.Bool{}
	w.live.Store(true)
	w.tr = &transport{w: w}
	w.tr.handler = storagerpc.NewReplicaHandler(&fakeWALMgr{w: w})
	if err := w.startLeader(); err != nil {
		return nil, err
	}
	if err := w.startFollower(); err != nil {
		return nil, err
	}
	return w, nil
}

func (w *world) startLeader() error {
	q, err := queue.NewFanOutQueue(w.leaderDir, pageSize)
	if err != nil {
		return err
	}
	w.lLog = q
	w.lSM = &fakeStateMgr{live: w.live}
	w.lPart = replica.NewPartition(w.ctx, w.shard, w.family, leaderID, q, &clientFactory{t: w.tr}, w.lSM)
	if err := w.lPart.BuildReplicaForLeader(leaderID, []models.NodeID{followerID}); err != nil {
		return err
	}
	nodes, reps := replica.VerifReplicators(w.lPart)
	if len(nodes) != 1 || nodes[0] != followerID {
		return fmt.Errorf("unexpected replicators %v", nodes)
	}
	w.lRep = reps[0]
	cg, err := q.GetOrCreateConsumerGroup(fmt.Sprintf("%d", followerID))
	if err != nil {
		return err
	}
	w.lCG = cg
	w.lUp = true
	return nil
}

// stopLeader ends the leader incarnation (process exit). A Prepare parked in IsReady stays parked for ever,
// as it would in a process that is gone; its state manager is dropped so it is never woken.
func (w *world) stopLeader() {
	if !w.lUp {
		return
	}
	w.parked = nil
	w.lPart.Stop()
	w.tr.breakAll()
	_ = w.lPart.Close()
	w.lUp = false
	w.lRep, w.lCG, w.lLog, w.lPart, w.lSM = nil, nil, nil, nil, nil
}

func (w *world) startFollower() error {
	w.fMu.Lock()
	defer w.fMu.Unlock()
	q, err := queue.NewFanOutQueue(w.followerDir, pageSize)
	if err != nil {
		return err
	}
	wrapped := &faultFanOut{FanOutQueue: q, q: &faultQueue{Queue: q.Queue(), w: w, failPuts: &w.failPuts, putErrs: &w.putErrs}}
	part := replica.NewPartition(w.ctx, w.shard, w.family, followerID, wrapped, nil, nil)
	w.partMu.Lock()
	w.fReal, w.fPart, w.fUp = q, part, true
	w.partMu.Unlock()
	return nil
}

func (w *world) stopFollower() {
	if !w.fUp {
		return
	}
	w.fMu.Lock()
	defer w.fMu.Unlock()
	w.tr.breakAll() // the connection dies with the process; handler goroutines leave the partition first
	w.partMu.Lock()
	part := w.fPart
	w.fUp, w.fPart, w.fReal = false, nil, nil
	w.partMu.Unlock()
	_ = part.Close()
}

// swapFollowerPartition: the follower destroys its log for this family and leader and re-creates it empty (what
// writeAheadLog.destroy does to a drained log of an old family, or a WAL drop + re-create: Stop, Close, remove the
// directory; the next request creates a new partition) while the process and every open replica stream live on.
// The handler of an open stream keeps the partition object it resolved when the stream was opened.
func (w *world) swapFollowerPartition() error {
	if !w.fUp {
		return nil
	}
	w.releaseParkedPut() // nothing may be inside the old queue when it is unmapped
	w.fMu.Lock()
	defer w.fMu.Unlock()
	w.partMu.Lock()
	old := w.fPart
	w.partMu.Unlock()
	old.Stop()
	_ = old.Close()
	if err := os.RemoveAll(w.followerDir); err != nil {
		return err
	}
	q, err := queue.NewFanOutQueue(w.followerDir, pageSize)
	if err != nil {
		return err
	}
	wrapped := &faultFanOut{FanOutQueue: q, q: &faultQueue{Queue: q.Queue(), w: w, failPuts: &w.failPuts, putErrs: &w.putErrs}}
	part := replica.NewPartition(w.ctx, w.shard, w.family, followerID, wrapped, nil, nil)
	w.partMu.Lock()
	w.fReal, w.fPart = q, part
	w.partMu.Unlock()
	return nil
}

// openStreams returns the number of streams whose handler is still running.
func (t *transport) openStreams() int {
	t.mu.Lock()
	defer t.mu.Unlock()
	n := 0
	for _, s := range t.streams {
		select {
		case <-s.serverDone:
		default:
			if !s.isBroken() {
				n++
			}
		}
	}
	return n
}

func (w *world) close() {
	w.stopLeader()
	w.stopFollower()
	w.cancel()
}

func (w *world) snap(side string, event int, uids map[int64]int) {
	cp := make(map[int64]int, len(uids))
	for k, v := range uids {
		cp[k] = v
	}
	w.snapN++
	dst := filepath.Join(w.base, "snap", fmt.Sprintf("%s%04d", side, w.snapN))
	if side == "l" {
		if !w.lUp {
			return
		}
		if _, err := imgfs.CopyTree(w.leaderDir, dst, nil); err == nil {
			w.lSnaps = append(w.lSnaps, snapshot{dir: dst, appended: w.lLog.Queue().AppendedSeq(), event: event, line: cp})
		}
		return
	}
	if !w.fUp {
		return
	}
	if _, err := imgfs.CopyTree(w.followerDir, dst, nil); err == nil {
		w.fSnaps = append(w.fSnaps, snapshot{dir: dst, appended: w.fReal.Queue().AppendedSeq(), event: event, line: cp})
	}
}

// restoreDir replaces dir by the snapshot; keep names a sub directory of dir that survives (newer than the rest).
func restoreDir(dir, snap, keep string) error {
	tmpKeep := ""
	if keep != "" {
		tmpKeep = dir + ".keep"
		_ = os.RemoveAll(tmpKeep)
		if err := os.Rename(filepath.Join(dir, keep), tmpKeep); err != nil {
			return err
		}
	}
	if err := os.RemoveAll(dir); err != nil {
		return err
	}
	if _, err := imgfs.CopyTree(snap, dir, nil); err != nil {
		return err
	}
	if keep != "" {
		_ = os.RemoveAll(filepath.Join(dir, keep))
		if err := os.Rename(tmpKeep, filepath.Join(dir, keep)); err != nil {
			return err
		}
	}
	return nil
}

const offlineMsg = "follower node is offline"

// prepare runs the handshake half of partition.replica. It returns ready, parked.
func (w *world) prepare() (ready, parked bool) {
	if w.parked != nil {
		return false, true
	}
	res := make(chan bool, 1)
	r := w.lRep
	go func() { res <- replica.VerifReplicaPrepare(r) }()
	// IsReady either returns or parks on its suspend channel after having published the "offline" state.
	// Both are recognised from state, not from time.
	var offlineSince time.Time
	for i := 0; ; i++ {
		select {
		case ok := <-res:
			return ok, false
		default:
		}
		st, msg := replica.VerifReplicatorStateType(r)
		if st == int(models.ReplicatorFailureState) && msg == offlineMsg {
			if !w.live.Load() {
				w.parked = res
				return false, true
			}
			// "offline" is published although the follower is live by now: either IsReady is about to park (lost
			// wake-up) or it noticed and moves on at once. The state must persist before it is called parked.
			if offlineSince.IsZero() {
				offlineSince = time.Now()
			} else if time.Since(offlineSince) > 300*time.Millisecond {
				w.parked = res
				return false, true
			}
		} else {
			offlineSince = time.Time{}
		}
		if i < 200 {
			runtime.Gosched()
		} else {
			time.Sleep(50 * time.Microsecond)
		}
	}
}

// online marks the follower live and delivers the notification; a parked Prepare then runs its handshake.
func (w *world) online() (woken, ready bool) {
	w.live.Store(true)
	if w.lUp {
		w.lSM.notify(models.NodeOnline)
	}
	if w.parked != nil {
		// the notification has been delivered (the replicator's handler has returned): a parked IsReady has received
		// its wake-up or never will through this notification. Grace period only for the goroutine to get scheduled.
		deadline := time.Now().Add(5 * time.Second)
		for {
			select {
			case ready = <-w.parked:
				w.parked = nil
				return true, ready
			default:
			}
			st, msg := replica.VerifReplicatorStateType(w.lRep)
			if !(st == int(models.ReplicatorFailureState) && msg == offlineMsg) {
				ready = <-w.parked // it is running its handshake
				w.parked = nil
				return true, ready
			}
			if time.Now().After(deadline) {
				w.notWoken = true
				return false, false
			}
			time.Sleep(100 * time.Microsecond)
		}
	}
	return false, false
}

// armOnlineRace: the next time IsReady is told "follower not live", the follower comes online and the notification
// is delivered before IsReady gets to park.
func (w *world) armOnlineRace() {
	m := w.lSM
	m.mu.Lock()
	m.afterOfflineAnswer = func() {
		w.live.Store(true)
		m.notify(models.NodeOnline)
		w.onlineRaceFired = true
	}
	m.mu.Unlock()
}

func (w *world) disarmOnlineRace() {
	if w.lSM != nil {
		w.lSM.mu.Lock()
		w.lSM.afterOfflineAnswer = nil
		w.lSM.mu.Unlock()
	}
}

func (w *world) offline() {
	w.live.Store(false)
	if w.lUp {
		w.lSM.notify(models.NodeOffline)
	}
}
