package main

import (
	"context"
	"errors"
	"fmt"
	"io"
	"os"
	"path/filepath"
	"runtime"
	"strconv"
	"strings"
	"sync"
	"sync/atomic"
	"time"

	"google.golang.org/grpc"
	"google.golang.org/grpc/codes"
	"google.golang.org/grpc/metadata"
	"google.golang.org/grpc/status"

	storagerpc "github.com/lindb/lindb/app/storage/rpc"
	"github.com/lindb/lindb/coordinator/storage"
	"github.com/lindb/lindb/models"
	"github.com/lindb/lindb/pkg/option"
	"github.com/lindb/lindb/pkg/queue"
	"github.com/lindb/lindb/pkg/timeutil"
	protoReplicaV1 "github.com/lindb/lindb/proto/gen/v1/replica"
	"github.com/lindb/lindb/replica"
	"github.com/lindb/lindb/rpc"
	"github.com/lindb/lindb/tsdb"
	"github.com/lindb/lindb/verif/internal/imgfs"
)

const (
	leaderID   = models.NodeID(1)
	followerID = models.NodeID(2)
	dbName     = "c08db"
	shardID    = models.ShardID(3)
	// the follower registers as followerHost:<port>; the port changes when it comes back "at another address"
	followerHost      = "127.0.0.2"
	followerFirstPort = 2891
	pageSize          = 128 << 20
)

// ---------------------------------------------------------------------------------------------
// tsdb fakes: structs embedding the lindb interfaces, overriding exactly what partition /
// local replicator / ReplicaHandler call. Any other method would panic on the nil interface,
// which the child turns into a visible failure instead of silently doing nothing.
// ---------------------------------------------------------------------------------------------

type fakeDB struct {
	tsdb.Database
	opt *option.DatabaseOption
}

func (d *fakeDB) Name() string                      { return dbName }
func (d *fakeDB) GetOption() *option.DatabaseOption { return d.opt }

type fakeShard struct {
	tsdb.Shard
	db *fakeDB
}

func (s *fakeShard) Database() tsdb.Database { return s.db }
func (s *fakeShard) ShardID() models.ShardID { return shardID }

type fakeFamily struct {
	tsdb.DataFamily
	tr timeutil.TimeRange
}

func (f *fakeFamily) TimeRange() timeutil.TimeRange          { return f.tr }
func (f *fakeFamily) FamilyTime() int64                      { return f.tr.Start }
func (f *fakeFamily) AckSequence(_ int32, _ func(seq int64)) {}
func (f *fakeFamily) Retain()                                {}
func (f *fakeFamily) Release()                               {}
func (f *fakeFamily) GetState() models.DataFamilyState       { return models.DataFamilyState{} }

// ---------------------------------------------------------------------------------------------
// storage.StateManager fake: live flag and address of the follower + the watchers the replicator registers.
// One instance per leader incarnation (the watcher of a dead incarnation must never be called).
//
// It mirrors what coordinator/storage/state_manager.go does with a node event, including its locking discipline:
// processEvent holds the manager's mutex (write) for the whole event - it updates the node map, calls every
// registered watch handler (remoteReplicator.handleNodeStateChangeEvent) and, for a node failure, closes and
// removes the node's pooled gRPC connection (rpc.ClientConnFactory.CloseClientConn) under that lock -
// GetLiveNode takes the read lock, WatchNodeStateChangeEvent the write lock.
// ---------------------------------------------------------------------------------------------

// states of the directed schedule "online event in the window between the replicator's suspend flag and its liveness
// re-check" (step fault onlineRecheckRace)
const (
	rwIdle     int32 = iota
	rwArmed          // the next "not live" answer opens the window
	rwPending        // "not live" was answered: the caller's next GetLiveNode call is the re-check
	rwNotifier       // the re-check has been called; the node-startup event holds the manager's lock
	rwDone           // the event has been processed completely (the lock is free again)
)

type fakeStateMgr struct {
	storage.StateManager
	w        *world
	live     *atomic.Bool
	mutex    sync.RWMutex // the real manager's mutex, see above
	watchers []func(state models.NodeStateType)
	hookMu   sync.Mutex // harness bookkeeping only
	// afterOfflineAnswer, if set, runs once right after GetLiveNode has decided to answer "not live"
	// (the node comes online, and its notification is delivered, before the caller acts on the answer)
	afterOfflineAnswer func()
	recheckWindow      atomic.Int32
	// goroutine ids (harness bookkeeping for the goroutine snapshots below): the goroutine that called GetLiveNode
	// last - the replicator's - and the goroutine that runs the current / last node-startup event
	callerGID, notifierGID atomic.Int64
	// offlinePolls counts the "not live" answers this manager has given; pollsAtEvent is its value when the last node
	// event (startup / failure) was processed. A replicator that is told "not live" has to wait for the follower's
	// node-startup event: the real IsReady asks twice (check, re-check under the suspend flag) and then blocks.
	offlinePolls, pollsAtEvent atomic.Int64
}

// spinPolls: that many "not live" answers to one replicator in a row, with no node event in between and the caller
// never blocking for the online notification, is a replicator that polls / recurses instead of parking (a parking one
// gets 2). A count of logical events, not a duration.
const spinPolls = 64

// spinObs is what was seen of a replicator that does not park while its follower is offline.
type spinObs struct {
	Polls         int64  // "not live" answers it received in this offline period without parking
	IsReadyFrames int    // activations of remoteReplicator.IsReady on its goroutine's stack (elided frames included)
	Header        string // the goroutine's status line
	Recursing     bool   // IsReadyFrames > 50: IsReady calls itself without ever returning or blocking
	Released      bool   // harness action after the verdict: the follower was made live, the goroutine unwound and returned
}

// isReadyFrames counts the activations of remoteReplicator.IsReady on one goroutine's stack. A traceback of more than
// 100 frames prints the innermost and outermost 50 and "...N frames elided..."; on a stack that deep everything between
// two IsReady frames is IsReady too, so the elided ones are added.
func isReadyFrames(g string) int {
	n := strings.Count(g, "(*remoteReplicator).IsReady(")
	if i := strings.Index(g, " frames elided..."); i > 0 {
		j := strings.LastIndex(g[:i], "...")
		if j >= 0 {
			if k, err := strconv.Atoi(g[j+3 : i]); err == nil && n >= 50 {
				n += k
			}
		}
	}
	return n
}

// replicatorSpinning decides, from the count of "not live" answers since base and one goroutine snapshot, whether the
// replicator's goroutine (the one that asked this manager last) keeps asking instead of waiting for the follower's
// online notification: it has been told "not live" at least spinPolls times and it does not stand blocked receiving
// inside IsReady. No clock is involved.
func (m *fakeStateMgr) replicatorSpinning(base int64) (spinObs, bool) {
	so := spinObs{Polls: m.offlinePolls.Load() - base}
	if so.Polls < spinPolls {
		return so, false
	}
	id := m.callerGID.Load()
	for _, g := range goroutineDump() {
		if gidOf(g) != id {
			continue
		}
		if i := strings.IndexByte(g, '\n'); i >= 0 {
			so.Header = g[:i]
		}
		if !strings.Contains(g, "(*remoteReplicator).IsReady") {
			return so, false // it has left IsReady
		}
		if goroutineWaits(g, "chan receive") {
			if i := strings.Index(g, "(*remoteReplicator).IsReady"); !strings.Contains(g[:i], "\nmain.") {
				return so, false // parked after all
			}
		}
		so.IsReadyFrames = isReadyFrames(g)
		so.Recursing = so.IsReadyFrames > 50
		if !so.Recursing && !goroutineWaits(g, "running", "runnable") {
			// inside IsReady, asked many times, but blocked on something at this instant (a lock, a timer ...): not
			// decided by this snapshot; the caller looks again as long as the count stands
			return so, false
		}
		return so, true
	}
	return so, false
}

// curGID returns the id of the calling goroutine.
func curGID() int64 {
	var buf [64]byte
	return gidOf(string(buf[:runtime.Stack(buf[:], false)]))
}

// gidOf parses the id out of a goroutine's stack header ("goroutine 12 [running]:").
func gidOf(g string) int64 {
	const pfx = "goroutine "
	if !strings.HasPrefix(g, pfx) {
		return -1
	}
	g = g[len(pfx):]
	if i := strings.IndexByte(g, ' '); i > 0 {
		if id, err := strconv.ParseInt(g[:i], 10, 64); err == nil {
			return id
		}
	}
	return -1
}

func (m *fakeStateMgr) followerNode() models.StatefulNode {
	return models.StatefulNode{
		StatelessNode: models.StatelessNode{HostIP: followerHost, HostName: "follower", GRPCPort: uint16(m.w.fPort.Load())},
		ID:            followerID,
	}
}

func (m *fakeStateMgr) GetLiveNode(nodeID models.NodeID) (models.StatefulNode, bool) {
	m.callerGID.Store(curGID())
	if m.recheckWindow.CompareAndSwap(rwPending, rwNotifier) {
		// directed schedule: the caller was told "not live" and asks again; the follower's node-startup event is
		// processed by the manager now, and this call only goes on once that event holds the manager's lock
		locked := make(chan struct{})
		go func() {
			m.nodeStartup(false, func() { close(locked) })
			m.recheckWindow.Store(rwDone)
		}()
		<-locked
	}
	m.mutex.RLock()
	live := nodeID == followerID && m.live.Load()
	node := m.followerNode()
	m.mutex.RUnlock()
	if !live {
		m.offlinePolls.Add(1)
		m.hookMu.Lock()
		h := m.afterOfflineAnswer
		m.afterOfflineAnswer = nil
		m.hookMu.Unlock()
		if h != nil {
			h()
		}
		m.recheckWindow.CompareAndSwap(rwArmed, rwPending)
		return models.StatefulNode{}, false
	}
	return node, true
}

func (m *fakeStateMgr) WatchNodeStateChangeEvent(nodeID models.NodeID, fn func(state models.NodeStateType)) {
	if nodeID != followerID {
		return
	}
	m.mutex.Lock()
	m.watchers = append(m.watchers, fn)
	m.mutex.Unlock()
}

// nodeStartup is stateManager.onNodeStartup under processEvent's lock: the node (with the address it registered) goes
// into the live node map, then every watcher is told. moved: the follower registers with another address.
func (m *fakeStateMgr) nodeStartup(moved bool, onLocked func()) {
	m.notifierGID.Store(curGID())
	m.mutex.Lock()
	defer m.mutex.Unlock()
	if onLocked != nil {
		onLocked()
	}
	if moved {
		m.w.fPort.Add(1)
	}
	m.live.Store(true)
	m.pollsAtEvent.Store(m.offlinePolls.Load())
	for _, fn := range m.watchers {
		fn(models.NodeOnline)
	}
}

// nodeFailure is stateManager.onNodeFailure under processEvent's lock: a node that is not in the live node map is an
// error (nothing happens); else it is removed, every watcher is told, and the node's pooled connection is closed.
func (m *fakeStateMgr) nodeFailure() (wasLive, closedConn bool, killedStreams int) {
	m.mutex.Lock()
	defer m.mutex.Unlock()
	if !m.live.Load() {
		return false, false, 0
	}
	node := m.followerNode()
	m.live.Store(false)
	m.pollsAtEvent.Store(m.offlinePolls.Load())
	for _, fn := range m.watchers {
		fn(models.NodeOffline)
	}
	closedConn, killedStreams = m.w.tr.closeClientConn(node.Indicator())
	return true, closedConn, killedStreams
}

// goroutineDump returns the stacks of all goroutines, one element per goroutine (a consistent snapshot: the runtime
// stops the world for it).
func goroutineDump() []string {
	buf := make([]byte, 1<<20)
	for {
		n := runtime.Stack(buf, true)
		if n < len(buf) {
			buf = buf[:n]
			break
		}
		buf = make([]byte, 2*len(buf))
	}
	return strings.Split(string(buf), "\n\n")
}

func goroutineWaits(g string, reasons ...string) bool {
	hdr := g
	if i := strings.IndexByte(g, '\n'); i >= 0 {
		hdr = g[:i]
	}
	for _, r := range reasons {
		if strings.Contains(hdr, "["+r) {
			return true
		}
	}
	return false
}

// topFrame returns the innermost function of a goroutine's stack.
func topFrame(g string) string {
	lines := strings.SplitN(g, "\n", 3)
	if len(lines) < 2 {
		return ""
	}
	return lines[1]
}

// notifierDeadlocked reports a wait-for cycle between this state manager and the replicator, read off one goroutine
// snapshot: the goroutine that runs the node-startup event is blocked SENDING inside
// remoteReplicator.handleNodeStateChangeEvent below nodeStartup (it holds the manager's write lock and waits for the
// suspended replicator to receive), and the replicator's goroutine - the only receiver of that send - is blocked in this
// manager's GetLiveNode on the read lock. Neither can ever move again: no timeout is involved. Both goroutines are
// identified by id (leftovers of earlier leader incarnations or sequences in this process do not count).
func (m *fakeStateMgr) notifierDeadlocked() bool {
	sender, waiter := false, false
	sid, wid := m.notifierGID.Load(), m.callerGID.Load()
	if sid == 0 || wid == 0 || sid == wid {
		return false
	}
	for _, g := range goroutineDump() {
		switch gidOf(g) {
		case sid:
			sender = strings.Contains(topFrame(g), "handleNodeStateChangeEvent") && strings.Contains(g, "(*fakeStateMgr).nodeStartup") && goroutineWaits(g, "chan send")
		case wid:
			waiter = strings.Contains(g, "(*fakeStateMgr).GetLiveNode") && goroutineWaits(g, "sync.RWMutex.RLock", "semacquire")
		}
	}
	return sender && waiter
}

// notifierDeadlockedEvery looks at the goroutines once in 500 calls (polling loops of the free-running variant).
func (m *fakeStateMgr) notifierDeadlockedEvery(tick *int) bool {
	*tick++
	return *tick%500 == 0 && m.notifierDeadlocked()
}

// replicatorParkedOnSuspend: the replicator's goroutine (the one that asked this manager last) is blocked receiving
// inside remoteReplicator.IsReady (it waits for the follower's online notification), read off one goroutine snapshot.
func (m *fakeStateMgr) replicatorParkedOnSuspend() bool {
	id := m.callerGID.Load()
	for _, g := range goroutineDump() {
		if gidOf(g) != id {
			continue
		}
		if !goroutineWaits(g, "chan receive") {
			return false
		}
		// blocked receiving inside IsReady itself (or a helper of the replica package it calls), not inside a call
		// IsReady makes into the harness (state manager, transport)
		i := strings.Index(g, "(*remoteReplicator).IsReady")
		return i >= 0 && !strings.Contains(g[:i], "\nmain.")
	}
	return false
}

// ---------------------------------------------------------------------------------------------
// follower side: WriteAheadLogManager / WriteAheadLog fakes handing the real follower partition to
// the real ReplicaHandler; a queue wrapper to make the follower's Put fail on demand.
// ---------------------------------------------------------------------------------------------

type fakeWALMgr struct {
	replica.WriteAheadLogManager
	w *world
}

func (m *fakeWALMgr) GetOrCreateLog(database string) replica.WriteAheadLog {
	return &fakeWAL{w: m.w, database: database}
}

type fakeWAL struct {
	replica.WriteAheadLog
	w        *world
	database string
}

func (l *fakeWAL) GetOrCreatePartition(shard models.ShardID, familyTime int64, leader models.NodeID) (replica.Partition, error) {
	w := l.w
	if l.database != dbName || shard != shardID || familyTime != w.family.tr.Start || leader != leaderID {
		w.metaMismatch = fmt.Sprintf("handler asked for partition db=%s shard=%d family=%d leader=%d", l.database, shard, familyTime, leader)
		return nil, errors.New("unknown partition")
	}
	w.partMu.Lock()
	defer w.partMu.Unlock()
	if !w.fUp {
		return nil, errors.New("follower is down")
	}
	return w.fPart, nil
}

type faultQueue struct {
	queue.Queue
	w        *world
	failPuts *int32
	putErrs  *int32
}

var errInjectedPut = errors.New("injected: follower cannot append (no space left on device)")

// parkedPut is a follower append that has passed partition.ReplicaLog's index check and has not reached the queue yet.
type parkedPut struct{ release, done chan struct{} }

func (q *faultQueue) Put(msg []byte) error {
	w := q.w
	// an append that got here earlier goes first (it is only delayed, never reordered behind a later one)
	if w.releaseParkedPut() {
		// two appends had passed ReplicaLog's index check at the same time
		atomic.AddInt32(&w.overtakes, 1)
	}
	if atomic.LoadInt32(q.failPuts) > 0 {
		atomic.AddInt32(q.failPuts, -1)
		atomic.AddInt32(q.putErrs, 1)
		return errInjectedPut
	}
	if w.parkNextPut.CompareAndSwap(true, false) {
		p := &parkedPut{release: make(chan struct{}), done: make(chan struct{})}
		w.putMu.Lock()
		w.parkedPut = p
		entered := w.putParkedCh
		w.putMu.Unlock()
		close(entered)
		<-p.release
		err := q.Queue.Put(msg)
		close(p.done)
		return err
	}
	return q.Queue.Put(msg)
}

// releaseParkedPut lets a parked follower append finish and waits for it.
func (w *world) releaseParkedPut() bool {
	w.putMu.Lock()
	p := w.parkedPut
	w.parkedPut = nil
	w.putMu.Unlock()
	if p == nil {
		return false
	}
	close(p.release)
	<-p.done
	atomic.AddInt32(&w.landed, 1)
	return true
}

func (w *world) hasParkedPut() bool {
	w.putMu.Lock()
	defer w.putMu.Unlock()
	return w.parkedPut != nil
}

// inflightGrace is how long the driver lets a later call wait behind a parked append before it lets the parked
// append finish. lindb as it is never waits (ReplicaLog takes no lock), so the parked append is overtaken at once;
// an implementation that serialises ReplicaLog makes the later call block, and the grace period then resolves it.
// Driver pacing only: no verdict depends on it.
const inflightGrace = 200 * time.Millisecond

// callWithRelease runs a unary handler call; if it does not return while an append is parked, the append is released.
func (t *transport) callWithRelease(fn func()) {
	if !t.w.hasParkedPut() {
		fn()
		return
	}
	done := make(chan struct{})
	go func() { defer close(done); fn() }()
	select {
	case <-done:
	case <-time.After(inflightGrace):
		t.w.releaseParkedPut()
		<-done
	}
}

// armInflightPut makes the follower's next append park after the index check.
func (w *world) armInflightPut() {
	w.putMu.Lock()
	w.putParkedCh = make(chan struct{})
	w.putMu.Unlock()
	w.parkNextPut.Store(true)
}

type faultFanOut struct {
	queue.FanOutQueue
	q *faultQueue
}

func (f *faultFanOut) Queue() queue.Queue { return f.q }

// ---------------------------------------------------------------------------------------------
// transport: ReplicaServiceClient + stream pair in process, with one-shot faults.
// ---------------------------------------------------------------------------------------------

type faults struct {
	createClient  bool // CreateReplicaServiceClient fails
	getAck        bool // GetReplicaAckIndex fails before delivery
	reset         bool // Reset fails before delivery
	resetRespLost bool // Reset applied by the follower, response lost
	streamOpen    bool // Replica() stream cannot be created
	send          bool // Send fails before delivery
	reqLost       bool // Send returns nil, request never reaches the follower, Recv fails
	respLost      bool // request delivered and handled, response lost
	inflight      bool // request delivered; the connection dies while the follower is still inside ReplicaLog (append in flight)
}

type sendRec struct {
	Idx       int64
	Head      string // first bytes of the record offered
	Delivered bool
	RespIdx   int64
	RespAck   int64
	RespErr   string
	GotResp   bool
}

// conn is what a *grpc.ClientConn of the leader's connection pool (rpc.ClientConnFactory) is to the replicator: every
// ReplicaServiceClient is a stub bound to one of them for its whole life. A connection survives anything that happens
// to the follower's process or to the network (gRPC reconnects by itself); it ends when it is closed - by the state
// manager when the node goes offline (CloseClientConn removes it from the pool, the next GetClientConn dials a new
// one), or with the leader's process - and then every call through a stub bound to it fails for ever.
type conn struct {
	id       int
	target   string // the address it was dialled for
	closed   atomic.Bool
	reopened bool // dialled for an address whose previous connection had been closed by a node failure
}

type transport struct {
	w       *world
	handler *storagerpc.ReplicaHandler
	mu      sync.Mutex // guards f, streams, the pool and the observations (the free-running variant arms faults from another goroutine)
	f       faults
	streams []*stream
	// the leader's connection pool: target address -> connection (rpc.clientConnFactory.connMap)
	pool           map[string]*conn
	connSeq        int
	closedTargets  map[string]bool // addresses whose pooled connection was closed by a node failure (this leader incarnation)
	lastClientConn *conn           // connection of the most recently created client
	// cumulative observations of the sequence
	connsDialled, connsClosedByNodeFailure, closedConnCalls, staleAddrCalls int
	// consecutive calls that went to a closed connection with no client created in between (free-running wedge rule)
	closedConnCallsInARow int
	// beforeStreamOpen, if set, runs once at the start of the next stream creation (after the handshake's unary calls)
	beforeStreamOpen func()
	// observations of the current step (reset by the driver)
	obsCreateClient int
	obsConnDialled  int
	obsClosedConn   int     // calls made through a client whose connection is closed
	obsStaleAddr    int     // calls made through a client whose connection goes to an address the follower left
	obsGetAck       []int64 // answered values
	obsGetAckErr    int
	obsReset        []int64 // requested append index
	obsResetErr     int
	obsStreamOpen   int
	obsStreamErr    int
	obsSends        []sendRec
	fired           []string // faults that actually fired
}

// take consumes a one-shot fault.
func (t *transport) take(flag *bool, name string) bool {
	t.mu.Lock()
	defer t.mu.Unlock()
	if *flag {
		*flag = false
		t.fired = append(t.fired, name)
		return true
	}
	return false
}

func (t *transport) obs(fn func()) {
	t.mu.Lock()
	fn()
	t.mu.Unlock()
}

func (t *transport) setFaults(f faults) {
	t.mu.Lock()
	t.f = f
	t.beforeStreamOpen = nil
	t.mu.Unlock()
}

// lastSend returns the most recent send record.
func (t *transport) lastSend() (sendRec, bool) {
	t.mu.Lock()
	defer t.mu.Unlock()
	if n := len(t.obsSends); n > 0 {
		return t.obsSends[n-1], true
	}
	return sendRec{}, false
}

func (t *transport) armFault(fn func(f *faults)) {
	t.mu.Lock()
	fn(&t.f)
	t.mu.Unlock()
}

func (t *transport) clearObs() {
	t.mu.Lock()
	defer t.mu.Unlock()
	t.obsCreateClient, t.obsGetAck, t.obsGetAckErr, t.obsReset, t.obsResetErr = 0, nil, 0, nil, 0
	t.obsConnDialled, t.obsClosedConn, t.obsStaleAddr = 0, 0, 0
	t.obsStreamOpen, t.obsStreamErr, t.obsSends, t.fired = 0, 0, nil, nil
}

var errUnavailable = status.Error(codes.Unavailable, "injected: connection refused")

// clientFactory implements rpc.ClientStreamFactory.
type clientFactory struct {
	rpc.ClientStreamFactory
	t *transport
}

// CreateReplicaServiceClient is rpc.clientStreamFactory.CreateReplicaServiceClient: the pooled connection of the target
// address (dialled if the pool has none) wrapped into a stub.
func (c *clientFactory) CreateReplicaServiceClient(target models.Node) (protoReplicaV1.ReplicaServiceClient, error) {
	t := c.t
	t.obs(func() { t.obsCreateClient++; t.closedConnCallsInARow = 0 })
	if t.take(&t.f.createClient, "createClient") {
		return nil, errors.New("injected: cannot create client connection")
	}
	return &client{t: t, conn: t.getClientConn(target.Indicator())}, nil
}

// getClientConn is rpc.clientConnFactory.GetClientConn.
func (t *transport) getClientConn(target string) *conn {
	t.mu.Lock()
	defer t.mu.Unlock()
	if t.pool == nil {
		t.pool, t.closedTargets = map[string]*conn{}, map[string]bool{}
	}
	cn := t.pool[target]
	if cn == nil {
		t.connSeq++
		cn = &conn{id: t.connSeq, target: target, reopened: t.closedTargets[target]}
		t.pool[target] = cn
		t.connsDialled++
		t.obsConnDialled++
	}
	t.lastClientConn = cn
	return cn
}

// closeClientConn is rpc.clientConnFactory.CloseClientConn: the pooled connection of the address, if there is one, is
// closed and removed; everything that runs over it (the replica streams) dies with it.
func (t *transport) closeClientConn(target string) (closed bool, killedStreams int) {
	t.mu.Lock()
	cn := t.pool[target]
	if cn != nil {
		delete(t.pool, target)
		cn.closed.Store(true)
		t.closedTargets[target] = true
		t.connsClosedByNodeFailure++
	}
	t.mu.Unlock()
	if cn == nil {
		return false, 0
	}
	// all live streams run over this connection (streams of connections to addresses the follower left are dead already)
	return true, t.breakAll()
}

// dropPool: the leader's process ends, its connections with it; the next incarnation starts with an empty pool.
func (t *transport) dropPool() {
	t.mu.Lock()
	for _, cn := range t.pool {
		cn.closed.Store(true)
	}
	t.pool, t.closedTargets, t.lastClientConn = nil, nil, nil
	t.mu.Unlock()
}

var errConnClosing = status.Error(codes.Canceled, "grpc: the client connection is closing")

type client struct {
	t    *transport
	conn *conn
}

// connErr is what any call through this stub fails with before it reaches the follower: its connection is closed, or
// nobody listens any more at the address the connection goes to.
func (c *client) connErr() error {
	t := c.t
	if c.conn.closed.Load() {
		t.obs(func() { t.obsClosedConn++; t.closedConnCalls++; t.closedConnCallsInARow++ })
		return errConnClosing
	}
	if c.conn.target != t.w.followerAddr() {
		t.obs(func() { t.obsStaleAddr++; t.staleAddrCalls++ })
		return errUnavailable
	}
	return nil
}

func (c *client) GetReplicaAckIndex(ctx context.Context, in *protoReplicaV1.GetReplicaAckIndexRequest, _ ...grpc.CallOption) (*protoReplicaV1.GetReplicaAckIndexResponse, error) {
	t := c.t
	if err := c.connErr(); err != nil {
		t.obs(func() { t.obsGetAckErr++ })
		return nil, err
	}
	if t.take(&t.f.getAck, "getAck") {
		t.obs(func() { t.obsGetAckErr++ })
		return nil, errUnavailable
	}
	t.w.fMu.RLock() // the follower cannot stop while it serves the call
	defer t.w.fMu.RUnlock()
	if !t.w.fUp {
		t.obs(func() { t.obsGetAckErr++ })
		return nil, errUnavailable
	}
	var resp *protoReplicaV1.GetReplicaAckIndexResponse
	var err error
	t.callWithRelease(func() { resp, err = t.handler.GetReplicaAckIndex(ctx, in) })
	if err != nil {
		t.obs(func() { t.obsGetAckErr++ })
		return nil, err
	}
	t.obs(func() { t.obsGetAck = append(t.obsGetAck, resp.AckIndex) })
	return resp, nil
}

func (c *client) Reset(ctx context.Context, in *protoReplicaV1.ResetIndexRequest, _ ...grpc.CallOption) (*protoReplicaV1.ResetIndexResponse, error) {
	t := c.t
	if err := c.connErr(); err != nil {
		t.obs(func() { t.obsResetErr++ })
		return nil, err
	}
	if t.take(&t.f.reset, "reset") {
		t.obs(func() { t.obsResetErr++ })
		return nil, errUnavailable
	}
	t.w.fMu.RLock()
	defer t.w.fMu.RUnlock()
	if !t.w.fUp {
		t.obs(func() { t.obsResetErr++ })
		return nil, errUnavailable
	}
	var resp *protoReplicaV1.ResetIndexResponse
	var err error
	t.callWithRelease(func() { resp, err = t.handler.Reset(ctx, in) })
	if err != nil {
		t.obs(func() { t.obsResetErr++ })
		return nil, err
	}
	t.obs(func() { t.obsReset = append(t.obsReset, in.AppendIndex) })
	if t.take(&t.f.resetRespLost, "resetRespLost") {
		t.obs(func() { t.obsResetErr++ })
		return nil, errUnavailable
	}
	return resp, nil
}

func (c *client) Replica(ctx context.Context, _ ...grpc.CallOption) (protoReplicaV1.ReplicaService_ReplicaClient, error) {
	t := c.t
	t.obs(func() { t.obsStreamOpen++ })
	if err := c.connErr(); err != nil {
		t.obs(func() { t.obsStreamErr++ })
		return nil, err
	}
	// the window between the handshake (unary calls) and the stream: the follower may restart in it
	t.mu.Lock()
	hook := t.beforeStreamOpen
	t.beforeStreamOpen = nil
	t.mu.Unlock()
	if hook != nil {
		t.obs(func() { t.fired = append(t.fired, "wipeBeforeStream") })
		hook()
	}
	if t.take(&t.f.streamOpen, "streamOpen") {
		t.obs(func() { t.obsStreamErr++ })
		return nil, errUnavailable
	}
	t.w.fMu.RLock() // no stream is born while the follower stops
	defer t.w.fMu.RUnlock()
	if !t.w.fUp {
		t.obs(func() { t.obsStreamErr++ })
		return nil, errUnavailable
	}
	// what the replicator put into the outgoing metadata is what the handler finds as incoming metadata
	md, _ := metadata.FromOutgoingContext(ctx)
	sctx := metadata.NewIncomingContext(context.Background(), md.Copy())
	s := &stream{
		t: t, sctx: sctx, cctx: ctx,
		reqCh: make(chan *protoReplicaV1.ReplicaRequest), respCh: make(chan *protoReplicaV1.ReplicaResponse),
		closeSend: make(chan struct{}), broken: make(chan struct{}), serverDone: make(chan struct{}),
		inLoop: make(chan struct{}),
	}
	t.obs(func() { t.streams = append(t.streams, s) })
	go func() {
		defer close(s.serverDone)
		s.serverErr = t.handler.Replica(&serverStream{s: s})
	}()
	// the stream counts as open once its handler has resolved the partition and waits for the first request (or has
	// given up): no later event of the driver can fall into the handler's set-up
	for waiting := true; waiting; {
		var grace <-chan time.Time
		if t.w.hasParkedPut() {
			grace = time.After(inflightGrace)
		}
		select {
		case <-s.inLoop:
			waiting = false
		case <-s.serverDone:
			waiting = false
		case <-grace:
			t.w.releaseParkedPut()
		}
	}
	return &clientStream{s: s}, nil
}

type stream struct {
	t          *transport
	sctx, cctx context.Context
	reqCh      chan *protoReplicaV1.ReplicaRequest
	respCh     chan *protoReplicaV1.ReplicaResponse
	closeSend  chan struct{}
	broken     chan struct{}
	serverDone chan struct{}
	serverErr  error
	closeOnce  sync.Once
	breakOnce  sync.Once
	inLoop     chan struct{} // closed when the handler asks for its first request
	loopOnce   sync.Once
	reqLost    bool
}

var errStreamBroken = status.Error(codes.Unavailable, "injected: transport is closing")

// breakNow kills the stream and waits until the handler goroutine has left the follower partition.
func (s *stream) breakNow() {
	s.breakOnce.Do(func() { close(s.broken) })
	<-s.serverDone
}

func (s *stream) isBroken() bool {
	select {
	case <-s.broken:
		return true
	default:
		return false
	}
}

type clientStream struct {
	grpc.ClientStream
	s *stream
}

func (c *clientStream) Context() context.Context { return c.s.cctx }

func (c *clientStream) CloseSend() error {
	c.s.closeOnce.Do(func() { close(c.s.closeSend) })
	select {
	case <-c.s.serverDone:
	case <-c.s.broken:
	}
	return nil
}

func (c *clientStream) Send(req *protoReplicaV1.ReplicaRequest) error {
	s := c.s
	t := s.t
	rec := sendRec{Idx: req.ReplicaIndex}
	if n := len(req.Record); n > 24 {
		rec.Head = string(req.Record[:24])
	} else {
		rec.Head = string(req.Record)
	}
	defer func() { t.obs(func() { t.obsSends = append(t.obsSends, rec) }) }()
	if s.isBroken() {
		return errStreamBroken
	}
	if t.take(&t.f.send, "send") {
		s.breakNow()
		return errStreamBroken
	}
	if t.take(&t.f.reqLost, "reqLost") {
		s.reqLost = true
		return nil
	}
	for {
		var grace <-chan time.Time
		if t.w.hasParkedPut() {
			grace = time.After(inflightGrace)
		}
		select {
		case s.reqCh <- req:
			rec.Delivered = true
			return nil
		case <-s.serverDone:
			return errStreamBroken
		case <-grace:
			t.w.releaseParkedPut()
		}
	}
}

func (c *clientStream) Recv() (*protoReplicaV1.ReplicaResponse, error) {
	s := c.s
	t := s.t
	if s.reqLost {
		s.breakNow()
		return nil, errStreamBroken
	}
	if s.isBroken() {
		return nil, errStreamBroken
	}
	if t.take(&t.f.inflight, "inflightPut") {
		t.w.putMu.Lock()
		entered := t.w.putParkedCh
		t.w.putMu.Unlock()
	inflight:
		var grace <-chan time.Time
		if t.w.hasParkedPut() {
			select {
			case <-entered: // the parked append is this request's own
			default:
				grace = time.After(inflightGrace) // an older one: this request's handler may be waiting behind it
			}
		}
		select {
		case <-grace:
			t.w.releaseParkedPut()
			goto inflight
		case <-entered:
			// the client sees the connection die now; the follower's handler is still inside ReplicaLog and will
			// finish its append later (a gRPC server does not cancel a handler synchronously with the client's error)
			s.breakOnce.Do(func() { close(s.broken) })
			return nil, errStreamBroken
		case resp := <-s.respCh:
			// the follower answered without appending: nothing is in flight
			t.w.parkNextPut.Store(false)
			t.obs(func() {
				t.fired = t.fired[:len(t.fired)-1]
				if n := len(t.obsSends); n > 0 {
					r := &t.obsSends[n-1]
					r.GotResp, r.RespIdx, r.RespAck, r.RespErr = true, resp.ReplicaIndex, resp.AckIndex, resp.Err
				}
			})
			return resp, nil
		case <-s.serverDone:
			t.w.parkNextPut.Store(false)
			return nil, errStreamBroken
		}
	}
	for {
		var grace <-chan time.Time
		if t.w.hasParkedPut() {
			grace = time.After(inflightGrace)
		}
		select {
		case resp := <-s.respCh:
			t.obs(func() {
				if n := len(t.obsSends); n > 0 {
					r := &t.obsSends[n-1]
					r.GotResp, r.RespIdx, r.RespAck, r.RespErr = true, resp.ReplicaIndex, resp.AckIndex, resp.Err
				}
			})
			if t.take(&t.f.respLost, "respLost") {
				s.breakNow()
				return nil, errStreamBroken
			}
			return resp, nil
		case <-s.serverDone:
			if s.serverErr != nil {
				return nil, s.serverErr
			}
			return nil, errStreamBroken
		case <-grace:
			// this request's handler waits behind the parked append (a serialised ReplicaLog): let that one finish
			t.w.releaseParkedPut()
		}
	}
}

type serverStream struct {
	grpc.ServerStream
	s *stream
}

func (ss *serverStream) Context() context.Context { return ss.s.sctx }

func (ss *serverStream) Recv() (*protoReplicaV1.ReplicaRequest, error) {
	ss.s.loopOnce.Do(func() { close(ss.s.inLoop) })
	select {
	case req := <-ss.s.reqCh:
		return req, nil
	case <-ss.s.closeSend:
		return nil, io.EOF
	case <-ss.s.broken:
		return nil, errStreamBroken
	}
}

func (ss *serverStream) Send(resp *protoReplicaV1.ReplicaResponse) error {
	select {
	case ss.s.respCh <- resp:
		return nil
	case <-ss.s.broken:
		return errStreamBroken
	}
}

func (t *transport) breakAll() int {
	n := 0
	t.w.releaseParkedPut() // a handler parked inside its append finishes before its stream is torn down
	t.mu.Lock()
	streams := t.streams
	t.streams = nil
	t.mu.Unlock()
	for _, s := range streams {
		select {
		case <-s.serverDone:
		default:
			n++
		}
		s.breakNow()
	}
	return n
}

// ---------------------------------------------------------------------------------------------
// world: both nodes of one fault sequence
// ---------------------------------------------------------------------------------------------

type snapshot struct {
	dir      string
	appended int64
	event    int
	line     map[int64]int // position -> uid of the harness payload the log contained there when the copy was taken
	// when the copy was taken: the driver's event counter, and whether the leader's ack for the follower was then
	// allowed to be ahead of the follower (the follower had lost its log and no handshake had completed since)
	tick         int
	ackSuspended bool
}

// prefixOf reports whether everything the snapshot's log contained is still what the log contains now:
// only then is going back to it "losing the tail" and not "switching to another history".
func (s *snapshot) prefixOf(cur map[int64]int) bool {
	for pos, uid := range s.line {
		if c, ok := cur[pos]; !ok || c != uid {
			return false
		}
	}
	return true
}

type world struct {
	base        string
	leaderDir   string
	followerDir string
	ctx         context.Context
	cancel      context.CancelFunc

	shard  *fakeShard
	family *fakeFamily

	old      bool            // the family is past its writable window (see newWorld)
	replicas []models.NodeID // what a write stream hands to BuildReplicaForLeader
	chanUp   bool            // the leader partition has a replicator for the follower

	live  *atomic.Bool
	fPort atomic.Int32 // port of the address the follower is registered with

	// leader
	lUp   bool
	lLog  queue.FanOutQueue
	lPart replica.Partition
	lRep  replica.Replicator
	lSM   *fakeStateMgr
	lCG   queue.ConsumerGroup

	// follower
	fMu      sync.RWMutex // held for writing while the follower stops/starts, for reading while it serves a call
	partMu   sync.Mutex   // guards fUp/fPart against the handler goroutines of streams
	fUp      bool
	fReal    queue.FanOutQueue
	fPart    replica.Partition
	failPuts int32
	putErrs  int32

	landed      int32 // number of parked appends that have reached the follower's queue
	overtakes   int32 // number of times an append of a new stream overtook a parked append of a dead stream
	parkNextPut atomic.Bool
	putMu       sync.Mutex
	parkedPut   *parkedPut
	putParkedCh chan struct{}

	tr *transport

	parked chan bool // result channel of a Prepare parked while the follower is offline

	lSnaps, fSnaps []snapshot
	snapN          int

	metaMismatch    string
	onlineRaceFired bool
	notWoken        bool // an online notification was delivered and the parked replicator stayed parked
	// deadlocked: the state manager's node-startup event (holding the manager's lock) and the replicator (waiting for
	// that lock) wait for each other - see notifierDeadlocked
	deadlocked         bool
	recheckWindowFired bool // the directed schedule onlineRecheckRace delivered its event inside the window
	// spin: the last Prepare neither parked nor returned while the follower was offline - see replicatorSpinning
	spin *spinObs
	// prepPolls: "not live" answers the last Prepare that parked had received when it parked
	prepPolls int64
}

func (w *world) followerAddr() string {
	return fmt.Sprintf("%s:%d", followerHost, w.fPort.Load())
}

// newWorld builds both nodes. old: the family of the partition is, by construction, days past its writable window
// (time range end + write-ahead + 15 min): every leader gc tick (partition.IsExpire) then takes its expiry path, and -
// as in production, where BuildReplicaForLeader gets the whole replica list - the leader's log also carries the group of
// the leader's own local replicator (never run here; the harness moves its ack: event lf).
func newWorld(base string, old bool) (*world, error) {
	w := &world{base: base, leaderDir: filepath.Join(base, "leader"), followerDir: filepath.Join(base, "follower"), old: old}
	w.replicas = []models.NodeID{followerID}
	if old {
		w.replicas = []models.NodeID{leaderID, followerID}
	}
	w.ctx, w.cancel = context.WithCancel(context.Background())
	opt := &option.DatabaseOption{}
	opt.Default()
	now := time.Now().UnixMilli()
	hour := int64(3600 * 1000)
	start := now - now%hour
	// the family ends one day from now: partition.IsExpire (used as the leader's Sync+GC) never takes its expiry path
	// (old worlds: see above)
	w.family = &fakeFamily{tr: timeutil.TimeRange{Start: start, End: start + 24*hour}}
	if old {
		// three days old, one hour long: expired by construction, far (days) from the clock-dependent edge
		w.family = &fakeFamily{tr: timeutil.TimeRange{Start: start - 72*hour, End: start - 71*hour}}
	}
	w.shard = &fakeShard{db: &fakeDB{opt: opt}}
	w.live = &atomic.Bool{}
	w.live.Store(true)
	w.fPort.Store(followerFirstPort)
	w.tr = &transport{w: w}
	w.tr.handler = storagerpc.NewReplicaHandler(&fakeWALMgr{w: w})
	if err := w.startLeader(); err != nil {
		return nil, err
	}
	if err := w.startFollower(); err != nil {
		return nil, err
	}
	return w, nil
}

func (w *world) startLeader() error {
	q, err := queue.NewFanOutQueue(w.leaderDir, pageSize)
	if err != nil {
		return err
	}
	w.lLog = q
	w.lSM = &fakeStateMgr{w: w, live: w.live}
	w.lPart = replica.NewPartition(w.ctx, w.shard, w.family, leaderID, q, &clientFactory{t: w.tr}, w.lSM)
	if err := w.lPart.BuildReplicaForLeader(leaderID, w.replicas); err != nil {
		return err
	}
	if nodes, _ := replica.VerifReplicators(w.lPart); len(nodes) != len(w.replicas) || !w.resolveChannel() {
		return fmt.Errorf("unexpected replicators %v", nodes)
	}
	cg, err := q.GetOrCreateConsumerGroup(fmt.Sprintf("%d", followerID))
	if err != nil {
		return err
	}
	w.lCG = cg
	w.lUp = true
	return nil
}

// resolveChannel looks up the replicator the leader partition currently runs for the follower (what its replica loop
// iterates over). Without one (an expire tick stopped the drained channel) the last one stays in lRep for observation
// only: it is never stepped.
func (w *world) resolveChannel() bool {
	nodes, reps := replica.VerifReplicators(w.lPart)
	for i, n := range nodes {
		if n == followerID {
			w.lRep, w.chanUp = reps[i], true
			return true
		}
	}
	w.chanUp = false
	return false
}

// hasGroup: does the leader's log know a consumer group of that node?
func (w *world) hasGroup(node models.NodeID) bool {
	for _, n := range w.lLog.ConsumerGroupNames() {
		if n == fmt.Sprintf("%d", node) {
			return true
		}
	}
	return false
}

// stopLeader ends the leader incarnation (process exit). A Prepare parked in IsReady stays parked for ever,
// as it would in a process that is gone; its state manager is dropped so it is never woken.
func (w *world) stopLeader() {
	if !w.lUp {
		return
	}
	w.parked = nil
	w.lPart.Stop()
	w.tr.breakAll()
	w.tr.dropPool()
	_ = w.lPart.Close()
	w.lUp = false
	w.lRep, w.lCG, w.lLog, w.lPart, w.lSM = nil, nil, nil, nil, nil
}

func (w *world) startFollower() error {
	w.fMu.Lock()
	defer w.fMu.Unlock()
	q, err := queue.NewFanOutQueue(w.followerDir, pageSize)
	if err != nil {
		return err
	}
	wrapped := &faultFanOut{FanOutQueue: q, q: &faultQueue{Queue: q.Queue(), w: w, failPuts: &w.failPuts, putErrs: &w.putErrs}}
	part := replica.NewPartition(w.ctx, w.shard, w.family, followerID, wrapped, nil, nil)
	w.partMu.Lock()
	w.fReal, w.fPart, w.fUp = q, part, true
	w.partMu.Unlock()
	return nil
}

func (w *world) stopFollower() {
	if !w.fUp {
		return
	}
	w.fMu.Lock()
	defer w.fMu.Unlock()
	w.tr.breakAll() // the connection dies with the process; handler goroutines leave the partition first
	w.partMu.Lock()
	part := w.fPart
	w.fUp, w.fPart, w.fReal = false, nil, nil
	w.partMu.Unlock()
	_ = part.Close()
}

// swapFollowerPartition: the follower destroys its log for this family and leader and re-creates it empty (what
// writeAheadLog.destroy does to a drained log of an old family, or a WAL drop + re-create: Stop, Close, remove the
// directory; the next request creates a new partition) while the process and every open replica stream live on.
// The handler of an open stream keeps the partition object it resolved when the stream was opened.
func (w *world) swapFollowerPartition() error {
	if !w.fUp {
		return nil
	}
	w.releaseParkedPut() // nothing may be inside the old queue when it is unmapped
	w.fMu.Lock()
	defer w.fMu.Unlock()
	w.partMu.Lock()
	old := w.fPart
	w.partMu.Unlock()
	old.Stop()
	_ = old.Close()
	if err := os.RemoveAll(w.followerDir); err != nil {
		return err
	}
	q, err := queue.NewFanOutQueue(w.followerDir, pageSize)
	if err != nil {
		return err
	}
	wrapped := &faultFanOut{FanOutQueue: q, q: &faultQueue{Queue: q.Queue(), w: w, failPuts: &w.failPuts, putErrs: &w.putErrs}}
	part := replica.NewPartition(w.ctx, w.shard, w.family, followerID, wrapped, nil, nil)
	w.partMu.Lock()
	w.fReal, w.fPart = q, part
	w.partMu.Unlock()
	return nil
}

// openStreams returns the number of streams whose handler is still running.
func (t *transport) openStreams() int {
	t.mu.Lock()
	defer t.mu.Unlock()
	n := 0
	for _, s := range t.streams {
		select {
		case <-s.serverDone:
		default:
			if !s.isBroken() {
				n++
			}
		}
	}
	return n
}

func (w *world) close() {
	w.stopLeader()
	w.stopFollower()
	w.cancel()
}

func (w *world) snap(side string, event int, uids map[int64]int, tick int, ackSuspended bool) {
	cp := make(map[int64]int, len(uids))
	for k, v := range uids {
		cp[k] = v
	}
	w.snapN++
	dst := filepath.Join(w.base, "snap", fmt.Sprintf("%s%04d", side, w.snapN))
	if side == "l" {
		if !w.lUp {
			return
		}
		if _, err := imgfs.CopyTree(w.leaderDir, dst, nil); err == nil {
			w.lSnaps = append(w.lSnaps, snapshot{dir: dst, appended: w.lLog.Queue().AppendedSeq(), event: event, line: cp, tick: tick, ackSuspended: ackSuspended})
		}
		return
	}
	if !w.fUp {
		return
	}
	if _, err := imgfs.CopyTree(w.followerDir, dst, nil); err == nil {
		w.fSnaps = append(w.fSnaps, snapshot{dir: dst, appended: w.fReal.Queue().AppendedSeq(), event: event, line: cp, tick: tick, ackSuspended: ackSuspended})
	}
}

// restoreDir replaces dir by the snapshot; keep names a sub directory of dir that survives (newer than the rest).
func restoreDir(dir, snap, keep string) error {
	tmpKeep := ""
	if keep != "" {
		tmpKeep = dir + ".keep"
		_ = os.RemoveAll(tmpKeep)
		if err := os.Rename(filepath.Join(dir, keep), tmpKeep); err != nil {
			return err
		}
	}
	if err := os.RemoveAll(dir); err != nil {
		return err
	}
	if _, err := imgfs.CopyTree(snap, dir, nil); err != nil {
		return err
	}
	if keep != "" {
		_ = os.RemoveAll(filepath.Join(dir, keep))
		if err := os.Rename(tmpKeep, filepath.Join(dir, keep)); err != nil {
			return err
		}
	}
	return nil
}

const offlineMsg = "follower node is offline"

// prepare runs the handshake half of partition.replica. It returns ready, parked.
func (w *world) prepare() (ready, parked bool) {
	if w.parked != nil {
		return false, true
	}
	res := make(chan bool, 1)
	r := w.lRep
	m := w.lSM
	pollBase := m.offlinePolls.Load()
	w.prepPolls = 0
	go func() { res <- replica.VerifReplicaPrepare(r) }()
	// IsReady either returns or parks on its suspend channel after having published the "offline" state.
	// Both are recognised from state, not from time. A third outcome is an IsReady that does neither while the follower
	// is offline: it keeps asking the state manager (recursing or looping) - recognised from the number of "not live"
	// answers it has received and where its goroutine stands.
	for i := 0; ; i++ {
		select {
		case ok := <-res:
			return ok, false
		default:
		}
		if m.offlinePolls.Load()-pollBase >= spinPolls && m.recheckWindow.Load() != rwNotifier {
			if so, spinning := m.replicatorSpinning(pollBase); spinning {
				w.spin = &so
				w.releaseSpinner(res, &so)
				return false, false
			}
		}
		st, msg := replica.VerifReplicatorStateType(r)
		if st == int(models.ReplicatorFailureState) && msg == offlineMsg {
			switch w.lSM.recheckWindow.Load() {
			case rwPending:
				// directed schedule: IsReady was told "not live" and has published it; it either asks again (the window
				// opens) or it is an IsReady that parks without asking again - told apart by where its goroutine stands
				if i > 50 && i%20 == 0 && w.lSM.replicatorParkedOnSuspend() {
					w.lSM.recheckWindow.Store(rwIdle)
				}
				pace(i)
				continue
			case rwNotifier:
				// the node-startup event holds the manager's lock and tells the replicator; the replicator waits for that
				// lock. Either the event completes (rwDone) or both wait for each other for ever.
				if i > 50 && i%20 == 0 && w.lSM.notifierDeadlocked() {
					w.deadlocked = true
					w.parked = res
					return false, true
				}
				pace(i)
				continue
			}
			if !w.live.Load() {
				// the follower is offline and IsReady has published that it will wait: it counts as parked once its
				// goroutine really stands in the receive (past its last look at the live nodes) - a goroutine that is
				// called parked before that could still see a later liveness change of a leader incarnation that is gone
				if i%20 == 10 && w.lSM.replicatorParkedOnSuspend() {
					w.parked = res
					w.prepPolls = m.offlinePolls.Load() - pollBase
					return false, true
				}
				pace(i)
				continue
			}
			// "offline" is published although the follower is live by now: either IsReady has parked (lost wake-up) or
			// it noticed and moves on. Told apart by where its goroutine stands, not by how long it takes.
			if i > 50 && i%20 == 0 {
				if w.lSM.replicatorParkedOnSuspend() {
					w.parked = res
					return false, true
				}
				if w.lSM.notifierDeadlocked() {
					w.deadlocked = true
					w.parked = res
					return false, true
				}
			}
		}
		pace(i)
	}
}

// releaseSpinner is a harness action AFTER the verdict "spins": the sequence is over, and a goroutine that recurses
// for ever would end the whole child process (stack overflow) and the other sequences of its batch with it. The
// follower is made live (no event, no notification): the replicator's next question is answered "live", IsReady goes on
// with its handshake and all its activations return. The wait is a watchdog, nothing is judged by it.
func (w *world) releaseSpinner(res chan bool, so *spinObs) {
	w.live.Store(true)
	select {
	case <-res:
		so.Released = true
	case <-time.After(60 * time.Second):
	}
}

// pace: polling rhythm of the driver (never a verdict).
func pace(i int) {
	if i < 200 {
		runtime.Gosched()
	} else {
		time.Sleep(50 * time.Microsecond)
	}
}

// online: the follower registers (again) - at the same address, or (moved) at another one, which it can only do after
// having left the old one: whatever ran over connections to the old address is dead - and the leader's state manager
// processes the node-startup event; a parked Prepare then runs its handshake.
func (w *world) online(moved bool) (woken, ready bool) {
	if moved {
		w.tr.breakAll()
	}
	if !w.lUp {
		if moved {
			w.fPort.Add(1)
		}
		w.live.Store(true)
		return false, false
	}
	// the event is processed on the state manager's own goroutine (its event loop), holding the manager's lock
	done := make(chan struct{})
	m := w.lSM
	go func() { m.nodeStartup(moved, nil); close(done) }()
	for i := 0; ; i++ {
		select {
		case <-done:
		default:
			if i > 50 && i%20 == 0 && w.lSM.notifierDeadlocked() {
				w.deadlocked = true
				return false, false
			}
			pace(i)
			continue
		}
		break
	}
	if w.parked != nil {
		// the notification has been delivered (the replicator's handler has returned): a parked IsReady has received
		// its wake-up (its goroutine is runnable or running) or never will through this notification (it still stands
		// blocked in its receive) - read off a goroutine snapshot, not off a clock.
		for i := 0; ; i++ {
			select {
			case ready = <-w.parked:
				w.parked = nil
				return true, ready
			default:
			}
			st, msg := replica.VerifReplicatorStateType(w.lRep)
			if !(st == int(models.ReplicatorFailureState) && msg == offlineMsg) {
				ready = <-w.parked // it is running its handshake
				w.parked = nil
				return true, ready
			}
			if i > 50 && i%20 == 0 && w.lSM.replicatorParkedOnSuspend() {
				w.notWoken = true
				return false, false
			}
			pace(i)
		}
	}
	return false, false
}

// armOnlineRace: the next time IsReady is told "follower not live", the follower comes online and the notification
// is delivered before IsReady gets to park.
func (w *world) armOnlineRace() {
	m := w.lSM
	m.hookMu.Lock()
	m.afterOfflineAnswer = func() {
		m.nodeStartup(false, nil)
		w.onlineRaceFired = true
	}
	m.hookMu.Unlock()
}

// armRecheckWindow: the next time IsReady is told "follower not live" and, having published that and raised its suspend
// flag, asks the state manager AGAIN before it parks, the follower's node-startup event is processed exactly in
// between: it holds the manager's lock and notifies the replicator while the replicator's second question waits for
// that lock.
func (w *world) armRecheckWindow() {
	w.recheckWindowFired = false
	w.lSM.recheckWindow.Store(rwArmed)
}

func (w *world) disarmOnlineRace() {
	if w.lSM != nil {
		w.lSM.hookMu.Lock()
		w.lSM.afterOfflineAnswer = nil
		w.lSM.hookMu.Unlock()
		if st := w.lSM.recheckWindow.Swap(rwIdle); st == rwNotifier || st == rwDone {
			w.recheckWindowFired = true
		}
	}
}

// offline: the cluster reports the follower gone (session lost, node stopped ...); the leader's state manager
// processes the node-failure event.
func (w *world) offline() (wasLive, closedConn bool, killedStreams int) {
	if !w.lUp {
		wasLive = w.live.Swap(false)
		return wasLive, false, 0
	}
	return w.lSM.nodeFailure()
}
