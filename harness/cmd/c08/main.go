// C08 — Replication: a follower's log is a gap-free, byte-identical copy of the leader's.
//
// Two real replica.Partition objects on real FanOutQueue logs: the leader with the real remoteReplicator, the
// follower behind the real storage ReplicaHandler, joined by an in-process transport (world.go) that turns the
// replicator's outgoing metadata into the handler's incoming metadata and injects faults. The channel is
// advanced one step at a time (VerifReplicaPrepare = handshake, VerifReplicaStep = one pass of
// partition.replica); between steps a seeded fault sequence is applied (driver.go). After every event the
// oracle reads both logs and the leader's consumer group; after the last fault a bounded number of fault-free
// steps must bring the follower to the leader's log.
package main

import (
	"encoding/json"
	"fmt"
	"os"
	"path/filepath"
	"strconv"
	"strings"
	"time"

	"github.com/lindb/lindb/verif/internal/core"
	"github.com/lindb/lindb/verif/internal/racefilter"
)

type batchResult struct {
	From     int            `json:"from"`
	To       int            `json:"to"`
	Done     int            `json:"done"`
	Counters map[string]int `json:"counters"`
	// first violating sequence per class
	Violations []batchViolation `json:"violations"`
	Nontrivial []string         `json:"nontrivial"`
	Samples    []*seqResult     `json:"samples"`
	Evals      int              `json:"evals"`
	Fatal      []string         `json:"fatal"`
	Hung       string           `json:"hung,omitempty"`
}

type batchViolation struct {
	Class   string       `json:"class"`
	Message string       `json:"message"`
	Count   int          `json:"count"`
	Seq     *seqResult   `json:"sequence"`
	Trace   []traceEntry `json:"trace"`
}

func main() {
	if len(os.Args) > 1 && os.Args[1] == "batch" {
		runBatch()
		return
	}
	if len(os.Args) > 1 && os.Args[1] == "script" {
		runScript()
		return
	}
	c := core.New("C08", "fault_enumeration")
	c.SetRule("one case = one fault sequence of 8..25 events (leader appends, replication steps with one-shot transport/follower faults, stream resets, " +
		"follower stop/start with kept, deleted or rolled-back log, leader restart with kept or rolled-back log (whole directory, or log only with newer consumer-group meta), " +
		"node-failure / node-startup events of the follower processed by the leader's state manager (the failure closes the follower's pooled connection, the follower comes back at the same or at another address), " +
		"leader Sync+GC) followed by a fault-free progress phase; more than half of the sequences start with a directed prefix " +
		"(leader loses a tail of 1..4 messages the follower has; follower loses its log after the leader released positions; follower re-creates its log behind a healthy stream; " +
		"established channel - node failure - appends - node startup at the same/another address - appends; node-startup event processed right after IsReady was told 'not live', " +
		"or between IsReady's suspend flag and its second look at the live nodes; such a raced offline period followed by traffic and one or two ordinary offline periods " +
		"(node failure - append - steps until the handshake parks - node startup - appends)). " +
		"Non-trivial = a fault actually happened (a one-shot fault fired, a stream was killed, a node restarted) and a handshake completed afterwards; distinct by event list.")
	c.Assume("a node restart is modelled as Close + reopen of the same directory (dirty mapped pages survive a process kill, so the directory content is the same)")
	c.Assume("a follower restart always breaks the replica stream (the TCP connection dies with the process)")
	c.Assume("'positions the leader still holds' for resuming = positions above the follower's consumer-group ack on the leader (acknowledged positions may be garbage collected at any moment); for byte comparison = positions Queue.Get still returns")
	c.Assume("the queue directories of both nodes live on tmpfs (/dev/shm/verif-C08-<pid>, removed at the end of the run; directories of dead runs are removed at start) when /dev/shm exists, else under the run's scratch directory: every consumer-group ack msyncs its meta page, which costs milliseconds on disk and is irrelevant to the process-kill fault model")
	c.Assume("connection life cycle as in rpc.ClientConnFactory + coordinator/storage.stateManager: every ReplicaServiceClient is bound for life to the pooled connection of the address it was created for; " +
		"a connection survives follower restarts and stream failures, it is closed and removed from the pool by the follower's node-failure event (and with the leader's process); " +
		"calls through a client of a closed connection fail ('the client connection is closing'), calls over a connection to an address the follower left are refused")
	c.Assume("the state manager processes a node event under its write lock (node map update, watcher calls, connection close), GetLiveNode takes the read lock - as coordinator/storage/state_manager.go does; " +
		"a deadlock is decided from one goroutine snapshot (event blocked sending to the replicator under the lock, replicator blocked on the lock), never from elapsed time")
	c.Assume("a replicator whose follower is offline either returns from its handshake or blocks until the node-startup event: one that has been told 'not live' 64 times by the state manager " +
		"within one Prepare (free-running: since the last node event) without standing blocked in IsReady's receive is judged spinning (a parking one asks twice); " +
		"decided from that count and one goroutine snapshot (IsReady more than 50 times on its stack = unbounded recursion), never from elapsed time; " +
		"after the verdict the harness makes the follower live so that the goroutine unwinds (the fake state manager's goroutine-id bookkeeping walks the caller's stack, which slows a recursing caller down long before its stack reaches the runtime's limit)")
	c.Assume("writes to a family past its writable window arrive over a write stream of their own: WriteHandler.Write calls BuildReplicaForLeader(leader, whole replica list) before the first message; " +
		"a step drives the replicator the leader partition currently has registered for the follower (what partition.replicaLoop iterates over) and is a no-op while there is none; " +
		"the leader's local replicator is created by the production path but not run, the flush of its family is modelled by consuming and acknowledging on its consumer group; " +
		"a log that partition.IsExpire reports as expired ends the sequence (writeAheadLog.destroy and the log's re-creation by a later write are not modelled); " +
		"sequences on an expired family contain no offline periods and no lost leader tail")
	c.Assume("the local replicator on the follower (log -> tsdb) is not run; only the log copy is judged")
	nSeq := c.Pick(1600, 100000)
	per := c.Pick(25, 250)
	type job struct {
		kind     string
		from, to int
		race     bool
	}
	var jobs []job
	for f := 0; f < nSeq; f += per {
		t := f + per
		if t > nSeq {
			t = nSeq
		}
		jobs = append(jobs, job{"steps", f, t, false})
	}
	// free-running variant (real replica loop); every second batch under the race detector when a -race binary exists
	raceBin := os.Getenv("VERIF_RACE_BIN")
	nFree, perFree := c.Pick(24, 600), c.Pick(6, 20)
	for f, k := 0, 0; f < nFree; f, k = f+perFree, k+1 {
		jobs = append(jobs, job{"free", f, f + perFree, raceBin != "" && k%2 == 0})
	}
	raceOut := make([]string, len(jobs))
	scratch := c.Scratch()
	// the logs live on tmpfs when there is one: every consumer-group ack msyncs its meta page, which costs
	// milliseconds on a disk and nothing on tmpfs, and says nothing about the property (process-kill model)
	logBase := fastScratch()
	defer os.RemoveAll(logBase)
	results := make([]*batchResult, len(jobs))
	died := make([]string, len(jobs))
	overflow := make([]bool, len(jobs))
	core.Parallel(len(jobs), 16, func(i int) {
		j := jobs[i]
		dir := filepath.Join(scratch, fmt.Sprintf("%s%05d", j.kind, j.from))
		_ = os.MkdirAll(dir, 0o755)
		env := []string{"VERIF_SEED=" + strconv.FormatInt(c.Seed, 10)}
		if logBase != "" {
			env = append(env, "C08_LOG_BASE="+logBase)
		}
		bin := ""
		if j.race {
			bin = raceBin
			env = append(env, "GORACE=halt_on_error=0 exitcode=0 log_path="+filepath.Join(dir, "race"))
		}
		res := core.RunChild(bin, []string{"batch", j.kind, strconv.Itoa(j.from), strconv.Itoa(j.to), dir}, env, 20*time.Minute, filepath.Join(dir, "child.log"))
		if j.race {
			raceOut[i] = racefilter.ReadLogs(filepath.Join(dir, "race"), filepath.Join(dir, "child.log"))
		}
		r := &batchResult{}
		data, err := os.ReadFile(filepath.Join(dir, "result.json"))
		if err == nil {
			err = json.Unmarshal(data, r)
		}
		if res.TimedOut {
			died[i] = "watchdog"
		} else if err != nil || res.ExitCode != 0 {
			death := res.Death
			if strings.Contains(death, "stack overflow") && strings.Count(death, "replica.(*remoteReplicator).IsReady(") >= 3 && strings.Contains(death, "replica/replicator_remote.go") {
				// the child died of "goroutine stack exceeds ...-byte limit" and the overflowing stack is IsReady calling itself
				overflow[i] = true
			}
			if len(death) > 3000 {
				death = death[:3000]
			}
			died[i] = fmt.Sprintf("exit=%d err=%v death: %s ... tail: %s", res.ExitCode, err, death, tailStr(res.Output, 6000))
		}
		results[i] = r
		_ = os.RemoveAll(dir)
	})
	raceSeen := map[string]bool{}
	var raceList []string
	for i, r := range results {
		j := jobs[i]
		if died[i] == "watchdog" {
			c.Inconclusive("batch %d-%d: watchdog fired", j.from, j.to)
			continue
		}
		if died[i] != "" {
			if overflow[i] {
				// same finding as the one decided inside the child from the goroutine snapshot (reportSpin), seen from
				// outside: the recursion was faster than the driver's look at it
				c.Count("oracle.replicator_spin_detected.as_child_death_by_stack_overflow", 1)
				c.Violation("C08/no-resync/replicator-spins-instead-of-parking-while-follower-offline/unbounded-recursion-in-IsReady",
					fmt.Sprintf("batch %s %d-%d: the child process died with a stack overflow inside remoteReplicator.IsReady (replica/replicator_remote.go): IsReady calls itself without blocking: %s",
						j.kind, j.from, j.to, died[i]), nil)
			} else if strings.Contains(died[i], "lindb/replica") || strings.Contains(died[i], "lindb/pkg/queue") || strings.Contains(died[i], "app/storage/rpc") {
				c.Violation("C08/process-died-in-replication", fmt.Sprintf("batch %d-%d: %s", j.from, j.to, died[i]), nil)
			} else {
				c.Inconclusive("batch %d-%d: child failed: %s", j.from, j.to, tailStr(died[i], 800))
			}
			continue
		}
		if r.Hung != "" {
			c.Inconclusive("batch %d-%d: %s", j.from, j.to, r.Hung)
		}
		for _, f := range r.Fatal {
			if strings.HasPrefix(f, "panic-in-lindb:") {
				c.Violation("C08/panic-in-replication", f, nil)
			} else if strings.HasPrefix(f, "watchdog:") {
				c.Inconclusive("%s", tailStr(f, 800))
			} else {
				c.Inconclusive("%s", tailStr(f, 800))
			}
		}
		c.Eval(r.Evals)
		if j.kind == "steps" {
			c.Count("sequences", r.Done)
		}
		if j.race {
			// recorded, never deciding (DESIGN §1: the unchanged tree races outside the anchored mechanisms)
			reports := racefilter.Parse(raceOut[i])
			c.Count("free.runs_under_race_detector", r.Done)
			c.Count("free.race_reports_total", len(reports))
			for _, rep := range racefilter.Attributed(reports, []string{"replica/", "pkg/queue/", "app/storage/rpc/replica.go"}) {
				key := strings.Join(rep.TopFrames, "+")
				c.Count("free.race_reports_in_anchored_files", 1)
				if !raceSeen[key] {
					raceSeen[key] = true
					raceList = append(raceList, key)
				}
			}
		}
		for k, v := range r.Counters {
			c.Count(k, v)
		}
		for _, k := range r.Nontrivial {
			c.Nontrivial(k)
		}
		for _, s := range r.Samples {
			if s.Index < 2 {
				c.Sample(map[string]interface{}{"index": s.Index, "script": s.Script, "trace": s.Trace})
			}
		}
		for _, v := range r.Violations {
			for n := 0; n < v.Count; n++ {
				c.Violation(v.Class, fmt.Sprintf("sequence %d [%s]: %s", v.Seq.Index, v.Seq.Script, v.Message),
					map[string]interface{}{"seed": c.Seed, "sequence": v.Seq.Index, "script": v.Seq.Script, "trace": v.Trace,
						"replay": fmt.Sprintf("LOG_LEVEL=fatal %s/bin/c08 script '%s'", c.Root, v.Seq.Script)})
			}
		}
	}
	if raceList == nil {
		raceList = []string{}
	}
	c.Set("race_reports_in_anchored_files(recorded,not_deciding)", raceList)
	// every branch of the handshake must have been seen, otherwise the run says nothing about it
	for _, k := range []string{
		"handshake.branch.a_aligned", "handshake.branch.b_reset_follower", "handshake.branch.c_leader_lost_tail_reset_append_index",
		"handshake.branch.d_follower_ahead_of_leader_by_exactly_one", "handshake.branch.d_reset_replica_index.follower_ahead_of_consumed(ack_lost)",
		"handshake.branch.d_reset_replica_index.follower_behind_consumed(resend)", "handshake.follower_offline_parked",
		"handshake.woken_by_online_notification", "handshake.connect_failed", "handshake.branch.get_ack_failed", "handshake.branch.create_client_failed",
		"step.delivered_and_acknowledged", "fault.fired.respLost", "fault.fired.send", "fault.fired.putErr", "fault.leader_sync_gc.released_positions",
		"fault.follower_start.directory_deleted", "progress.converged_after_faults", "free.converged",
		// connection life cycle and state-manager schedules: a run that never reached them says nothing about them
		"fault.offline_notification.closed_pooled_connection", "fault.offline_notification.open_stream_killed",
		"lifecycle.sequences_with_offline_online_at_same_address_then_append",
		"lifecycle.handshake_completed_over_connection_reopened_after_node_failure",
		"fault.online_notification.follower_moved_to_other_address", "fault.fired.onlineRecheckRace",
		// the suspend protocol over more than one offline period: a run that never parked a replicator AFTER a raced
		// online notification (of either kind) and never woke it again says nothing about what the race leaves behind
		"fault.fired.onlineRace.replicator_went_on_without_waiting", "fault.fired.onlineRecheckRace.event_completed_and_replicator_went_on",
		"oracle.offline_prepares_judged_parked_not_spinning",
		"lifecycle.later_offline_period_after_raced_online_notification.parked.onlineRace",
		"lifecycle.later_offline_period_after_raced_online_notification.parked.onlineRecheckRace",
		"lifecycle.later_offline_period_after_raced_online_notification.woken_and_channel_ready.onlineRace",
		"lifecycle.later_offline_period_after_raced_online_notification.woken_and_channel_ready.onlineRecheckRace",
		// gc tick on an expired family: a run that never had a tick stop the follower's drained channel while the local group
		// still had data, never saw the next write stream re-create the channel and a late append arrive, says nothing about it
		"expire_tick.stopped_drained_follower_channel.while_local_group_has_data", "expire_tick.follower_channel_kept(has_pending_positions)",
		"lifecycle.channel_rebuilt_by_new_write_stream_after_expire_tick", "lifecycle.late_append_replicated_after_expire_tick",
		"expire_tick.log_expired(all_groups_drained).follower_holds_everything", "step.no_follower_channel(stopped_by_expire_tick)",
	} {
		if c.Counter(k) == 0 {
			c.Inconclusive("never observed: %s", k)
		}
	}
	if logBase != "" {
		_ = os.RemoveAll(logBase)
	}
	c.Finish()
}

// fastScratch returns a private directory on /dev/shm (or "" when there is none); directories left behind by
// killed runs (their pid is gone) are removed first.
func fastScratch() string {
	const shm = "/dev/shm"
	ents, err := os.ReadDir(shm)
	if err != nil {
		return ""
	}
	for _, e := range ents {
		if !strings.HasPrefix(e.Name(), "verif-C08-") {
			continue
		}
		pid, err := strconv.Atoi(strings.TrimPrefix(e.Name(), "verif-C08-"))
		if err != nil {
			continue
		}
		if _, err := os.Stat(fmt.Sprintf("/proc/%d", pid)); err != nil {
			_ = os.RemoveAll(filepath.Join(shm, e.Name()))
		}
	}
	dir := filepath.Join(shm, fmt.Sprintf("verif-C08-%d", os.Getpid()))
	if err := os.MkdirAll(dir, 0o755); err != nil {
		return ""
	}
	return dir
}

func tailStr(s string, n int) string {
	if len(s) > n {
		return s[len(s)-n:]
	}
	return s
}
