package main

import (
	"bytes"
	"fmt"
	"math/rand"
	"os"
	"strconv"
	"strings"
	"sync/atomic"
	"time"

	"github.com/lindb/lindb/models"
	"github.com/lindb/lindb/replica"
	"github.com/lindb/lindb/verif/internal/core"
)

// ---------------------------------------------------------------------------------------------
// events
// ---------------------------------------------------------------------------------------------

// event is one element of a fault sequence. Text form (also accepted by `c08 script`):
//
//	a<n>            leader appends n messages
//	s | s:<fault>   one replication step (handshake, then one message if anything is pending), optionally with a one-shot fault:
//	                send reqLost respLost getAck reset resetRespLost createClient streamOpen putErr
//	                wipeBeforeStream (the follower restarts with a deleted log between the handshake and the stream creation)
//	                onlineRace (the follower is offline when IsReady asks; it comes online and the notification is delivered
//	                before IsReady parks)
//	                inflightPut (the connection dies while the follower's handler is between ReplicaLog's index check and
//	                its queue append; the append lands when the next append arrives, a stream is reset or the follower stops)
//	rst             all open streams are reset
//	fc              follower process stops
//	fs:<mode>       follower (re)starts: keep | wipe (directory deleted) | back<j> (directory restored to the state j messages ago)
//	fsw             follower destroys its log/partition object and re-creates it empty WITHOUT breaking the replica stream
//	                (WAL gc of a drained log, WAL drop + re-create): the handler of an open stream stays bound to the closed partition
//	lr:<mode>       leader restarts: keep | back<j> (whole directory restored to the state j messages ago) |
//	                backcg<j> (log restored, consumer group meta keeps its newer content)
//	                onlineRecheckRace (the follower is offline when IsReady asks; IsReady raises its suspend flag and asks the
//	                state manager again before it parks; the follower's node-startup event is processed exactly in between,
//	                holding the state manager's lock while it notifies the replicator)
//	off             node-failure event of the follower processed by the leader's state manager: the node leaves the live
//	                node map, the watchers are told, the follower's pooled connection is closed and removed (every client
//	                created on it is dead from then on, streams over it break)
//	on | on:moved   node-startup event of the follower (same address | another address: what ran over connections to the
//	                old address is dead, calls through clients bound to them are refused)
//	gc              leader Sync + GC (partition.IsExpire)
//	old             (first event only) the partition's family is days past its writable window: every gc is a gc tick on an
//	                expired family (partition.IsExpire stops drained channels), the leader's log also carries the group of the
//	                leader's local replicator, and every append batch arrives over a new write stream (BuildReplicaForLeader)
//	lf | lf:all     the leader's local replicator has flushed: its group acknowledges everything but the last message | everything
//	land            a follower append left in flight by fault inflightPut reaches the follower's queue now
type event struct {
	Kind  string
	N     int
	Fault string
	Mode  string
	J     int
}

func (e event) String() string {
	switch e.Kind {
	case "a":
		return fmt.Sprintf("a%d", e.N)
	case "s":
		if e.Fault != "" {
			return "s:" + e.Fault
		}
		return "s"
	case "on", "lf":
		if e.Mode != "" {
			return e.Kind + ":" + e.Mode
		}
		return e.Kind
	case "fs", "lr":
		if strings.HasPrefix(e.Mode, "back") {
			return fmt.Sprintf("%s:%s%d", e.Kind, e.Mode, e.J)
		}
		return e.Kind + ":" + e.Mode
	}
	return e.Kind
}

func parseEvent(tok string) (event, error) {
	switch {
	case tok == "s" || tok == "rst" || tok == "fc" || tok == "off" || tok == "on" || tok == "gc" || tok == "land" || tok == "fsw" || tok == "old" || tok == "lf":
		return event{Kind: tok}, nil
	case strings.HasPrefix(tok, "s:"):
		return event{Kind: "s", Fault: tok[2:]}, nil
	case tok == "on:moved":
		return event{Kind: "on", Mode: "moved"}, nil
	case tok == "lf:all":
		return event{Kind: "lf", Mode: "all"}, nil
	case strings.HasPrefix(tok, "a"):
		n, err := strconv.Atoi(tok[1:])
		return event{Kind: "a", N: n}, err
	case strings.HasPrefix(tok, "fs:") || strings.HasPrefix(tok, "lr:"):
		e := event{Kind: tok[:2]}
		m := tok[3:]
		for _, p := range []string{"backcg", "back"} {
			if strings.HasPrefix(m, p) {
				j, err := strconv.Atoi(m[len(p):])
				e.Mode, e.J = p, j
				return e, err
			}
		}
		e.Mode = m
		return e, nil
	}
	return event{}, fmt.Errorf("unknown event %q", tok)
}

func scriptString(evs []event) string {
	s := make([]string, len(evs))
	for i, e := range evs {
		s[i] = e.String()
	}
	return strings.Join(s, " ")
}

var stepFaults = []string{"send", "reqLost", "respLost", "getAck", "reset", "resetRespLost", "createClient", "streamOpen", "putErr", "wipeBeforeStream", "inflightPut", "onlineRace", "onlineRecheckRace"}

// ---------------------------------------------------------------------------------------------
// observations
// ---------------------------------------------------------------------------------------------

type obs struct {
	FUp     bool
	A       int64 // leader appended
	QA      int64 // leader queue acknowledged (positions <= QA are no longer held)
	C       int64 // consumed sequence of the follower's consumer group on the leader
	Ack     int64 // acknowledged sequence of that group
	F       int64 // follower appended (last known while the follower is down)
	FA      int64 // follower queue acknowledged
	State   int
	Msg     string
	Pending int64
	Live    bool
	Parked  bool
}

func (o obs) String() string {
	st := map[int]string{1: "init", 2: "ready", 3: "fail"}[o.State]
	f := fmt.Sprintf("F=%d/fa=%d", o.F, o.FA)
	if !o.FUp {
		f = "F=down(" + strconv.FormatInt(o.F, 10) + ")"
	}
	extra := ""
	if !o.Live {
		extra += " offline"
	}
	if o.Parked {
		extra += " parked"
	}
	return fmt.Sprintf("L{A=%d qa=%d c=%d ack=%d %s} %s%s", o.A, o.QA, o.C, o.Ack, st, f, extra)
}

type payloadRec struct {
	UID   int
	Pos   int64
	Epoch int
	Data  []byte
}

type traceEntry struct {
	Ev    string   `json:"ev"`
	After string   `json:"after"`
	Notes []string `json:"notes,omitempty"`
	Took  string   `json:"-"`
}

type hsRec struct {
	Rel   string
	Event int
}

type seqResult struct {
	Index      int              `json:"index"`
	Script     string           `json:"script"`
	Counters   map[string]int   `json:"counters"`
	Violations []core.Violation `json:"violations"`
	Nontrivial string           `json:"nontrivial,omitempty"`
	Trace      []traceEntry     `json:"trace,omitempty"`
	Evals      int              `json:"evals"`
	Fatal      string           `json:"fatal,omitempty"`
	// AbandonBatch: a goroutine of this sequence could not be stopped (a replicator that spins); the batch ends here
	AbandonBatch bool `json:"-"`
}

type driver struct {
	w   *world
	rnd *rand.Rand
	res *seqResult

	uid      int
	epoch    int
	payloads map[int]*payloadRec
	byPos    map[int64][]int

	events []event
	trace  []traceEntry
	notes  []string
	evIdx  int

	lastLeaderBack, lastFollowerBack int
	tick                             int

	lastF, lastFA int64
	lineL, lineF  map[int64]int // position -> uid: what each log contains (the follower's as far as it was ever read)

	ackArmed           bool
	followerLossTick   int    // event counter at the follower's last log loss (0: none)
	leaderLostNoHS     bool   // leader restarted from an older log and no handshake has completed since
	leaderLostMode     string // back | backcg
	lostFrom, lostTo   int64  // positions the leader lost since its last completed handshake
	lastHS             *hsRec // last completed handshake
	rewrites           map[int64]string
	desyncCause        string
	upstreamViolated   bool // a safety violation was flagged in this sequence: dependent verdicts are not judged
	faultSeen          bool
	hsAfterFault       bool
	progressPhase      bool
	ackViolationActive bool
	hsAckBad           bool // the last completed handshake itself left the leader's ack beyond the follower

	wipedAfterHandshake bool // fault wipeBeforeStream fired during the current Prepare

	// life cycle of the follower's pooled connection on the leader
	offClosedConn    bool // a node-failure event closed the pooled connection and the follower has not come back yet
	backSameAddr     bool // ... and the follower came back at the same address (a handshake is due on a NEW connection)
	lifecycleCounted bool
	closedConnCalls  int // calls the replicator made through a client bound to a closed connection (whole sequence)
	staleAddrCalls   int // calls through a client bound to a connection to an address the follower left

	followerChangedBehindHandshake bool // during the current event

	// two-step history "raced online notification, then a later ordinary offline period": racedOnline names the step
	// fault (onlineRace | onlineRecheckRace) through which this leader incarnation's replicator went on WITHOUT having
	// waited for the notification; laterParked: it parked in an offline period that began after that
	racedOnline  string
	racedCounted bool
	laterParked  bool

	// gc tick on an expired family (old worlds): tickStopped = the last tick stopped the follower's drained channel and no
	// write stream has come since; closedByTick = the replicator that tick closed; rebuildDefect = what the partition
	// looked like after the next write stream's BuildReplicaForLeader when it had NOT re-created the channel ("" = fine);
	// lateWatch/latePos: a message appended after such a tick is awaited on the follower
	tickStopped   bool
	closedByTick  replica.Replicator
	rebuildDefect string
	lateWatch     bool
	latePos       int64

	// lateAppend (free-running variant) reports whether the message of leader position pos was once delivered on a
	// stream that died before the follower answered: its append was in flight when the leader reconnected
	lateAppend func(pos int64) bool
}

func newDriver(w *world, rnd *rand.Rand, res *seqResult) *driver {
	return &driver{w: w, rnd: rnd, res: res, payloads: map[int]*payloadRec{}, byPos: map[int64][]int{}, rewrites: map[int64]string{}, lineL: map[int64]int{}, lineF: map[int64]int{},
		lastF: -1, lastFA: -1, ackArmed: true}
}

func (d *driver) count(name string, n int) { d.res.Counters[name] += n }

func (d *driver) note(format string, args ...interface{}) {
	d.notes = append(d.notes, fmt.Sprintf(format, args...))
}

func (d *driver) violate(class, format string, args ...interface{}) {
	d.res.Counters["violations."+class]++
	msg := fmt.Sprintf(format, args...)
	d.note("VIOLATION %s: %s", class, msg)
	for _, v := range d.res.Violations {
		if v.Class == class {
			return
		}
	}
	d.res.Violations = append(d.res.Violations, core.Violation{Class: class, Message: fmt.Sprintf("event %d (%s): %s", d.evIdx, d.curEvent(), msg)})
}

func (d *driver) curEvent() string {
	if d.progressPhase {
		return "progress-phase step"
	}
	if d.evIdx < len(d.events) {
		return d.events[d.evIdx].String()
	}
	return "?"
}

func (d *driver) observe() obs {
	w := d.w
	o := obs{FUp: w.fUp, Live: w.live.Load(), Parked: w.parked != nil}
	q := w.lLog.Queue()
	o.A, o.QA = q.AppendedSeq(), q.AcknowledgedSeq()
	// the consumer group the leader's replicator for the follower works on
	o.C, o.Ack = w.lRep.ReplicaIndex()-1, w.lRep.AckIndex()
	o.Pending = w.lRep.Pending()
	o.State, o.Msg = replica.VerifReplicatorStateType(w.lRep)
	if w.fUp {
		fq := w.fReal.Queue()
		d.lastF, d.lastFA = fq.AppendedSeq(), fq.AcknowledgedSeq()
	}
	o.F, o.FA = d.lastF, d.lastFA
	return o
}

// ---------------------------------------------------------------------------------------------
// payloads: unique, self-describing (position at which the leader stored it, leader incarnation, uid)
// ---------------------------------------------------------------------------------------------

func (d *driver) newPayload(pos int64) *payloadRec {
	d.uid++
	head := fmt.Sprintf("C08|p%d|e%d|u%d|", pos, d.epoch, d.uid)
	n := d.rnd.Intn(120)
	if d.rnd.Intn(16) == 0 {
		n = 3000 + d.rnd.Intn(6000)
	}
	buf := make([]byte, 0, len(head)+n)
	buf = append(buf, head...)
	for i := 0; i < n; i++ {
		buf = append(buf, byte('a'+(d.uid+i*7)%26))
	}
	p := &payloadRec{UID: d.uid, Pos: pos, Epoch: d.epoch, Data: buf}
	d.payloads[p.UID] = p
	d.byPos[pos] = append(d.byPos[pos], p.UID)
	return p
}

// identify parses the header of a message read from a log.
func (d *driver) identify(b []byte) *payloadRec {
	if !bytes.HasPrefix(b, []byte("C08|p")) {
		return nil
	}
	parts := bytes.SplitN(b, []byte("|"), 5)
	if len(parts) < 5 || len(parts[3]) < 2 {
		return nil
	}
	uid, err := strconv.Atoi(string(parts[3][1:]))
	if err != nil {
		return nil
	}
	p := d.payloads[uid]
	if p == nil || !bytes.Equal(p.Data, b) {
		return nil
	}
	return p
}

func head(b []byte) string {
	if len(b) > 40 {
		return fmt.Sprintf("%q...(%d bytes)", b[:40], len(b))
	}
	return fmt.Sprintf("%q", b)
}

// ---------------------------------------------------------------------------------------------
// event execution
// ---------------------------------------------------------------------------------------------

func (d *driver) run(evs []event) {
	d.events = evs
	d.res.Script = scriptString(evs)
	for i, e := range evs {
		if e.Kind == "lr" && strings.HasPrefix(e.Mode, "back") {
			d.lastLeaderBack = i
		}
		if e.Kind == "fs" && e.Mode == "back" {
			d.lastFollowerBack = i
		}
	}
	d.evIdx = -1
	d.snapshots()
	for i := range evs {
		d.evIdx = i
		d.exec(evs[i])
		if d.res.Fatal != "" {
			return
		}
	}
	d.progress()
}

// snapshots copies the directories of both nodes (the states a later "back" restart can return to); a side is
// only copied while the script still contains such a restart.
func (d *driver) snapshots() {
	if d.evIdx < d.lastLeaderBack {
		d.w.snap("l", d.evIdx, d.lineL, d.tick, !d.ackArmed)
	}
	if d.evIdx < d.lastFollowerBack {
		d.w.snap("f", d.evIdx, d.lineF, d.tick, !d.ackArmed)
	}
}

func (d *driver) exec(e event) {
	d.notes = nil
	d.tick++
	t0 := time.Now()
	pre := d.observe()
	putErrsBefore := atomic.LoadInt32(&d.w.putErrs)
	landedBefore := atomic.LoadInt32(&d.w.landed)
	switch e.Kind {
	case "a":
		d.doAppend(e.N)
	case "s":
		d.doStep(e.Fault, pre)
	case "rst":
		n := d.w.tr.breakAll()
		d.count("fault.stream_reset", 1)
		if n > 0 {
			d.count("fault.stream_reset.open_stream_killed", 1)
			d.faultSeen, d.hsAfterFault = true, false
		}
	case "fc":
		if d.w.fUp {
			d.w.stopFollower()
			d.count("fault.follower_stop", 1)
			d.faultSeen, d.hsAfterFault = true, false
		}
	case "fs":
		d.doFollowerStart(e)
	case "fsw":
		if d.w.fUp {
			stale := d.w.tr.openStreams()
			if err := d.w.swapFollowerPartition(); err != nil {
				d.res.Fatal = "harness: swap follower partition: " + err.Error()
				return
			}
			d.count("fault.follower_log_recreated_behind_stream", 1)
			if stale > 0 {
				d.count("fault.follower_log_recreated_behind_stream.open_stream_left_on_closed_partition", 1)
			}
			if d.lastF >= 0 {
				d.followerLostLog() // the leader's ack is ahead until the next handshake
			}
			d.lineF = map[int64]int{}
			d.faultSeen, d.hsAfterFault = true, false
		}
	case "lr":
		d.doLeaderRestart(e)
	case "off":
		wasLive, closedConn, killed := d.w.offline()
		d.count("fault.offline_notification", 1)
		if !wasLive {
			d.count("fault.offline_notification.node_not_live(ignored_by_state_manager)", 1)
		}
		if closedConn {
			d.count("fault.offline_notification.closed_pooled_connection", 1)
			d.offClosedConn, d.backSameAddr = true, false
		}
		if killed > 0 {
			d.count("fault.offline_notification.open_stream_killed", 1)
			d.faultSeen, d.hsAfterFault = true, false
		}
	case "on":
		moved := e.Mode == "moved"
		woken, ready := d.w.online(moved)
		d.count("fault.online_notification", 1)
		if moved {
			d.count("fault.online_notification.follower_moved_to_other_address", 1)
			d.faultSeen, d.hsAfterFault = true, false
			d.offClosedConn, d.backSameAddr = false, false
		} else if d.offClosedConn {
			d.offClosedConn, d.backSameAddr = false, true
			d.count("lifecycle.follower_back_at_same_address_after_its_connection_was_closed", 1)
		}
		if d.w.deadlocked {
			d.reportDeadlock(pre)
			return
		}
		if d.w.notWoken {
			d.upstreamViolated = true
			d.violate("C08/no-resync/online-notification-does-not-wake-parked-replicator",
				"the follower came online, the state manager delivered the notification, and the replicator is still parked in IsReady (%s)", pre.String())
			d.res.Fatal = "stop: replicator parked for ever"
			return
		}
		if woken {
			d.count("handshake.woken_by_online_notification", 1)
			if d.laterParked {
				d.laterParked = false
				d.count("lifecycle.later_offline_period_after_raced_online_notification.woken."+d.racedOnline, 1)
				if ready {
					d.count("lifecycle.later_offline_period_after_raced_online_notification.woken_and_channel_ready."+d.racedOnline, 1)
				}
			}
			// the parked Prepare ran its handshake now
			d.afterPrepare(pre, ready, false)
			d.harvestConnObs()
			d.w.tr.clearObs()
		}
	case "land":
		if d.w.releaseParkedPut() {
			d.count("fault.inflight_append_landed_later", 1)
		}
	case "gc":
		d.doGC(pre)
	case "old":
		if d.evIdx != 0 || !d.w.old {
			d.res.Fatal = "harness: event old must be the first of a script"
			return
		}
		d.count("worlds.family_past_writable_window", 1)
	case "lf":
		d.doLocalFlush(e.Mode == "all")
	default:
		d.res.Fatal = "harness: unknown event " + e.Kind
	}
	if d.res.Fatal != "" {
		return
	}
	post := d.observe()
	d.followerChangedBehindHandshake = atomic.LoadInt32(&d.w.landed) > landedBefore || (e.Kind == "s" && e.Fault == "wipeBeforeStream")
	d.checkInvariants(pre, post, e, atomic.LoadInt32(&d.w.putErrs) > putErrsBefore)
	d.res.Evals++
	t1 := time.Now()
	if !d.progressPhase {
		d.snapshots()
	}
	d.trace = append(d.trace, traceEntry{Ev: e.String(), After: post.String(), Notes: d.notes,
		Took: fmt.Sprintf("%v + snapshots %v", t1.Sub(t0).Round(time.Microsecond), time.Since(t1).Round(time.Microsecond))})
}

func (d *driver) doAppend(n int) {
	w := d.w
	if n > 0 && d.backSameAddr && !d.lifecycleCounted {
		d.lifecycleCounted = true
		d.count("lifecycle.sequences_with_offline_online_at_same_address_then_append", 1)
	}
	if n > 0 && w.old {
		d.newWriteStream()
		if d.res.Fatal != "" {
			return
		}
	}
	for i := 0; i < n; i++ {
		q := w.lLog.Queue()
		pos := q.AppendedSeq() + 1
		if d.lastF >= pos {
			// the leader is about to store a new message at a position the follower already has
			cause := "unexplained"
			switch {
			case d.leaderLostNoHS && pos >= d.lostFrom && pos <= d.lostTo:
				// the one situation the index-only handshake cannot see: the leader lost positions [lostFrom, lostTo]
				// that the follower has, and stores new messages there before its first handshake after the loss
				cause = "appended-before-handshake-after-leader-lost-tail"
				if d.leaderLostMode == "backcg" {
					d.count("leader_append_over_lost_tail_before_handshake.consumer_group_meta_kept_newer", 1)
				}
			case atomic.LoadInt32(&w.overtakes) > 0:
				cause = "after-append-overtaken-by-reconnect"
			case d.lastHS != nil:
				cause = "appended-after-handshake/" + d.lastHS.Rel
			}
			d.rewrites[pos] = cause
			d.count("leader_append_at_position_follower_holds", 1)
			d.note("leader appends at position %d which the follower already holds (follower appended=%d): %s", pos, d.lastF, cause)
		}
		p := d.newPayload(pos)
		if err := w.lPart.WriteLog(p.Data); err != nil {
			d.res.Fatal = "harness: leader WriteLog failed: " + err.Error()
			return
		}
		if got := q.AppendedSeq(); got != pos {
			d.res.Fatal = fmt.Sprintf("harness: leader append landed at %d, expected %d", got, pos)
			return
		}
		d.lineL[pos] = p.UID
		d.count("leader_appends", 1)
		if d.lateWatch {
			d.latePos = pos
		}
	}
}

// newWriteStream is what WriteHandler.Write does before the first message of a stream: BuildReplicaForLeader with the
// shard's replica list (writes to a family past its writable window arrive over a stream of their own). After a gc tick
// that stopped the follower's drained channel this is what has to bring the channel back.
func (d *driver) newWriteStream() {
	w := d.w
	if err := w.lPart.BuildReplicaForLeader(leaderID, w.replicas); err != nil {
		d.res.Fatal = "harness: BuildReplicaForLeader: " + err.Error()
		return
	}
	d.count("lifecycle.write_streams_opened(BuildReplicaForLeader)", 1)
	up := w.resolveChannel()
	if !d.tickStopped {
		return
	}
	d.tickStopped = false
	d.count("lifecycle.write_stream_after_expire_tick_stopped_follower_channel", 1)
	switch {
	case !up:
		d.rebuildDefect = "no-replicator-for-follower-after-new-write-stream"
	case w.lRep == d.closedByTick:
		d.rebuildDefect = "closed-replicator-still-registered"
	case !w.hasGroup(followerID):
		d.rebuildDefect = "replicator-without-consumer-group-in-log"
	default:
		d.rebuildDefect = ""
		d.count("lifecycle.channel_rebuilt_by_new_write_stream_after_expire_tick", 1)
	}
	if d.rebuildDefect != "" {
		d.note("after the expire tick stopped the follower's channel, BuildReplicaForLeader left: %s", d.rebuildDefect)
	}
	d.lateWatch = true
}

// doGC is the leader's wal gc tick on this partition (writeAheadLog.destroy -> partition.IsExpire): Sync + GC, and - when
// the family is past its writable window - the expiry path: every drained consumer group is stopped together with its
// replicator; if no group has data left the log counts as fully replicated and is destroyed.
func (d *driver) doGC(pre obs) {
	w := d.w
	hadFollower, followerDrained := w.hasGroup(followerID), pre.A <= pre.Ack
	localHasData := false
	if w.hasGroup(leaderID) {
		if cg, err := w.lLog.GetOrCreateConsumerGroup(fmt.Sprintf("%d", leaderID)); err == nil {
			localHasData = !cg.IsEmpty()
		}
	}
	expired := w.lPart.IsExpire()
	d.count("fault.leader_sync_gc", 1)
	if q := w.lLog.Queue().AcknowledgedSeq(); q > pre.QA {
		d.count("fault.leader_sync_gc.released_positions", 1)
	}
	if !w.old {
		if expired {
			d.res.Fatal = "harness: leader partition reported itself expired"
		}
		return
	}
	d.count("expire_tick.on_family_past_writable_window", 1)
	switch {
	case hadFollower && !w.hasGroup(followerID):
		d.count("expire_tick.stopped_drained_follower_channel", 1)
		if localHasData {
			d.count("expire_tick.stopped_drained_follower_channel.while_local_group_has_data", 1)
		}
		if !followerDrained {
			d.upstreamViolated = true
			d.violate("C08/expire-tick-stopped-follower-channel-with-pending-positions", "the gc tick stopped the follower's consumer group although it was not drained (%s)", pre.String())
		}
		d.tickStopped, d.closedByTick = true, nil
		if w.chanUp {
			d.closedByTick = w.lRep
		}
		d.faultSeen, d.hsAfterFault = true, false
	case hadFollower:
		d.count("expire_tick.follower_channel_kept(has_pending_positions)", 1)
	default:
		d.count("expire_tick.follower_channel_already_stopped", 1)
	}
	w.resolveChannel()
	if expired {
		// nothing in the log counts as unreplicated any more: writeAheadLog.destroy stops, closes and removes it
		d.count("expire_tick.log_expired(all_groups_drained)", 1)
		post := d.observe()
		if w.fUp && d.ackArmed {
			if post.F < post.A {
				d.upstreamViolated = true
				d.violate("C08/log-counted-fully-replicated-with-positions-follower-lacks/after-expire-tick",
					"partition.IsExpire reported the leader's log as fully replicated (it is destroyed next) while the leader holds positions up to %d and the follower appended only up to %d (%s); consumer groups the log knows: %v",
					post.A, post.F, post.String(), w.lLog.ConsumerGroupNames())
			} else {
				d.count("expire_tick.log_expired(all_groups_drained).follower_holds_everything", 1)
			}
		}
		// the destruction and a later re-creation of the log are not modelled: the sequence ends here
		d.res.Fatal = "stop: leader log expired"
	}
}

// doLocalFlush: the family flushed what the leader's local replicator had written, the local group acknowledges it.
func (d *driver) doLocalFlush(all bool) {
	w := d.w
	if !w.hasGroup(leaderID) {
		d.count("local_flush.no_local_group", 1)
		return
	}
	cg, err := w.lLog.GetOrCreateConsumerGroup(fmt.Sprintf("%d", leaderID))
	if err != nil {
		d.res.Fatal = "harness: local group: " + err.Error()
		return
	}
	target := w.lLog.Queue().AppendedSeq()
	if !all {
		target--
	}
	for cg.ConsumedSeq() < target {
		if cg.Consume() < 0 {
			break
		}
	}
	if target > cg.AcknowledgedSeq() && target <= cg.ConsumedSeq() {
		cg.Ack(target)
		d.count("local_flush.local_group_acknowledged", 1)
	}
}

func (d *driver) doFollowerStart(e event) {
	w := d.w
	if w.fUp {
		w.stopFollower()
		d.count("fault.follower_stop", 1)
	}
	d.faultSeen, d.hsAfterFault = true, false
	lost := false
	switch e.Mode {
	case "keep":
		d.count("fault.follower_start.keep", 1)
	case "wipe":
		_ = os.RemoveAll(w.followerDir)
		d.lineF = map[int64]int{}
		lost = d.lastF >= 0
		d.count("fault.follower_start.directory_deleted", 1)
	case "back":
		var pick *snapshot
		for i := range w.fSnaps {
			if w.fSnaps[i].appended == d.lastF-int64(e.J) && w.fSnaps[i].prefixOf(d.lineF) {
				pick = &w.fSnaps[i]
			}
		}
		if pick == nil {
			d.note("no follower snapshot %d messages back; restart keeps the log", e.J)
			d.count("fault.follower_start.keep", 1)
			break
		}
		if err := restoreDir(w.followerDir, pick.dir, ""); err != nil {
			d.res.Fatal = "harness: restore follower: " + err.Error()
			return
		}
		d.lineF = copyLine(pick.line)
		lost = e.J > 0
		d.count("fault.follower_start.lost_tail", 1)
		d.count(fmt.Sprintf("fault.follower_start.lost_tail.by_%s", bucket(int64(e.J))), 1)
	default:
		d.res.Fatal = "harness: unknown follower start mode " + e.Mode
		return
	}
	if err := w.startFollower(); err != nil {
		d.res.Fatal = "harness: start follower: " + err.Error()
		return
	}
	if lost {
		// the leader may hold an acknowledgement for positions the follower no longer has until the next handshake
		d.followerLostLog()
	}
}

// followerLostLog: the follower lost (part of) its log; until the next completed handshake the leader cannot know, and
// its ack for the follower may be ahead of what the follower holds.
func (d *driver) followerLostLog() {
	d.ackArmed = false
	d.followerLossTick = d.tick
}

func copyLine(m map[int64]int) map[int64]int {
	c := make(map[int64]int, len(m))
	for k, v := range m {
		c[k] = v
	}
	return c
}

func bucket(k int64) string {
	switch {
	case k <= 0:
		return "0"
	case k == 1:
		return "1"
	case k == 2:
		return "2"
	}
	return "n"
}

func (d *driver) doLeaderRestart(e event) {
	w := d.w
	before := d.observe()
	var pick *snapshot
	if e.Mode == "back" || e.Mode == "backcg" {
		for i := range w.lSnaps {
			if w.lSnaps[i].appended == before.A-int64(e.J) && w.lSnaps[i].prefixOf(d.lineL) {
				pick = &w.lSnaps[i]
			}
		}
		if pick == nil {
			d.note("no leader snapshot %d messages back; restart keeps the log", e.J)
		}
	} else if e.Mode != "keep" {
		d.res.Fatal = "harness: unknown leader restart mode " + e.Mode
		return
	}
	w.stopLeader()
	d.faultSeen, d.hsAfterFault = true, false
	d.racedOnline, d.laterParked = "", false                        // a new incarnation has a new replicator
	d.tickStopped, d.closedByTick, d.rebuildDefect = false, nil, "" // ... and rebuilds its channels from the log's groups
	if pick != nil {
		keep := ""
		if e.Mode == "backcg" {
			keep = "cg"
		}
		if err := restoreDir(w.leaderDir, pick.dir, keep); err != nil {
			d.res.Fatal = "harness: restore leader: " + err.Error()
			return
		}
		d.lineL = copyLine(pick.line)
		if d.ackArmed && (pick.ackSuspended || d.followerLossTick > pick.tick) {
			// the image is from before the follower's last log loss (or from the time between that loss and the next
			// handshake): its ack for the follower was right when it was written, the follower has lost those
			// positions since, and the handshake that had told the leader so is undone by going back to the image.
			// Same situation as right after the follower's loss: the ack may be ahead until the next handshake.
			d.ackArmed = false
			d.count("oracle.ack_check_suspended_by_leader_image_older_than_follower_log_loss", 1)
		}
		d.count("fault.leader_restart.lost_tail."+e.Mode, 1)
		d.count("fault.leader_restart.lost_tail.by_"+bucket(int64(e.J)), 1)
		if e.J > 0 {
			// positions (restored appended, appended before the restart] are gone; several losses before one handshake add up
			from, to := pick.appended+1, before.A
			if d.leaderLostNoHS {
				if d.lostFrom < from {
					from = d.lostFrom
				}
				if d.lostTo > to {
					to = d.lostTo
				}
			}
			d.lostFrom, d.lostTo = from, to
			d.leaderLostNoHS, d.leaderLostMode = true, e.Mode
		}
	} else {
		d.count("fault.leader_restart.keep", 1)
	}
	d.epoch++
	if err := w.startLeader(); err != nil {
		d.res.Fatal = "harness: start leader: " + err.Error()
		return
	}
	after := d.observe()
	if pick != nil {
		d.count(fmt.Sprintf("fault.leader_restart.follower_ahead_by_%s_after_restart", bucket(after.F-after.A)), 1)
	}
}

func (d *driver) arm(fault string) {
	if fault == "onlineRace" {
		d.w.onlineRaceFired = false
		d.w.armOnlineRace()
		return
	}
	if fault == "onlineRecheckRace" {
		d.w.armRecheckWindow()
		return
	}
	if fault == "wipeBeforeStream" {
		w := d.w
		w.tr.armFault(func(*faults) {
			w.tr.beforeStreamOpen = func() {
				w.stopFollower()
				_ = os.RemoveAll(w.followerDir)
				if err := w.startFollower(); err != nil {
					d.res.Fatal = "harness: start follower: " + err.Error()
				}
				d.lineF = map[int64]int{}
				d.wipedAfterHandshake = true
				d.count("fault.follower_start.directory_deleted", 1)
			}
		})
		return
	}
	if !armFault(d.w, fault) {
		d.res.Fatal = "harness: unknown fault " + fault
	}
}

func armFault(w *world, fault string) bool {
	ok := true
	w.tr.armFault(func(f *faults) {
		switch fault {
		case "":
		case "send":
			f.send = true
		case "reqLost":
			f.reqLost = true
		case "respLost":
			f.respLost = true
		case "getAck":
			f.getAck = true
		case "reset":
			f.reset = true
		case "resetRespLost":
			f.resetRespLost = true
		case "createClient":
			f.createClient = true
		case "streamOpen":
			f.streamOpen = true
		case "putErr":
			atomic.StoreInt32(&w.failPuts, 1)
		case "inflightPut":
			f.inflight = true
		default:
			ok = false
		}
	})
	if fault == "inflightPut" {
		w.armInflightPut()
	}
	return ok
}

func (d *driver) disarm() {
	d.w.tr.setFaults(faults{})
	atomic.StoreInt32(&d.w.failPuts, 0)
	d.w.parkNextPut.Store(false)
	d.w.disarmOnlineRace()
}

func (d *driver) doStep(fault string, pre obs) {
	w := d.w
	if !w.resolveChannel() {
		// an expire tick stopped the drained channel: the partition's replica loop has no replicator for the follower
		d.count("step.no_follower_channel(stopped_by_expire_tick)", 1)
		return
	}
	w.tr.clearObs()
	d.wipedAfterHandshake = false
	d.arm(fault)
	if d.res.Fatal != "" {
		return
	}
	putErrsBefore := atomic.LoadInt32(&w.putErrs)
	ready, parked := w.prepare()
	if w.deadlocked {
		d.count("fault.fired.onlineRecheckRace", 1)
		d.reportDeadlock(pre)
		return
	}
	if w.spin != nil {
		d.reportSpin(pre, *w.spin, "")
		return
	}
	if parked && !pre.Parked {
		// the follower is offline and this Prepare stands in its wait: how often had it been told "not live"?
		d.count("oracle.offline_prepares_judged_parked_not_spinning", 1)
		if w.prepPolls > 2 {
			d.count("oracle.offline_prepares_parked_after_more_than_2_liveness_polls", 1)
		}
	}
	d.afterPrepare(pre, ready, parked)
	if w.onlineRaceFired {
		// the node-startup event was processed right after IsReady's first "not live" answer, and IsReady went on
		w.onlineRaceFired = false
		d.count("fault.fired.onlineRace", 1)
		if !parked {
			d.count("fault.fired.onlineRace.replicator_went_on_without_waiting", 1)
			d.racedOnline = "onlineRace"
		}
		d.faultSeen = true
	}
	if ready && !parked {
		if w.lRep.Pending() > 0 {
			mid := d.observe()
			replica.VerifReplicaStep(w.lPart, followerID, w.lRep)
			d.afterReplica(mid)
		} else {
			d.count("step.nothing_pending", 1)
		}
	}
	fired := append([]string{}, w.tr.fired...)
	if atomic.LoadInt32(&w.putErrs) > putErrsBefore {
		fired = append(fired, "putErr")
	}
	for _, f := range fired {
		d.count("fault.fired."+f, 1)
		d.faultSeen, d.hsAfterFault = true, false
	}
	d.disarm()
	if w.recheckWindowFired {
		// the node-startup event was processed inside the window and both sides went on
		w.recheckWindowFired = false
		fired = append(fired, "onlineRecheckRace")
		d.count("fault.fired.onlineRecheckRace", 1)
		d.count("fault.fired.onlineRecheckRace.event_completed_and_replicator_went_on", 1)
		d.faultSeen = true
		if !parked {
			d.racedOnline = "onlineRecheckRace"
		}
	}
	if fault != "" && len(fired) == 0 {
		d.count("fault.armed_but_not_reached", 1)
	}
	d.harvestConnObs()
	w.tr.clearObs()
}

// harvestConnObs adds what the step saw of the connection life cycle to the sequence's totals.
func (d *driver) harvestConnObs() {
	t := d.w.tr
	t.obs(func() {
		d.closedConnCalls += t.obsClosedConn
		d.staleAddrCalls += t.obsStaleAddr
		d.count("lifecycle.calls_through_client_of_closed_connection", t.obsClosedConn)
		d.count("lifecycle.calls_through_client_of_connection_to_left_address", t.obsStaleAddr)
		d.count("lifecycle.connections_dialled", t.obsConnDialled)
	})
}

// reportDeadlock: the state manager's node-startup event and the replicator wait for each other (see notifierDeadlocked).
func (d *driver) reportDeadlock(pre obs) {
	d.upstreamViolated = true
	d.violate("C08/no-resync/online-notification-deadlocks-with-liveness-recheck",
		"the follower's node-startup event holds the state manager's lock and is blocked sending the online notification to the replicator "+
			"(handleNodeStateChangeEvent), the replicator - suspend flag raised, not yet receiving - is blocked in GetLiveNode on that lock: "+
			"neither moves again, the channel (and the leader's state manager) is stuck for ever (%s)", pre.String())
	d.res.Fatal = "stop: state manager and replicator deadlocked"
}

// reportSpin: the follower is offline and the replicator neither waits for its online notification nor returns: it keeps
// asking the state manager (see replicatorSpinning). In a real leader an IsReady that calls itself without blocking ends
// the process ("goroutine stack exceeds 1000000000-byte limit"); one that loops burns a core until the follower is back.
func (d *driver) reportSpin(pre obs, so spinObs, where string) {
	d.upstreamViolated = true
	d.count("oracle.replicator_spin_detected", 1)
	class := "C08/no-resync/replicator-spins-instead-of-parking-while-follower-offline"
	how := fmt.Sprintf("it was told 'not live' %d times in this offline period and is not blocked waiting for the notification (%s)", so.Polls, so.Header)
	if so.Recursing {
		class += "/unbounded-recursion-in-IsReady"
		how = fmt.Sprintf("it was told 'not live' %d times in this offline period, and remoteReplicator.IsReady stands %d times on its goroutine's stack (%s): "+
			"IsReady calls itself without blocking, which ends the leader process with a stack overflow if the follower stays away", so.Polls, so.IsReadyFrames, so.Header)
	} else {
		class += "/polls-liveness-without-blocking"
	}
	hist := ""
	if d.racedOnline != "" {
		hist = fmt.Sprintf("; earlier in this sequence the replicator went through an offline period in which the node-startup event raced with its liveness checks (%s)", d.racedOnline)
	}
	d.violate(class, "%sthe follower is offline and the replicator does not park: %s%s; before: %s", where, how, hist, pre.String())
	if !so.Released {
		d.count("oracle.replicator_spin_detected.goroutine_not_released(batch_abandoned)", 1)
		d.res.AbandonBatch = true
	}
	d.res.Fatal = "stop: replicator spins instead of parking"
}

// afterPrepare classifies the handshake that VerifReplicaPrepare just ran (coverage) and checks what a completed
// handshake must have established (oracle, computed from the states before and after, not from the code).
func (d *driver) afterPrepare(pre obs, ready, parked bool) {
	t := d.w.tr
	if parked {
		if pre.Parked {
			d.count("handshake.still_parked", 1)
		} else {
			d.count("handshake.follower_offline_parked", 1)
			if d.racedOnline != "" && !d.w.live.Load() {
				// second step of the two-step history: an ordinary offline period after the raced one, and the replicator parks
				d.laterParked = true
				d.count("lifecycle.later_offline_period_after_raced_online_notification.parked."+d.racedOnline, 1)
				if !d.racedCounted {
					d.racedCounted = true
					d.count("lifecycle.sequences_with_later_offline_period_after_raced_online_notification", 1)
				}
			}
		}
		if d.w.live.Load() && !pre.Parked {
			// the follower is live and its online notification has been delivered, yet IsReady parked itself
			if d.w.onlineRaceFired {
				d.count("fault.fired.onlineRace", 1)
				d.w.onlineRaceFired = false
			}
			d.violate("C08/no-resync/online-notification-lost-between-liveness-check-and-park",
				"IsReady was told the follower is not live, the follower came online and the notification was delivered before IsReady parked; it parks on its suspend channel although the follower is live and no further notification is due (%s)", pre.String())
		}
		return
	}
	if pre.State == int(models.ReplicatorReadyState) && t.obsCreateClient == 0 {
		d.count("handshake.none_already_ready", 1)
		return
	}
	// a handshake ran
	branch := ""
	switch {
	case t.obsCreateClient > 0 && len(t.obsGetAck) == 0 && t.obsGetAckErr == 0:
		branch = "create_client_failed"
	case len(t.obsGetAck) == 0:
		branch = "get_ack_failed"
		switch {
		case t.obsClosedConn > 0:
			// the call never left the leader: the client is bound to a connection that has been closed
			branch = "get_ack_failed.client_bound_to_closed_connection"
		case t.obsStaleAddr > 0:
			branch = "get_ack_failed.client_bound_to_connection_to_left_address"
		case !d.w.fUp:
			branch = "get_ack_failed.follower_down"
		}
	default:
		r := t.obsGetAck[0]
		switch {
		case r+1 == pre.C+1:
			branch = "a_aligned"
			if pre.C > pre.A {
				branch = "a_aligned.consumer_group_ahead_of_leader_log"
			}
		case r < pre.Ack:
			branch = "b_reset_follower"
			if t.obsResetErr > 0 {
				if len(t.obsReset) > 0 {
					branch += ".response_lost"
				} else {
					branch += ".rpc_failed"
				}
			}
		case r > pre.A+1:
			branch = "c_leader_lost_tail_reset_append_index"
		case r == pre.A+1:
			branch = "d_follower_ahead_of_leader_by_exactly_one"
		case r > pre.C:
			branch = "d_reset_replica_index.follower_ahead_of_consumed(ack_lost)"
		default:
			branch = "d_reset_replica_index.follower_behind_consumed(resend)"
		}
	}
	d.count("handshake.branch."+branch, 1)
	completed := ready || t.obsStreamOpen > 0
	if t.obsStreamOpen > 0 && t.obsStreamErr > 0 {
		d.count("handshake.connect_failed", 1)
	}
	if !completed {
		d.count("handshake.failed", 1)
		return
	}
	d.count("handshake.completed", 1)
	if cn := t.lastClientConn; cn != nil && cn.reopened && t.obsConnDialled > 0 {
		// the node-failure event closed the previous connection to this address; this handshake dialled a new one
		d.count("lifecycle.handshake_completed_over_connection_reopened_after_node_failure", 1)
	}
	if d.wipedAfterHandshake {
		// the handshake completed, then the follower lost its log before the stream was created: what the handshake
		// established cannot be read off the state any more, and the leader's ack is ahead until the next handshake
		d.wipedAfterHandshake = false
		d.count("handshake.completed.then_follower_lost_log_before_stream(postcondition_not_judged)", 1)
		d.leaderLostNoHS = false
		d.followerLostLog()
		d.lastHS = nil
		return
	}
	post := d.observe()
	d.note("handshake %s: %s -> %s", branch, pre.String(), post.String())
	if !post.FUp {
		d.res.Fatal = "harness: handshake completed while the follower is down"
		return
	}
	// relation of both logs before the handshake
	rel := ""
	switch {
	case pre.F < pre.Ack:
		rel = "follower-behind-ack"
	case pre.F <= pre.A:
		rel = "follower-within-leader-log"
	case pre.F == pre.A+1:
		rel = "follower-ahead-by-1"
	default:
		rel = "follower-ahead-by-n"
	}
	if pre.C > pre.A {
		rel = "leader-consumer-group-ahead-of-log/" + rel
	}
	d.count("handshake.completed."+rel, 1)
	expectF := pre.F
	if pre.Ack > expectF {
		expectF = pre.Ack
	}
	bad := false
	if post.F != expectF {
		bad = true
		d.violate("C08/handshake/follower-append-index-wrong/"+rel,
			"after the handshake the follower's appended sequence is %d, expected %d (follower had %d, leader's ack for it was %d)", post.F, expectF, pre.F, pre.Ack)
	}
	if post.C != post.F {
		bad = true
		d.violate("C08/handshake/resume-position-wrong/"+rel,
			"after the handshake the leader resumes at %d but the first position the follower lacks is %d (before: %s)", post.C+1, post.F+1, pre.String())
	}
	if post.A < post.F {
		bad = true
		d.violate("C08/handshake/leader-append-index-behind-follower/"+rel,
			"after the handshake the leader's appended sequence is %d but the follower holds positions up to %d: the leader's next append reuses position %d that the follower already holds (before: %s; after: %s)",
			post.A, post.F, post.A+1, pre.String(), post.String())
	} else if pre.A >= post.F && (post.A != pre.A || post.QA != pre.QA) {
		bad = true
		d.violate("C08/handshake/leader-dropped-own-messages/"+rel,
			"the handshake changed the leader's log although it already covered the follower: appended %d->%d, queue ack %d->%d (follower at %d)", pre.A, post.A, pre.QA, post.QA, post.F)
	} else if pre.A < post.F && post.A != post.F {
		bad = true
		d.violate("C08/handshake/leader-append-index-wrong/"+rel,
			"leader lost its tail (appended %d, follower %d) and the handshake set the leader's appended sequence to %d, expected %d", pre.A, pre.F, post.A, post.F)
	}
	if bad {
		d.upstreamViolated = true
	}
	d.lastHS = &hsRec{Rel: rel, Event: d.tick}
	d.hsAckBad = post.Ack > post.F
	d.leaderLostNoHS = false
	d.ackArmed = true
	if d.faultSeen {
		d.hsAfterFault = true
	}
}

// afterReplica looks at what one pass of partition.replica did on the wire.
func (d *driver) afterReplica(mid obs) {
	t := d.w.tr
	if len(t.obsSends) == 0 {
		d.count("step.no_send", 1)
		return
	}
	s := t.obsSends[len(t.obsSends)-1]
	switch {
	case !s.Delivered:
		d.count("step.send_not_delivered", 1)
	case !s.GotResp:
		d.count("step.delivered_no_response", 1)
	case s.RespAck == s.RespIdx:
		d.count("step.delivered_and_acknowledged", 1)
	default:
		d.count("step.delivered_and_rejected_by_follower", 1)
		d.note("follower answered %d for offered index %d (err=%q)", s.RespAck, s.Idx, s.RespErr)
	}
	if s.Delivered && s.Idx != mid.F+1 {
		d.count("step.offered_index_not_follower_next", 1)
	}
	// an answer the leader takes as acknowledgement of the offered index requires that the follower has appended
	// exactly that message (independent of the ack-vs-appended invariant, which is suspended after a follower log loss)
	if s.Delivered && s.GotResp && s.RespAck == s.RespIdx && d.w.fUp && d.w.lRep.AckIndex() >= s.Idx {
		d.count("oracle.accepted_answers_checked", 1)
		fq := d.w.fReal.Queue()
		fb, ferr := fq.Get(s.Idx)
		lb, lerr := d.w.lLog.Queue().Get(s.Idx)
		bad := ""
		switch {
		case fq.AppendedSeq() < s.Idx:
			bad = fmt.Sprintf("the follower's log ends at %d", fq.AppendedSeq())
		case ferr == nil && lerr == nil && !bytes.Equal(fb, lb):
			bad = fmt.Sprintf("the follower holds %s there, the leader offered %s", head(fb), head(lb))
		}
		if bad != "" {
			d.upstreamViolated = true
			d.ackViolationActive = true // reported here with its cause; the general ack oracle would only repeat it
			kind := "answer-without-error"
			if s.RespErr != "" {
				kind = "answer-carries-error"
			}
			d.violate("C08/ack-without-append/"+kind, "the follower answered %d to the offered index %d (err=%q), the leader acknowledged %d, but %s",
				s.RespAck, s.Idx, s.RespErr, s.Idx, bad)
		}
	}
}

// ---------------------------------------------------------------------------------------------
// oracles evaluated after every event
// ---------------------------------------------------------------------------------------------

func (d *driver) checkInvariants(pre, post obs, e event, putErr bool) {
	w := d.w
	if w.metaMismatch != "" {
		d.res.Fatal = "harness: " + w.metaMismatch
		return
	}
	// has a follower append of a new stream overtaken one of a dead stream in this sequence (both past ReplicaLog's check)?
	overtaken := atomic.LoadInt32(&w.overtakes) > 0
	// (1) the follower's log has no holes and every message sits at the position the leader gave it
	var fMsgs map[int64][]byte
	if w.fUp {
		fMsgs = map[int64][]byte{}
		fq := w.fReal.Queue()
		for i := post.FA + 1; i <= post.F; i++ {
			b, err := fq.Get(i)
			if err != nil {
				d.upstreamViolated = true
				d.violate("C08/follower-hole", "follower position %d in (ack=%d, appended=%d] is not readable: %v", i, post.FA, post.F, err)
				continue
			}
			fMsgs[i] = b
			p := d.identify(b)
			switch {
			case p == nil:
				d.upstreamViolated = true
				d.violate("C08/follower-holds-bytes-the-leader-never-stored", "follower position %d holds %s", i, head(b))
			case p.Pos != i:
				d.upstreamViolated = true
				class := "C08/follower-stores-message-at-other-position"
				if overtaken || (d.lateAppend != nil && d.lateAppend(p.Pos)) {
					class += "/after-append-overtaken-by-reconnect"
				} else if prev, ok := fMsgs[i-1]; ok && bytes.Equal(prev, b) && p.Pos == i-1 {
					class += "/duplicate-of-previous-position"
				}
				d.violate(class, "follower position %d holds the message the leader stored at position %d (uid %d)", i, p.Pos, p.UID)
			}
		}
		d.count("oracle.follower_positions_read", len(fMsgs))
		for i, b := range fMsgs {
			if p := d.identify(b); p != nil {
				d.lineF[i] = p.UID
			}
		}
	}
	// (2) identical bytes wherever both logs are readable
	if w.fUp {
		lq := w.lLog.Queue()
		lo, hi := post.QA, post.A
		if post.FA > lo {
			lo = post.FA
		}
		if post.F < hi {
			hi = post.F
		}
		for i := lo + 1; i <= hi; i++ {
			lb, err := lq.Get(i)
			if err != nil {
				continue // C05/C06 territory: the leader cannot read a position it claims to hold
			}
			fb, ok := fMsgs[i]
			if !ok {
				continue
			}
			d.count("oracle.positions_compared", 1)
			if !bytes.Equal(lb, fb) {
				cause, ok := d.rewrites[i]
				if !ok {
					cause = "follower-stored-other-bytes-than-offered"
					fp := d.identify(fMsgs[i])
					if overtaken || (fp != nil && d.lateAppend != nil && d.lateAppend(fp.Pos)) {
						cause = "after-append-overtaken-by-reconnect"
					} else if prev, ok := fMsgs[i-1]; ok && bytes.Equal(prev, fMsgs[i]) {
						cause = "follower-duplicated-previous-message"
					}
				}
				d.upstreamViolated = true
				lp, fp := d.identify(lb), d.identify(fb)
				desc := ""
				if lp != nil && fp != nil {
					desc = fmt.Sprintf(" (leader: uid %d of incarnation %d; follower: uid %d of incarnation %d)", lp.UID, lp.Epoch, fp.UID, fp.Epoch)
				}
				d.violate("C08/diverged-bytes/"+cause, "position %d: leader holds %s, follower holds %s%s; leader ack for the follower=%d",
					i, head(lb), head(fb), desc, post.Ack)
			}
		}
	}
	if d.lateWatch && w.fUp && d.latePos > 0 {
		if u, ok := d.lineF[d.latePos]; ok && u == d.lineL[d.latePos] && post.F >= d.latePos {
			d.lateWatch = false
			d.count("lifecycle.late_append_replicated_after_expire_tick", 1)
		}
	}
	// (3) the leader never treats a position as acknowledged that the follower has not appended
	if d.ackArmed {
		if post.Ack > post.F {
			ctx := "after-" + e.Kind
			if e.Kind == "s" || e.Kind == "on" {
				ctx = "after-step"
				if d.lastHS != nil && d.lastHS.Event == d.tick && d.hsAckBad {
					ctx = "after-handshake/" + d.lastHS.Rel
				}
			}
			if !d.ackViolationActive {
				d.ackViolationActive = true
				d.upstreamViolated = true
				d.violate("C08/ack-beyond-follower/"+ctx, "leader's consumer group acknowledges %d for the follower, follower appended only up to %d (before: %s)", post.Ack, post.F, pre.String())
			}
		}
		if post.Ack <= post.F {
			d.ackViolationActive = false
		}
		d.count("oracle.ack_checked_armed", 1)
	} else {
		d.count("oracle.ack_check_suspended(follower_lost_log,no_handshake_yet)", 1)
	}
	// bookkeeping for the progress oracle: since when does a ready channel disagree with the follower?
	if w.fUp && post.State == int(models.ReplicatorReadyState) && post.C != post.F {
		if d.desyncCause == "" {
			switch {
			case putErr:
				d.desyncCause = "follower-put-error"
			case d.followerChangedBehindHandshake:
				// the follower's log moved (lost between handshake and stream creation, or an in-flight append of a
				// dead stream landed) while the leader was, and stays, in the ready state
				d.desyncCause = "follower-log-changed-after-handshake"
			case e.Kind == "s":
				d.desyncCause = "step"
				if e.Fault != "" {
					d.desyncCause = "step-" + e.Fault
				}
			default:
				d.desyncCause = e.String()
				if e.Kind == "fs" || e.Kind == "lr" {
					d.desyncCause = e.Kind + "-" + e.Mode
				}
			}
		}
	} else if w.fUp {
		d.desyncCause = ""
	}
}

// ---------------------------------------------------------------------------------------------
// bounded progress after the last fault
// ---------------------------------------------------------------------------------------------

func (d *driver) progress() {
	w := d.w
	d.progressPhase = true
	d.evIdx = len(d.events)
	closedBefore, staleBefore := d.closedConnCalls, d.staleAddrCalls
	// deadClient names, for a channel that does not come back, what its handshakes after the last fault ran into
	deadClient := func(o obs) string {
		if o.State == int(models.ReplicatorReadyState) {
			return ""
		}
		switch {
		case d.closedConnCalls > closedBefore:
			return fmt.Sprintf("client-bound-to-closed-connection|%d calls after the last fault went through a client whose connection had been closed "+
				"(by the follower's node-failure event); the pool would have dialled a new one", d.closedConnCalls-closedBefore)
		case d.staleAddrCalls > staleBefore:
			return fmt.Sprintf("client-bound-to-connection-to-left-address|%d calls after the last fault went through a client whose connection goes to an address "+
				"the follower no longer listens at (it registered with another one)", d.staleAddrCalls-staleBefore)
		}
		return ""
	}
	if w.hasParkedPut() {
		d.exec(event{Kind: "land"})
	}
	if !w.fUp {
		d.exec(event{Kind: "fs", Mode: "keep"})
	}
	if !w.live.Load() || w.parked != nil {
		d.exec(event{Kind: "on"})
	}
	if d.res.Fatal != "" {
		return
	}
	o := d.observe()
	low := o.Ack
	if o.F < low {
		low = o.F
	}
	pending := o.A - low
	if pending < 0 {
		pending = 0
	}
	budget := int(pending) + 8
	// "the follower has everything the leader still holds for it": nothing left to send and every position above
	// the leader's ack for the follower is on the follower (byte equality is judged by the per-event oracle)
	converged := func(o obs) bool {
		if !w.chanUp {
			// a gc tick on the expired family stopped the follower's drained channel and no write stream has come since:
			// the partition runs no replicator for the follower (lRep is the stopped one, its state means nothing); there is
			// nothing to resynchronise as long as nothing is held for the follower. The traffic probe below decides the rest.
			return o.Ack >= o.A
		}
		if o.State != int(models.ReplicatorReadyState) || o.C != o.A {
			return false
		}
		return o.F >= o.A && o.Ack <= o.F || o.Ack == o.A
	}
	steps := 0
	for ; steps < budget && !converged(o) && d.res.Fatal == ""; steps++ {
		d.exec(event{Kind: "s"})
		o = d.observe()
	}
	d.count("progress.steps", steps)
	if d.res.Fatal != "" {
		return
	}
	symptomOf := func(o obs) string {
		switch {
		case d.rebuildDefect != "":
			// a gc tick on the expired family stopped the drained channel, and the write stream that came afterwards did
			// not get a working channel back
			return "after-expire-tick-stopped-drained-replicator/" + d.rebuildDefect
		case o.State == int(models.ReplicatorReadyState) && o.C > o.F:
			return "ready-but-follower-behind/" + d.desyncCause
		case o.State != int(models.ReplicatorReadyState):
			return "handshake-never-completes"
		case o.A < o.F:
			return "leader-behind-follower"
		}
		return "other"
	}
	stuckSymptom, stuck := "", o
	if !converged(o) {
		if d.upstreamViolated {
			// the channel's safety was already broken in this sequence; the stuck state is a consequence, not a second finding
			d.count("progress.not_judged_after_safety_violation", 1)
			return
		}
		stuckSymptom = symptomOf(o)
		if !(o.State == int(models.ReplicatorReadyState) && o.C == o.A) {
			// the leader has something to do (handshake or messages to send) and does not get it done
			if dc := deadClient(o); dc != "" {
				parts := strings.SplitN(dc, "|", 2)
				d.violate("C08/no-resync/"+parts[0], "after the last fault %d steps (pending %d + 8) did not bring the follower to the leader's log: %s; replicator state message %q; %s",
					steps, pending, stuck.String(), stuck.Msg, parts[1])
				return
			}
			d.violate("C08/no-resync/"+stuckSymptom, "after the last fault %d steps (pending %d + 8) did not bring the follower to the leader's log: %s; replicator state message %q",
				steps, pending, stuck.String(), stuck.Msg)
			return
		}
		// ready and nothing left to send: an idle leader has had no occasion to notice what happened to the follower;
		// the traffic probe below decides
		d.count("progress.idle_ready_leader_with_follower_behind", 1)
	} else {
		d.count("progress.converged", 1)
		if d.faultSeen {
			d.count("progress.converged_after_faults", 1)
		}
		if o.Ack < o.A {
			// not part of the property: the follower has the message but the leader's ack for it stays behind until new traffic
			d.count("progress.converged_but_leader_ack_lags(aligned_handshake_does_not_ack)", 1)
		}
		if o.F < o.A {
			d.count("progress.converged_with_follower_missing_released_positions", 1)
		}
	}
	if d.upstreamViolated {
		return
	}
	// the channel must carry new traffic: one more append has to arrive at the follower at its position, together
	// with everything above the leader's ack the follower still lacks
	before := o
	low = o.Ack
	if o.F < low {
		low = o.F
	}
	budget = int(o.A+1-low) + 8
	d.exec(event{Kind: "a", N: 1})
	o = d.observe()
	n := 0
	for ; n < budget && d.res.Fatal == "" && !(o.F == o.A && o.C == o.A); n++ {
		d.exec(event{Kind: "s"})
		o = d.observe()
	}
	d.count("progress.probe_steps", n)
	if d.res.Fatal != "" || d.upstreamViolated {
		return
	}
	if o.F == o.A && o.C == o.A && o.FA <= before.Ack {
		d.count("progress.new_append_replicated", 1)
		if stuckSymptom != "" {
			d.count("progress.idle_leader_resynchronised_by_next_append", 1)
		}
		return
	}
	if dc := deadClient(o); dc != "" {
		parts := strings.SplitN(dc, "|", 2)
		d.violate("C08/no-resync/"+parts[0], "after the last fault (state then: %s) one more append did not reach the follower within %d steps: %s; replicator state message %q; %s",
			before.String(), n, o.String(), o.Msg, parts[1])
		return
	}
	if stuckSymptom != "" {
		d.violate("C08/no-resync/"+stuckSymptom, "after the last fault the leader sat ready and idle with the follower behind (%s), and one more append did not resynchronise the channel within %d steps: %s; replicator state message %q",
			stuck.String(), n, o.String(), o.Msg)
		return
	}
	d.violate("C08/no-resync/"+symptomOf(o), "the channel looked synchronised (%s) but one more append did not reach the follower within %d steps: %s; replicator state message %q",
		before.String(), n, o.String(), o.Msg)
}

// ---------------------------------------------------------------------------------------------
// generator
// ---------------------------------------------------------------------------------------------

// genSequence produces the event list of sequence idx. It is a function of the PRNG only (no state feedback),
// so a sequence can be replayed from its text form; events that do not apply in the state they meet
// (e.g. a restore to a snapshot that does not exist) degrade to their harmless variant when executed.
func genSequence(rnd *rand.Rand, idx int, maxLen int) []event {
	var evs []event
	directed := idx % 4
	switch directed {
	case 0:
		// leader loses a tail of j messages the follower already has, m appends before the next handshake
		n0 := 1 + rnd.Intn(4)
		j := []int{1, 1, 2, 3, 4}[rnd.Intn(5)]
		m := []int{0, 0, 1, 2}[rnd.Intn(4)]
		evs = append(evs, event{Kind: "a", N: n0})
		for i := 0; i < n0; i++ {
			evs = append(evs, event{Kind: "s"})
		}
		for i := 0; i < j; i++ {
			evs = append(evs, event{Kind: "a", N: 1}, event{Kind: "s"})
		}
		mode := "back"
		if rnd.Intn(3) == 0 {
			mode = "backcg"
		}
		evs = append(evs, event{Kind: "lr", Mode: mode, J: j})
		if m > 0 {
			evs = append(evs, event{Kind: "a", N: m})
		}
	case 1:
		// follower loses its log (or its tail) after the leader released acknowledged positions
		n0 := 2 + rnd.Intn(4)
		evs = append(evs, event{Kind: "a", N: n0})
		for i := 0; i < n0-rnd.Intn(2); i++ {
			evs = append(evs, event{Kind: "s"})
		}
		if rnd.Intn(2) == 0 {
			evs = append(evs, event{Kind: "gc"})
		}
		if rnd.Intn(2) == 0 {
			evs = append(evs, event{Kind: "fs", Mode: "wipe"})
		} else {
			evs = append(evs, event{Kind: "fs", Mode: "back", J: 1 + rnd.Intn(2)})
		}
		// the handshake that follows has to reset the follower: hit that exchange with a fault half of the time
		if f := []string{"", "", "", "reset", "resetRespLost", "getAck"}[rnd.Intn(6)]; f != "" {
			evs = append(evs, event{Kind: "s", Fault: f})
		}
	}
	down, off := false, false
	old := directed == 3 && (idx/4)%2 == 1
	if old {
		// a partition whose family is past its writable window (late / out-of-order writes). Established channel, everything
		// delivered; the leader's gc tick finds the follower's group drained while the local replicator still waits for the
		// family's flush, and stops the follower's channel; later writes arrive over a new write stream and have to reach
		// the follower through a channel BuildReplicaForLeader re-creates. One to three such rounds, with stream resets,
		// follower / leader restarts and transport faults in between.
		evs = append(evs, event{Kind: "old"})
		n0 := 1 + rnd.Intn(4)
		evs = append(evs, event{Kind: "a", N: n0})
		for i := 0; i < n0; i++ {
			evs = append(evs, event{Kind: "s"})
		}
		for rounds := 1 + rnd.Intn(3); rounds > 0; rounds-- {
			if rnd.Intn(2) == 0 {
				evs = append(evs, event{Kind: "lf"})
			}
			evs = append(evs, event{Kind: "gc"})
			switch rnd.Intn(6) {
			case 0:
				evs = append(evs, event{Kind: "gc"}) // a second tick finds the channel stopped already
			case 1:
				evs = append(evs, event{Kind: "rst"})
			case 2:
				evs = append(evs, event{Kind: "s"}) // the replica loop goes round without the follower's replicator
			}
			m := 1 + rnd.Intn(3)
			evs = append(evs, event{Kind: "a", N: m})
			if f := []string{"", "", "", "send", "respLost", "getAck", "streamOpen"}[rnd.Intn(7)]; f != "" {
				evs = append(evs, event{Kind: "s", Fault: f})
			}
			for i := 0; i < m; i++ {
				evs = append(evs, event{Kind: "s"})
			}
			switch rnd.Intn(8) {
			case 0:
				evs = append(evs, event{Kind: "lr", Mode: "keep"}, event{Kind: "s"})
			case 1:
				evs = append(evs, event{Kind: "fs", Mode: "keep"}, event{Kind: "s"})
			case 2:
				evs = append(evs, event{Kind: "s"}, event{Kind: "s"})
			}
		}
		if rnd.Intn(3) == 0 {
			// the family flushes everything: once the follower is drained too, the next tick finds nothing unreplicated and
			// the log is destroyed - the follower must hold every position by then
			evs = append(evs, event{Kind: "s"}, event{Kind: "s"}, event{Kind: "s"}, event{Kind: "lf", Mode: "all"}, event{Kind: "gc"})
		}
		if len(evs)+3 > maxLen {
			maxLen = len(evs) + 3
		}
	}
	if directed == 3 && !old && rnd.Intn(3) == 0 {
		// the follower re-creates its log behind an established, healthy stream; the leader goes on appending
		n0 := rnd.Intn(4)
		evs = append(evs, event{Kind: "a", N: n0 + rnd.Intn(2)}, event{Kind: "s"})
		for i := 0; i < n0; i++ {
			evs = append(evs, event{Kind: "s"})
		}
		if rnd.Intn(2) == 0 {
			evs = append(evs, event{Kind: "gc"})
		}
		evs = append(evs, event{Kind: "fsw"}, event{Kind: "a", N: 1 + rnd.Intn(3)}, event{Kind: "s"}, event{Kind: "s"})
	}
	if directed == 2 {
		switch y := rnd.Intn(6); y {
		case 0, 1, 2:
			// the follower flaps while the leader is about to handshake: its node-startup event is processed right after
			// IsReady was told "not live" (onlineRace), or between IsReady's suspend flag and its second look at the live
			// nodes (onlineRecheckRace: the event holds the state manager's lock while it notifies the replicator)
			n0 := 1 + rnd.Intn(3)
			evs = append(evs, event{Kind: "a", N: n0 + 1})
			for i := 0; i < n0; i++ {
				evs = append(evs, event{Kind: "s"})
			}
			race := "onlineRace"
			if y == 2 {
				race = "onlineRecheckRace"
			}
			evs = append(evs, event{Kind: "off"}, event{Kind: "rst"}, event{Kind: "s"}, event{Kind: "s", Fault: race})
		case 3, 4:
			// life cycle of the follower's pooled connection: established channel, node failure (the state manager closes
			// the connection), appends while it is away, node startup at the same (or another) address, further appends
			n0 := 1 + rnd.Intn(3)
			evs = append(evs, event{Kind: "a", N: n0})
			for i := 0; i < n0; i++ {
				evs = append(evs, event{Kind: "s"})
			}
			evs = append(evs, event{Kind: "off"})
			if m := rnd.Intn(3); m > 0 {
				evs = append(evs, event{Kind: "a", N: m})
			}
			if rnd.Intn(2) == 0 {
				evs = append(evs, event{Kind: "s"})
			}
			evs = append(evs, genOnline(rnd), event{Kind: "a", N: 1 + rnd.Intn(2)}, event{Kind: "s"}, event{Kind: "s"})
		case 5:
			// two offline periods of the follower. In the first its node-startup event races with the liveness checks of the
			// handshake (IsReady goes on without having waited for the notification); traffic; then one or two ORDINARY
			// offline periods the replicator notices (a send over the dead stream fails, the next handshake is told "not
			// live"): it has to park in each of them, to be woken by the node-startup event and to carry the appends made
			// meanwhile. Whatever the raced period left behind in the replicator's suspend protocol shows here.
			n0 := 1 + rnd.Intn(3)
			evs = append(evs, event{Kind: "a", N: n0 + 1})
			for i := 0; i < n0; i++ {
				evs = append(evs, event{Kind: "s"})
			}
			race := "onlineRace"
			if rnd.Intn(2) == 0 {
				race = "onlineRecheckRace"
			}
			evs = append(evs, event{Kind: "off"}, event{Kind: "rst"}, event{Kind: "s"}, event{Kind: "s", Fault: race})
			for k := rnd.Intn(3); k > 0; k-- {
				evs = append(evs, event{Kind: "a", N: 1 + rnd.Intn(2)}, event{Kind: "s"})
				if rnd.Intn(2) == 0 {
					evs = append(evs, event{Kind: "s"})
				}
			}
			for periods := 1 + rnd.Intn(2); periods > 0; periods-- {
				// the append makes the next step send over the stream the node failure killed; the step after it handshakes
				evs = append(evs, event{Kind: "off"}, event{Kind: "a", N: 1 + rnd.Intn(2)}, event{Kind: "s"}, event{Kind: "s"})
				switch rnd.Intn(4) {
				case 0:
					evs = append(evs, event{Kind: "a", N: 1 + rnd.Intn(2)})
				case 1:
					evs = append(evs, event{Kind: "s"}) // a step while parked
				case 2:
					evs = append(evs, event{Kind: "gc"})
				}
				evs = append(evs, event{Kind: "on"}, event{Kind: "a", N: 1 + rnd.Intn(2)}, event{Kind: "s"}, event{Kind: "s"})
			}
			if len(evs)+4 > maxLen {
				maxLen = len(evs) + 4 // a short random tail in any case
			}
		}
	}
	for len(evs) < maxLen {
		x := rnd.Intn(100)
		if old {
			// alphabet of the expired-family sequences: no offline periods, no lost leader tail (a replicator parked in its
			// handshake while a tick closes its consumer group, and a log that expires and is created again, are not modelled)
			switch {
			case x < 22:
				evs = append(evs, event{Kind: "a", N: 1 + rnd.Intn(3)})
			case x < 58:
				evs = append(evs, event{Kind: "s"})
			case x < 68:
				evs = append(evs, event{Kind: "s", Fault: []string{"send", "reqLost", "respLost", "getAck", "reset", "resetRespLost", "createClient", "streamOpen", "putErr"}[rnd.Intn(9)]})
			case x < 72:
				evs = append(evs, event{Kind: "rst"})
			case x < 77:
				evs = append(evs, event{Kind: "fs", Mode: []string{"keep", "keep", "wipe"}[rnd.Intn(3)]})
			case x < 81:
				evs = append(evs, event{Kind: "lr", Mode: "keep"})
			case x < 93:
				evs = append(evs, event{Kind: "gc"})
			default:
				evs = append(evs, event{Kind: "lf"})
			}
			continue
		}
		switch {
		case down && x < 35:
			evs = append(evs, genFollowerStart(rnd))
			down = false
		case off && x < 25:
			evs = append(evs, genOnline(rnd))
			off = false
		case x < 22:
			evs = append(evs, event{Kind: "a", N: 1 + rnd.Intn(3)})
		case x < 54:
			evs = append(evs, event{Kind: "s"})
		case x < 70:
			evs = append(evs, event{Kind: "s", Fault: stepFaults[rnd.Intn(len(stepFaults))]})
		case x < 73:
			evs = append(evs, event{Kind: "rst"})
		case x < 75:
			if !down {
				evs = append(evs, event{Kind: "fc"})
				down = true
			}
		case x < 77:
			evs = append(evs, event{Kind: "fsw"})
		case x < 82:
			evs = append(evs, genFollowerStart(rnd))
			down = false
		case x < 89:
			y := rnd.Intn(100)
			switch {
			case y < 30:
				evs = append(evs, event{Kind: "lr", Mode: "keep"})
			case y < 75:
				evs = append(evs, event{Kind: "lr", Mode: "back", J: []int{1, 1, 2, 3, 5}[rnd.Intn(5)]})
			default:
				evs = append(evs, event{Kind: "lr", Mode: "backcg", J: []int{1, 2, 3}[rnd.Intn(3)]})
			}
		case x < 92:
			if !off {
				evs = append(evs, event{Kind: "off"})
				off = true
			}
		case x < 94:
			evs = append(evs, genOnline(rnd))
			off = false
		case x < 96:
			evs = append(evs, event{Kind: "land"})
		default:
			evs = append(evs, event{Kind: "gc"})
		}
	}
	return evs
}

// genOnline: the follower's node-startup event; one in four registers another address.
func genOnline(rnd *rand.Rand) event {
	if rnd.Intn(4) == 0 {
		return event{Kind: "on", Mode: "moved"}
	}
	return event{Kind: "on"}
}

func genFollowerStart(rnd *rand.Rand) event {
	y := rnd.Intn(100)
	switch {
	case y < 40:
		return event{Kind: "fs", Mode: "keep"}
	case y < 65:
		return event{Kind: "fs", Mode: "wipe"}
	}
	return event{Kind: "fs", Mode: "back", J: 1 + rnd.Intn(3)}
}

// nontrivialKey: a sequence counts as non-trivial when a fault actually happened and a handshake completed after it.
func (d *driver) nontrivialKey() string {
	if !d.faultSeen || d.res.Counters["handshake.completed"] == 0 {
		return ""
	}
	return d.res.Script
}
