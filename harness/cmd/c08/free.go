package main

import (
	"fmt"
	"math/rand"
	"os"
	"runtime"
	"runtime/debug"
	"strings"
	"sync/atomic"
	"time"

	"github.com/lindb/lindb/models"
	"github.com/lindb/lindb/replica"
)

// Free-running variant: the leader partition runs its real replica loop (StartReplica) in its own goroutine while
// this goroutine appends, arms transport faults, resets streams, restarts the follower (kept or deleted log),
// toggles the follower's liveness and runs the leader's Sync+GC. No leader tail loss here (that needs the leader
// stopped, which the step-wise engine covers). When the faults stop, the channel has to converge; then the loop is
// stopped and the same safety oracle as in the step-wise engine is applied to the quiescent state.
// Under the race detector the reports are recorded by the parent, they never decide.
func runFree(base string, seed int64, idx int) (res *seqResult) {
	res = &seqResult{Index: idx, Counters: map[string]int{}}
	_ = os.RemoveAll(base)
	if err := os.MkdirAll(base, 0o755); err != nil {
		res.Fatal = "harness: " + err.Error()
		return res
	}
	defer os.RemoveAll(base)
	rnd := rand.New(rand.NewSource(seed*1000003 + int64(idx)*104729 + 77))
	w, err := newWorld(base, false)
	if err != nil {
		res.Fatal = "harness: " + err.Error()
		return res
	}
	d := newDriver(w, rnd, res)
	d.lateAppend = func(pos int64) bool {
		found := false
		w.tr.obs(func() {
			for _, s := range w.tr.obsSends {
				if s.Idx == pos && s.Delivered && !s.GotResp {
					found = true
				}
			}
		})
		return found
	}
	var script []string
	defer func() {
		if r := recover(); r != nil {
			res.Fatal = fmt.Sprintf("harness-panic: free run %d [%s]: %v\n%s", idx, strings.Join(script, " "), r, debug.Stack())
		}
		res.Script = "free: " + strings.Join(script, " ")
		res.Trace = d.trace
	}()
	w.lPart.StartReplica()
	// spinning: the follower is offline and the replica loop keeps asking the state manager instead of waiting for the
	// node-startup event (at least spinPolls "not live" answers since the last node event, goroutine not blocked in
	// IsReady's receive). Verdict first; then the follower is made live so that the loop's goroutine unwinds, and the
	// loop is stopped.
	spinning := func() bool {
		m := w.lSM
		so, ok := m.replicatorSpinning(m.pollsAtEvent.Load())
		if !ok {
			return false
		}
		o := d.observe()
		w.live.Store(true)
		so.Released = true
		d.events = []event{{Kind: "free"}}
		d.reportSpin(o, so, "free-running loop ["+strings.Join(script, " ")+"]: ")
		w.lPart.Stop()
		w.lCG.Pause()
		time.Sleep(20 * time.Millisecond)
		return true
	}
	rounds := 30 + rnd.Intn(60)
	offlineSince := -1
	faultKinds := []string{"send", "reqLost", "respLost", "getAck", "reset", "resetRespLost", "createClient", "streamOpen"}
	for i := 0; i < rounds && res.Fatal == ""; i++ {
		x := rnd.Intn(100)
		switch {
		case offlineSince >= 0 && i-offlineSince > 2+rnd.Intn(4):
			w.online(false)
			offlineSince = -1
			script = append(script, "on")
			if w.deadlocked {
				d.reportDeadlock(d.observe())
				return res
			}
		case x < 55:
			n := 1 + rnd.Intn(3)
			d.doAppend(n)
			script = append(script, fmt.Sprintf("a%d", n))
		case x < 70:
			f := faultKinds[rnd.Intn(len(faultKinds))]
			armFault(w, f)
			script = append(script, "arm:"+f)
		case x < 75:
			w.tr.breakAll()
			script = append(script, "rst")
		case x < 84:
			w.stopFollower()
			mode := "keep"
			if rnd.Intn(3) == 0 {
				mode = "wipe"
				_ = os.RemoveAll(w.followerDir)
				d.lineF = map[int64]int{}
			}
			if err := w.startFollower(); err != nil {
				res.Fatal = "harness: start follower: " + err.Error()
			}
			script = append(script, "fs:"+mode)
			d.count("free.follower_restart."+mode, 1)
		case x < 88:
			if offlineSince < 0 {
				if _, closed, _ := w.offline(); closed {
					d.count("free.node_failure_closed_pooled_connection", 1)
				}
				offlineSince = i
				script = append(script, "off")
			}
		case x < 93:
			if w.lPart.IsExpire() {
				res.Fatal = "harness: leader partition reported itself expired"
			}
			script = append(script, "gc")
		default:
			script = append(script, "yield")
		}
		switch rnd.Intn(3) {
		case 0:
			runtime.Gosched()
		case 1:
			time.Sleep(time.Duration(rnd.Intn(200)) * time.Microsecond)
		}
		if offlineSince >= 0 {
			d.count("free.offline_rounds_checked_for_spinning_replicator", 1)
			if spinning() {
				return res
			}
		}
	}
	if res.Fatal != "" {
		return res
	}
	// quiesce: no more faults, follower up and live, one more append so that a dead stream gets noticed
	w.tr.setFaults(faults{})
	atomic.StoreInt32(&w.failPuts, 0)
	w.online(false)
	script = append(script, "on")
	if w.deadlocked {
		d.reportDeadlock(d.observe())
		return res
	}
	d.doAppend(1)
	script = append(script, "a1", "wait")
	converged := func() bool {
		a := w.lLog.Queue().AppendedSeq()
		return w.fReal.Queue().AppendedSeq() == a && w.lCG.ConsumedSeq() == a && w.lCG.AcknowledgedSeq() == a
	}
	deadline := time.Now().Add(45 * time.Second)
	// wedged: the leader is ready, has nothing left to send, its last offer was answered with another index, and the
	// same happens to one more append. Nothing else will ever happen on this channel: a logical condition, not a timeout.
	wedged := func() (sendRec, bool) {
		st, _ := replica.VerifReplicatorStateType(w.lRep)
		a := w.lLog.Queue().AppendedSeq()
		last, ok := w.tr.lastSend()
		if st == int(models.ReplicatorReadyState) && w.lCG.ConsumedSeq() == a && ok && last.Idx == a && last.Delivered && last.GotResp && last.RespAck != last.RespIdx {
			return last, true
		}
		return last, false
	}
	probes := 0
	isWedged := false
	var parkedSince time.Time
	dumpTick := 0
	for !converged() {
		// lost wake-up: the follower is live, the notification was delivered when the quiesce phase began, and the
		// replicator still publishes "follower node is offline". A goroutine that had been woken leaves that state
		// at once; the grace period only covers scheduling. A second notification then heals it.
		if st, msg := replica.VerifReplicatorStateType(w.lRep); st == int(models.ReplicatorFailureState) && msg == offlineMsg {
			if parkedSince.IsZero() {
				parkedSince = time.Now()
			} else if time.Since(parkedSince) > 3*time.Second {
				d.violate("C08/no-resync/online-notification-lost-between-liveness-check-and-park",
					"free-running loop: the follower is live and its online notification has been delivered, the replicator stays parked in IsReady (a second notification wakes it) [%s]", strings.Join(script, " "))
				d.count("free.lost_wakeup_healed_by_second_notification", 1)
				w.online(false)
				parkedSince = time.Time{}
			}
		} else {
			parkedSince = time.Time{}
		}
		// dead client: the replicator keeps calling through a client whose connection has been closed (the follower's
		// node-failure event closed it) and creates no new one in between. A closed connection never comes back and
		// nothing else is going to happen on this channel: a logical condition, not a timeout.
		var deadCalls int
		w.tr.obs(func() { deadCalls = w.tr.closedConnCallsInARow })
		if deadCalls >= 5 {
			o := d.observe()
			d.upstreamViolated = true
			d.violate("C08/no-resync/client-bound-to-closed-connection",
				"free-running loop: the follower is live again, the replicator made %d calls in a row through a client whose connection had been closed by the follower's node-failure event, without creating a new client: %s msg=%q [%s]",
				deadCalls, o.String(), o.Msg, strings.Join(script, " "))
			isWedged = true
			break
		}
		if w.lSM.recheckWindow.Load() == rwIdle && w.lSM.notifierDeadlockedEvery(&dumpTick) {
			d.reportDeadlock(d.observe())
			return res
		}
		if last, ok := wedged(); ok {
			if probes == 2 {
				o := d.observe()
				d.upstreamViolated = true
				d.violate("C08/no-resync/ready-but-follower-behind/free-running",
					"free-running loop: the leader sits in the ready state with nothing left to send while the follower answers %d to the offered index %d (three offers in a row, each after a new append): %s [%s]",
					last.RespAck, last.Idx, o.String(), strings.Join(script, " "))
				isWedged = true
				break
			}
			probes++
			d.doAppend(1)
			script = append(script, "a1(probe)")
			continue
		}
		if time.Now().After(deadline) {
			o := d.observe()
			res.Fatal = fmt.Sprintf("watchdog: free run %d did not converge within 45s after the last fault: %s msg=%q [%s]", idx, o.String(), o.Msg, strings.Join(script, " "))
			return res
		}
		time.Sleep(200 * time.Microsecond)
	}
	if !isWedged {
		d.count("free.converged", 1)
	}
	d.ackArmed = !isWedged
	// stop the loop: running=false, then wake the Consume it is parked in (Pause is terminal, the run is over)
	w.lPart.Stop()
	w.lCG.Pause()
	time.Sleep(20 * time.Millisecond)
	o := d.observe()
	d.events = []event{{Kind: "free"}}
	d.checkInvariants(o, o, event{Kind: "free"}, false)
	if len(res.Violations) > 0 {
		// diagnostics: everything that went over the wire
		w.tr.obs(func() {
			for _, s := range w.tr.obsSends {
				d.note("wire: offered %d %q delivered=%v answered=%v ack=%d err=%q", s.Idx, s.Head, s.Delivered, s.GotResp, s.RespAck, s.RespErr)
			}
		})
	}
	if o.State == int(models.ReplicatorReadyState) {
		d.count("free.ended_ready", 1)
	}
	d.count("free.runs", 1)
	d.count("free.leader_appends", int(o.A+1))
	res.Evals++
	var fired []string
	w.tr.obs(func() {
		fired = append(fired, w.tr.fired...)
		d.count("free.connections_dialled", w.tr.connsDialled)
		d.count("free.calls_through_client_of_closed_connection", w.tr.closedConnCalls)
	})
	for _, f := range fired {
		d.count("free.fault_fired."+f, 1)
	}
	d.trace = append(d.trace, traceEntry{Ev: "free-end", After: o.String(), Notes: d.notes})
	w.stopFollower()
	return res
}
