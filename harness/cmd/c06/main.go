// C06 — WAL consumer groups: ordered positions, GC never outruns an unacked reader.
//
// Child processes run
//
//	(seq)       seeded sequential histories over a real queue.FanOutQueue with 1-3 consumer groups
//	            (put, consume, blocking consume, ack valid/stale/future, set-consumed in/out of range, sync, gc,
//	            direct queue set-ack, create/stop group, pause, set-appended, close+reopen); a shadow model
//	            predicts every return value and every position, the invariants of the property are evaluated
//	            from the public getters after every operation;
//	(directed)  scripted prefixes (stop-group + sync + reopen/re-create, group created after the queue ack
//	            moved, stop of a group that is ahead, a group moved by SetConsumedSeq/SetAppendedSeq while its
//	            consumer is parked inside Consume) followed by a seeded random tail;
//	(big)       histories with 40-60 MiB messages so that data pages roll over and GC really removes page files;
//	(indexroll) histories over more than 262144 messages so that GC removes an index page, followed by explicit index
//	            resets (SetAppendedSeq) backwards and forwards across the index page boundary - with the first index
//	            page still present (odd indexes) and after GC removed it (all) - each followed by appends, consume
//	            with read-back, Sync + GC, reopen and a replay of the unacknowledged messages;
//	(conc)      concurrent runs: producer, consumer + acker (or one consume/ack/rewind loop) per group, a
//	            Sync/GC ticker and a create/stop-group churner; half of them under the race detector.
package main

import (
	"encoding/json"
	"fmt"
	"os"
	"path/filepath"
	"strconv"
	"strings"
	"sync"
	"time"

	"github.com/lindb/lindb/verif/internal/core"
	"github.com/lindb/lindb/verif/internal/racefilter"
)

type caseResult struct {
	Kind         string           `json:"kind"`
	Index        int              `json:"index"`
	Counters     map[string]int   `json:"counters"`
	Violations   []core.Violation `json:"violations"`
	Nontrivial   []string         `json:"nontrivial"`
	Sample       interface{}      `json:"sample"`
	Evals        int              `json:"evals"`
	Inconclusive []string         `json:"inconclusive"`

	mu sync.Mutex
}

func (r *caseResult) violate(class, msg string, witness interface{}) {
	r.mu.Lock()
	defer r.mu.Unlock()
	r.Counters["violations."+class]++
	for _, v := range r.Violations {
		if v.Class == class {
			return
		}
	}
	r.Violations = append(r.Violations, core.Violation{Class: class, Message: msg, Witness: witness})
}

func (r *caseResult) count(name string, n int) {
	r.mu.Lock()
	r.Counters[name] += n
	r.mu.Unlock()
}

func (r *caseResult) nontrivial(key string) {
	r.mu.Lock()
	r.Nontrivial = append(r.Nontrivial, key)
	r.mu.Unlock()
}

func (r *caseResult) inconclusive(format string, args ...interface{}) {
	r.mu.Lock()
	r.Inconclusive = append(r.Inconclusive, fmt.Sprintf(format, args...))
	r.mu.Unlock()
}

type job struct {
	kind  string
	start int
	count int
	race  bool
}

func main() {
	if len(os.Args) > 1 && os.Args[1] == "case" {
		runCase()
		return
	}
	c := core.New("C06", "exploration")
	c.SetRule("cases: (seq) one seeded sequential history of 30-200 operations over a FanOutQueue with 1-3 consumer groups; " +
		"(directed) one scripted prefix (stop-group/sync/reopen, stop-group/sync/re-create, late group creation, stop of a group that is ahead, SetConsumedSeq or SetAppendedSeq from another goroutine while the consumer is parked inside Consume, creation of a group overlapped by ack+Sync+GC of another group at the new group's first meta page store) plus a random tail; " +
		"(big) one history with 40-60 MiB messages and interleaved acks/sync/gc/reopen; (indexroll) one history over >262144 messages (index and data page roll-over, lagging group, GC of the first pages) continued by explicit index resets backwards/forwards across the index page boundary (first index page present: odd indexes; removed by GC: all), each followed by appends, consume with read-back, Sync+GC, reopen, replay; " +
		"(conc) one concurrent run of producer, consumer(s), acker(s), Sync/GC ticker and group churner. " +
		"Non-trivial = sequential history in which a stop-group or a reopen was followed by a Sync that the history then observed " +
		"(distinct by the hash of its operation sequence), big/indexroll history in which GC removed at least one page file, " +
		"concurrent run in which a consume was issued while nothing was pending or an ack raced a consume (distinct by run index).")
	c.Assume("the shadow model of the explicit index resets (FanOutQueue.SetAppendedSeq, out-of-range ConsumerGroup.SetConsumedSeq) follows what the code does; " +
		"the order invariants of the affected group are suspended from such a reset until they are observed to hold again")
	c.Assume("wall-clock is used only by the workload driver (to let a consumer block before it is woken, watchdogs), never by an oracle")
	c.Assume("methods other than getters are never called on the handle of a stopped consumer group (its meta page is unmapped)")

	raceBin := os.Getenv("VERIF_RACE_BIN")
	var jobs []job
	nSeq, batch := c.Pick(300, 20000), c.Pick(20, 250)
	for s := 0; s < nSeq; s += batch {
		jobs = append(jobs, job{kind: "seq", start: s, count: batch})
	}
	nDir, dbatch := c.Pick(16, 480), c.Pick(8, 60)
	for s := 0; s < nDir; s += dbatch {
		jobs = append(jobs, job{kind: "directed", start: s, count: dbatch})
	}
	nBig := c.Pick(6, 120)
	for i := 0; i < nBig; i++ {
		jobs = append(jobs, job{kind: "big", start: i, count: 1})
	}
	nRoll := c.Pick(2, 4)
	for i := 0; i < nRoll; i++ {
		jobs = append(jobs, job{kind: "indexroll", start: i, count: 1})
	}
	nConc := c.Pick(20, 400)
	for i := 0; i < nConc; i++ {
		jobs = append(jobs, job{kind: "conc", start: i, count: 1, race: raceBin != "" && i%2 == 1})
	}
	if raceBin == "" {
		c.Inconclusive("no race variant of the engine available (VERIF_RACE_BIN unset)")
	}

	scratch := c.Scratch()
	results := make([]*caseResult, len(jobs))
	raceOut := make([]string, len(jobs))
	died := make([]string, len(jobs))
	durs := make([]float64, len(jobs))
	// heavy jobs first so that the tail of the run is short
	order := make([]int, 0, len(jobs))
	for _, k := range []string{"indexroll", "big", "conc", "directed", "seq"} {
		for i, j := range jobs {
			if j.kind == k {
				order = append(order, i)
			}
		}
	}
	core.Parallel(len(order), 12, func(oi int) {
		i := order[oi]
		j := jobs[i]
		dir := filepath.Join(scratch, fmt.Sprintf("%s%05d", j.kind, j.start))
		_ = os.MkdirAll(dir, 0o755)
		bin := ""
		env := []string{"VERIF_SEED=" + strconv.FormatInt(c.Seed, 10)}
		if j.race {
			bin = raceBin
			env = append(env, "GORACE=halt_on_error=0 exitcode=0 log_path="+filepath.Join(dir, "race"))
		}
		t0 := time.Now()
		res := core.RunChild(bin, []string{"case", j.kind, strconv.Itoa(j.start), strconv.Itoa(j.count), dir, c.Tier},
			env, 20*time.Minute, filepath.Join(dir, "child.log"))
		r := &caseResult{Kind: j.kind, Index: j.start}
		data, err := os.ReadFile(filepath.Join(dir, "result.json"))
		if err == nil {
			err = json.Unmarshal(data, r)
		}
		if j.race {
			raceOut[i] = racefilter.ReadLogs(filepath.Join(dir, "race"), filepath.Join(dir, "child.log"))
		}
		if res.TimedOut {
			died[i] = "watchdog: " + tailStr(res.Output, 1500)
		} else if err != nil || res.ExitCode != 0 {
			died[i] = fmt.Sprintf("exit=%d err=%v tail: %s", res.ExitCode, err, tailStr(res.Output, 4000))
		}
		results[i] = r
		durs[i] = time.Since(t0).Seconds()
		_ = os.RemoveAll(dir)
	})
	for i, r := range results {
		j := jobs[i]
		if strings.HasPrefix(died[i], "watchdog") {
			c.Inconclusive("%s %d: watchdog fired: %s", j.kind, j.start, tailStr(died[i], 600))
			continue
		}
		if died[i] != "" {
			if strings.Contains(died[i], "pkg/queue") || strings.Contains(died[i], "unexpected fault address") ||
				strings.Contains(died[i], "concurrent map") {
				c.Violation("C06/process-died-in-queue", fmt.Sprintf("%s %d: %s", j.kind, j.start, died[i]), nil)
			} else {
				c.Inconclusive("%s %d: child failed: %s", j.kind, j.start, tailStr(died[i], 600))
			}
			continue
		}
		c.Eval(r.Evals)
		c.Count("cases."+j.kind, j.count)
		for k, v := range r.Counters {
			c.Count(k, v)
		}
		for _, k := range r.Nontrivial {
			c.Nontrivial(k)
		}
		for _, m := range r.Inconclusive {
			c.Inconclusive("%s %d: %s", j.kind, j.start, m)
		}
		if r.Sample != nil && j.start == 0 {
			c.Sample(r.Sample)
		}
		for _, v := range r.Violations {
			c.Violation(v.Class, fmt.Sprintf("%s: %s", j.kind, v.Message), v.Witness)
		}
		if j.race {
			reports := racefilter.Parse(raceOut[i])
			c.Count("race_reports_total", len(reports))
			c.Count("runs_under_race_detector", 1)
			for _, rep := range racefilter.Attributed(reports, []string{"pkg/queue/"}) {
				c.Violation("C06/data-race/"+strings.Join(rep.TopFrames, "+"),
					fmt.Sprintf("conc %d: data race with top frames %v", j.start, rep.TopFrames), rep.Text)
			}
		}
	}
	if os.Getenv("VERIF_C06_TIMING") != "" {
		sum, max := map[string]float64{}, map[string]float64{}
		for i, j := range jobs {
			k := j.kind
			if j.race {
				k += "-race"
			}
			sum[k] += durs[i]
			if durs[i] > max[k] {
				max[k] = durs[i]
			}
		}
		fmt.Fprintf(os.Stderr, "child seconds by kind: sum=%v max=%v\n", sum, max)
	}
	// the oracles need their events: say so instead of passing on an empty observation
	for _, need := range []string{"op.consume", "op.ack.valid", "op.ack.stale", "op.ack.future", "op.sync", "op.gc", "op.reopen",
		"op.stop-group", "op.create-group", "op.set-consumed.in-range", "op.set-consumed.out-of-range", "op.set-appended",
		"op.create-while-sync", "conc.created_group_consumed", "op.consume-wait.put", "op.consume-wait.set-consumed", "op.consume-wait.set-appended", "consumer_parked_in_consume_before_action",
		"queue_ack_moves_observed", "gc_data_pages_removed", "conc.consumed", "conc.acks.valid",
		// index resets across an index page boundary (indexroll histories)
		"gc_index_pages_removed", "index_reset.backward_onto_earlier_index_page.page_present", "index_reset.backward_onto_earlier_index_page.page_removed_by_gc",
		"index_reset.forward_onto_later_index_page", "appends_after_backward_index_reset_across_index_page.same_process",
		"appends_after_backward_index_reset_across_index_page.after_reopen", "appends_rolled_forward_again_after_backward_index_reset",
		"read_back.appended_after_backward_index_reset", "read_back.appended_after_backward_index_reset.after_reopen"} {
		if c.Counter(need) == 0 {
			c.Inconclusive("no event of kind %q was observed", need)
		}
	}
	c.Finish()
}

func tailStr(s string, n int) string {
	if len(s) > n {
		return s[len(s)-n:]
	}
	return s
}
