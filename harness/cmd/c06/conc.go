package main

import (
	"fmt"
	"math/rand"
	"os"
	"path/filepath"
	"runtime"
	"runtime/debug"
	"strings"
	"sync"
	"sync/atomic"
	"time"

	"github.com/lindb/lindb/pkg/queue"
	"github.com/lindb/lindb/verif/internal/seam"
)

// caseConc: one concurrent run.
//
//	mode "local":  per group one consumer goroutine (Consume, Get, hand over) and one acker goroutine
//	               (Ack valid / stale / future) - the local replicator's shape (ack from the flush callback);
//	mode "remote": per group one goroutine doing consume, Get, ack and now and then a rewind
//	               SetConsumedSeq(ack) - the remote replicator's shape (IsReady + Consume + SetAckIndex in one loop);
//
// plus one producer, one Sync/GC ticker that also evaluates the invariants from the getters (read in the
// order queue ack, group ack, consumed, appended - all of them only grow in these runs, so the chain
// queue ack <= ack <= consumed <= appended must hold for values read in that order), and a churner that
// creates and stops other groups (what buildReplica/stopReplicator do while IsExpire syncs).
type concRun struct {
	res   *caseResult
	idx   int
	fq    queue.FanOutQueue
	n     int64
	sizes []int
	clock int64
	abort atomic.Bool
	done  atomic.Bool
	stop  atomic.Bool // mid-stream stop (midstop runs)
	// midstop: the acker of group 1 is inside a valid Ack / the consumer of group 1 has returned / group 1's handle
	ackerIn        atomic.Int32
	consumerExited atomic.Int32
	g1             atomic.Value
	mode  string
}

func (c *concRun) tick() int64 { return atomic.AddInt64(&c.clock, 1) }

func (c *concRun) violate(class, format string, args ...interface{}) {
	msg := fmt.Sprintf("conc %d (%s, %d messages): ", c.idx, c.mode, c.n) + fmt.Sprintf(format, args...)
	c.res.violate(class, msg, map[string]interface{}{"run": c.idx, "mode": c.mode, "messages": c.n, "stamp": c.tick()})
	c.abort.Store(true)
}

func (c *concRun) guard(name string) {
	if r := recover(); r != nil {
		stack := string(debug.Stack())
		cl := "C06/conc/panic/" + name
		if !strings.Contains(stack, "lindb/pkg/queue") {
			cl = "C06/conc/panic-outside-queue/" + name
		}
		c.violate(cl, "panic in %s goroutine: %v\n%s", name, r, tailStr(stack, 3000))
	}
}

func (c *concRun) verify(seq int64, who string) bool {
	data, err := c.fq.Queue().Get(seq)
	if err != nil {
		c.violate("C06/conc/unacked-message-unreadable/"+errKind(err), "%s: Get(%d) of a sequence the group has not acknowledged fails: %v (queue ack %d appended %d)",
			who, seq, err, c.fq.Queue().AcknowledgedSeq(), c.fq.Queue().AppendedSeq())
		return false
	}
	if diff := checkPayload(data, uint32(seq), c.sizes[seq]); diff != "" {
		c.violate("C06/conc/unacked-message-bytes-differ", "%s: Get(%d): %s (got %d bytes, expected %d)", who, seq, diff, len(data), c.sizes[seq])
		return false
	}
	c.res.count("conc.unacked_sequences_read_back", 1)
	return true
}

func caseConc(res *caseResult, idx int, dir string, seed int64, tier string) {
	rnd := caseRand(seed, "conc", idx)
	race := strings.HasSuffix(os.Args[0], "-race")
	c := &concRun{res: res, idx: idx}
	c.mode = []string{"local", "remote"}[(idx/2)%2]
	nGroups := 1 + (idx/4)%2
	c.n = int64(3000 + rnd.Intn(3000))
	if tier == "thorough" {
		c.n = int64(8000 + rnd.Intn(12000))
	}
	if race {
		c.n /= 2
	}
	big := idx%8 == 2 || idx%8 == 5
	c.sizes = make([]int, c.n)
	for i := range c.sizes {
		c.sizes[i] = 16 + rnd.Intn(300)
		if rnd.Intn(50) == 0 {
			c.sizes[i] = 16 + rnd.Intn(20000)
		}
	}
	if big {
		// 5 messages of 40-60 MiB: data pages roll over while consumers, ackers and GC run
		for k := 0; k < 5; k++ {
			c.sizes[int(c.n)*(k+1)/7] = (40 + rnd.Intn(21)) << 20
		}
	}
	res.Evals++
	// midstop runs (local mode only): consumer and acker are stopped in the middle of the stream so that their last
	// operations overlap, the stores into the group's meta page are preceded by a yield/short sleep (page wrapper
	// installed through the package's page factory seam), and the positions held in memory at quiescence must be
	// the positions found after close + reopen.
	midstop := c.mode == "local" && (idx%8 == 1 || idx%8 == 4)
	stopAt := c.n/3 + rnd.Int63n(c.n/3)
	if midstop {
		c.mode = "local-midstop"
		seam.InstallQueuePages(seam.Direct{}, &seam.Observer{PageWrite: func(path, kind string, offset, length int) {
			if kind != "u64" || !strings.Contains(path, "/cg/") {
				return
			}
			// the store of the consumed position inside an Ack of group 1, once the stream is past stopAt: stop
			// everybody here and hold this store back until the consumer has done its last consume (bounded) -
			// the directed interleaving "consume inside an ack"
			if g1, ok := c.g1.Load().(queue.ConsumerGroup); ok && offset == 0 && c.ackerIn.Load() == 1 && !c.stop.Load() &&
				strings.Contains(path, "/cg/1/") && g1.ConsumedSeq() >= stopAt {
				if !calledFromAck() {
					runtime.Gosched()
					return
				}
				c.stop.Store(true)
				res.count("conc.midstop_stopped_inside_ack", 1)
				deadline := time.Now().Add(3 * time.Millisecond)
				for c.consumerExited.Load() == 0 && time.Now().Before(deadline) {
					time.Sleep(20 * time.Microsecond)
				}
				if c.consumerExited.Load() > 0 {
					res.count("conc.midstop_consumer_finished_inside_ack", 1)
				}
				return
			}
			runtime.Gosched()
		}})
		defer seam.Restore()
	}
	fq, err := queue.NewFanOutQueue(dir, 0)
	if err != nil {
		c.violate("C06/open-failed", "NewFanOutQueue: %v", err)
		return
	}
	c.fq = fq
	defer func() {
		defer func() { _ = recover() }()
		c.fq.Close()
	}()
	groups := make([]queue.ConsumerGroup, nGroups)
	for i := range groups {
		g, err := fq.GetOrCreateConsumerGroup(fmt.Sprintf("%d", i+1))
		if err != nil {
			c.violate("C06/create-group/failed", "GetOrCreateConsumerGroup: %v", err)
			return
		}
		groups[i] = g
	}
	c.g1.Store(groups[0])
	var wg sync.WaitGroup
	var aux sync.WaitGroup
	producerDone := make(chan struct{})

	// --- producer ---
	wg.Add(1)
	prnd := rand.New(rand.NewSource(rnd.Int63()))
	go func() {
		defer wg.Done()
		defer close(producerDone)
		defer c.guard("producer")
		debug.SetPanicOnFault(true)
		q := fq.Queue()
		for i := int64(0); i < c.n && !c.abort.Load(); i++ { // (keeps going after a mid-stream stop: a blocked consumer must wake up)
			if err := q.Put(makePayload(uint32(i), c.sizes[i])); err != nil {
				c.violate("C06/put-failed", "Put(%d): %v", i, err)
				return
			}
			switch r := prnd.Intn(200); {
			case r < 3:
				time.Sleep(time.Duration(50+prnd.Intn(800)) * time.Microsecond) // lets the consumers run dry
			case r < 30:
				runtime.Gosched()
			}
		}
	}()

	// --- consumers / ackers ---
	for gi, g := range groups {
		g, gi := g, gi
		who := fmt.Sprintf("group%d", gi+1)
		grnd := rand.New(rand.NewSource(rnd.Int63()))
		arnd := rand.New(rand.NewSource(rnd.Int63()))
		if strings.HasPrefix(c.mode, "local") {
			hcap := 64
			if midstop {
				hcap = int(c.n)
			}
			handoff := make(chan int64, hcap)
			wg.Add(2)
			go func() { // consumer
				defer wg.Done()
				defer close(handoff)
				defer c.guard("consumer")
				debug.SetPanicOnFault(true)
				if gi == 0 {
					defer c.consumerExited.Add(1)
				}
				last := false
				for expect := int64(0); expect < c.n && !c.abort.Load() && !last; expect++ {
					last = c.stop.Load() // after a mid-stream stop: one more consume, then return
					if g.Pending() == 0 {
						res.count("conc.consume_issued_with_nothing_pending", 1)
					}
					got := g.Consume()
					if got < 0 && c.abort.Load() {
						return
					}
					if got != expect {
						c.violate("C06/conc/consume-not-consecutive", "%s: Consume() = %d, expected %d", who, got, expect)
						return
					}
					res.count("conc.consumed", 1)
					if !c.verify(got, who) {
						return
					}
					handoff <- got
					if grnd.Intn(40) == 0 {
						runtime.Gosched()
					}
				}
			}()
			go func() { // acker
				defer wg.Done()
				defer c.guard("acker")
				debug.SetPanicOnFault(true)
				last := int64(-1)
				skip := 0
				for s := range handoff {
					if c.abort.Load() {
						continue
					}
					if c.stop.Load() {
						return
					}
					if midstop {
						for len(handoff) > 0 && arnd.Intn(4) > 0 { // ack in batches: jump to a later handed-over sequence
							s = <-handoff
						}
					} else if skip > 0 && s != c.n-1 {
						skip--
						continue
					}
					skip = arnd.Intn(12)
					switch arnd.Intn(8) {
					case 0: // stale
						st := last - 1 - int64(arnd.Intn(3))
						g.Ack(st)
						if a := g.AcknowledgedSeq(); a != last {
							c.violate("C06/conc/ack-outside-window-changed-state/stale", "%s: Ack(%d) below ack %d changed ack to %d", who, st, last, a)
							return
						}
						res.count("conc.acks.stale", 1)
					case 1: // future: beyond everything that will ever be consumed
						fu := c.n + 1000 + int64(arnd.Intn(1000))
						g.Ack(fu)
						if a := g.AcknowledgedSeq(); a != last {
							c.violate("C06/conc/ack-outside-window-changed-state/future", "%s: Ack(%d) beyond consumed changed ack %d to %d", who, fu, last, a)
							return
						}
						res.count("conc.acks.future", 1)
					}
					if g.ConsumedSeq() > s {
						res.count("conc.ack_while_consumer_ahead", 1)
					}
					if midstop && gi == 0 {
						c.ackerIn.Store(1)
					}
					g.Ack(s)
					c.ackerIn.Store(0)
					if a := g.AcknowledgedSeq(); a != s {
						c.violate("C06/conc/valid-ack-not-applied", "%s: Ack(%d) (handed out by Consume, last ack %d) left ack=%d", who, s, last, a)
						return
					}
					last = s
					res.count("conc.acks.valid", 1)
				}
			}()
		} else {
			wg.Add(1)
			go func() { // consume + ack + rewind in one loop
				defer wg.Done()
				defer c.guard("replicator")
				debug.SetPanicOnFault(true)
				sc, sa := int64(-1), int64(-1)
				for sa < c.n-1 && !c.abort.Load() {
					if sc > sa && grnd.Intn(60) == 0 {
						g.SetConsumedSeq(sa) // replay from the acknowledged position (in range: ack <= sa <= appended)
						sc = sa
						res.count("conc.rewinds", 1)
					}
					if g.Pending() == 0 {
						res.count("conc.consume_issued_with_nothing_pending", 1)
					}
					got := g.Consume()
					if got < 0 && c.abort.Load() {
						return
					}
					if got != sc+1 {
						c.violate("C06/conc/consume-not-consecutive", "%s: Consume() = %d, expected %d (ack %d)", who, got, sc+1, sa)
						return
					}
					sc = got
					res.count("conc.consumed", 1)
					if !c.verify(got, who) {
						return
					}
					switch r := grnd.Intn(20); {
					case r == 0:
						st := sa - 1 - int64(grnd.Intn(3))
						g.Ack(st)
						if a := g.AcknowledgedSeq(); a != sa {
							c.violate("C06/conc/ack-outside-window-changed-state/stale", "%s: Ack(%d) below ack %d changed ack to %d", who, st, sa, a)
							return
						}
						res.count("conc.acks.stale", 1)
					case r == 1:
						fu := sc + 1 + int64(grnd.Intn(3))
						g.Ack(fu)
						if a := g.AcknowledgedSeq(); a != sa {
							c.violate("C06/conc/ack-outside-window-changed-state/future", "%s: Ack(%d) above consumed %d changed ack %d to %d", who, fu, sc, sa, a)
							return
						}
						res.count("conc.acks.future", 1)
					}
					if r := grnd.Intn(20); r < 10 || sc == c.n-1 {
						g.Ack(sc)
						if a := g.AcknowledgedSeq(); a != sc {
							c.violate("C06/conc/valid-ack-not-applied", "%s: Ack(%d) inside [%d,%d] left ack=%d", who, sc, sa, sc, a)
							return
						}
						sa = sc
						res.count("conc.acks.valid", 1)
					}
				}
			}()
		}
	}

	// --- Sync/GC ticker with the invariant monitor ---
	aux.Add(1)
	go func() {
		defer aux.Done()
		defer c.guard("ticker")
		debug.SetPanicOnFault(true)
		q := fq.Queue()
		lastQack := int64(-1)
		lastAck := make([]int64, len(groups))
		for i := range lastAck {
			lastAck[i] = -1
		}
		dataDir := filepath.Join(dir, "data")
		for round := 0; !c.done.Load() && !c.abort.Load(); round++ {
			fq.Sync()
			if round%3 == 0 {
				app0 := q.AppendedSeq()
				d0 := countPages(dataDir)
				q.GC()
				if d1 := countPages(dataDir); d1 < d0 {
					res.count("gc_data_pages_removed", d0-d1)
					res.nontrivial(fmt.Sprintf("conc/%d/gc", idx))
				}
				res.count("conc.gc_calls", 1)
				// what the slowest group has not acknowledged now was not acknowledged during the GC either
				amin := int64(1 << 62)
				for _, g := range groups {
					if a := g.AcknowledgedSeq(); a < amin {
						amin = a
					}
				}
				for s := amin + 1; s <= app0 && s <= amin+3; s++ {
					if !c.verify(s, "after-gc") {
						return
					}
				}
			}
			qa := q.AcknowledgedSeq()
			if qa < lastQack {
				c.violate("C06/conc/queue-ack-moved-backwards", "queue ack went from %d to %d", lastQack, qa)
				return
			}
			if qa != lastQack {
				res.count("queue_ack_moves_observed", 1)
			}
			lastQack = qa
			for i, g := range groups {
				a := g.AcknowledgedSeq()
				cs := g.ConsumedSeq()
				app := q.AppendedSeq()
				switch {
				case qa > a:
					c.violate("C06/conc/queue-ack-beyond-group-ack", "queue ack %d > ack %d of group %d (read afterwards)", qa, a, i+1)
					return
				case a > cs:
					c.violate("C06/conc/ack-above-consumed", "group %d: ack %d > consumed %d (read afterwards)", i+1, a, cs)
					return
				case cs > app:
					c.violate("C06/conc/consumed-above-appended", "group %d: consumed %d > appended %d (read afterwards)", i+1, cs, app)
					return
				case a < lastAck[i]:
					c.violate("C06/conc/group-ack-moved-backwards", "group %d: ack went from %d to %d", i+1, lastAck[i], a)
					return
				}
				lastAck[i] = a
				if g.Pending() < 0 {
					c.violate("C06/conc/pending-negative", "group %d: Pending() < 0", i+1)
					return
				}
			}
			res.count("conc.invariant_snapshots", 1)
			time.Sleep(150 * time.Microsecond)
		}
	}()

	// --- churner: other groups come and go ---
	aux.Add(1)
	go func() {
		defer aux.Done()
		defer c.guard("churner")
		debug.SetPanicOnFault(true)
		for i := 0; !c.done.Load() && !c.abort.Load(); i++ {
			name := fmt.Sprintf("t%d", i%3)
			g, err := fq.GetOrCreateConsumerGroup(name)
			if err != nil {
				c.violate("C06/create-group/failed", "GetOrCreateConsumerGroup(%s): %v", name, err)
				return
			}
			_ = fq.ConsumerGroupNames()
			// a group that exists holds the queue ack at or below its own ack from the moment it is in the map
			// (creation and Sync exclude each other), whatever Sync/GC do concurrently; what it consumes is readable
			ga, gc := g.AcknowledgedSeq(), g.ConsumedSeq()
			if qa := fq.Queue().AcknowledgedSeq(); qa > ga {
				c.violate("C06/conc/queue-ack-beyond-created-group-ack", "group %s was just returned by GetOrCreateConsumerGroup with ack %d consumed %d, the queue ack is %d", name, ga, gc, qa)
				return
			}
			if ga > gc {
				c.violate("C06/conc/created-group-ack-above-consumed", "group %s was just returned by GetOrCreateConsumerGroup with ack %d > consumed %d", name, ga, gc)
				return
			}
			last := int64(-1)
			for k := 0; k < 3 && g.Pending() > 0; k++ {
				sq := g.Consume()
				if sq != gc+1 {
					c.violate("C06/conc/consume-not-consecutive", "created group %s: Consume() = %d, expected %d", name, sq, gc+1)
					return
				}
				gc = sq
				if !c.verify(sq, "created-group") {
					return
				}
				last = sq
				res.count("conc.created_group_consumed", 1)
			}
			if last >= 0 && i%2 == 0 {
				g.Ack(last)
			}
			if qa := fq.Queue().AcknowledgedSeq(); qa > g.AcknowledgedSeq() {
				c.violate("C06/conc/queue-ack-beyond-created-group-ack", "existing group %s has ack %d, the queue ack is %d", name, g.AcknowledgedSeq(), qa)
				return
			}
			time.Sleep(100 * time.Microsecond)
			fq.StopConsumerGroup(name)
			res.count("conc.group_churn", 1)
			time.Sleep(300 * time.Microsecond)
		}
	}()

	// when a violation aborts the run, blocked consumers are released (Pause is terminal; Consume returns -1)
	go func() {
		for !c.done.Load() {
			if c.abort.Load() {
				for _, g := range groups {
					g.Pause()
				}
				return
			}
			time.Sleep(5 * time.Millisecond)
		}
	}()
	finished := make(chan struct{})
	go func() { wg.Wait(); close(finished) }()
	select {
	case <-finished:
	case <-time.After(8 * time.Minute):
		res.inconclusive("conc %d: workers did not finish within the watchdog", idx)
		c.abort.Store(true)
		aux.Wait()
		select {
		case <-finished:
		case <-time.After(30 * time.Second):
			os.Exit(4) // a worker is stuck inside the queue: do not unmap pages under it
		}
		return
	}
	c.done.Store(true)
	aux.Wait()
	if c.abort.Load() {
		return
	}
	res.nontrivialIf(res.Counters["conc.consume_issued_with_nothing_pending"] > 0 || res.Counters["conc.ack_while_consumer_ahead"] > 0, fmt.Sprintf("conc/%d", idx))

	// --- quiescent: positions, final Sync, close + reopen ---
	q := fq.Queue()
	app0 := q.AppendedSeq()
	if !midstop && app0 != c.n-1 {
		c.violate("C06/conc/final-appended", "appended is %d after %d puts", app0, c.n)
		return
	}
	cons0, ack0 := make([]int64, len(groups)), make([]int64, len(groups))
	minAck := app0
	for i, g := range groups {
		cons0[i], ack0[i] = g.ConsumedSeq(), g.AcknowledgedSeq()
		if ack0[i] < minAck {
			minAck = ack0[i]
		}
		if !midstop && (cons0[i] != c.n-1 || ack0[i] != c.n-1) {
			c.violate("C06/conc/final-group-positions", "group %d: consumed=%d ack=%d after consuming and acknowledging %d messages", i+1, cons0[i], ack0[i], c.n)
			return
		}
		if ack0[i] > cons0[i] || cons0[i] > app0 {
			c.violate("C06/conc/final-order", "group %d at quiescence: ack=%d consumed=%d appended=%d", i+1, ack0[i], cons0[i], app0)
			return
		}
	}
	fq.Sync()
	qa0 := q.AcknowledgedSeq()
	if qa0 != minAck && minAck >= 0 {
		c.violate("C06/conc/final-queue-ack", "queue ack is %d after the final Sync, the smallest group ack is %d (appended %d)", qa0, minAck, app0)
		return
	}
	q.GC()
	for s := minAck + 1; s <= app0 && s <= minAck+50; s++ {
		if !c.verify(s, "final") {
			return
		}
	}
	fq.Close()
	fq2, err := queue.NewFanOutQueue(dir, 0)
	if err != nil {
		c.violate("C06/open-failed", "NewFanOutQueue (reopen): %v", err)
		return
	}
	c.fq = fq2
	if a, k := fq2.Queue().AppendedSeq(), fq2.Queue().AcknowledgedSeq(); a != app0 || k != qa0 {
		c.violate("C06/conc/reopen-position-changed/queue", "after reopen appended=%d queue ack=%d, before %d/%d", a, k, app0, qa0)
		return
	}
	for i := range groups {
		g, err := fq2.GetOrCreateConsumerGroup(fmt.Sprintf("%d", i+1))
		if err != nil {
			c.violate("C06/create-group/failed", "GetOrCreateConsumerGroup: %v", err)
			return
		}
		if g.ConsumedSeq() != cons0[i] || g.AcknowledgedSeq() != ack0[i] {
			c.violate("C06/conc/reopen-position-changed/group", "group %d after reopen consumed=%d ack=%d, at quiescence before close %d/%d", i+1, g.ConsumedSeq(), g.AcknowledgedSeq(), cons0[i], ack0[i])
			return
		}
	}
	for s := minAck + 1; s <= app0 && s <= minAck+50; s++ {
		if !c.verify(s, "after-reopen") {
			return
		}
	}
	res.count("conc.runs_completed."+c.mode, 1)
}

func (r *caseResult) nontrivialIf(cond bool, key string) {
	if cond {
		r.nontrivial(key)
	}
}

// calledFromAck reports whether the current goroutine is inside consumerGroup.Ack.
func calledFromAck() bool {
	pcs := make([]uintptr, 16)
	n := runtime.Callers(2, pcs)
	frames := runtime.CallersFrames(pcs[:n])
	for {
		fr, more := frames.Next()
		if strings.HasSuffix(fr.Function, "(*consumerGroup).Ack") {
			return true
		}
		if !more {
			return false
		}
	}
}
