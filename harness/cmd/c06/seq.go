package main

import (
	"encoding/json"
	"errors"
	"fmt"
	"hash/fnv"
	"math"
	"math/rand"
	"os"
	"path/filepath"
	"runtime"
	"runtime/debug"
	"sort"
	"strconv"
	"strings"
	"sync"
	"sync/atomic"
	"time"

	"github.com/lindb/lindb/pkg/queue"
	"github.com/lindb/lindb/verif/internal/seam"
)

// ---------------------------------------------------------------------------------------------------------
// child entry
// ---------------------------------------------------------------------------------------------------------

func runCase() {
	kind := os.Args[2]
	start, _ := strconv.Atoi(os.Args[3])
	count, _ := strconv.Atoi(os.Args[4])
	dir := os.Args[5]
	tier := os.Args[6]
	debug.SetPanicOnFault(true)
	seed, _ := strconv.ParseInt(os.Getenv("VERIF_SEED"), 10, 64)
	res := &caseResult{Kind: kind, Index: start, Counters: map[string]int{}}
	if kind == "seq" || kind == "directed" {
		installPageWriteHook()
	}
	for idx := start; idx < start+count; idx++ {
		fmt.Printf("case %s %d\n", kind, idx) // logged before it runs
		cdir := filepath.Join(dir, fmt.Sprintf("q%d", idx))
		switch kind {
		case "seq", "directed", "big", "indexroll":
			runHistory(res, kind, idx, cdir, seed)
		case "conc":
			caseConc(res, idx, cdir, seed, tier)
		}
		_ = os.RemoveAll(cdir)
	}
	data, _ := json.Marshal(res)
	if err := os.WriteFile(filepath.Join(dir, "result.json"), data, 0o644); err != nil {
		fmt.Println(err)
		os.Exit(3)
	}
}

func caseRand(seed int64, kind string, idx int) *rand.Rand {
	h := fnv.New64a()
	_, _ = h.Write([]byte(fmt.Sprintf("%d/%s/%d", seed, kind, idx)))
	return rand.New(rand.NewSource(int64(h.Sum64() & 0x7fffffffffffffff)))
}

// ---------------------------------------------------------------------------------------------------------
// shadow model
// ---------------------------------------------------------------------------------------------------------

type msgInfo struct {
	id uint32
	n  int
	// back: the message was appended after an explicit index reset (SetAppendedSeq) that moved the append position
	// BACKWARDS onto an earlier index page than the one the writer stood on, at a sequence of such an earlier page
	// (1 = the writer went on in the same process, 2 = a close + reopen lay between the reset and the append).
	back uint8
}

// indexItemsPerPage: sequences per index page of the queue (pkg/queue: indexItemsPerPage = 1024 * 256).
const indexItemsPerPage = 1024 * 256

type mGroup struct {
	name     string
	h        queue.ConsumerGroup
	exists   bool  // open in the fan-out queue
	onDisk   bool  // its meta page file exists
	consumed int64 // current positions (stored positions while stopped)
	ack      int64
	paused   bool
	// suspended != "": the order invariants of this group are suspended (explicit index reset, or a defect that
	// was already reported) until ack <= consumed <= appended is observed again.
	suspended string
	// below: the group was created while the queue ack was >= 0 and therefore started below it (reported once);
	// it does not take part in "queue ack <= group ack" and in the readability bound until its ack catches up.
	below bool
	// overtaken: while the group was stopped the queue ack moved beyond its stored ack.
	overtaken         bool
	resetWhileStopped bool
	stopped           bool // currently stopped (not in the map) but known
	aboveReported     bool // "queue ack above this group's ack" was reported for the current episode
}

type hist struct {
	res  *caseResult
	kind string
	idx  int
	rnd  *rand.Rand
	dir  string
	fq   queue.FanOutQueue

	appended int64
	qack     int64
	msgs     map[int64]msgInfo
	// old: what was stored at a sequence before the last index reset that dropped it (to name stale reads)
	old    map[int64]msgInfo
	groups map[string]*mGroup
	// backActive: the last index reset moved the append position backwards onto an earlier index page; sequences
	// on index pages < backFrom that are appended from now on are marked (msgInfo.back).
	backActive   bool
	backReopened bool
	backFrom     int64
	nextID   uint32

	prevQack  int64 // real queue ack before the operation
	trace     []string
	kinds     []string
	failed    bool
	lastKind  string
	sawMark   bool // stop-group or reopen happened
	sawSyncAf bool // ... and a later Sync was observed
	pagesGone int
	opsSince  int
	fullEvery int
}

func (h *hist) witness() interface{} {
	w := map[string]interface{}{"kind": h.kind, "index": h.idx, "operations": h.trace,
		"model": h.modelString()}
	if h.fq != nil {
		func() {
			defer func() { _ = recover() }()
			w["real"] = h.realString()
		}()
	}
	return w
}

func (h *hist) modelString() string {
	var sb strings.Builder
	fmt.Fprintf(&sb, "appended=%d queueAck=%d", h.appended, h.qack)
	for _, n := range h.sortedNames() {
		g := h.groups[n]
		fmt.Fprintf(&sb, " | %s exists=%v onDisk=%v consumed=%d ack=%d susp=%q below=%v overtaken=%v", n, g.exists, g.onDisk, g.consumed, g.ack, g.suspended, g.below, g.overtaken)
	}
	return sb.String()
}

func (h *hist) realString() string {
	var sb strings.Builder
	q := h.fq.Queue()
	fmt.Fprintf(&sb, "appended=%d queueAck=%d", q.AppendedSeq(), q.AcknowledgedSeq())
	names := h.fq.ConsumerGroupNames()
	sort.Strings(names)
	for _, n := range names {
		g, ok := h.groups[n]
		if ok && g.h != nil && g.exists {
			fmt.Fprintf(&sb, " | %s consumed=%d ack=%d", n, g.h.ConsumedSeq(), g.h.AcknowledgedSeq())
		} else {
			fmt.Fprintf(&sb, " | %s (not in model)", n)
		}
	}
	return sb.String()
}

func (h *hist) sortedNames() []string {
	names := make([]string, 0, len(h.groups))
	for n := range h.groups {
		names = append(names, n)
	}
	sort.Strings(names)
	return names
}

func (h *hist) violate(class, format string, args ...interface{}) {
	msg := fmt.Sprintf("%s %d after %d operations (last: %s): ", h.kind, h.idx, len(h.trace), h.lastOp()) + fmt.Sprintf(format, args...)
	h.res.violate(class, msg, h.witness())
}

// fail reports a violation that makes the model useless for the rest of the history.
func (h *hist) fail(class, format string, args ...interface{}) {
	h.violate(class, format, args...)
	h.failed = true
}

func (h *hist) lastOp() string {
	if len(h.trace) == 0 {
		return "-"
	}
	return h.trace[len(h.trace)-1]
}

func (h *hist) existing() []*mGroup {
	var out []*mGroup
	for _, n := range h.sortedNames() {
		if g := h.groups[n]; g.exists {
			out = append(out, g)
		}
	}
	return out
}

func (h *hist) metaFile(name string) string {
	return filepath.Join(h.dir, "cg", name, "0.bat")
}

func countPages(dir string) int {
	ents, err := os.ReadDir(dir)
	if err != nil {
		return 0
	}
	n := 0
	for _, e := range ents {
		if strings.HasSuffix(e.Name(), ".bat") {
			n++
		}
	}
	return n
}

// ---------------------------------------------------------------------------------------------------------
// the check evaluated after every operation
// ---------------------------------------------------------------------------------------------------------

func (h *hist) begin(kind, desc string) {
	h.trace = append(h.trace, desc)
	h.kinds = append(h.kinds, kind)
	h.lastKind = kind
	h.prevQack = h.fq.Queue().AcknowledgedSeq()
	h.res.Evals++
}

// after evaluates the invariants of the property from the public getters and compares every position with the model.
func (h *hist) after(full bool) {
	if h.failed {
		return
	}
	kind := h.lastKind
	q := h.fq.Queue()
	app, qa := q.AppendedSeq(), q.AcknowledgedSeq()
	reset := kind == "set-appended" || kind == "consume-wait-set-appended"

	// --- queue-wide acknowledged position ---
	if qa < h.prevQack && !reset {
		h.violate("C06/queue-ack/moved-backwards/"+kind, "queue ack went from %d to %d", h.prevQack, qa)
	}
	if qa > app {
		h.violate("C06/queue-ack/beyond-appended/"+kind, "queue ack %d > appended %d", qa, app)
	}
	groups := h.existing()
	if qa != h.prevQack && !reset {
		h.res.count("queue_ack_moves_observed", 1)
		for _, g := range groups {
			if a := g.h.AcknowledgedSeq(); qa > a {
				h.violate("C06/queue-ack/moved-beyond-group-ack/"+kind, "queue ack moved %d -> %d although existing group %s has ack %d", h.prevQack, qa, g.name, a)
			}
		}
	}
	// --- per group order ---
	for _, g := range groups {
		a, c := g.h.AcknowledgedSeq(), g.h.ConsumedSeq()
		if g.below && a >= qa {
			g.below = false
			h.res.count("late_group_caught_up_with_queue_ack", 1)
		}
		if qa <= a {
			g.aboveReported = false
		}
		if !g.below && qa > a && !g.aboveReported {
			g.aboveReported = true // reported once per episode, not after every following operation
			h.violate("C06/queue-ack/above-existing-group-ack/"+kind, "queue ack %d > ack %d of existing group %s", qa, a, g.name)
		}
		ok := a <= c && c <= app
		if g.suspended != "" {
			if ok {
				g.suspended = ""
				h.res.count("order_invariant_rearmed", 1)
			} else {
				h.res.count("checks_with_order_invariant_suspended", 1)
			}
			continue
		}
		if a > c {
			h.violate("C06/order/ack-above-consumed/"+kind, "group %s: ack %d > consumed %d (appended %d)", g.name, a, c, app)
			g.suspended = "reported"
		} else if c > app {
			h.violate("C06/order/consumed-above-appended/"+kind, "group %s: consumed %d > appended %d", g.name, c, app)
			g.suspended = "reported"
		}
	}
	// --- model ---
	if app != h.appended {
		h.fail("C06/model/"+kind+"/appended", "appended is %d, predicted %d", app, h.appended)
		return
	}
	if qa != h.qack {
		cl := "C06/model/" + kind + "/queue-ack"
		if kind == "sync" {
			cl = "C06/sync/queue-ack-is-not-min-of-group-acks"
		} else if kind == "reopen" {
			cl = "C06/reopen/queue-ack-changed"
		}
		h.fail(cl, "queue ack is %d, predicted %d (before the operation %d)", qa, h.qack, h.prevQack)
		return
	}
	names := h.fq.ConsumerGroupNames()
	sort.Strings(names)
	var want []string
	for _, g := range groups {
		want = append(want, g.name)
	}
	if strings.Join(names, ",") != strings.Join(want, ",") {
		h.fail("C06/model/"+kind+"/group-names", "ConsumerGroupNames() = %v, predicted %v", names, want)
		return
	}
	for _, g := range groups {
		a, c := g.h.AcknowledgedSeq(), g.h.ConsumedSeq()
		if c != g.consumed || a != g.ack {
			cl := "C06/model/" + kind + "/group-positions"
			if kind == "reopen" {
				cl = "C06/reopen/group-positions-changed"
			}
			h.fail(cl, "group %s: consumed=%d ack=%d, predicted consumed=%d ack=%d", g.name, c, a, g.consumed, g.ack)
			return
		}
		pend := app - c
		if pend < 0 {
			pend = 0
		}
		if p := g.h.Pending(); p != pend {
			h.fail("C06/model/"+kind+"/pending", "group %s: Pending()=%d with appended=%d consumed=%d", g.name, p, app, c)
			return
		}
		if e := g.h.IsEmpty(); e != (app <= a) {
			h.fail("C06/model/"+kind+"/is-empty", "group %s: IsEmpty()=%v with appended=%d ack=%d", g.name, e, app, a)
			return
		}
	}
	// --- readability of everything that an existing group has not acknowledged ---
	h.opsSince++
	if full || h.opsSince >= h.fullEvery {
		h.opsSince = 0
		h.checkReadable(kind, math.MinInt64, math.MaxInt64)
	}
	if kind == "sync" && h.sawMark {
		h.sawSyncAf = true
	}
}

// lowerBound: every sequence above it must be readable.
func (h *hist) lowerBound() int64 {
	l := h.fq.Queue().AcknowledgedSeq()
	for _, g := range h.existing() {
		if g.below {
			continue
		}
		if a := g.h.AcknowledgedSeq(); a < l {
			l = a
		}
	}
	return l
}

// checkReadable reads the sequences in (lowerBound, appended] ∩ [from, to] and compares them with what was appended.
func (h *hist) checkReadable(kind string, from, to int64) {
	q := h.fq.Queue()
	app := q.AppendedSeq()
	l := h.lowerBound()
	lo, hi := l+1, app
	if from > lo {
		lo = from
	}
	if to < hi {
		hi = to
	}
	n, nb := 0, 0
	for seq := lo; seq <= hi; seq++ {
		m, ok := h.msgs[seq]
		if !ok {
			continue // never appended in this life of the index (after an index reset)
		}
		n++
		data, err := q.Get(seq)
		if err != nil {
			cl := "C06/unacked-message-unreadable/" + errKind(err)
			if m.back != 0 {
				// appended after an index reset that went back across an index page boundary
				cl = "C06/unacked-message-unreadable/appended-after-backward-index-reset/" + errKind(err)
			}
			h.violate(cl, "Get(%d) fails: %v (queue ack %d, smallest ack of the existing groups bound %d, appended %d%s)", seq, err, q.AcknowledgedSeq(), l, app, h.backNote(m))
			return
		}
		if diff := checkPayload(data, m.id, m.n); diff != "" {
			cl := "C06/unacked-message-bytes-differ"
			if m.back != 0 {
				cl += "/appended-after-backward-index-reset"
			}
			note := ""
			if o, ok := h.old[seq]; ok {
				if id, isMsg := payloadID(data); isMsg && id == o.id && o.id != m.id {
					note = fmt.Sprintf("; Get returns the message (id %d, %d bytes) that was stored at this sequence BEFORE the index reset", o.id, o.n)
					if m.back != 0 {
						cl += "/holds-message-stored-before-reset"
					}
				}
			}
			h.violate(cl, "Get(%d): %s (expected message id %d of %d bytes, got %d bytes; queue ack %d appended %d%s%s)", seq, diff, m.id, m.n, len(data), q.AcknowledgedSeq(), app, h.backNote(m), note)
			return
		}
		if m.back != 0 {
			nb++
		}
	}
	h.res.count("unacked_sequences_read_back", n)
	if nb > 0 {
		h.res.count("read_back.appended_after_backward_index_reset", nb)
		if kind == "reopen" {
			h.res.count("read_back.appended_after_backward_index_reset.after_reopen", nb)
		}
	}
}

func (h *hist) backNote(m msgInfo) string {
	switch m.back {
	case 1:
		return "; the message was appended after SetAppendedSeq moved the append position back onto an earlier index page"
	case 2:
		return "; the message was appended after SetAppendedSeq moved the append position back onto an earlier index page and a reopen"
	}
	return ""
}

// ---------------------------------------------------------------------------------------------------------
// operations
// ---------------------------------------------------------------------------------------------------------

func (h *hist) open() bool {
	fq, err := queue.NewFanOutQueue(h.dir, 0)
	if err != nil {
		h.fail("C06/open-failed", "NewFanOutQueue: %v", err)
		return false
	}
	h.fq = fq
	return true
}

func (h *hist) opPut(n int) {
	id := h.nextID
	h.nextID++
	h.begin("put", fmt.Sprintf("put id=%d len=%d", id, n))
	if err := h.fq.Queue().Put(makePayload(id, n)); err != nil {
		h.fail("C06/put-failed", "Put: %v", err)
		return
	}
	h.appended++
	h.msgs[h.appended] = msgInfo{id, n, h.backMark(h.appended)}
	h.res.count("op.put", 1)
	h.after(false)
}

// backMark says whether a message appended at seq follows a backward index reset across an index page boundary
// (and counts it: the evidence that the situation was reached).
func (h *hist) backMark(seq int64) uint8 {
	if !h.backActive {
		return 0
	}
	if seq/indexItemsPerPage >= h.backFrom {
		h.backActive = false // the writer is back on the index page it had left
		h.res.count("appends_rolled_forward_again_after_backward_index_reset", 1)
		return 0
	}
	if h.backReopened {
		h.res.count("appends_after_backward_index_reset_across_index_page.after_reopen", 1)
		return 2
	}
	h.res.count("appends_after_backward_index_reset_across_index_page.same_process", 1)
	return 1
}

func (h *hist) opConsume(g *mGroup) {
	h.begin("consume", fmt.Sprintf("consume %s", g.name))
	got := g.h.Consume()
	want := g.consumed + 1
	if g.paused {
		want = queue.SeqNoNewMessageAvailable
	}
	if got != want {
		h.fail("C06/consume/not-consecutive", "group %s: Consume() = %d, expected %d (consumed %d, appended %d, paused %v)", g.name, got, want, g.consumed, h.appended, g.paused)
		return
	}
	if g.paused {
		h.res.count("op.consume.paused", 1)
		h.after(false)
		return
	}
	g.consumed = want
	h.res.count("op.consume", 1)
	h.after(false)
	if h.failed {
		return
	}
	if want > h.lowerBound() {
		h.checkReadable("consume", want, want)
	} else {
		h.res.count("consumed_sequence_at_or_below_queue_ack", 1)
	}
}

// opConsumeWait starts Consume while nothing is pending, then makes it return by a put / stop-group / pause / close.
func (h *hist) opConsumeWait(g *mGroup, how string) {
	h.begin("consume-wait-"+how, fmt.Sprintf("consume %s (blocking) woken by %s", g.name, how))
	ch := make(chan int64, 1)
	handle := g.h
	go func() {
		debug.SetPanicOnFault(true)
		defer func() {
			if r := recover(); r != nil {
				ch <- -99
			}
		}()
		ch <- handle.Consume()
	}()
	// the consumer must be parked inside Queue.NotEmpty (registered on the condition, lock released) before the
	// other goroutine acts: decided on the goroutine's state, not on elapsed time
	if waitParkedInNotEmpty(1, 10*time.Second) {
		h.res.count("consumer_parked_in_consume_before_action", 1)
	} else {
		h.res.count("consumer_not_seen_parked_before_action", 1)
	}
	want := queue.SeqNoNewMessageAvailable
	put := func() bool {
		id := h.nextID
		h.nextID++
		n := 16 + h.rnd.Intn(200)
		if err := h.fq.Queue().Put(makePayload(id, n)); err != nil {
			h.fail("C06/put-failed", "Put: %v", err)
			return false
		}
		h.appended++
		h.msgs[h.appended] = msgInfo{id, n, h.backMark(h.appended)}
		return true
	}
	switch how {
	case "set-consumed":
		// another goroutine rewinds the group (in range) while its consumer is parked at consumed+1; the next
		// append wakes the consumer, which must hand out s+1
		s := g.consumed
		if g.ack < g.consumed {
			s = g.ack + h.rnd.Int63n(g.consumed-g.ack)
		}
		h.trace[len(h.trace)-1] += fmt.Sprintf(": SetConsumedSeq(%d) while parked at %d, then put", s, g.consumed+1)
		g.h.SetConsumedSeq(s)
		g.consumed = s
		if !put() {
			return
		}
		want = g.consumed + 1
	case "set-appended":
		// the explicit index reset (forward) from another goroutine while the consumer is parked: every group is at
		// n afterwards; the next append wakes the consumer, which must hand out n+1
		n := h.appended + 1 + h.rnd.Int63n(3)
		h.trace[len(h.trace)-1] += fmt.Sprintf(": SetAppendedSeq(%d) while parked at %d, then put", n, g.consumed+1)
		h.fq.SetAppendedSeq(n)
		h.applySetAppended(n)
		if !put() {
			return
		}
		want = g.consumed + 1
	case "put":
		if !put() {
			return
		}
		want = g.consumed + 1
	case "stop":
		h.fq.StopConsumerGroup(g.name)
		h.markStopped(g)
	case "pause":
		g.h.Pause()
		g.paused = true
	case "close":
		h.fq.Close()
	}
	var got int64
	select {
	case got = <-ch:
	case <-time.After(5 * time.Second):
		// Not back after 5s: either the machine is starved (a first store into a mapped page can be throttled by
		// write-back for seconds) or a wake-up was lost (consumerGroup.Pause/Close broadcast without holding the
		// condition's lock, so a waiter between its check and its registration misses it). Neither is what C06
		// states: signal again (what the next Put would do), record the observation and go on.
		h.res.count("blocked_consume_not_back_after_5s."+how, 1)
		if how != "close" {
			h.fq.Queue().Signal()
		}
		select {
		case got = <-ch:
		case <-time.After(60 * time.Second):
			h.res.inconclusive("history %d: blocked Consume did not return 65s after %s", h.idx, how)
			h.failed = true
			return
		}
	}
	moved := how == "set-consumed" || how == "set-appended"
	if got != want {
		if moved {
			// report the hand-out, then let the invariants speak from the getters (ack <= consumed, readability)
			h.violate("C06/consume/not-consecutive/position-moved-while-parked/"+how, "group %s: Consume() parked before the move returned %d, expected %d (consumed %d ack %d appended %d)", g.name, got, want, g.consumed, g.ack, h.appended)
			g.consumed = want
			h.after(true)
			h.failed = true
			return
		}
		h.fail("C06/consume/not-consecutive/woken-by-"+how, "group %s: blocked Consume() returned %d, expected %d (consumed %d)", g.name, got, want, g.consumed)
		return
	}
	if how == "put" || moved {
		g.consumed = want
	}
	h.res.count("op.consume-wait."+how, 1)
	if how == "close" {
		h.reopenAfterClose()
		return
	}
	h.after(moved)
}

// waitParkedInNotEmpty waits until n goroutines are parked in sync.Cond.Wait below queue.NotEmpty.
func waitParkedInNotEmpty(n int, limit time.Duration) bool {
	deadline := time.Now().Add(limit)
	for {
		if countParked("sync.Cond.Wait", "pkg/queue.(*queue).NotEmpty") >= n {
			return true
		}
		if time.Now().After(deadline) {
			return false
		}
		time.Sleep(50 * time.Microsecond)
	}
}

// countParked counts the goroutines whose wait state (header of their stack dump) contains state and whose
// stack contains frame.
func countParked(state, frame string) int {
	buf := make([]byte, 1<<20)
	k := runtime.Stack(buf, true)
	cnt := 0
	for _, g := range strings.Split(string(buf[:k]), "\n\n") {
		nl := strings.IndexByte(g, '\n')
		if nl < 0 {
			continue
		}
		if strings.Contains(g[:nl], state) && strings.Contains(g, frame) {
			cnt++
		}
	}
	return cnt
}

// ---------------------------------------------------------------------------------------------------------
// directed interleaving: a group is being created while another group acknowledges and Sync + GC run
// ---------------------------------------------------------------------------------------------------------

// pageWriteHook is called before every store into a queue page of this process (page factory seam).
var pageWriteHook atomic.Value // func(path string)

func installPageWriteHook() {
	pageWriteHook.Store(func(string) {})
	seam.InstallQueuePages(seam.Direct{}, &seam.Observer{PageWrite: func(path, kind string, offset, length int) {
		pageWriteHook.Load().(func(string))(path)
	}})
}

// expectedLoad: the positions of a group (new, or loaded from its meta page) created at queue ack q.
func (h *hist) expectedLoad(g *mGroup, known bool, q int64) (c, a int64) {
	if !known {
		return q, q
	}
	a = g.ack
	if q > a {
		a = q
	}
	c = g.consumed
	if a > c {
		c = a
	}
	if c > h.appended {
		c = h.appended
	}
	if a > h.appended {
		a = h.appended
	}
	return c, a
}

// syncResult: the queue ack after a Sync over the model's existing groups plus (optionally) one more ack.
func (h *hist) syncResult(extra *int64) int64 {
	gs := h.existing()
	if len(gs) == 0 && extra == nil {
		return h.qack
	}
	cand := h.appended
	for _, g := range gs {
		if g.ack < cand {
			cand = g.ack
		}
	}
	if extra != nil && *extra < cand {
		cand = *extra
	}
	if cand >= 0 && cand > h.qack {
		return cand
	}
	return h.qack
}

// opCreateWhileSync: GetOrCreateConsumerGroup(name) for a group that is not in the map; at its first meta page
// store (NewConsumerGroup has just chosen the start positions from the queue ack) another goroutine lets group o
// acknowledge everything it consumed and runs Sync + GC. The creating goroutine goes on when that goroutine is done
// or is parked on the fan-out queue's map lock below Sync (goroutine state, not elapsed time). Creation and Sync
// must be atomic to each other: the outcome is "create, then ack+sync+gc" or "ack+sync+gc, then create".
func (h *hist) opCreateWhileSync(name string, o *mGroup) {
	v := o.consumed
	h.begin("create-while-sync", fmt.Sprintf("get-or-create-group %s; at its first meta page store: ack %s %d + sync + gc from another goroutine", name, o.name, v))
	g, known := h.groups[name]
	if known && (g.exists || !g.onDisk) {
		known = false
		if g.exists {
			return
		}
	}
	target := string(filepath.Separator) + filepath.Join("cg", name) + string(filepath.Separator)
	done := make(chan struct{})
	var once sync.Once
	fired, blocked := false, false
	oh, fq := o.h, h.fq
	pageWriteHook.Store(func(path string) {
		if !strings.Contains(path, target) {
			return
		}
		once.Do(func() {
			fired = true
			go func() {
				defer close(done)
				defer func() { _ = recover() }()
				oh.Ack(v)
				fq.Sync()
				fq.Queue().GC()
			}()
			deadline := time.Now().Add(10 * time.Second)
			for time.Now().Before(deadline) {
				select {
				case <-done:
					return
				default:
				}
				if countParked("sync.RWMutex.RLock", "pkg/queue.(*fanOutQueue).Sync") > 0 {
					blocked = true
					return
				}
				time.Sleep(50 * time.Microsecond)
			}
		})
	})
	handle, err := h.fq.GetOrCreateConsumerGroup(name)
	pageWriteHook.Store(func(string) {})
	if err != nil {
		h.fail("C06/create-group/failed", "GetOrCreateConsumerGroup(%s): %v", name, err)
		return
	}
	if !fired {
		h.res.inconclusive("history %d: creating group %s did not store into its meta page", h.idx, name)
		h.failed = true
		return
	}
	select {
	case <-done:
	case <-time.After(60 * time.Second):
		h.res.inconclusive("history %d: ack+sync+gc overlapping a group creation did not finish", h.idx)
		h.failed = true
		return
	}
	if blocked {
		h.res.count("create_while_sync.sync_waited_for_creation", 1)
	} else {
		h.res.count("create_while_sync.sync_finished_inside_creation", 1)
	}
	// the two serial outcomes
	q0 := h.qack
	c1, a1 := h.expectedLoad(g, known, q0)
	o.ack = v
	q1 := h.syncResult(&a1)
	q2 := h.syncResult(nil)
	c2, a2 := h.expectedLoad(g, known, q2)
	if !known {
		if g == nil {
			g = &mGroup{name: name}
			h.groups[name] = g
		}
	}
	wasStopped := g.stopped
	g.h, g.exists, g.stopped, g.onDisk, g.paused = handle, true, false, true, false
	g.overtaken, g.below = false, false
	if g.suspended != "" || g.resetWhileStopped {
		g.suspended, g.resetWhileStopped = "reload", false // re-armed as soon as the order holds
	}
	rc, ra, rq := handle.ConsumedSeq(), handle.AcknowledgedSeq(), h.fq.Queue().AcknowledgedSeq()
	switch {
	case rq == q1 && rc == c1 && ra == a1:
		h.res.count("create_while_sync.outcome_create_then_sync", 1)
	case rq == q2 && rc == c2 && ra == a2:
		h.res.count("create_while_sync.outcome_sync_then_create", 1)
	case ra < rq:
		h.violate("C06/create-group/overlapping-sync-left-group-below-queue-ack",
			"group %s (stopped before: %v) was created while group %s acknowledged %d and Sync+GC ran: it exists with consumed=%d ack=%d, the queue ack is %d (serial outcomes: queue ack %d with %d/%d, or queue ack %d with %d/%d)",
			name, wasStopped, o.name, v, rc, ra, rq, q1, c1, a1, q2, c2, a2)
	default:
		h.violate("C06/create-group/overlapping-sync-not-serializable",
			"group %s created while group %s acknowledged %d and Sync+GC ran: consumed=%d ack=%d queue ack %d (serial outcomes: queue ack %d with %d/%d, or queue ack %d with %d/%d)",
			name, o.name, v, rc, ra, rq, q1, c1, a1, q2, c2, a2)
	}
	g.consumed, g.ack = rc, ra
	h.setModelQack(rq)
	h.res.count("op.create-while-sync", 1)
	h.after(true)
}

func (h *hist) opAck(g *mGroup, s int64, flavour string) {
	h.begin("ack-"+flavour, fmt.Sprintf("ack %s %d (%s; window [%d,%d])", g.name, s, flavour, g.ack, g.consumed))
	oa, oc := g.h.AcknowledgedSeq(), g.h.ConsumedSeq()
	g.h.Ack(s)
	na, nc := g.h.AcknowledgedSeq(), g.h.ConsumedSeq()
	inWindow := s >= g.ack && s <= g.consumed
	if inWindow {
		if na != s || nc != oc {
			h.fail("C06/ack/valid-ack-not-applied", "group %s: Ack(%d) inside [%d,%d] left ack=%d consumed=%d", g.name, s, oa, oc, na, nc)
			return
		}
		g.ack = s
	} else if na != oa || nc != oc {
		h.fail("C06/ack/outside-window-changed-state/"+flavour, "group %s: Ack(%d) outside [%d,%d] changed ack %d->%d consumed %d->%d", g.name, s, oa, oc, oa, na, oc, nc)
		return
	}
	h.res.count("op.ack."+flavour, 1)
	h.after(false)
}

func (h *hist) opSetConsumed(g *mGroup, s int64) {
	in := s >= g.ack && s <= h.appended
	fl := "in-range"
	if !in {
		fl = "out-of-range"
	}
	h.begin("set-consumed-"+fl, fmt.Sprintf("set-consumed %s %d (%s; ack %d appended %d)", g.name, s, fl, g.ack, h.appended))
	g.h.SetConsumedSeq(s)
	g.consumed = s
	if !in {
		// the explicit index reset of the statement: the group's order invariants are suspended from here
		g.suspended = "set-consumed-out-of-range"
	}
	h.res.count("op.set-consumed."+fl, 1)
	h.after(false)
}

func (h *hist) syncModel() {
	gs := h.existing()
	if len(gs) == 0 {
		return
	}
	cand := h.appended
	for _, g := range gs {
		if g.ack < cand {
			cand = g.ack
		}
	}
	if cand >= 0 && cand > h.qack && cand <= h.appended {
		h.setModelQack(cand)
	}
}

func (h *hist) setModelQack(v int64) {
	h.qack = v
	for _, g := range h.groups {
		if g.stopped && g.onDisk && v > g.ack {
			g.overtaken = true
		}
	}
}

func (h *hist) opSync() {
	h.begin("sync", "sync")
	h.fq.Sync()
	h.syncModel()
	h.res.count("op.sync", 1)
	h.after(true)
}

func (h *hist) opGC() {
	h.begin("gc", "gc")
	d0, i0 := countPages(filepath.Join(h.dir, "data")), countPages(filepath.Join(h.dir, "index"))
	h.fq.Queue().GC()
	d1, i1 := countPages(filepath.Join(h.dir, "data")), countPages(filepath.Join(h.dir, "index"))
	h.res.count("op.gc", 1)
	if d1 < d0 {
		h.res.count("gc_data_pages_removed", d0-d1)
		h.pagesGone += d0 - d1
	}
	if i1 < i0 {
		h.res.count("gc_index_pages_removed", i0-i1)
		h.pagesGone += i0 - i1
	}
	h.after(true)
}

func (h *hist) opQueueSetAck(v int64, flavour string) {
	h.begin("queue-set-ack-"+flavour, fmt.Sprintf("queue.SetAcknowledgedSeq(%d) (%s; queue ack %d appended %d)", v, flavour, h.qack, h.appended))
	h.fq.Queue().SetAcknowledgedSeq(v)
	if v > h.qack && v <= h.appended {
		h.setModelQack(v)
	}
	h.res.count("op.queue-set-ack."+flavour, 1)
	h.after(true)
}

func (h *hist) markStopped(g *mGroup) {
	g.exists = false
	g.stopped = true
	g.h = nil
	g.paused = false
	h.sawMark = true
	if _, err := os.Stat(h.metaFile(g.name)); err == nil {
		g.onDisk = true
		h.res.count("stopped_group_meta_left_on_disk", 1)
	} else {
		g.onDisk = false
	}
}

func (h *hist) opStop(name string) {
	h.begin("stop-group", "stop-group "+name)
	h.fq.StopConsumerGroup(name)
	if g, ok := h.groups[name]; ok && g.exists {
		h.markStopped(g)
		h.res.count("op.stop-group", 1)
	} else {
		h.res.count("op.stop-group.unknown", 1)
	}
	h.after(true)
}

// reload compares a group that was loaded from its meta page (reopen, or re-creation of a stopped group) with
// the stored positions: ack = min(max(own, queue ack), appended) and consumed = min(max(own, ack), appended) - a
// group never (re)starts behind the queue's acknowledged position, never with ack > consumed, never beyond the log.
func (h *hist) reload(g *mGroup, handle queue.ConsumerGroup, via string) {
	wasStopped := g.stopped
	stc, sta := g.consumed, g.ack
	expAck := sta
	if h.qack > expAck {
		expAck = h.qack
	}
	expC := stc
	if expAck > expC {
		expC = expAck
	}
	// a group never points beyond the log: positions above appended (they only arise from an explicit index reset:
	// SetAppendedSeq to a lower value while the group was stopped, out-of-range SetConsumedSeq) are clamped,
	// consumed first, then ack. Stored positions <= appended must come back unchanged (modulo the raises above).
	clamped := false
	if expC > h.appended {
		expC, clamped = h.appended, true
	}
	if expAck > h.appended {
		expAck, clamped = h.appended, true
	}
	if clamped {
		h.res.count("reload_clamped_to_appended", 1)
		if g.suspended == "" && !g.resetWhileStopped {
			// only an explicit reset can have put a position beyond appended
			h.violate("C06/"+via+"/stored-position-beyond-appended-without-reset", "group %s: stored consumed=%d ack=%d with appended %d and no index reset on this group", g.name, stc, sta, h.appended)
		}
	}
	rc, ra := handle.ConsumedSeq(), handle.AcknowledgedSeq()
	g.h, g.exists, g.stopped, g.paused, g.onDisk = handle, true, false, false, true
	if wasStopped {
		h.res.count("stopped_group_reloaded_by_"+via, 1)
	}
	if ra != expAck {
		cl := "C06/" + via + "/ack-changed"
		if ra == sta && sta < h.qack {
			cl = "C06/" + via + "/ack-not-raised-to-queue-ack"
		} else if ra == sta && sta > h.appended {
			cl = "C06/" + via + "/ack-beyond-appended-not-clamped"
		}
		h.fail(cl, "group %s: stored ack %d, queue ack %d, after %s ack=%d (expected %d)", g.name, sta, h.qack, via, ra, expAck)
		return
	}
	if ra != sta {
		h.res.count("reload_raised_ack_to_queue_ack", 1)
	}
	if rc != expC {
		if rc == stc && rc < ra {
			// consumed left behind the (raised) ack: the group comes back with ack > consumed
			switch {
			case wasStopped && g.overtaken:
				h.fail("C06/reload-ack-above-consumed/stopped-then-overtaken/"+via,
					"group %s was stopped with consumed=%d ack=%d, the queue ack then moved to %d, and after %s the group exists again with consumed=%d ack=%d (ack > consumed)",
					g.name, stc, sta, h.qack, via, rc, ra)
			case g.below:
				h.fail("C06/reload-ack-above-consumed/created-below-queue-ack/"+via,
					"group %s was created below the queue ack (stored consumed=%d ack=%d, queue ack %d); after %s consumed=%d ack=%d (ack > consumed)",
					g.name, stc, sta, h.qack, via, rc, ra)
			default:
				h.fail("C06/reload-ack-above-consumed/other/"+via, "group %s: stored consumed=%d ack=%d, queue ack %d, after %s consumed=%d ack=%d (ack > consumed)", g.name, stc, sta, h.qack, via, rc, ra)
			}
			return
		}
		if rc > h.appended && rc == stc {
			h.fail("C06/"+via+"/consumed-beyond-appended-not-clamped", "group %s: stored consumed=%d ack=%d, appended %d, after %s consumed=%d (expected %d)", g.name, stc, sta, h.appended, via, rc, expC)
			return
		}
		h.fail("C06/"+via+"/consumed-changed", "group %s: stored consumed=%d ack=%d, queue ack %d, after %s consumed=%d (expected %d)", g.name, stc, sta, h.qack, via, rc, expC)
		return
	}
	if rc != stc {
		h.res.count("reload_raised_consumed_to_ack", 1)
		if wasStopped && g.overtaken {
			h.res.count("reload_of_stopped_group_overtaken_by_queue_ack", 1)
		}
	}
	g.consumed, g.ack = rc, ra
	g.overtaken, g.below = false, false
	if g.resetWhileStopped {
		// an index reset (SetAppendedSeq) happened while the group was stopped; it was not applied to it, so its
		// consumed position may lie beyond the new appended position: the explicit reset of the statement
		g.resetWhileStopped = false
		if rc > h.appended {
			g.suspended = "index-reset-while-stopped"
			h.res.count("reload_after_index_reset_while_stopped", 1)
		}
	}
}

func (h *hist) opCreate(name string) {
	h.begin("create-group", "get-or-create-group "+name)
	g, known := h.groups[name]
	handle, err := h.fq.GetOrCreateConsumerGroup(name)
	if err != nil {
		h.fail("C06/create-group/failed", "GetOrCreateConsumerGroup(%s): %v", name, err)
		return
	}
	switch {
	case known && g.exists:
		if handle != g.h {
			h.fail("C06/create-group/existing-group-replaced", "GetOrCreateConsumerGroup(%s) returned another object for an existing group", name)
			return
		}
		h.res.count("op.get-group.existing", 1)
	case known && g.onDisk:
		h.res.count("op.create-group", 1)
		h.reload(g, handle, "recreate")
	default:
		if !known {
			g = &mGroup{name: name}
			h.groups[name] = g
		}
		g.h, g.exists, g.stopped, g.onDisk, g.paused, g.suspended = handle, true, false, true, false, ""
		g.overtaken, g.resetWhileStopped = false, false
		c, a := handle.ConsumedSeq(), handle.AcknowledgedSeq()
		h.res.count("op.create-group", 1)
		// documented: "creates a new ConsumerGroup with consume seq and ack seq == queue ack seq"
		if c == h.qack && a == h.qack {
			g.consumed, g.ack, g.below = c, a, false
			if h.qack >= 0 {
				h.res.count("new_group_started_at_advanced_queue_ack", 1)
			}
		} else if c == -1 && a == -1 {
			h.violate("C06/new-group-starts-below-queue-ack",
				"GetOrCreateConsumerGroup(%s) with queue ack %d (appended %d) created a group with consumed=-1 ack=-1; it will be handed sequences 0..%d which Get refuses",
				name, h.qack, h.appended, h.qack)
			g.consumed, g.ack, g.below = -1, -1, true
		} else {
			h.fail("C06/create-group/positions-unexpected", "new group %s: consumed=%d ack=%d with queue ack %d", name, c, a, h.qack)
			return
		}
	}
	h.after(true)
}

func (h *hist) opPause(g *mGroup) {
	h.begin("pause", "pause "+g.name)
	g.h.Pause()
	g.paused = true
	h.res.count("op.pause", 1)
	h.after(false)
}

func (h *hist) opSetAppended(s int64) {
	h.begin("set-appended", fmt.Sprintf("set-appended %d (appended %d, queue ack %d)", s, h.appended, h.qack))
	h.fq.SetAppendedSeq(s)
	h.applySetAppended(s)
	h.res.count("op.set-appended", 1)
	h.after(true)
}

// applySetAppended: the explicit index reset: appended = queue ack = s, every open group consumed = ack = s.
func (h *hist) applySetAppended(s int64) {
	// index page the writer stands on (page of the last append; a fresh/reopened queue: page of appended) and the
	// page of the next append after the reset
	writerPage, nextPage := int64(0), (s+1)/indexItemsPerPage
	if h.appended >= 0 {
		writerPage = h.appended / indexItemsPerPage
	}
	switch {
	case nextPage < writerPage:
		h.backActive, h.backReopened, h.backFrom = true, false, writerPage
		if _, err := os.Stat(filepath.Join(h.dir, "index", fmt.Sprintf("%d.bat", nextPage))); err == nil {
			h.res.count("index_reset.backward_onto_earlier_index_page.page_present", 1)
		} else {
			h.res.count("index_reset.backward_onto_earlier_index_page.page_removed_by_gc", 1)
		}
	case nextPage > writerPage:
		h.backActive = false
		h.res.count("index_reset.forward_onto_later_index_page", 1)
	}
	h.appended, h.qack = s, s
	old := map[int64]msgInfo{}
	for seq, m := range h.msgs {
		if seq > s {
			old[seq] = m
			delete(h.msgs, seq)
		}
	}
	if len(old) > 0 {
		// keep what is known about still older lives of the sequences that this reset did not touch
		for seq, m := range h.old {
			if _, ok := old[seq]; !ok && seq > s {
				old[seq] = m
			}
		}
		h.old = old
	}
	for _, g := range h.groups {
		if g.exists {
			g.consumed, g.ack, g.suspended, g.below = s, s, "", false
		} else if g.stopped {
			g.resetWhileStopped = true
		}
	}
}

func (h *hist) opReopen() {
	h.begin("reopen", "close + reopen")
	h.fq.Close()
	h.reopenAfterClose()
}

func (h *hist) reopenAfterClose() {
	h.lastKind = "reopen"
	h.sawMark = true
	if h.backActive {
		h.backReopened = true
	}
	for _, g := range h.groups {
		g.h = nil
	}
	if !h.open() {
		return
	}
	h.res.count("op.reopen", 1)
	names := h.fq.ConsumerGroupNames()
	sort.Strings(names)
	seen := map[string]bool{}
	for _, n := range names {
		seen[n] = true
		g, ok := h.groups[n]
		if !ok || !g.onDisk {
			h.fail("C06/reopen/unknown-group", "group %s exists after reopen but was never created", n)
			return
		}
	}
	for _, n := range h.sortedNames() {
		g := h.groups[n]
		if g.exists && !seen[n] {
			h.fail("C06/reopen/group-lost", "group %s existed before close and is gone after reopen", n)
			return
		}
		if !seen[n] {
			if g.stopped && g.onDisk {
				g.onDisk = false // a tree that removes the files of a stopped group
			}
			g.exists = false
			continue
		}
		handle, err := h.fq.GetOrCreateConsumerGroup(n)
		if err != nil {
			h.fail("C06/create-group/failed", "GetOrCreateConsumerGroup(%s): %v", n, err)
			return
		}
		h.reload(g, handle, "reopen")
		if h.failed {
			return
		}
	}
	h.after(true)
}

// ---------------------------------------------------------------------------------------------------------
// history generators
// ---------------------------------------------------------------------------------------------------------

func runHistory(res *caseResult, kind string, idx int, dir string, seed int64) {
	h := &hist{res: res, kind: kind, idx: idx, rnd: caseRand(seed, kind, idx), dir: dir,
		appended: -1, qack: -1, msgs: map[int64]msgInfo{}, groups: map[string]*mGroup{}, fullEvery: 6}
	defer func() {
		if r := recover(); r != nil {
			stack := string(debug.Stack())
			cl := "C06/panic/" + h.lastKind
			if !strings.Contains(stack, "lindb/pkg/queue") {
				cl = "C06/panic-outside-queue/" + h.lastKind
			}
			h.violate(cl, "panic: %v\n%s", r, tailStr(stack, 3000))
		}
		if h.fq != nil {
			func() {
				defer func() { _ = recover() }()
				h.fq.Close()
			}()
		}
	}()
	if !h.open() {
		return
	}
	switch kind {
	case "seq":
		h.genRandom(30 + h.rnd.Intn(171))
	case "directed":
		h.genDirected()
	case "big":
		h.genBig()
	case "indexroll":
		h.genIndexRoll()
	}
	if !h.failed {
		h.finish()
	}
	key := fnv.New64a()
	_, _ = key.Write([]byte(strings.Join(h.kinds, ",")))
	switch kind {
	case "seq", "directed":
		if h.sawSyncAf {
			res.nontrivial(fmt.Sprintf("%s/%x", kind, key.Sum64()))
		}
	default:
		if h.pagesGone > 0 {
			res.nontrivial(fmt.Sprintf("%s/%d/%x", kind, idx, key.Sum64()))
		}
	}
	if idx == 0 && res.Sample == nil {
		ops := h.trace
		if len(ops) > 40 {
			ops = ops[:40]
		}
		res.Sample = map[string]interface{}{"kind": kind, "index": idx, "operations": len(h.trace), "first_operations": ops, "final_model": h.modelString()}
	}
}

// finish: final sync/gc, a full read, a reopen and a full read again.
func (h *hist) finish() {
	h.begin("final-read", "final full read")
	h.after(true)
	if h.failed {
		return
	}
	h.opReopen()
	if h.failed {
		return
	}
	h.begin("final-read", "final full read after reopen")
	h.after(true)
}

func (h *hist) pickGroup(pred func(g *mGroup) bool) *mGroup {
	var cands []*mGroup
	for _, g := range h.existing() {
		if pred(g) {
			cands = append(cands, g)
		}
	}
	if len(cands) == 0 {
		return nil
	}
	return cands[h.rnd.Intn(len(cands))]
}

func (h *hist) smallSize() int {
	switch r := h.rnd.Intn(100); {
	case r < 60:
		return 16 + h.rnd.Intn(200)
	case r < 95:
		return 16 + h.rnd.Intn(4096)
	default:
		return 16 + h.rnd.Intn(128*1024)
	}
}

var groupPool = []string{"1", "2", "3", "4", "5"}

// randomOp performs one operation chosen by weight among the applicable ones.
func (h *hist) randomOp() {
	r := h.rnd
	type cand struct {
		w  int
		fn func()
	}
	var cs []cand
	add := func(w int, fn func()) { cs = append(cs, cand{w, fn}) }
	add(22, func() { h.opPut(h.smallSize()) })
	if g := h.pickGroup(func(g *mGroup) bool { return !g.paused && h.appended > g.consumed }); g != nil {
		add(22, func() { h.opConsume(g) })
		add(6, func() { // a replicator-like batch: consume k, ack the last
			k := 1 + r.Intn(8)
			for i := 0; i < k && !h.failed && h.appended > g.consumed; i++ {
				h.opConsume(g)
			}
			if !h.failed && g.consumed >= g.ack {
				h.opAck(g, g.consumed, "valid")
			}
		})
	}
	if g := h.pickGroup(func(g *mGroup) bool { return g.paused }); g != nil {
		add(1, func() { h.opConsume(g) })
	}
	if g := h.pickGroup(func(g *mGroup) bool { return !g.paused && g.consumed == h.appended }); g != nil {
		add(3, func() {
			how := []string{"put", "put", "put", "stop", "pause", "close", "set-consumed", "set-consumed", "set-appended"}[r.Intn(9)]
			if how == "set-consumed" && g.ack > g.consumed {
				how = "put"
			}
			h.opConsumeWait(g, how)
		})
	}
	if g := h.pickGroup(func(g *mGroup) bool { return g.consumed >= g.ack }); g != nil {
		add(10, func() {
			s := g.ack + r.Int63n(g.consumed-g.ack+1)
			switch r.Intn(4) {
			case 0:
				s = g.consumed
			case 1:
				s = g.ack
			}
			h.opAck(g, s, "valid")
		})
	}
	if g := h.pickGroup(func(g *mGroup) bool { return true }); g != nil {
		add(3, func() {
			s := g.ack - 1
			if r.Intn(3) == 0 {
				s -= r.Int63n(4)
			}
			h.opAck(g, s, "stale")
		})
		add(3, func() {
			s := g.consumed + 1
			if g.ack > g.consumed {
				s = g.ack + 1
			}
			if r.Intn(3) == 0 {
				s += r.Int63n(4)
			}
			h.opAck(g, s, "future")
		})
		if g.ack <= h.appended {
			add(4, func() {
				s := g.ack + r.Int63n(h.appended-g.ack+1)
				if r.Intn(3) == 0 {
					s = g.ack // the local replicator's "replay from ack"
				}
				h.opSetConsumed(g, s)
			})
		}
		add(1, func() {
			var s int64
			if r.Intn(2) == 0 && g.ack > -1 {
				s = -1 + r.Int63n(g.ack+1) // in [-1, ack)
			} else {
				s = h.appended + 1 + r.Int63n(3)
				if g.ack > h.appended {
					s = g.ack + 1 + r.Int63n(3)
				}
			}
			h.opSetConsumed(g, s)
		})
		if !g.paused && r.Intn(4) == 0 {
			add(1, func() { h.opPause(g) })
		}
	}
	add(9, h.opSync)
	add(5, h.opGC)
	add(2, func() { // direct calls of the queue's SetAcknowledgedSeq
		switch r.Intn(3) {
		case 0:
			h.opQueueSetAck(h.appended+1+r.Int63n(3), "beyond-appended")
		case 1:
			h.opQueueSetAck(h.qack-r.Int63n(3), "not-forward")
		default:
			hi := h.appended
			for _, g := range h.existing() {
				if g.ack < hi {
					hi = g.ack
				}
			}
			if hi > h.qack {
				h.opQueueSetAck(h.qack+1+r.Int63n(hi-h.qack), "valid")
			} else {
				h.opQueueSetAck(h.qack, "not-forward")
			}
		}
	})
	add(3, func() { h.opCreate(groupPool[r.Intn(len(groupPool))]) })
	if o, name := h.pickCreateWhileSync(); o != nil {
		add(2, func() { h.opCreateWhileSync(name, o) })
	}
	if len(h.existing()) > 0 {
		add(2, func() {
			gs := h.existing()
			h.opStop(gs[r.Intn(len(gs))].name)
		})
	}
	add(1, func() {
		if r.Intn(4) == 0 {
			h.opStop("9") // never created
		} else {
			h.opCreate(groupPool[r.Intn(3)])
		}
	})
	add(3, h.opReopen)
	if r.Intn(6) == 0 {
		add(1, func() {
			s := h.appended - 3 + r.Int63n(7)
			if s < -1 {
				s = -1
			}
			h.opSetAppended(s)
		})
	}
	total := 0
	for _, c := range cs {
		total += c.w
	}
	x := r.Intn(total)
	for _, c := range cs {
		if x < c.w {
			c.fn()
			return
		}
		x -= c.w
	}
}

// pickCreateWhileSync: a group whose pending ack would let Sync move the queue ack, and a name that is not in the map.
func (h *hist) pickCreateWhileSync() (*mGroup, string) {
	if h.kind != "seq" && h.kind != "directed" {
		return nil, ""
	}
	var o *mGroup
	for _, g := range h.existing() {
		if g.suspended != "" || g.consumed <= g.ack || g.consumed > h.appended {
			continue
		}
		old := g.ack
		g.ack = g.consumed
		moves := h.syncResult(nil) > h.qack
		g.ack = old
		if moves {
			o = g
			break
		}
	}
	if o == nil {
		return nil, ""
	}
	off := h.rnd.Intn(len(groupPool))
	for i := range groupPool {
		name := groupPool[(off+i)%len(groupPool)]
		g, known := h.groups[name]
		if !known || (!g.exists && (!g.onDisk || (g.suspended == "" && !g.resetWhileStopped))) {
			return o, name
		}
	}
	return nil, ""
}

func (h *hist) genRandom(n int) {
	ng := 1 + h.rnd.Intn(3)
	for i := 0; i < ng && !h.failed; i++ {
		h.opCreate(groupPool[i])
	}
	for len(h.trace) < n && !h.failed {
		h.randomOp()
	}
}

// helper for the scripted prefixes
func (h *hist) drain(g *mGroup, upto int64, ackIt bool) {
	for !h.failed && g.consumed < upto && g.consumed < h.appended {
		h.opConsume(g)
	}
	if ackIt && !h.failed && g.consumed >= g.ack {
		h.opAck(g, g.consumed, "valid")
	}
}

func (h *hist) puts(n int) {
	for i := 0; i < n && !h.failed; i++ {
		h.opPut(h.smallSize())
	}
}

func (h *hist) genDirected() {
	r := h.rnd
	h.opCreate("1")
	h.opCreate("2")
	g1, g2 := h.groups["1"], h.groups["2"]
	if h.failed {
		return
	}
	k := 4 + r.Intn(12)
	h.puts(k)
	switch h.idx % 8 {
	case 4, 5:
		// the consumer of group 1 is parked in Consume on the drained queue while another goroutine moves the
		// group: SetConsumedSeq back into [ack, consumed) (4) or a forward SetAppendedSeq (5); then an append
		// wakes it. Afterwards: consume on, ack, sync, reopen.
		h.drain(g1, h.appended, false)
		if !h.failed && g1.consumed > 2 {
			h.opAck(g1, g1.consumed-2-h.rnd.Int63n(g1.consumed-2), "valid")
		}
		h.drain(g2, h.appended, true)
		if h.failed {
			return
		}
		if h.idx%8 == 4 {
			h.opConsumeWait(g1, "set-consumed")
		} else {
			h.opConsumeWait(g1, "set-appended")
		}
		if h.failed {
			return
		}
		h.puts(1 + r.Intn(3))
		h.drain(g1, h.appended, true)
		if !h.failed {
			h.opSync()
		}
		if !h.failed {
			h.opReopen()
		}
	case 6, 7:
		// a group that is not in the map - new (6), or stopped before (7) - is created while the other group
		// acknowledges what it consumed and Sync + GC run; then the created group consumes (everything read back)
		name := "4"
		if h.idx%8 == 7 {
			name = "2"
			h.drain(g2, int64(r.Intn(k)), true)
			h.opSync()
			h.opStop("2")
		} else {
			h.drain(g2, h.appended, true)
		}
		h.drain(g1, int64(r.Intn(k)), true)
		h.opSync()
		h.puts(1 + r.Intn(4))
		h.drain(g1, h.appended, false)
		if h.failed {
			return
		}
		if o, _ := h.pickCreateWhileSync(); o != nil {
			h.opCreateWhileSync(name, o)
		}
		if ng := h.groups[name]; !h.failed && ng != nil && ng.exists {
			h.drain(ng, h.appended, true)
		}
		if !h.failed {
			h.opSync()
			h.opGC()
		}
		if !h.failed {
			h.opReopen()
		}
	case 0, 1:
		// a group is stopped, the others go on, Sync moves the queue ack beyond the stopped group's ack,
		// then the stopped group comes back through reopen (0) or GetOrCreateConsumerGroup (1)
		c2 := int64(r.Intn(k))
		h.drain(g2, c2, true)
		if r.Intn(2) == 0 { // production stops a group only when it is empty
			h.drain(g2, h.appended, true)
		}
		h.opStop("2")
		h.puts(2 + r.Intn(8))
		h.drain(g1, h.appended, true)
		h.opSync()
		if r.Intn(2) == 0 {
			h.opGC()
		}
		if h.idx%8 == 0 {
			h.opReopen()
		} else {
			h.opCreate("2")
		}
	case 2:
		// a group created after the queue ack has moved
		h.drain(g1, h.appended, true)
		h.drain(g2, h.appended, true)
		h.opSync()
		h.opCreate("4")
		if g4 := h.groups["4"]; !h.failed && g4 != nil && g4.exists {
			for i := 0; i < 1+r.Intn(3) && !h.failed && g4.consumed < h.appended; i++ {
				h.opConsume(g4)
			}
		}
		h.puts(1 + r.Intn(4))
		if !h.failed {
			h.opSync()
		}
		if !h.failed {
			h.opReopen()
		}
	case 3:
		// a stopped group that is ahead of the queue ack: its positions must come back unchanged
		h.drain(g2, h.appended, true)
		h.drain(g1, int64(r.Intn(k)), true)
		h.opStop("2")
		h.puts(1 + r.Intn(5))
		h.opSync()
		h.opGC()
		if r.Intn(2) == 0 {
			h.opReopen()
		} else {
			h.opCreate("2")
		}
	}
	n := len(h.trace) + 15 + r.Intn(40)
	for len(h.trace) < n && !h.failed {
		h.randomOp()
	}
}

// genBig: 40-60 MiB messages so that data pages (128 MiB) roll over and GC removes page files, mixed with
// smaller messages so that a page holds several sequences; a fast and a slow group.
func (h *hist) genBig() {
	r := h.rnd
	h.fullEvery = 1 << 30 // full reads only where asked for
	h.opCreate("1")
	h.opCreate("2")
	fast, slow := h.groups["1"], h.groups["2"]
	var third *mGroup
	if r.Intn(2) == 0 {
		h.opCreate("3")
		third = h.groups["3"]
	}
	nBig := 4 + r.Intn(3)
	for i := 0; i < nBig && !h.failed; i++ {
		for j := r.Intn(3); j > 0 && !h.failed; j-- {
			h.opPut(16 + r.Intn(1<<20))
		}
		h.opPut((40 + r.Intn(21)) << 20)
		for j := r.Intn(3); j > 0 && !h.failed; j-- {
			h.opPut(16 + r.Intn(1<<16))
		}
		if h.failed {
			return
		}
		h.drain(fast, h.appended, true)
		// the slow group follows with a lag
		if lag := int64(r.Intn(4)); h.appended-lag > slow.consumed {
			h.drain(slow, h.appended-lag, r.Intn(3) > 0)
		}
		if third != nil && third.exists && !h.failed {
			switch r.Intn(4) {
			case 0:
				h.drain(third, h.appended, true)
			case 1:
				h.drain(third, h.appended, true)
				h.opStop("3")
			}
		}
		if h.failed {
			return
		}
		h.opSync()
		h.opGC()
		if !h.failed && r.Intn(3) == 0 {
			h.opReopen()
		}
	}
	if h.failed {
		return
	}
	// let everybody catch up: now the pages really go away
	h.drain(slow, h.appended-1, true)
	if third != nil && third.exists {
		h.drain(third, h.appended, true)
	}
	h.opSync()
	h.opGC()
	if !h.failed {
		h.opPut((40 + r.Intn(21)) << 20)
	}
	if !h.failed {
		h.opPut((70 + r.Intn(21)) << 20)
	}
	if !h.failed {
		h.drain(fast, h.appended, true)
		h.opSync()
		h.opGC()
	}
}

// genIndexRoll: more than 262144 messages of ~640 bytes, i.e. an index page roll-over AND a data page roll-over
// (> 128 MiB of payload), with a lagging group whose ack stays in the first index page while appended is in the
// second one (ack + 262144 <= appended, so the slot of the same offset in the newest index page is written and
// points into a later data page). After every Sync + GC ALL sequences above the smallest group ack are read back.
// Then the lagging group moves on: into the second data page (GC removes data page 0), into the second index
// page (GC removes index page 0), reopen, read everything back again.
func (h *hist) genIndexRoll() {
	const perPage = 1024 * 256
	r := h.rnd
	h.fullEvery = 1 << 30
	h.opCreate("1")
	h.opCreate("2")
	a, b := h.groups["1"], h.groups["2"]
	total := perPage + 2000 + r.Intn(1500)
	lag := int64(200 + r.Intn(total-perPage-300)) // lag + 262144 <= appended
	q := h.fq.Queue()
	// bulk phase without per-operation checks (the same calls, checked at the end of the phase)
	h.begin("bulk", fmt.Sprintf("bulk: %d puts of 560-720 bytes; group 1 consumes and acks all, group 2 consumes all and acks %d", total, lag))
	for i := 0; i < total; i++ {
		n := 560 + r.Intn(161)
		id := h.nextID
		h.nextID++
		if err := q.Put(makePayload(id, n)); err != nil {
			h.fail("C06/put-failed", "Put: %v", err)
			return
		}
		h.appended++
		h.msgs[h.appended] = msgInfo{id, n, h.backMark(h.appended)}
	}
	h.res.count("op.put", total)
	for _, g := range []*mGroup{a, b} {
		for g.consumed < h.appended {
			got := g.h.Consume()
			if got != g.consumed+1 {
				h.fail("C06/consume/not-consecutive", "group %s: Consume() = %d, expected %d", g.name, got, g.consumed+1)
				return
			}
			g.consumed = got
			if g == a && got%1000 == 0 {
				g.h.Ack(got)
				g.ack = got
			}
		}
	}
	h.res.count("op.consume", 2*total)
	a.h.Ack(a.consumed)
	a.ack = a.consumed
	b.h.Ack(lag)
	b.ack = lag
	h.after(true) // the queue ack is still -1: every message must be readable
	if h.failed {
		return
	}
	h.opSync() // queue ack = lag: first index page, first data page; appended is in the second of both
	h.opGC()   // nothing may go away: data page 0 holds lag+1..
	if h.failed {
		return
	}
	h.res.count("gc_with_ack_in_older_index_page_than_appended", 1)
	// the lagging group goes on reading what it has not acknowledged (set-consumed back to its ack: a replay)
	h.opSetConsumed(b, b.ack)
	for i := 0; i < 50 && !h.failed; i++ {
		h.opConsume(b)
	}
	if h.failed {
		return
	}
	h.opReopen()
	if h.failed {
		return
	}
	a, b = h.groups["1"], h.groups["2"]
	if h.idx%2 == 1 {
		// explicit index resets while the first index page (and the lagging group's unacknowledged messages in it)
		// still exist: backwards across the index page boundary, forwards again, backwards to just below the boundary
		h.rollResetsFirstPagePresent(total)
		if h.failed {
			return
		}
		a, b = h.groups["1"], h.groups["2"]
		// everybody catches up beyond the first index page: Sync + GC remove data page 0 and index page 0
		h.drain(a, h.appended, true)
		h.drain(b, h.appended, true)
		h.opSync()
		h.opGC()
	} else {
		// into the second data page, still in the first index page
		h.drain(b, perPage-40, true)
		h.opSync()
		h.opGC() // data page 0 goes away
		if h.failed {
			return
		}
		h.drain(b, perPage+int64(r.Intn(200)), true)
		h.opSync()
		h.opGC() // index page 0 goes away
	}
	if h.failed {
		return
	}
	h.opReopen()
	if h.failed {
		return
	}
	b = h.groups["2"]
	h.puts(20)
	h.drain(b, h.appended, true)
	h.opSync()
	h.opGC()
	if h.failed {
		return
	}
	// explicit index resets after GC removed the first index page
	h.rollResetsFirstPageRemoved(total)
}

func (h *hist) indexPageExists(p int64) bool {
	_, err := os.Stat(filepath.Join(h.dir, "index", fmt.Sprintf("%d.bat", p)))
	return err == nil
}

// afterResetRound: what a replica does after its index was reset: k appends of 560-720 bytes, every group consumes
// them (each consumed sequence is read back and compared), one group acknowledges a part, Sync + GC (nothing that is
// not acknowledged may go away: full read; gc=false: Sync only), the rest is consumed, close + reopen (full read), the lagging group
// rewinds to its ack and consumes the unacknowledged messages again, a few more appends, consume.
func (h *hist) afterResetRound(k int, reopenFirst, gc bool) {
	r := h.rnd
	if reopenFirst && !h.failed {
		h.opReopen() // the reset is the last thing the process did before it went down
	}
	put := func(n int) {
		for i := 0; i < n && !h.failed; i++ {
			h.opPut(560 + r.Intn(161))
		}
	}
	put(k)
	if h.failed {
		return
	}
	a, b := h.groups["1"], h.groups["2"]
	half := h.appended - int64(k/2)
	h.drain(a, half, true)
	h.drain(b, half, false)
	if !h.failed && b.consumed > b.ack+1 {
		h.opAck(b, b.ack+1+r.Int63n(b.consumed-b.ack-1), "valid")
	}
	if !h.failed {
		h.opSync()
	}
	if !h.failed && gc {
		h.opGC()
	}
	h.drain(a, h.appended, r.Intn(2) == 0)
	h.drain(b, h.appended, false)
	if h.failed {
		return
	}
	h.opReopen()
	if h.failed {
		return
	}
	a, b = h.groups["1"], h.groups["2"]
	h.opSetConsumed(b, b.ack) // replay of what is not acknowledged
	h.drain(b, h.appended, false)
	put(3 + r.Intn(5))
	h.drain(a, h.appended, true)
	h.drain(b, h.appended, r.Intn(2) == 0)
}

// rollResetsFirstPagePresent (appended > 262144, the first index page still exists, group 2 has unacknowledged
// messages in it):
//  1. SetAppendedSeq back to a sequence far inside the first index page, appends, consume + read-back, reopen;
//  2. SetAppendedSeq forward to a sequence of the second index page, appends, consume + read-back;
//  3. SetAppendedSeq back to 0-40 sequences below the page boundary, appends that cross the boundary forwards
//     again, consume + read-back, reopen.
func (h *hist) rollResetsFirstPagePresent(total int) {
	const perPage = indexItemsPerPage
	r := h.rnd
	if !h.indexPageExists(0) {
		h.res.inconclusive("indexroll %d: the first index page is already gone before the resets with the page present", h.idx)
		return
	}
	s1 := int64(1000 + r.Intn(perPage-2000))
	h.opSetAppended(s1)
	h.afterResetRound(20+r.Intn(30), false, true)
	if h.failed {
		return
	}
	// forward onto the second index page (a sequence that was appended in the first life of the index)
	s2 := int64(perPage + 10 + r.Intn(total-perPage-20))
	h.opSetAppended(s2)
	h.afterResetRound(6+r.Intn(10), false, false) // Sync but no GC: the first index page stays
	if h.failed {
		return
	}
	// back to just below the boundary (0: the next append is the first one of the second page again)
	below := []int64{0, 1, 2, int64(3 + r.Intn(38))}[r.Intn(4)]
	if h.idx%4 == 1 {
		below = int64(3 + r.Intn(38)) // the quick tier's history always goes back below the boundary
	}
	h.opSetAppended(perPage - 1 - below)
	if below == 0 {
		h.res.count("index_reset.onto_last_sequence_of_an_index_page", 1)
	}
	h.afterResetRound(int(below)+20+r.Intn(20), false, true)
}

// rollResetsFirstPageRemoved (every group acknowledged beyond 262144, GC removed the first index page):
//  1. SetAppendedSeq back into the removed page, appends, consume + read-back, Sync + GC, reopen, replay;
//  2. forward onto the second page, appends; back onto sequences of the first page that were written in round 1;
//  3. forward again; back again with close + reopen between the reset and the first append.
func (h *hist) rollResetsFirstPageRemoved(total int) {
	const perPage = indexItemsPerPage
	r := h.rnd
	if h.indexPageExists(0) || h.fq.Queue().AcknowledgedSeq() < perPage {
		h.res.inconclusive("indexroll %d: GC did not remove the first index page (queue ack %d) before the resets with the page removed", h.idx, h.fq.Queue().AcknowledgedSeq())
		return
	}
	var s1 int64
	switch r.Intn(3) {
	case 0:
		s1 = perPage - 2 - int64(r.Intn(40)) // just below the boundary: the appends cross it forwards again
	default:
		s1 = int64(100 + r.Intn(perPage-1000))
	}
	h.opSetAppended(s1)
	k1 := 20 + r.Intn(30)
	h.afterResetRound(k1, false, true)
	if h.failed {
		return
	}
	fwd := func() {
		s := int64(perPage + 10 + r.Intn(total-perPage-20))
		if s <= h.appended {
			s = h.appended + 1 + int64(r.Intn(50))
		}
		h.opSetAppended(s)
		h.afterResetRound(4+r.Intn(8), false, true)
	}
	fwd()
	if h.failed {
		return
	}
	// back onto sequences that hold messages of round 1 (the page exists again, with other messages in these slots)
	s3 := s1 + int64(r.Intn(k1))
	if s3 >= perPage-1 {
		s3 = perPage - 2
	}
	h.opSetAppended(s3)
	h.afterResetRound(10+r.Intn(20), false, true)
	if h.failed {
		return
	}
	fwd()
	if h.failed {
		return
	}
	s5 := int64(100 + r.Intn(perPage-1000))
	h.opSetAppended(s5)
	h.afterResetRound(10+r.Intn(20), true, true)
}

// errKind classifies why Get refused a sequence: at or below the queue ack (the queue ack outran a group), or the
// page that held it is gone (GC removed too much).
func errKind(err error) string {
	switch {
	case errors.Is(err, queue.ErrOutOfSequenceRange):
		return "out-of-sequence-range"
	case errors.Is(err, queue.ErrMsgNotFound):
		return "page-gone"
	}
	return "other-error"
}
