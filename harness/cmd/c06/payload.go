package main

import "encoding/binary"

// Payloads are unique and self-describing: "C6" magic, message id, total length, then a body that is a
// function of (id, position). A message read back can therefore be verified without keeping a copy.

const payloadHeader = 16

func mix(x uint64) uint64 {
	x *= 0x9E3779B97F4A7C15
	x ^= x >> 29
	x *= 0xBF58476D1CE4E5B9
	x ^= x >> 32
	return x
}

func makePayload(id uint32, n int) []byte {
	if n < payloadHeader {
		n = payloadHeader
	}
	b := make([]byte, n)
	b[0], b[1], b[2], b[3] = 'C', '6', 'p', 'l'
	binary.LittleEndian.PutUint32(b[4:], id)
	binary.LittleEndian.PutUint32(b[8:], uint32(n))
	binary.LittleEndian.PutUint32(b[12:], ^id)
	base := uint64(id) << 32
	i := payloadHeader
	w := uint64(0)
	for ; i+8 <= n; i += 8 {
		binary.LittleEndian.PutUint64(b[i:], mix(base|w))
		w++
	}
	if i < n {
		var tail [8]byte
		binary.LittleEndian.PutUint64(tail[:], mix(base|w))
		copy(b[i:], tail[:])
	}
	return b
}

// checkPayload verifies that b is exactly the payload (id, n). It returns "" or a description of the difference.
func checkPayload(b []byte, id uint32, n int) string {
	if n < payloadHeader {
		n = payloadHeader
	}
	if len(b) != n {
		return "length differs"
	}
	if b[0] != 'C' || b[1] != '6' || b[2] != 'p' || b[3] != 'l' {
		return "magic differs"
	}
	if binary.LittleEndian.Uint32(b[4:]) != id || binary.LittleEndian.Uint32(b[12:]) != ^id {
		return "holds another message id"
	}
	if binary.LittleEndian.Uint32(b[8:]) != uint32(n) {
		return "length field differs"
	}
	base := uint64(id) << 32
	i := payloadHeader
	w := uint64(0)
	for ; i+8 <= n; i += 8 {
		if binary.LittleEndian.Uint64(b[i:]) != mix(base|w) {
			return "body differs"
		}
		w++
	}
	if i < n {
		var tail [8]byte
		binary.LittleEndian.PutUint64(tail[:], mix(base|w))
		for j := 0; i+j < n; j++ {
			if b[i+j] != tail[j] {
				return "body tail differs"
			}
		}
	}
	return ""
}

// payloadID returns the id a buffer claims to carry (for messages).
func payloadID(b []byte) (uint32, bool) {
	if len(b) < payloadHeader || b[0] != 'C' || b[1] != '6' {
		return 0, false
	}
	return binary.LittleEndian.Uint32(b[4:]), true
}
