// C05 — WAL queue: an appended message keeps its sequence and its bytes.
//
// Child processes run (a) stress runs with concurrent appenders and seeded delays injected inside the page
// store of an append (the only code between allocation and publication), (b) directed two-appender
// interleavings in which one appender is parked inside its page store while the other publishes, and
// (c) crash histories in which the queue directory is imaged after every individual store of an append.
// Zero-length messages (no header: identified by their sequence) are part of every family's traffic, and the
// "emptytail" family (emptytail.go) makes them the last appends before the queue directory is opened again.
// The oracle checks payload<->sequence bijection, density, real-time order, byte equality across
// reopen, that a later append never alters an earlier message, and all-or-nothing on crash images.
package main

import (
	"encoding/json"
	"fmt"
	"os"
	"path/filepath"
	"strconv"
	"strings"
	"time"

	"github.com/lindb/lindb/verif/internal/core"
	"github.com/lindb/lindb/verif/internal/racefilter"
)

type caseResult struct {
	Kind       string           `json:"kind"`
	Index      int              `json:"index"`
	Config     string           `json:"config"`
	Counters   map[string]int   `json:"counters"`
	Violations []core.Violation `json:"violations"`
	Nontrivial []string         `json:"nontrivial"`
	Sample     interface{}      `json:"sample"`
	Evals      int              `json:"evals"`
}

type job struct {
	kind string
	idx  int
	race bool
}

func main() {
	if len(os.Args) > 1 && os.Args[1] == "case" {
		runCase()
		return
	}
	c := core.New("C05", "fault_enumeration")
	c.SetRule("cases: (stress) one run of 2-16 concurrent appenders with unique self-describing payloads, readers, reopen and re-append; " +
		"(interleave) one directed two-appender schedule where appender A is parked inside its page store until B has published k messages; " +
		"(crash) one image of the queue directory taken after an individual store (payload bytes, index fields, appended-sequence) of an append; " +
		"(gcroll) one round of GC() releasing acknowledged index pages while the appender rolls over to a new index page, read back in the same process and after reopen; " +
		"(putfault) one history in which one page-factory operation (acquisition of the next index / data page at a roll-over, sync of the page left, or one of the operations of NewQueue) fails once or twice, " +
		"the failed Put / NewQueue is repeated, appends go on and every retained sequence is read back live and after reopen; " +
		"(emptytail) one history in which one to three zero-length messages are the last appends before the queue directory is opened again (after Close or without it), on data page 0, on data page 1 after a roll-over, " +
		"with data page 0 released by GC, at the last byte of a data page, or with nothing but empty messages retained; non-empty appends follow and every retained sequence is read back after each. " +
		"Zero-length messages (identified by sequence, not by header) are also part of the stress, interleave, crash, gcroll, backreset and putfault traffic, in the middle of the log and as the last append before a reopen / on a crash image. " +
		"Non-trivial = stress/interleave run in which a Put was called while another appender was inside its page store (overlap observed at the page wrapper), " +
		"or an image strictly inside an append, or a reopen placed at a page boundary, or a fault history whose planned operation really failed; distinct by (kind, index, image hash / round).")
	c.Assume("process-kill fault model: dirty MAP_SHARED pages survive; torn 8-byte stores are not modelled")
	c.Assume("wall-clock is used only by the workload driver to give a parked appender up (never by the oracle)")
	var jobs []job
	raceBin := os.Getenv("VERIF_RACE_BIN")
	nStress := c.Pick(20, 400)
	for i := 0; i < nStress; i++ {
		jobs = append(jobs, job{"stress", i, raceBin != "" && i%2 == 1})
	}
	nInter := c.Pick(14, 280)
	for i := 0; i < nInter; i++ {
		jobs = append(jobs, job{"interleave", i, false})
	}
	nCrash := c.Pick(8, 160)
	for i := 0; i < nCrash; i++ {
		jobs = append(jobs, job{"crash", i, false})
	}
	for i := 0; i < 6; i++ { // close/reopen exactly at index- and data-page boundaries
		jobs = append(jobs, job{"boundary", i, false})
	}
	if !c.Quick() {
		jobs = append(jobs, job{"indexroll", 0, false})
	}
	for i := 0; i < c.Pick(2, 8); i++ { // backward reset of the append position across an index page boundary, then appends
		jobs = append(jobs, job{"backreset", i, false})
	}
	for i := 0; i < c.Pick(3, 12); i++ { // GC releasing acknowledged pages while appends roll over to a new index page
		jobs = append(jobs, job{"gcroll", i, false})
	}
	nFault := c.Pick(8, 32) // transient page faults: a Put / NewQueue that fails once, is repeated, then everything is read back
	for i := 0; i < nFault; i++ {
		jobs = append(jobs, job{"putfault", i, false})
	}
	nEmpty := c.Pick(12, 96) // empty messages as the last appends before the queue is opened again
	for i := 0; i < nEmpty; i++ {
		jobs = append(jobs, job{"emptytail", i, false})
	}
	scratch := c.Scratch()
	results := make([]*caseResult, len(jobs))
	raceOut := make([]string, len(jobs))
	died := make([]string, len(jobs))
	core.Parallel(len(jobs), 8, func(i int) {
		j := jobs[i]
		dir := filepath.Join(scratch, fmt.Sprintf("%s%04d", j.kind, j.idx))
		_ = os.MkdirAll(dir, 0o755)
		bin := ""
		env := []string{"VERIF_SEED=" + strconv.FormatInt(c.Seed, 10)}
		if j.race {
			bin = raceBin
			env = append(env, "GORACE=halt_on_error=0 exitcode=0 log_path="+filepath.Join(dir, "race"))
		}
		res := core.RunChild(bin, []string{"case", j.kind, strconv.Itoa(j.idx), dir, c.Tier}, env, 15*time.Minute, filepath.Join(dir, "child.log"))
		r := &caseResult{Kind: j.kind, Index: j.idx}
		data, err := os.ReadFile(filepath.Join(dir, "result.json"))
		if err == nil {
			err = json.Unmarshal(data, r)
		}
		if j.race {
			raceOut[i] = racefilter.ReadLogs(filepath.Join(dir, "race"), filepath.Join(dir, "child.log"))
		}
		if res.TimedOut {
			died[i] = "watchdog"
		} else if err != nil || res.ExitCode != 0 {
			died[i] = fmt.Sprintf("exit=%d err=%v tail: %s", res.ExitCode, err, tailStr(res.Output, 4000))
		}
		results[i] = r
		_ = os.RemoveAll(dir)
	})
	for i, r := range results {
		j := jobs[i]
		if died[i] == "watchdog" {
			c.Inconclusive("%s %d: watchdog fired", j.kind, j.idx)
			continue
		}
		if died[i] != "" {
			if strings.Contains(died[i], "pkg/queue") || strings.Contains(died[i], "unexpected fault address") {
				c.Violation("C05/process-died-in-queue", fmt.Sprintf("%s %d: %s", j.kind, j.idx, died[i]), nil)
			} else {
				c.Inconclusive("%s %d: child failed: %s", j.kind, j.idx, tailStr(died[i], 600))
			}
			continue
		}
		c.Eval(r.Evals)
		c.Count("cases."+j.kind, 1)
		for k, v := range r.Counters {
			c.Count(k, v)
		}
		for _, k := range r.Nontrivial {
			c.Nontrivial(k)
		}
		if r.Sample != nil && (j.idx == 0) {
			c.Sample(r.Sample)
		}
		for _, v := range r.Violations {
			c.Violation(v.Class, fmt.Sprintf("%s %d (%s): %s", j.kind, j.idx, r.Config, v.Message), v.Witness)
		}
		if j.race {
			reports := racefilter.Parse(raceOut[i])
			c.Count("race_reports_total", len(reports))
			c.Count("runs_under_race_detector", 1)
			for _, rep := range racefilter.Attributed(reports, []string{"pkg/queue/"}) {
				c.Violation("C05/data-race/"+strings.Join(rep.TopFrames, "+"), fmt.Sprintf("stress %d: data race with top frames %v", j.idx, rep.TopFrames), rep.Text)
			}
		}
	}
	if nFault > 0 && c.Violations() == 0 {
		// the fault family decides nothing unless the failing Puts / opens were really observed
		for _, name := range []string{
			"putfault.puts_failed_by_an_injected_fault.index-page-roll-over",
			"putfault.puts_failed_by_an_injected_fault.data-page-roll-over",
			"putfault.successful_puts_after_a_failed_put",
			"putfault.read_backs_of_all_retained_sequences_after_a_failed_put",
			"putfault.opens_failed_by_an_injected_fault.empty-directory",
			"putfault.opens_failed_by_an_injected_fault.queue-with-messages",
		} {
			if c.Counter(name) == 0 {
				c.Inconclusive("fault family: %s = 0 (the injected fault never made a Put / NewQueue fail)", name)
			}
		}
		if n := c.Counter("putfault.histories_where_the_planned_fault_was_not_reached"); n > 0 {
			c.Inconclusive("fault family: %d histories never reached the operation that was planned to fail", n)
		}
	}
	if c.Violations() == 0 {
		// empty messages decide nothing unless the situations were really observed
		for _, name := range []string{
			"empty.empty_messages_appended",
			"empty.empty_messages_read_back_under_their_sequence",
			"empty.opens_with_an_empty_message_at_the_tail.close-reopen",
			"empty.opens_with_an_empty_message_at_the_tail.open-without-close",
			"empty.appends_right_after_an_open_behind_an_empty_message",
			"empty.crash_images_whose_last_appended_message_is_empty",
			"emptytail.histories_with_the_write_position_behind_a_data_page_roll_over",
			"emptytail.histories_with_data_page_0_released_by_gc",
		} {
			if c.Counter(name) == 0 {
				c.Inconclusive("empty messages: %s = 0 (the situation was never observed)", name)
			}
		}
		if n := c.Counter("emptytail.histories_where_an_open_was_not_behind_an_empty_message"); n > 0 {
			c.Inconclusive("empty messages: %d emptytail histories opened the queue with something else than an empty message at the tail", n)
		}
	}
	c.Finish()
}

func tailStr(s string, n int) string {
	if len(s) > n {
		return s[len(s)-n:]
	}
	return s
}
