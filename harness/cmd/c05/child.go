package main

import (
	"bytes"
	"encoding/json"
	"fmt"
	"math/rand"
	"os"
	"path/filepath"
	"runtime/debug"
	"sort"
	"strconv"
	"sync"
	"sync/atomic"
	"time"

	"github.com/lindb/lindb/pkg/queue"
	"github.com/lindb/lindb/verif/internal/core"
	"github.com/lindb/lindb/verif/internal/imgfs"
	"github.com/lindb/lindb/verif/internal/seam"
)

// ---- payloads: [producer u8][counter u24] + pseudo random body determined by (producer, counter, length) ----

// n == 0 is the empty message: it carries no header, so the oracle identifies it by its sequence (see emptyRecAt).
func payload(prod, ctr, n int) []byte {
	if n == 0 {
		return []byte{}
	}
	if n < 4 {
		n = 4
	}
	b := make([]byte, n)
	b[0] = byte(prod)
	b[1] = byte(ctr >> 16)
	b[2] = byte(ctr >> 8)
	b[3] = byte(ctr)
	if prod == sparseProducer {
		// a big message that is all zeros between its header and a 16 byte tail: cheap to image (sparse copy)
		for i := n - 16; i < n && i >= 4; i++ {
			b[i] = byte(0xA5 ^ i)
		}
		return b
	}
	x := uint64(prod)*0x9E3779B97F4A7C15 + uint64(ctr)*0xBF58476D1CE4E5B9 + uint64(n)
	for i := 4; i < n; i++ {
		x ^= x << 13
		x ^= x >> 7
		x ^= x << 17
		b[i] = byte(x)
	}
	return b
}

const sparseProducer = 250

func identify(b []byte) (prod, ctr int, ok bool) {
	if len(b) < 4 {
		return 0, 0, false
	}
	return int(b[0]), int(b[1])<<16 | int(b[2])<<8 | int(b[3]), true
}

type putRec struct {
	Prod   int    `json:"prod"`
	Ctr    int    `json:"ctr"`
	Len    int    `json:"len"`
	Call   int64  `json:"call"`
	Ret    int64  `json:"ret"`
	Err    string `json:"err,omitempty"`
	Seq    int64  `json:"seq"`
	First  int    `json:"first_image,omitempty"`
	Last   int    `json:"last_image,omitempty"`
	Page   string `json:"-"`
	Offset int    `json:"-"`
	Alloc  int64  `json:"alloc_order"`
}

type state struct {
	mu        sync.Mutex
	clock     int64
	puts      map[[2]int]*putRec
	res       *caseResult
	allocTick int64
	inBytes   int32 // number of appenders currently inside their page store
	overlaps  int32
	tag       string // fault families: names the injected fault; replaces the order tag in violation classes
	// empty messages (length 0) carry no header: they are kept in call order and matched to sequences
	empties       []*putRec
	emptyTailOpen bool // the queue was (re)opened while its last appended message was an empty one
}

// sfx is the class suffix of the fault families ("" everywhere else).
// A history in which the queue was opened with an empty message as its last appended one says so in the class.
func (s *state) sfx() string {
	s.mu.Lock()
	et := s.emptyTailOpen
	s.mu.Unlock()
	t := s.tag
	if et {
		if t != "" {
			t += "+"
		}
		t += emptyTailTag
	}
	if t != "" {
		return "/" + t
	}
	return ""
}

func newState(res *caseResult) *state {
	return &state{puts: map[[2]int]*putRec{}, res: res}
}

func (s *state) tick() int64 { return atomic.AddInt64(&s.clock, 1) }

func (s *state) violate(class, format string, args ...interface{}) {
	s.mu.Lock()
	defer s.mu.Unlock()
	s.res.Counters["violations."+class]++
	for _, v := range s.res.Violations {
		if v.Class == class {
			return
		}
	}
	s.res.Violations = append(s.res.Violations, core.Violation{Class: class, Message: fmt.Sprintf(format, args...)})
}

func (s *state) count(name string, n int) {
	s.mu.Lock()
	s.res.Counters[name] += n
	s.mu.Unlock()
}

// doPut performs one append and records it.
func (s *state) doPut(q queue.Queue, prod, ctr, n int, world *imgfs.World) *putRec {
	data := payload(prod, ctr, n)
	rec := &putRec{Prod: prod, Ctr: ctr, Len: len(data), Seq: -1}
	s.mu.Lock()
	s.puts[[2]int{prod, ctr}] = rec
	if len(data) == 0 {
		s.empties = append(s.empties, rec)
		s.res.Counters["empty.empty_messages_appended"]++
	}
	s.mu.Unlock()
	if world != nil {
		rec.First = world.Count()
	}
	if atomic.LoadInt32(&s.inBytes) > 0 {
		atomic.AddInt32(&s.overlaps, 1)
	}
	rec.Call = s.tick()
	err := q.Put(data)
	rec.Ret = s.tick()
	if world != nil {
		rec.Last = world.Count()
	}
	if err != nil {
		rec.Err = err.Error()
	}
	return rec
}

// doPutSeq is doPut for a moment without any other appender: the sequence the message was published under is the
// appended sequence right after the Put (noted only if it moved by exactly one).
func (s *state) doPutSeq(q queue.Queue, prod, ctr, n int, world *imgfs.World) *putRec {
	before := q.AppendedSeq()
	rec := s.doPut(q, prod, ctr, n, world)
	if after := q.AppendedSeq(); rec.Err == "" && after == before+1 {
		s.mu.Lock()
		rec.Seq = after
		s.mu.Unlock()
	}
	return rec
}

// onBytes is called by the page wrapper before the payload store of an append.
func (s *state) onBytes(path string, offset int, data []byte) {
	prod, ctr, ok := identify(data)
	if !ok {
		return
	}
	s.mu.Lock()
	if rec := s.puts[[2]int{prod, ctr}]; rec != nil && rec.Page == "" {
		rec.Page, rec.Offset = path, offset
		s.allocTick++
		rec.Alloc = s.allocTick
	}
	s.mu.Unlock()
}

// verifyAll reads every readable sequence and checks it against the recorded appends.
// prev (may be nil) is the seq->bytes map of an earlier phase; it is compared for the sequences still readable.
func (s *state) verifyAll(q queue.Queue, phase string, requireAcked bool, prev map[int64][]byte) map[int64][]byte {
	app, ack := q.AppendedSeq(), q.AcknowledgedSeq()
	out := map[int64][]byte{}
	seen := map[[2]int]int64{}
	emptyAt := s.emptyIndex()
	emptyRead := 0
	for seq := ack + 1; seq <= app; seq++ {
		data, err := q.Get(seq)
		if err != nil {
			s.violate("C05/get-fails-above-ack"+s.sfx(), "%s: Get(%d) with appended=%d ack=%d: %v", phase, seq, app, ack, err)
			continue
		}
		cp := append([]byte(nil), data...)
		out[seq] = cp
		prod, ctr, ok := identify(cp)
		var rec *putRec
		if ok {
			s.mu.Lock()
			rec = s.puts[[2]int{prod, ctr}]
			s.mu.Unlock()
		} else if len(cp) == 0 {
			// an empty message is identified by its sequence
			if rec = emptyAt(seq); rec != nil {
				prod, ctr = rec.Prod, rec.Ctr
				emptyRead++
			}
		}
		if rec == nil {
			s.violate("C05/unknown-bytes-at-sequence"+s.sfx(), "%s: sequence %d holds %d bytes that no append wrote (head % x)", phase, seq, len(cp), head(cp))
			continue
		}
		if !bytes.Equal(cp, payload(rec.Prod, rec.Ctr, rec.Len)) {
			class := "C05/bytes-differ"
			if prev != nil {
				if old, ok := prev[seq]; ok && !bytes.Equal(old, cp) {
					class = "C05/later-put-alters-earlier-message"
				}
			}
			s.violate(class+"/"+s.orderTag(), "%s: sequence %d (producer %d counter %d len %d) does not hold the appended bytes (got %d bytes, head % x)", phase, seq, prod, ctr, rec.Len, len(cp), head(cp))
			continue
		}
		if old, dup := seen[[2]int{prod, ctr}]; dup {
			s.violate("C05/payload-under-two-sequences"+s.sfx(), "%s: producer %d counter %d readable under sequences %d and %d", phase, prod, ctr, old, seq)
		}
		seen[[2]int{prod, ctr}] = seq
		if rec.Seq >= 0 && rec.Seq != seq {
			s.violate("C05/sequence-changed/"+s.orderTag(), "%s: producer %d counter %d was at sequence %d, now at %d", phase, prod, ctr, rec.Seq, seq)
		}
		if rec.Seq < 0 {
			rec.Seq = seq
		}
	}
	if prev != nil {
		for seq, old := range prev {
			if seq <= ack {
				continue
			}
			now, ok := out[seq]
			if !ok {
				s.violate("C05/message-lost/"+s.orderTag(), "%s: sequence %d was readable before and is not any more (appended=%d ack=%d)", phase, seq, app, ack)
			} else if !bytes.Equal(old, now) {
				s.violate("C05/later-put-alters-earlier-message/"+s.orderTag(), "%s: sequence %d changed from %d bytes (head % x) to %d bytes (head % x)", phase, seq, len(old), head(old), len(now), head(now))
			}
		}
	}
	if requireAcked {
		s.mu.Lock()
		var recs []*putRec
		for _, r := range s.puts {
			recs = append(recs, r)
		}
		s.mu.Unlock()
		okPuts := 0
		for _, r := range recs {
			if r.Err != "" || r.Ret == 0 {
				continue
			}
			okPuts++
			if _, ok := seen[[2]int{r.Prod, r.Ctr}]; !ok && (r.Seq < 0 || r.Seq > ack) {
				s.violate("C05/acknowledged-append-missing/"+s.orderTag(), "%s: append producer %d counter %d len %d returned success but is not readable (appended=%d ack=%d)", phase, r.Prod, r.Ctr, r.Len, app, ack)
			}
		}
	}
	s.count("sequences_read_back", len(out))
	s.count("empty.empty_messages_read_back_under_their_sequence", emptyRead)
	return out
}

// emptyIndex returns the lookup "which empty append was published under this sequence". Appends whose sequence is
// already known (single-appender histories note it when Put returns, others when the message was first read back)
// are found by it; an empty message read at a sequence that is not known yet is given to the earliest called empty
// append that returned success and has no sequence yet (matching in call order: it never produces a real-time order
// or density complaint that another matching would avoid). nil = no empty append explains this sequence.
func (s *state) emptyIndex() func(seq int64) *putRec {
	s.mu.Lock()
	bySeq := map[int64]*putRec{}
	var open []*putRec
	for _, r := range s.empties {
		switch {
		case r.Seq >= 0:
			bySeq[r.Seq] = r
		case r.Err == "" && r.Ret > 0:
			open = append(open, r)
		}
	}
	s.mu.Unlock()
	sort.SliceStable(open, func(i, j int) bool { return open[i].Call < open[j].Call })
	return func(seq int64) *putRec {
		if r := bySeq[seq]; r != nil {
			return r
		}
		if len(open) == 0 {
			return nil
		}
		r := open[0]
		open = open[1:]
		bySeq[seq] = r
		return r
	}
}

// noteOpen is called after every NewQueue on a directory that holds messages: it records (for the evidence and for
// the violation class) that the write position was restored from the index entry of an empty message.
func (s *state) noteOpen(q queue.Queue, how string) bool {
	if !s.emptyTailExpected(q) {
		return false
	}
	s.mu.Lock()
	s.emptyTailOpen = true
	s.res.Counters["empty.opens_with_an_empty_message_at_the_tail"]++
	s.res.Counters["empty.opens_with_an_empty_message_at_the_tail."+how]++
	s.mu.Unlock()
	return true
}

// emptyTailExpected: the append recorded at q's appended sequence is an empty one (decided from the records, not from
// what the queue returns).
func (s *state) emptyTailExpected(q queue.Queue) bool {
	app := q.AppendedSeq()
	s.mu.Lock()
	defer s.mu.Unlock()
	for i := len(s.empties) - 1; i >= 0; i-- {
		if s.empties[i].Seq == app && app >= 0 {
			return true
		}
	}
	return false
}

func head(b []byte) []byte {
	if len(b) > 8 {
		return b[:8]
	}
	return b
}

// orderTag tells whether publication order differed from allocation order in this history
// (observed at the page wrapper); it is part of the violation class.
func (s *state) orderTag() string {
	if s.tag != "" {
		return s.sfx()[1:]
	}
	if s.reordered() {
		return "publication-order-differs-from-allocation-order"
	}
	if t := s.sfx(); t != "" {
		return t[1:]
	}
	return "appends-in-allocation-order"
}

func (s *state) reordered() bool {
	s.mu.Lock()
	defer s.mu.Unlock()
	var recs []*putRec
	for _, r := range s.puts {
		if r.Seq >= 0 && r.Alloc > 0 {
			recs = append(recs, r)
		}
	}
	sort.Slice(recs, func(i, j int) bool { return recs[i].Seq < recs[j].Seq })
	for i := 1; i < len(recs); i++ {
		if recs[i].Alloc < recs[i-1].Alloc {
			return true
		}
	}
	return false
}

// checkOrder: density and real-time order of the sequences of all successful appends.
func (s *state) checkOrder(q queue.Queue, phase string, startSeq int64) {
	s.mu.Lock()
	var recs []*putRec
	for _, r := range s.puts {
		if r.Err == "" && r.Ret > 0 {
			recs = append(recs, r)
		}
	}
	s.mu.Unlock()
	app := q.AppendedSeq()
	if want := startSeq + int64(len(recs)); app != want {
		s.violate("C05/sequences-not-dense"+s.sfx(), "%s: %d successful appends after sequence %d but appended sequence is %d", phase, len(recs), startSeq, app)
	}
	// A returned before B was called => seq(A) < seq(B)
	byRet := append([]*putRec(nil), recs...)
	sort.Slice(byRet, func(i, j int) bool { return byRet[i].Ret < byRet[j].Ret })
	byCall := append([]*putRec(nil), recs...)
	sort.Slice(byCall, func(i, j int) bool { return byCall[i].Call < byCall[j].Call })
	maxSeq := int64(-1 << 62)
	var maxRec *putRec
	i := 0
	for _, b := range byCall {
		for i < len(byRet) && byRet[i].Ret < b.Call {
			if byRet[i].Seq > maxSeq {
				maxSeq, maxRec = byRet[i].Seq, byRet[i]
			}
			i++
		}
		if maxRec != nil && b.Seq >= 0 && b.Seq < maxSeq {
			s.violate("C05/real-time-order", "%s: append (p%d,c%d) returned at %d with sequence %d, append (p%d,c%d) was called at %d and got sequence %d",
				phase, maxRec.Prod, maxRec.Ctr, maxRec.Ret, maxRec.Seq, b.Prod, b.Ctr, b.Call, b.Seq)
			break
		}
	}
}

const pageSize = 128 << 20

func runCase() {
	kind := os.Args[2]
	idx, _ := strconv.Atoi(os.Args[3])
	dir := os.Args[4]
	tier := os.Args[5]
	debug.SetPanicOnFault(true)
	seed, _ := strconv.ParseInt(os.Getenv("VERIF_SEED"), 10, 64)
	res := &caseResult{Kind: kind, Index: idx, Counters: map[string]int{}}
	switch kind {
	case "stress":
		caseStress(res, idx, dir, seed, tier)
	case "interleave":
		caseInterleave(res, idx, dir, seed)
	case "crash":
		caseCrash(res, idx, dir, seed)
	case "indexroll":
		caseIndexRoll(res, dir)
	case "boundary":
		caseBoundary(res, idx, dir)
	case "gcroll":
		caseGCRoll(res, idx, dir, seed, tier)
	case "backreset":
		caseBackReset(res, idx, dir, seed, tier)
	case "putfault":
		casePutFault(res, idx, dir, seed, tier)
	case "emptytail":
		caseEmptyTail(res, idx, dir, seed)
	}
	seam.Restore()
	data, _ := json.Marshal(res)
	if err := os.WriteFile(filepath.Join(dir, "result.json"), data, 0o644); err != nil {
		fmt.Println(err)
		os.Exit(3)
	}
}

func sizeOf(r *rand.Rand) int {
	switch r.Intn(20) {
	case 0:
		return 4
	case 1:
		return 5 + r.Intn(3)
	case 2:
		return 65536
	case 3:
		return 20000 + r.Intn(45000)
	default:
		return 8 + r.Intn(1500)
	}
}

// ---- (a) stress ----

func caseStress(res *caseResult, idx int, dir string, seed int64, tier string) {
	r := rand.New(rand.NewSource(seed*9176 + int64(idx)*131 + 5))
	appenders := 2 + r.Intn(15)
	perApp := 5 + r.Intn(30)
	delayUs := []int{0, 50, 500, 3000}[r.Intn(4)]
	big := idx%7 == 0 // a few messages of 40-60MiB so that data pages roll over
	// empty messages: one of the appenders sends a few zero-length messages among its others (idx%3 != 2), and the last
	// message before close/reopen is an empty one (idx%4 < 2)
	withEmpty := idx%3 != 2
	emptyTail := idx%4 < 2
	re := rand.New(rand.NewSource(seed*6007 + int64(idx)*53 + 9))
	res.Config = fmt.Sprintf("appenders=%d perAppender=%d delayUs=%d big=%v emptyMessages=%v emptyTail=%v", appenders, perApp, delayUs, big, withEmpty, emptyTail)
	st := newState(res)
	var dmu sync.Mutex
	dr := rand.New(rand.NewSource(seed + int64(idx)))
	seam.InstallQueuePages(seam.Direct{}, &seam.Observer{
		PageWriteData: func(path string, offset int, data []byte) {
			st.onBytes(path, offset, data)
			atomic.AddInt32(&st.inBytes, 1)
			if delayUs > 0 {
				dmu.Lock()
				d := dr.Intn(delayUs + 1)
				dmu.Unlock()
				time.Sleep(time.Duration(d) * time.Microsecond)
			}
		},
		PageWriteDone: func() { atomic.AddInt32(&st.inBytes, -1) },
	})
	qdir := filepath.Join(dir, "q")
	q, err := queue.NewQueue(qdir, pageSize)
	if err != nil {
		st.violate("C05/open-fails", "NewQueue: %v", err)
		return
	}
	// plan
	type plan struct{ prod, ctr, n int }
	plans := make([][]plan, appenders)
	for a := 0; a < appenders; a++ {
		for c := 0; c < perApp; c++ {
			n := sizeOf(r)
			if big && a < 2 && c == perApp/2 {
				n = (40 + r.Intn(20)) << 20
			} else if withEmpty && a == appenders-1 && (c == perApp-1 || re.Intn(4) == 0) {
				n = 0 // only one appender sends empty messages: its k-th empty message is the k-th empty sequence
			}
			plans[a] = append(plans[a], plan{a + 1, c, n})
		}
	}
	var wg sync.WaitGroup
	var stop atomic.Bool
	var emu sync.Mutex
	readEmpty := map[int64]bool{} // sequences a concurrent reader saw as an empty message
	// readers: an already published sequence always shows the bytes of one append
	for ri := 0; ri < 2; ri++ {
		wg.Add(1)
		go func(ri int) {
			defer wg.Done()
			rr := rand.New(rand.NewSource(seed + int64(idx)*7 + int64(ri)))
			for !stop.Load() {
				app := q.AppendedSeq()
				if app < 0 {
					time.Sleep(50 * time.Microsecond)
					continue
				}
				seq := rr.Int63n(app + 1)
				data, err := q.Get(seq)
				if err != nil {
					st.violate("C05/get-fails-above-ack", "concurrent Get(%d) with appended>=%d: %v", seq, app, err)
					continue
				}
				if withEmpty && len(data) == 0 {
					// decided after the appenders have finished: the sequence must then be one of the empty messages
					emu.Lock()
					readEmpty[seq] = true
					emu.Unlock()
					st.count("concurrent_reads", 1)
					continue
				}
				prod, ctr, ok := identify(data)
				if !ok || prod < 1 || prod > appenders || ctr >= perApp {
					st.violate("C05/unknown-bytes-at-sequence", "concurrent Get(%d): %d bytes, head % x", seq, len(data), head(data))
					continue
				}
				p := plans[prod-1][ctr]
				if !bytes.Equal(data, payload(p.prod, p.ctr, p.n)) {
					st.violate("C05/bytes-differ/concurrent-read", "concurrent Get(%d): producer %d counter %d len %d: got %d bytes", seq, prod, ctr, p.n, len(data))
				}
				st.count("concurrent_reads", 1)
			}
		}(ri)
	}
	var awg sync.WaitGroup
	for a := 0; a < appenders; a++ {
		awg.Add(1)
		go func(a int) {
			defer awg.Done()
			for _, p := range plans[a] {
				rec := st.doPut(q, p.prod, p.ctr, p.n, nil)
				if rec.Err != "" {
					st.violate("C05/put-fails", "Put(len %d): %s", p.n, rec.Err)
					return
				}
			}
		}(a)
	}
	awg.Wait()
	stop.Store(true)
	wg.Wait()
	res.Evals = 1
	st.count("appends", appenders*perApp)
	all := st.verifyAll(q, "after concurrent appends", true, nil)
	st.checkOrder(q, "after concurrent appends", -1)
	for seq := range readEmpty {
		if now, ok := all[seq]; ok && len(now) != 0 {
			st.violate("C05/bytes-differ/concurrent-read", "concurrent Get(%d) returned an empty message, the sequence holds %d bytes (head % x)", seq, len(now), head(now))
		}
		st.count("empty.concurrent_reads_of_an_empty_message", 1)
	}
	if st.reordered() {
		st.count("runs_with_publication_order_differing_from_allocation_order", 1)
	}
	ov := int(atomic.LoadInt32(&st.overlaps))
	st.count("puts_called_while_another_appender_was_inside_its_page_store", ov)
	if ov > 0 {
		res.Nontrivial = append(res.Nontrivial, fmt.Sprintf("stress%d", idx))
	}
	// optional acknowledge + gc: messages above the acknowledged position stay readable
	if idx%3 == 0 && q.AppendedSeq() > 4 {
		ack := q.AppendedSeq() / 2
		q.SetAcknowledgedSeq(ack)
		q.GC()
		all = st.verifyAll(q, "after ack+gc", true, all)
		st.count("ack_gc_rounds", 1)
	}
	if emptyTail {
		for c := 0; c <= idx%2; c++ {
			if rec := st.doPutSeq(q, 201, c, 0, nil); rec.Err != "" {
				st.violate("C05/put-fails", "Put of an empty message: %s", rec.Err)
			}
		}
		all = st.verifyAll(q, "after an empty message at the tail", true, all)
	}
	q.Close()
	q2, err := queue.NewQueue(qdir, pageSize)
	if err != nil {
		st.violate("C05/reopen-fails", "NewQueue after close: %v", err)
		return
	}
	behind := st.noteOpen(q2, "close-reopen")
	all = st.verifyAll(q2, "after reopen", true, all)
	for c := 0; c < 5; c++ {
		n := sizeOf(r)
		if withEmpty && c == 2 {
			n = 0
		}
		rec := st.doPutSeq(q2, 200, c, n, nil)
		if rec.Err != "" {
			st.violate("C05/put-fails", "Put after reopen: %s", rec.Err)
		}
		if c == 0 && behind {
			st.count("empty.appends_right_after_an_open_behind_an_empty_message", 1)
		}
	}
	st.verifyAll(q2, "after appends on the reopened queue", true, all)
	q2.Close()
	res.Sample = map[string]interface{}{"kind": "stress", "config": res.Config, "appended": len(all), "overlaps": ov}
}

// ---- (b) directed interleavings ----

func caseInterleave(res *caseResult, idx int, dir string, seed int64) {
	r := rand.New(rand.NewSource(seed*5413 + int64(idx)*17 + 1))
	prefill := idx % 4
	kB := 1 + (idx/4)%3
	rollover := idx%7 == 6
	sizeA := sizeOf(r)
	// empty messages: in the prefill (idx%5 == 1), as B's last message (idx%5 == 2: the message published while A is
	// parked / right behind A is an empty one) and as the last message before close/reopen (idx%3 == 1)
	emptyPrefill, emptyB, emptyTail := idx%5 == 1, idx%5 == 2, idx%3 == 1
	res.Config = fmt.Sprintf("prefill=%d bPuts=%d rollover=%v sizeA=%d emptyPrefill=%v emptyB=%v emptyTail=%v", prefill, kB, rollover, sizeA, emptyPrefill, emptyB, emptyTail)
	st := newState(res)
	parked := make(chan struct{})
	release := make(chan struct{})
	var once sync.Once
	seam.InstallQueuePages(seam.Direct{}, &seam.Observer{
		PageWriteData: func(path string, offset int, data []byte) {
			st.onBytes(path, offset, data)
			atomic.AddInt32(&st.inBytes, 1)
			if prod, _, ok := identify(data); ok && prod == 1 {
				once.Do(func() {
					close(parked)
					<-release
				})
			}
		},
		PageWriteDone: func() { atomic.AddInt32(&st.inBytes, -1) },
	})
	qdir := filepath.Join(dir, "q")
	q, err := queue.NewQueue(qdir, pageSize)
	if err != nil {
		st.violate("C05/open-fails", "NewQueue: %v", err)
		return
	}
	for c := 0; c < prefill; c++ {
		n := sizeOf(r)
		if emptyPrefill && c == prefill-1 {
			n = 0
		}
		st.doPutSeq(q, 9, c, n, nil)
	}
	if rollover {
		// fill the first data page so that A's allocation is the last of page 0 and B's rolls over to page 1
		st.doPut(q, 9, 100, pageSize-sizeA-10, nil)
	}
	aDone := make(chan struct{})
	go func() {
		st.doPut(q, 1, 0, sizeA, nil)
		close(aDone)
	}()
	<-parked
	// B appends while A sits between allocation and publication
	bReturned := 0
	bDone := make(chan struct{})
	go func() {
		for c := 0; c < kB; c++ {
			n := sizeOf(r)
			if emptyB && c == kB-1 {
				n = 0
			}
			st.doPut(q, 2, c, n, nil)
		}
		close(bDone)
	}()
	select {
	case <-bDone:
		bReturned = kB
		st.count("interleavings_where_B_published_while_A_was_parked", 1)
	case <-time.After(400 * time.Millisecond):
		// the implementation serialises appends: B cannot finish before A; give A up
		st.count("interleavings_where_appends_were_serialised", 1)
	}
	close(release)
	<-aDone
	<-bDone
	_ = bReturned
	res.Evals = 1
	all := st.verifyAll(q, "after interleaving", true, nil)
	st.checkOrder(q, "after interleaving", -1)
	if st.reordered() {
		st.count("runs_with_publication_order_differing_from_allocation_order", 1)
	}
	if atomic.LoadInt32(&st.overlaps) > 0 {
		res.Nontrivial = append(res.Nontrivial, fmt.Sprintf("interleave%d", idx))
	}
	if emptyTail {
		st.doPutSeq(q, 4, 0, 0, nil)
		all = st.verifyAll(q, "after an empty message at the tail", true, all)
	}
	q.Close()
	q2, err := queue.NewQueue(qdir, pageSize)
	if err != nil {
		st.violate("C05/reopen-fails", "NewQueue after close: %v", err)
		return
	}
	behind := st.noteOpen(q2, "close-reopen")
	all = st.verifyAll(q2, "after reopen", true, all)
	for c := 0; c < 3; c++ {
		st.doPutSeq(q2, 3, c, sizeOf(r), nil)
		if c == 0 && behind {
			st.count("empty.appends_right_after_an_open_behind_an_empty_message", 1)
		}
		all = st.verifyAll(q2, fmt.Sprintf("after append %d on the reopened queue", c), true, all)
	}
	q2.Close()
	res.Sample = map[string]interface{}{"kind": "interleave", "config": res.Config, "sequences": len(all)}
}

// ---- (c) crash images ----

func caseCrash(res *caseResult, idx int, dir string, seed int64) {
	r := rand.New(rand.NewSource(seed*3571 + int64(idx)*29 + 2))
	nPuts := 5 + r.Intn(8)
	twoAppenders := idx%2 == 1
	reopenAt := -1
	if idx%3 == 0 {
		reopenAt = 2 + r.Intn(nPuts-2)
	}
	// empty messages (own random stream): about one append in five is empty, the append before a reopen is empty in
	// every second history that has one, and the last append of the history is empty when idx%4 == 2
	re := rand.New(rand.NewSource(seed*4409 + int64(idx)*37 + 3))
	emptyBeforeReopen := reopenAt >= 0 && (idx/3)%2 == 0
	emptyLast := idx%4 == 2
	res.Config = fmt.Sprintf("puts=%d twoAppenders=%v reopenAt=%d emptyBeforeReopen=%v emptyLast=%v", nPuts, twoAppenders, reopenAt, emptyBeforeReopen, emptyLast)
	st := newState(res)
	qdir := filepath.Join(dir, "q")
	world := imgfs.NewWorld(qdir, filepath.Join(dir, "img"))
	seam.InstallQueuePages(world, &seam.Observer{
		PageWriteData: func(path string, offset int, data []byte) { st.onBytes(path, offset, data) },
	})
	rollover := idx%4 == 3 // crash points after a data page roll-over: the appends under imaging go to data page 1
	world.Enable(!rollover)
	world.Snapshot("initial")
	createFirst := world.Count()
	q, err := queue.NewQueue(qdir, pageSize)
	if err != nil {
		st.violate("C05/open-fails", "NewQueue: %v", err)
		return
	}
	createLast := world.Count()
	var order []*putRec
	if rollover {
		res.Config += " rollover=true"
		reopenAt, twoAppenders, nPuts = -1, false, 4
		order = append(order, st.doPut(q, sparseProducer, 0, pageSize-8192, world)) // fills data page 0
		order = append(order, st.doPut(q, sparseProducer, 1, 16384, world))         // does not fit: rolls over to page 1
		world.Enable(true)
		world.Snapshot("after-rollover")
		for _, p := range order {
			p.First, p.Last = 0, 0 // returned before the first image that matters
		}
		st.count("crash_histories_after_data_page_rollover", 1)
	}
	for c := 0; c < nPuts; c++ {
		if c == reopenAt {
			q.Close()
			q, err = queue.NewQueue(qdir, pageSize)
			if err != nil {
				st.violate("C05/reopen-fails", "NewQueue after close: %v", err)
				return
			}
			st.noteOpen(q, "close-reopen")
		}
		n := 4 + r.Intn(300)
		if r.Intn(6) == 0 {
			n = 3000 + r.Intn(4000)
		}
		if re.Intn(5) == 0 || (emptyBeforeReopen && c == reopenAt-1) || (emptyLast && c == nPuts-1) {
			n = 0
		}
		if twoAppenders && c%3 == 1 {
			var wg sync.WaitGroup
			wg.Add(2)
			var r1, r2 *putRec
			n2 := 4 + r.Intn(200)
			go func() { defer wg.Done(); r1 = st.doPut(q, 1, c, n, world) }()
			go func() { defer wg.Done(); r2 = st.doPut(q, 2, c, n2, world) }()
			wg.Wait()
			order = append(order, r1, r2)
		} else {
			order = append(order, st.doPutSeq(q, 1, c, n, world))
		}
	}
	world.Snapshot("final")
	world.Enable(false)
	live := st.verifyAll(q, "live queue at the end", true, nil)
	q.Close()
	seam.Restore()
	_ = live
	images := world.Images()
	res.Evals = len(images)
	st.count("images", len(images))
	for _, img := range images {
		k := img.Index
		func() {
			defer func() {
				if p := recover(); p != nil {
					st.violate("C05/recovery-panics", "image %d (after %q): %v", k, img.Label, p)
				}
			}()
			rq, err := queue.NewQueue(img.Dir, pageSize)
			if err != nil {
				st.violate("C05/image-cannot-be-opened", "image %d (after %q): %v", k, img.Label, err)
				return
			}
			defer rq.Close()
			app, ack := rq.AppendedSeq(), rq.AcknowledgedSeq()
			var must, may []*putRec
			inside := false
			for _, p := range order {
				switch {
				case k >= p.Last:
					must = append(must, p)
				case k >= p.First:
					may = append(may, p)
					if k < p.Last-1 {
						inside = true
					}
				}
			}
			if k >= createFirst && k < createLast-1 {
				inside = true
			}
			if inside {
				st.count("images_strictly_inside_an_append_or_open", 1)
				res.Nontrivial = append(res.Nontrivial, fmt.Sprintf("crash%d/%s", idx, img.Hash[:16]))
			}
			got := map[int64][]byte{}
			for seq := ack + 1; seq <= app; seq++ {
				data, err := rq.Get(seq)
				if err != nil {
					st.violate("C05/image/get-fails-above-ack", "image %d (after %q): Get(%d) appended=%d ack=%d: %v", k, img.Label, seq, app, ack, err)
					return
				}
				got[seq] = append([]byte(nil), data...)
			}
			explained := map[int64]bool{}
			for _, p := range must {
				data, ok := got[p.Seq]
				if !ok {
					st.violate("C05/image/acknowledged-append-missing", "image %d (after %q): append (p%d,c%d) had returned with sequence %d but the recovered queue has appended=%d ack=%d", k, img.Label, p.Prod, p.Ctr, p.Seq, app, ack)
					return
				}
				if !bytes.Equal(data, payload(p.Prod, p.Ctr, p.Len)) {
					st.violate("C05/image/bytes-differ", "image %d (after %q): sequence %d does not hold the bytes of append (p%d,c%d)", k, img.Label, p.Seq, p.Prod, p.Ctr)
					return
				}
				explained[p.Seq] = true
			}
			for _, p := range may {
				if data, ok := got[p.Seq]; ok {
					if !bytes.Equal(data, payload(p.Prod, p.Ctr, p.Len)) {
						st.violate("C05/image/in-flight-append-partially-visible", "image %d (after %q): sequence %d is readable but does not hold the complete bytes of the in-flight append (p%d,c%d)", k, img.Label, p.Seq, p.Prod, p.Ctr)
						return
					}
					explained[p.Seq] = true
				}
			}
			for seq := range got {
				if !explained[seq] {
					st.violate("C05/image/unexplained-sequence", "image %d (after %q): sequence %d readable (appended=%d ack=%d) but no returned or in-flight append explains it", k, img.Label, seq, app, ack)
					return
				}
			}
			// the write position of the recovered queue was restored from the index entry of an empty message
			tailSfx := ""
			for _, p := range order {
				if p.Len == 0 && p.Seq == app && app > ack && explained[app] {
					tailSfx = "/last-appended-message-is-empty"
					st.count("empty.crash_images_whose_last_appended_message_is_empty", 1)
					break
				}
			}
			// appending on the recovered queue must not disturb what was there
			newRec := &putRec{Prod: 77, Ctr: k, Len: 40 + k%50}
			if err := rq.Put(payload(77, k, newRec.Len)); err != nil {
				st.violate("C05/image/put-after-recovery-fails", "image %d: %v", k, err)
				return
			}
			if rq.AppendedSeq() != app+1 {
				st.violate("C05/image/sequence-after-recovery", "image %d (after %q): appended was %d, after one more append it is %d", k, img.Label, app, rq.AppendedSeq())
			}
			for seq, old := range got {
				now, err := rq.Get(seq)
				if err != nil || !bytes.Equal(now, old) {
					st.violate("C05/image/later-put-alters-earlier-message"+tailSfx, "image %d (after %q): after an append on the recovered queue sequence %d changed (err=%v)", k, img.Label, seq, err)
					return
				}
			}
			if app+1 <= rq.AcknowledgedSeq() {
				// The property only speaks about messages above the acknowledged position. Seen on images taken between
				// the two stores that initialise a brand-new meta page (appended=-1 stored, acknowledged still 0).
				st.count("images_where_recovered_ack_is_ahead_of_appended", 1)
			} else if now, err := rq.Get(app + 1); err != nil || !bytes.Equal(now, payload(77, k, newRec.Len)) {
				st.violate("C05/image/new-append-not-readable"+tailSfx, "image %d (after %q): appended=%d ack=%d err=%v", k, img.Label, app, ack, err)
			}
			st.count("images_recovered_and_checked", 1)
		}()
		_ = os.RemoveAll(img.Dir)
	}
	var labels []string
	for i, img := range images {
		if i > 14 {
			break
		}
		labels = append(labels, filepath.Base(filepath.Dir(img.Label))+"/"+filepath.Base(img.Label))
	}
	res.Sample = map[string]interface{}{"kind": "crash", "config": res.Config, "images": len(images), "first_labels": labels}
}

// ---- index page roll-over (thorough) ----

func caseIndexRoll(res *caseResult, dir string) {
	st := newState(res)
	res.Config = "262144+ small appends, index page roll-over"
	qdir := filepath.Join(dir, "q")
	q, err := queue.NewQueue(qdir, pageSize)
	if err != nil {
		st.violate("C05/open-fails", "NewQueue: %v", err)
		return
	}
	n := 262144 + 500
	for c := 0; c < n; c++ {
		rec := st.doPut(q, 1+c/(1<<20), c%(1<<24), 4+c%23, nil)
		if rec.Err != "" {
			st.violate("C05/put-fails", "Put %d: %s", c, rec.Err)
			return
		}
	}
	res.Evals = 1
	all := st.verifyAll(q, "after index roll-over", true, nil)
	st.checkOrder(q, "after index roll-over", -1)
	q.Close()
	q2, err := queue.NewQueue(qdir, pageSize)
	if err != nil {
		st.violate("C05/reopen-fails", "%v", err)
		return
	}
	all = st.verifyAll(q2, "after reopen", true, all)
	st.doPut(q2, 250, 1, 33, nil)
	st.verifyAll(q2, "after append on reopened queue", true, all)
	q2.Close()
	res.Nontrivial = append(res.Nontrivial, "indexroll")
	res.Sample = map[string]interface{}{"kind": "indexroll", "appends": n}
}

// ---- close/reopen placed exactly at page boundaries ----

const indexItemsPerPage = 1024 * 256 // pkg/queue: index entries per index page

// caseBoundary reopens the queue exactly at, one before and one after the point where an index page or a data
// page is full, appends again and checks that every earlier sequence still holds its bytes.
func caseBoundary(res *caseResult, idx int, dir string) {
	st := newState(res)
	qdir := filepath.Join(dir, "q")
	q, err := queue.NewQueue(qdir, pageSize)
	if err != nil {
		st.violate("C05/open-fails", "NewQueue: %v", err)
		return
	}
	ctr := 0
	put := func(q queue.Queue, n int) bool {
		rec := st.doPut(q, 1+ctr/(1<<24), ctr%(1<<24), n, nil)
		ctr++
		if rec.Err != "" {
			st.violate("C05/put-fails", "Put %d (len %d): %s", ctr, n, rec.Err)
			return false
		}
		return true
	}
	switch idx {
	case 0, 1, 2: // index page boundary: reopen after indexItemsPerPage-1, indexItemsPerPage, indexItemsPerPage+1 appends
		n := indexItemsPerPage - 1 + idx
		res.Config = fmt.Sprintf("reopen after %d appends (index page holds %d entries)", n, indexItemsPerPage)
		for i := 0; i < n; i++ {
			if !put(q, 4+i%13) {
				return
			}
		}
	default: // data page boundary: the last message ends 1 byte before, exactly at, or would cross the end of the data page
		first := pageSize - 1000 - 2 + (idx - 3) // idx 3,4,5
		res.Config = fmt.Sprintf("reopen with the write position at %d of a %d byte data page", first+1000, pageSize)
		if !put(q, first) || !put(q, 1000) {
			return
		}
	}
	res.Evals = 1
	all := st.verifyAll(q, "before reopen", true, nil)
	st.checkOrder(q, "before reopen", -1)
	q.Close()
	q2, err := queue.NewQueue(qdir, pageSize)
	if err != nil {
		st.violate("C05/reopen-fails", "%v", err)
		return
	}
	all = st.verifyAll(q2, "after reopen at a page boundary", true, all)
	for i := 0; i < 4; i++ {
		if !put(q2, 40+i) {
			return
		}
	}
	all = st.verifyAll(q2, "after appends on the queue reopened at a page boundary", true, all)
	st.checkOrder(q2, "after appends on the queue reopened at a page boundary", -1)
	q2.Close()
	q3, err := queue.NewQueue(qdir, pageSize)
	if err != nil {
		st.violate("C05/reopen-fails", "second reopen: %v", err)
		return
	}
	st.verifyAll(q3, "after a second reopen", true, all)
	q3.Close()
	st.count("reopens_at_a_page_boundary", 1)
	res.Nontrivial = append(res.Nontrivial, fmt.Sprintf("boundary%d", idx))
	res.Sample = map[string]interface{}{"kind": "boundary", "config": res.Config, "sequences": len(all)}
}
