package main

// Empty messages at the tail ("emptytail" family).
//
// A zero-length message is a legal append (the replication path forwards whatever the leader sent). It owns a
// sequence and an index entry like every other message, and because NewQueue restores the write position from the
// index entry of the LAST appended message, an empty message is the one input whose entry decides where the next
// append goes without any byte of its own to show for it. The other families sprinkle empty messages into their
// traffic; this one places them deliberately: one to three empty messages are the last appends before the queue is
// opened again (after Close, or on the live directory without Close = what a killed process leaves), then non-empty
// appends follow and every retained sequence is read back after each of them.
//
// variants (idx%6): small messages on data page 0 | the same, opened without Close | a queue that holds nothing but
// empty messages (never anything else, or everything else acknowledged) | the write position on data page 1 after a
// roll-over | the same with data page 0 acknowledged and released by GC | the data page filled to its last byte, the
// empty messages sit at offset = page size.
//
// Oracle: nothing but the property (verifyAll / checkOrder): empty messages are identified by their sequence.

import (
	"fmt"
	"math/rand"
	"path/filepath"

	"github.com/lindb/lindb/pkg/queue"
)

var emptyTailVariants = []string{
	"small-messages-on-data-page-0",
	"small-messages-opened-without-close",
	"only-empty-messages-retained",
	"write-position-on-data-page-1",
	"data-page-0-released-by-gc",
	"data-page-filled-to-the-last-byte",
}

const emptyTailTag = "queue-opened-behind-an-empty-message"

func caseEmptyTail(res *caseResult, idx int, dir string, seed int64) {
	r := rand.New(rand.NewSource(seed*8101 + int64(idx)*43 + 7))
	variant := idx % len(emptyTailVariants)
	withoutClose := variant == 1 || (idx/len(emptyTailVariants))%2 == 1
	tails := 1 + r.Intn(3)
	rounds := 1 + r.Intn(2) // how many times the queue is opened behind an empty message
	st := newState(res)
	res.Config = fmt.Sprintf("%s emptyAtTail=%d opens=%d withoutClose=%v", emptyTailVariants[variant], tails, rounds, withoutClose)
	qdir := filepath.Join(dir, "q")
	q, err := queue.NewQueue(qdir, pageSize)
	if err != nil {
		st.violate("C05/open-fails", "NewQueue: %v", err)
		return
	}
	var stale []queue.Queue // queues left open when the directory was opened again without Close
	defer func() {
		for _, s := range stale {
			s.Close()
		}
	}()
	ctr := 0
	dead := false
	put := func(n int) {
		if dead {
			return
		}
		prod := 1
		if n > 1<<20 {
			prod = sparseProducer
		}
		rec := st.doPutSeq(q, prod, ctr, n, nil)
		ctr++
		if rec.Err != "" {
			st.violate("C05/put-fails"+st.sfx(), "Put(len %d) with appended=%d: %s", n, q.AppendedSeq(), rec.Err)
			dead = true
		}
	}
	small := func() int {
		if r.Intn(5) == 0 {
			return 0 // empty messages in the middle of the log, too
		}
		return 4 + r.Intn(700)
	}
	// ---- the messages before the tail ----
	switch variant {
	case 0, 1:
		for i, n := 0, 1+r.Intn(12); i < n; i++ {
			put(small())
		}
	case 2:
		if idx/len(emptyTailVariants)%2 == 1 {
			n := 1 + r.Intn(6)
			for i := 0; i < n; i++ {
				put(4 + r.Intn(300))
			}
			q.SetAcknowledgedSeq(q.AppendedSeq()) // everything that is not empty is acknowledged
		}
	case 3, 4:
		put(4 + r.Intn(300))
		put(pageSize - 6000 - r.Intn(5000)) // leaves less than 11000 bytes on data page 0
		firstOnPage1 := int64(-1)
		used := 0
		for i, n := 0, 3+r.Intn(5); i < n; i++ {
			sz := 3000 + r.Intn(3000)
			if used += sz; used > 11400 && firstOnPage1 < 0 {
				firstOnPage1 = q.AppendedSeq() + 1
			}
			put(sz)
		}
		put(4000 + r.Intn(4000)) // more than 13000 bytes were appended behind the big message: this one is on data page 1
		if firstOnPage1 < 0 {
			firstOnPage1 = q.AppendedSeq()
		}
		put(small())
		put(4 + r.Intn(700))
		st.count("emptytail.histories_with_the_write_position_behind_a_data_page_roll_over", 1)
		if variant == 4 && !dead {
			q.SetAcknowledgedSeq(firstOnPage1) // a message of data page 1: GC releases data page 0
			q.GC()
			st.count("emptytail.histories_with_data_page_0_released_by_gc", 1)
		}
	case 5:
		a := 4 + r.Intn(5000)
		put(a)
		put(pageSize - a) // ends on the last byte of the data page
	}
	if dead {
		return
	}
	var all map[int64][]byte
	opened := 0
	for round := 0; round < rounds && !dead; round++ {
		for i := 0; i < tails; i++ {
			put(0)
		}
		all = st.verifyAll(q, fmt.Sprintf("round %d: before the open, empty messages at the tail", round), true, all)
		st.checkOrder(q, "before the open", -1)
		if withoutClose {
			stale = append(stale, q)
		} else {
			q.Close()
		}
		q, err = queue.NewQueue(qdir, pageSize)
		if err != nil {
			st.violate("C05/reopen-fails"+st.sfx(), "round %d: NewQueue: %v", round, err)
			return
		}
		how := "close-reopen"
		if withoutClose {
			how = "open-without-close"
		}
		behind := st.noteOpen(q, how)
		if behind {
			opened++
		}
		all = st.verifyAll(q, fmt.Sprintf("round %d: after the open behind an empty message", round), true, all)
		for i, n := 0, 2+r.Intn(4); i < n && !dead; i++ {
			sz := 4 + r.Intn(900)
			if i > 0 && r.Intn(4) == 0 {
				sz = 0
			}
			if i == 1 && variant >= 3 && r.Intn(2) == 0 {
				sz = 20000 + r.Intn(40000)
			}
			put(sz)
			if i == 0 && behind {
				st.count("empty.appends_right_after_an_open_behind_an_empty_message", 1)
			}
			all = st.verifyAll(q, fmt.Sprintf("round %d: after append %d on the queue opened behind an empty message", round, i), true, all)
		}
		st.checkOrder(q, "after appends on the queue opened behind an empty message", -1)
	}
	if dead {
		return
	}
	// one last clean close / reopen: everything is still there
	q.Close()
	q, err = queue.NewQueue(qdir, pageSize)
	if err != nil {
		st.violate("C05/reopen-fails"+st.sfx(), "last reopen: %v", err)
		return
	}
	st.verifyAll(q, "after the last reopen", true, all)
	q.Close()
	res.Evals = 1
	st.count("emptytail.histories", 1)
	st.count("emptytail.histories."+emptyTailVariants[variant], 1)
	if opened < rounds {
		st.count("emptytail.histories_where_an_open_was_not_behind_an_empty_message", 1)
	} else {
		res.Nontrivial = append(res.Nontrivial, fmt.Sprintf("emptytail%d/%s", idx, emptyTailVariants[variant]))
	}
	res.Sample = map[string]interface{}{"kind": "emptytail", "config": res.Config, "sequences": len(all)}
}
