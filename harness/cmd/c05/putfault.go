package main

// Transient page faults ("putfault" family).
//
// One operation of the queue's page factories fails once (or twice in a row): the acquisition of a new index page
// or a new data page at a roll-over, the sync of the page that is left, or any of the factory operations of
// NewQueue (factory creation, meta / first data / first index page acquisition, meta sync). The error is what
// open/ftruncate/mmap would return (EMFILE, ENOSPC, ENOMEM, EIO); the file-system residue of the failed step is
// modelled too (nothing, an empty page file, a full-size zero page file) and one variant produces a real open
// error by putting a directory in the way of the page file.
//
// Oracle (nothing but the property): a Put that returned an error leaves the appended sequence where it was; every
// Put that returned success - before or after the failed one - reads back under its own sequence byte for byte,
// live and after close/reopen; sequences stay dense (one per successful Put); no retained sequence changes its bytes.
// A NewQueue that returned an error may be repeated; the queue opened afterwards holds every retained message.

import (
	"fmt"
	"math/rand"
	"os"
	"path/filepath"
	"sync"
	"syscall"

	"github.com/lindb/lindb/pkg/queue"
	"github.com/lindb/lindb/pkg/queue/page"
)

// ---- the fault plan and the page factory wrapper ----

type faultOp struct {
	Op    string // newfactory | acquire | sync
	Kind  string // data | index | meta (the factory's directory)
	Index int64
	New   bool // acquire: the page is not mapped yet (a file is created / opened and mapped)
}

func (o faultOp) String() string {
	s := o.Op + "-" + o.Kind
	if o.Op == "acquire" && o.New {
		s += "-new-page"
	}
	return s
}

const (
	residueNone      = iota // open(2) failed: nothing is left behind
	residueEmptyFile        // ftruncate failed: an empty page file is left behind
	residueZeroFile         // mmap failed: a full-size zero-filled page file is left behind
	residueRealError        // a directory occupies the page file's name: the real open fails (EISDIR)
	residueModes
)

var residueNames = []string{"open-fails", "truncate-fails-empty-file-left", "mmap-fails-zero-file-left", "real-open-error-directory-in-the-way"}

type faultPlan struct {
	mu      sync.Mutex
	armed   bool
	match   func(o faultOp) bool
	skip    int
	times   int
	residue int
	fired   int
	ops     int // factory operations seen while armed
	firedOp []faultOp
}

func (p *faultPlan) arm(match func(o faultOp) bool, skip, times, residue int) {
	p.mu.Lock()
	p.armed, p.match, p.skip, p.times, p.residue, p.ops = true, match, skip, times, residue, 0
	p.mu.Unlock()
}

func (p *faultPlan) disarm() {
	p.mu.Lock()
	p.armed = false
	p.mu.Unlock()
}

func (p *faultPlan) firedCount() int {
	p.mu.Lock()
	defer p.mu.Unlock()
	return p.fired
}

// takeFired returns (and forgets) the operations that were made to fail.
func (p *faultPlan) takeFired() []faultOp {
	p.mu.Lock()
	defer p.mu.Unlock()
	ops := p.firedOp
	p.firedOp = nil
	return ops
}

func (p *faultPlan) lastFired() string {
	p.mu.Lock()
	defer p.mu.Unlock()
	if len(p.firedOp) == 0 {
		return "none"
	}
	return p.firedOp[len(p.firedOp)-1].String()
}

func (p *faultPlan) opsSeen() int {
	p.mu.Lock()
	defer p.mu.Unlock()
	return p.ops
}

// hit tells whether this operation has to fail now; it returns the residue mode.
func (p *faultPlan) hit(o faultOp) (bool, int) {
	p.mu.Lock()
	defer p.mu.Unlock()
	if !p.armed {
		return false, 0
	}
	p.ops++
	if !p.match(o) {
		return false, 0
	}
	if p.skip > 0 {
		p.skip--
		return false, 0
	}
	if p.times <= 0 {
		return false, 0
	}
	p.times--
	p.fired++
	p.firedOp = append(p.firedOp, o)
	return true, p.residue
}

type faultFactory struct {
	page.Factory
	kind     string
	path     string
	pageSize int
	plan     *faultPlan
}

func installFaultPages(plan *faultPlan) {
	orig := queue.VerifGetPageFactory()
	queue.VerifSetPageFactory(func(path string, pageSize int) (page.Factory, error) {
		kind := filepath.Base(path)
		if fail, _ := plan.hit(faultOp{Op: "newfactory", Kind: kind, Index: -1}); fail {
			return nil, &os.PathError{Op: "open", Path: path, Err: syscall.EMFILE}
		}
		f, err := orig(path, pageSize)
		if err != nil {
			return nil, err
		}
		return &faultFactory{Factory: f, kind: kind, path: path, pageSize: pageSize, plan: plan}, nil
	})
}

func (f *faultFactory) AcquirePage(index int64) (page.MappedPage, error) {
	_, mapped := f.Factory.GetPage(index)
	if fail, residue := f.plan.hit(faultOp{Op: "acquire", Kind: f.kind, Index: index, New: !mapped}); fail {
		name := filepath.Join(f.path, fmt.Sprintf("%d.bat", index))
		if !mapped {
			switch residue {
			case residueEmptyFile:
				if fh, err := os.OpenFile(name, os.O_CREATE|os.O_RDWR, 0o644); err == nil {
					_ = fh.Close()
				}
				return nil, &os.PathError{Op: "truncate", Path: name, Err: syscall.ENOSPC}
			case residueZeroFile:
				if fh, err := os.OpenFile(name, os.O_CREATE|os.O_RDWR, 0o644); err == nil {
					_ = fh.Truncate(int64(f.pageSize))
					_ = fh.Close()
				}
				return nil, syscall.ENOMEM
			case residueRealError:
				if _, err := os.Stat(name); os.IsNotExist(err) {
					if err := os.Mkdir(name, 0o755); err == nil {
						p, aerr := f.Factory.AcquirePage(index) // the real open(2) fails
						_ = os.Remove(name)
						if aerr != nil {
							return nil, aerr
						}
						// the real code did not fail (it should have): hand the page out, the history goes on
						return &faultPage{MappedPage: p, kind: f.kind, plan: f.plan}, nil
					}
				}
			}
		}
		return nil, &os.PathError{Op: "open", Path: name, Err: syscall.EMFILE}
	}
	p, err := f.Factory.AcquirePage(index)
	if err != nil {
		return nil, err
	}
	return &faultPage{MappedPage: p, kind: f.kind, plan: f.plan}, nil
}

type faultPage struct {
	page.MappedPage
	kind string
	plan *faultPlan
}

func (p *faultPage) Sync() error {
	if fail, _ := p.plan.hit(faultOp{Op: "sync", Kind: p.kind, Index: -1}); fail {
		return &os.PathError{Op: "msync", Path: p.FilePath(), Err: syscall.EIO}
	}
	return p.MappedPage.Sync()
}

// ---- one history with a failing Put ----

type faultHist struct {
	st       *state
	res      *caseResult
	plan     *faultPlan
	q        queue.Queue
	qdir     string
	ctr      int
	startSeq int64
	all      map[int64][]byte
	failed   int  // Puts that returned an injected error
	dead     bool // an unexpected error ended the history
	stratum  string
	fired0   int // faults injected before this history began (one plan serves all histories of a child)
	// emptyTail: the last append before the close/reopen of finish() is a zero-length message
	emptyTail bool
}

// faults is the number of faults injected during this history.
func (h *faultHist) faults() int { return h.plan.firedCount() - h.fired0 }

func (h *faultHist) open(phase string) bool {
	q, err := queue.NewQueue(h.qdir, pageSize)
	if err != nil {
		h.st.violate("C05/open-fails/"+h.st.tag, "%s: NewQueue: %v", phase, err)
		h.dead = true
		return false
	}
	h.q = q
	return true
}

// put performs one Put; ok = it returned success, injected = it returned an error while a fault was injected.
func (h *faultHist) put(n int) (ok, injected bool) {
	prod := 1 + h.ctr>>23
	if n > 1<<20 {
		prod = sparseProducer
	}
	before := h.q.AppendedSeq()
	f0 := h.plan.firedCount()
	rec := h.st.doPut(h.q, prod, h.ctr&(1<<23-1), n, nil)
	h.ctr++
	f1 := h.plan.firedCount()
	after := h.q.AppendedSeq()
	if rec.Err != "" {
		if f1 == f0 {
			h.st.violate("C05/put-fails/"+h.st.tag, "Put(len %d) with appended=%d fails although no fault is injected (%d injected before): %s", n, before, f0-h.fired0, rec.Err)
			h.dead = true
			return false, false
		}
		h.failed++
		h.st.count("putfault.puts_failed_by_an_injected_fault", 1)
		h.st.count("putfault.puts_failed_by_an_injected_fault."+h.stratum, 1)
		if after != before {
			h.st.violate("C05/failed-put-moves-appended-sequence/"+h.st.tag, "Put(len %d) returned %q but the appended sequence moved from %d to %d", n, rec.Err, before, after)
		}
		return false, true
	}
	if after != before+1 {
		h.st.violate("C05/sequences-not-dense/"+h.st.tag, "one successful Put moved the appended sequence from %d to %d", before, after)
	} else {
		rec.Seq = after // single appender: this is the sequence the message was published under
	}
	if f1 != f0 {
		h.st.count("putfault.puts_that_succeeded_although_a_page_operation_failed", 1)
	}
	if h.failed > 0 {
		h.st.count("putfault.successful_puts_after_a_failed_put", 1)
	}
	return true, false
}

// appendOne appends one planned message, repeating the Put (as every writer does) while it fails by injection.
func (h *faultHist) appendOne(n int) bool {
	for attempt := 0; attempt < 5 && !h.dead; attempt++ {
		ok, injected := h.put(n)
		if ok {
			return true
		}
		if !injected {
			return false
		}
		// the Put failed: every message appended so far is still there
		h.all = h.st.verifyAll(h.q, fmt.Sprintf("after the failed Put number %d", h.failed), true, h.all)
		h.st.count("putfault.read_backs_of_all_retained_sequences_after_a_failed_put", 1)
	}
	if !h.dead {
		h.st.violate("C05/put-fails/"+h.st.tag, "Put(len %d) still fails after 5 attempts and %d injected faults", n, h.faults())
		h.dead = true
	}
	return false
}

func matchAcquireNew(kind string) func(o faultOp) bool {
	return func(o faultOp) bool { return o.Op == "acquire" && o.Kind == kind && o.New }
}

func matchSync(kind string) func(o faultOp) bool {
	return func(o faultOp) bool { return o.Op == "sync" && o.Kind == kind }
}

// finish: read back live, close, reopen (optionally through a failing NewQueue), read back, append, read back.
func (h *faultHist) finish(r *rand.Rand, failingReopen bool) {
	if h.dead {
		return
	}
	st := h.st
	h.plan.disarm()
	if h.emptyTail {
		if ok, _ := h.put(0); !ok {
			return
		}
	}
	h.all = st.verifyAll(h.q, "after the repeated Put and further appends", true, h.all)
	st.checkOrder(h.q, "after the repeated Put and further appends", h.startSeq)
	h.q.Close()
	if failingReopen {
		k := r.Intn(6)
		h.plan.arm(func(o faultOp) bool { return true }, k, 1, residueNone)
		q, err := queue.NewQueue(h.qdir, pageSize)
		if err == nil {
			// the failed operation was swallowed (a sync) or not reached
			st.count("putfault.reopens_that_succeeded_although_a_page_operation_failed", 1)
			q.Close()
		} else {
			st.count("putfault.opens_failed_by_an_injected_fault", 1)
		}
		h.plan.disarm()
	}
	if !h.open("reopen") {
		return
	}
	behind := st.noteOpen(h.q, "after-a-failed-put-or-open")
	h.all = st.verifyAll(h.q, "after reopen", true, h.all)
	for i := 0; i < 3; i++ {
		if ok, _ := h.put(20 + r.Intn(200)); !ok {
			return
		}
		if i == 0 && behind {
			st.count("empty.appends_right_after_an_open_behind_an_empty_message", 1)
		}
	}
	h.all = st.verifyAll(h.q, "after appends on the reopened queue", true, h.all)
	st.checkOrder(h.q, "after appends on the reopened queue", h.startSeq)
	h.q.Close()
	st.count("putfault.histories", 1)
	st.count("putfault.histories."+h.stratum, 1)
}

func (h *faultHist) noteFault(what string) {
	ops := h.plan.takeFired()
	if h.faults() == 0 {
		h.st.count("putfault.histories_where_the_planned_fault_was_not_reached", 1)
		return
	}
	for _, o := range ops {
		h.st.count("putfault.faults_injected."+o.String(), 1)
	}
	h.res.Nontrivial = append(h.res.Nontrivial, what)
}

func newFaultHist(res *caseResult, plan *faultPlan, qdir, stratum, tag string) *faultHist {
	st := newState(res)
	st.tag = tag
	return &faultHist{st: st, res: res, plan: plan, qdir: qdir, startSeq: -1, stratum: stratum, fired0: plan.firedCount()}
}

// casePutFault: idx%4 selects the stratum, idx/4 the variant.
func casePutFault(res *caseResult, idx int, dir string, seed int64, tier string) {
	r := rand.New(rand.NewSource(seed*7919 + int64(idx)*31 + 11))
	plan := &faultPlan{}
	installFaultPages(plan)
	variant := idx / 4
	switch idx % 4 {
	case 0:
		faultDenseIndexRoll(res, plan, r, idx, variant, dir)
	case 1:
		faultDataRoll(res, plan, r, idx, variant, dir, tier)
	case 2:
		faultSparseIndexRoll(res, plan, r, idx, variant, dir, tier)
	case 3:
		faultOpen(res, plan, r, idx, variant, dir)
	}
}

// faultDenseIndexRoll: a whole index page of real appends (sequences 0..262143 retained), the acquisition of the
// next index page fails, the Put is repeated, more appends; variant odd: the queue is closed and reopened a few
// messages before the boundary (so the roll-over happens on a recovered cursor).
func faultDenseIndexRoll(res *caseResult, plan *faultPlan, r *rand.Rand, idx, variant int, dir string) {
	times := 1 + r.Intn(2)
	residue := (variant + r.Intn(2)*2) % residueModes
	startPage := int64(0)
	if variant%4 >= 2 {
		startPage = 1 + int64(r.Intn(3))
	}
	reopenBefore := -1
	if variant%2 == 1 {
		reopenBefore = r.Intn(4)
	}
	after := 2 + r.Intn(40)
	h := newFaultHist(res, plan, filepath.Join(dir, "q"), "index-page-roll-over", "after-failed-index-page-acquire-at-roll-over")
	res.Config = fmt.Sprintf("dense index page: first sequence %d, %d appends up to the boundary, the acquisition of the next index page fails %d time(s) (%s), %d appends after, reopen %d before the boundary (-1: none)",
		startPage*indexItemsPerPage, indexItemsPerPage, times, residueNames[residue], after, reopenBefore)
	if !h.open("open") {
		return
	}
	if startPage > 0 {
		h.startSeq = startPage*indexItemsPerPage - 1
		h.q.SetAppendedSeq(h.startSeq)
	}
	h.emptyTail = variant%2 == 0
	size := func() int { // one message in twenty is empty
		if v := r.Intn(20); v != 7 {
			return 4 + v
		}
		return 0
	}
	for i := 0; i < indexItemsPerPage; i++ {
		if reopenBefore > 0 && i == indexItemsPerPage-reopenBefore {
			h.q.Close()
			if !h.open("reopen before the boundary") {
				return
			}
		}
		if i == indexItemsPerPage-1 {
			// from the last append that fits on: the next acquisition of a new index page fails
			plan.arm(matchAcquireNew("index"), 0, times, residue)
		}
		if ok, _ := h.put(size()); !ok {
			return
		}
	}
	if reopenBefore == 0 { // exactly at the boundary: the last slot of the index page is taken
		h.q.Close()
		if !h.open("reopen at the boundary") {
			return
		}
	}
	for i := 0; i < after; i++ {
		if !h.appendOne(size()) {
			return
		}
	}
	h.noteFault(fmt.Sprintf("putfault%d/dense-index-roll", idx))
	res.Evals++
	h.finish(r, variant%3 == 2)
	res.Sample = map[string]interface{}{"kind": "putfault", "config": res.Config, "sequences": len(h.all), "failed_puts": h.failed}
}

// faultDataRoll: the data page is filled (to the byte in some variants), the acquisition of the next data page
// fails, the Put is repeated. One Put above the message size limit is part of every history (an error path of Put
// without any fault).
func faultDataRoll(res *caseResult, plan *faultPlan, r *rand.Rand, idx, variant int, dir, tier string) {
	times := 1 + r.Intn(2)
	residue := (variant + r.Intn(2)*2) % residueModes
	slack := []int{0, 1, 3 + r.Intn(100), 2000 + r.Intn(4000)}[(variant+r.Intn(2))%4]
	rollovers := 1
	if tier == "thorough" && variant%3 == 2 {
		rollovers = 2 // the fault hits the second roll-over
	}
	syncFault := variant%4 == 3
	h := newFaultHist(res, plan, filepath.Join(dir, "q"), "data-page-roll-over", "after-failed-data-page-acquire-at-roll-over")
	if syncFault {
		h.st.tag = "after-failed-data-page-sync-at-roll-over"
	}
	res.Config = fmt.Sprintf("data page filled up to %d bytes before its end, %d roll-over(s), fault at the last one: %d time(s) (%s) sync-fault=%v", slack, rollovers, times, residueNames[residue], syncFault)
	h.emptyTail = variant%2 == 0
	if !h.open("open") {
		return
	}
	for i := 0; i < 1+r.Intn(4); i++ {
		if ok, _ := h.put(10 + r.Intn(3000)); !ok {
			return
		}
	}
	// error path without a fault: a message above the limit
	{
		before := h.q.AppendedSeq()
		err := h.q.Put(make([]byte, pageSize+1))
		if err == nil {
			h.st.violate("C05/oversize-put-accepted", "Put of %d bytes (limit %d) returned success", pageSize+1, pageSize)
			return
		}
		if got := h.q.AppendedSeq(); got != before {
			h.st.violate("C05/failed-put-moves-appended-sequence/oversize-message", "Put of an oversize message returned %v but the appended sequence moved from %d to %d", err, before, got)
		}
		h.st.count("putfault.oversize_puts_rejected", 1)
	}
	used := 0
	for _, rec := range h.st.puts {
		used += rec.Len
	}
	for ro := 0; ro < rollovers; ro++ {
		if ro == rollovers-1 {
			if syncFault {
				plan.arm(matchSync("data"), 0, 1, residueNone)
			} else {
				plan.arm(matchAcquireNew("data"), 0, times, residue)
			}
		}
		// one or two big messages so that `slack` bytes stay free on the data page
		rest := pageSize - used - slack
		if r.Intn(2) == 0 {
			first := (20 + r.Intn(60)) << 20
			if ok, _ := h.put(first); !ok {
				return
			}
			rest -= first
		}
		if ok, _ := h.put(rest); !ok {
			return
		}
		// small messages: the first that does not fit rolls over
		n := 3 + r.Intn(6)
		used = 0
		rolled := false
		free := slack
		for i := 0; i < n; i++ {
			sz := 500 + r.Intn(2500)
			if i == 0 && slack > 6 && r.Intn(2) == 0 {
				sz = slack + 1 // one byte too long
			}
			if !h.appendOne(sz) {
				return
			}
			if !rolled && sz > free {
				rolled = true
				used = 0
			}
			if rolled {
				used += sz
			} else {
				free -= sz
			}
		}
	}
	what := "data-roll"
	if syncFault {
		what = "data-roll-sync"
	}
	h.noteFault(fmt.Sprintf("putfault%d/%s", idx, what))
	res.Evals++
	h.finish(r, variant%2 == 1)
	res.Sample = map[string]interface{}{"kind": "putfault", "config": res.Config, "sequences": len(h.all), "failed_puts": h.failed}
}

// faultSparseIndexRoll: many short histories. The append position is placed a few messages before an index page
// boundary (SetAppendedSeq, what a follower's reset does), a few real appends, then the Put that needs the next index
// page meets the fault (acquisition of the new page, or the sync of the page that is left); one history per case has
// the data page roll over in the same Put.
func faultSparseIndexRoll(res *caseResult, plan *faultPlan, r *rand.Rand, idx, variant int, dir, tier string) {
	rounds := 12
	if tier == "thorough" {
		rounds = 40
	}
	for round := 0; round < rounds; round++ {
		times := 1 + r.Intn(2)
		residue := (round + variant) % residueModes
		before := r.Intn(5)
		after := 1 + r.Intn(6)
		k := int64(1 + r.Intn(40))
		syncFault := round%4 == 3
		combined := round == 1 // data page and index page roll over in the same Put
		combinedDataFault := combined && variant%2 == 1
		tag := "after-failed-index-page-acquire-at-roll-over"
		switch {
		case syncFault:
			tag = "after-failed-index-page-sync-at-roll-over"
		case combinedDataFault:
			tag = "after-failed-data-page-acquire-at-combined-roll-over"
		case combined:
			tag = "after-failed-index-page-acquire-at-combined-roll-over"
		}
		h := newFaultHist(res, plan, filepath.Join(dir, fmt.Sprintf("q%03d", round)), "index-page-roll-over", tag)
		res.Config = fmt.Sprintf("sparse: %d rounds; append position set %d before an index page boundary, fault at the roll-over", rounds, before)
		if !h.open("open") {
			return
		}
		h.startSeq = k*indexItemsPerPage - 1 - int64(before)
		h.q.SetAppendedSeq(h.startSeq)
		if combined && before == 0 {
			before = 1
			h.startSeq--
			h.q.SetAppendedSeq(h.startSeq)
		}
		for i := 0; i < before; i++ {
			sz := 10 + r.Intn(500)
			if combined && i == before-1 {
				sz = pageSize - 40 - r.Intn(60) // fills the data page: the next message does not fit
				for _, rec := range h.st.puts {
					sz -= rec.Len
				}
			}
			if ok, _ := h.put(sz); !ok {
				break
			}
		}
		if h.dead {
			continue
		}
		switch {
		case syncFault:
			plan.arm(matchSync("index"), 0, 1, residueNone)
		case combinedDataFault:
			plan.arm(matchAcquireNew("data"), 0, times, residue)
		default:
			plan.arm(matchAcquireNew("index"), 0, times, residue)
		}
		h.emptyTail = round%3 == 0
		for i := 0; i < after && !h.dead; i++ {
			sz := 120 + r.Intn(400)
			if i == 0 && round%6 == 2 {
				sz = 0 // the Put that needs the next index page is an empty message
				h.st.count("putfault.empty_puts_at_an_index_page_roll_over", 1)
			}
			h.appendOne(sz)
		}
		h.noteFault(fmt.Sprintf("putfault%d/sparse-index-roll/round%d", idx, round))
		res.Evals++
		h.finish(r, round%5 == 4)
		_ = os.RemoveAll(h.qdir)
	}
	res.Sample = map[string]interface{}{"kind": "putfault", "config": res.Config}
}

// faultOpen: NewQueue with the k-th factory operation failing, for every k until NewQueue is not reached by the
// fault any more - on an empty directory and on a queue that holds messages; NewQueue is then repeated.
func faultOpen(res *caseResult, plan *faultPlan, r *rand.Rand, idx, variant int, dir string) {
	res.Config = "every factory operation of NewQueue fails once: empty directory, and a queue with retained messages"
	// (1) empty directory
	for k := 0; k < 32; k++ {
		residue := (k + variant) % residueModes
		h := newFaultHist(res, plan, filepath.Join(dir, fmt.Sprintf("fresh%02d", k)), "open", "after-failed-open-of-an-empty-queue")
		plan.arm(func(o faultOp) bool { return true }, k, 1, residue)
		q, err := queue.NewQueue(h.qdir, pageSize)
		ops := plan.opsSeen()
		plan.disarm()
		reached := h.faults() > 0
		if err == nil {
			if reached {
				h.st.count("putfault.opens_that_succeeded_although_a_page_operation_failed", 1)
			}
			q.Close()
		} else if !reached {
			h.st.violate("C05/open-fails/"+h.st.tag, "NewQueue on an empty directory without a fault: %v", err)
			return
		} else {
			h.st.count("putfault.opens_failed_by_an_injected_fault", 1)
			h.st.count("putfault.opens_failed_by_an_injected_fault.empty-directory", 1)
		}
		if !reached {
			h.st.count("putfault.factory_operations_of_newqueue_on_an_empty_directory", ops)
			_ = os.RemoveAll(h.qdir)
			break
		}
		h.st.tag = "after-failed-open-of-an-empty-queue(" + plan.lastFired() + ")"
		h.noteFault(fmt.Sprintf("putfault%d/open-fresh/%d", idx, k))
		if !h.open("NewQueue repeated after the failed one") {
			continue
		}
		if app, ack := h.q.AppendedSeq(), h.q.AcknowledgedSeq(); app != -1 || ack != -1 {
			h.st.violate("C05/empty-queue-not-empty/"+h.st.tag, "a queue that never took a message opens with appended=%d acknowledged=%d", app, ack)
		}
		for i := 0; i < 3+r.Intn(5); i++ {
			if ok, _ := h.put(8 + r.Intn(900)); !ok {
				break
			}
		}
		h.emptyTail = k%2 == 1
		res.Evals++
		h.finish(r, false)
		_ = os.RemoveAll(h.qdir)
	}
	// (2) a queue with retained messages (and an acknowledged prefix in some variants)
	h := newFaultHist(res, plan, filepath.Join(dir, "held"), "open", "after-failed-open-of-a-queue-with-messages")
	if !h.open("open") {
		return
	}
	for i := 0; i < 20+r.Intn(60); i++ {
		if ok, _ := h.put(8 + r.Intn(2000)); !ok {
			return
		}
	}
	if variant%2 == 1 {
		h.q.SetAcknowledgedSeq(int64(3 + r.Intn(10)))
	}
	h.all = h.st.verifyAll(h.q, "before the failing opens", true, nil)
	h.q.Close()
	for k := 0; k < 32; k++ {
		h.fired0 = plan.firedCount()
		plan.arm(func(o faultOp) bool { return true }, k, 1, residueNone)
		q, err := queue.NewQueue(h.qdir, pageSize)
		ops := plan.opsSeen()
		plan.disarm()
		reached := h.faults() > 0
		if err == nil {
			if reached {
				h.st.count("putfault.opens_that_succeeded_although_a_page_operation_failed", 1)
			}
			q.Close()
		} else if !reached {
			h.st.violate("C05/reopen-fails/"+h.st.tag, "NewQueue without a fault: %v", err)
			return
		} else {
			h.st.count("putfault.opens_failed_by_an_injected_fault", 1)
			h.st.count("putfault.opens_failed_by_an_injected_fault.queue-with-messages", 1)
		}
		if !reached {
			h.st.count("putfault.factory_operations_of_newqueue_on_a_queue_with_messages", ops)
			break
		}
		h.st.tag = "after-failed-open-of-a-queue-with-messages(" + plan.lastFired() + ")"
		h.noteFault(fmt.Sprintf("putfault%d/open-held/%d", idx, k))
		if !h.open("NewQueue repeated after the failed one") {
			return
		}
		if h.st.noteOpen(h.q, "after-a-failed-put-or-open") {
			h.st.count("empty.appends_right_after_an_open_behind_an_empty_message", 1)
		}
		h.all = h.st.verifyAll(h.q, "after the repeated NewQueue", true, h.all)
		for i := 0; i < 2; i++ {
			sz := 8 + r.Intn(900)
			if i == 1 && k%2 == 0 {
				sz = 0 // the next failing NewQueue (and the repeated one) find an empty message at the tail
			}
			if ok, _ := h.put(sz); !ok {
				return
			}
		}
		h.all = h.st.verifyAll(h.q, "after appends on the queue opened after a failed NewQueue", true, h.all)
		h.st.checkOrder(h.q, "after appends on the queue opened after a failed NewQueue", -1)
		h.q.Close()
		res.Evals++
		h.st.count("putfault.histories", 1)
		h.st.count("putfault.histories.open", 1)
	}
	res.Sample = map[string]interface{}{"kind": "putfault", "config": res.Config}
}
