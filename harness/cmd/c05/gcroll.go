package main

import (
	"bytes"
	"fmt"
	"math/rand"
	"path/filepath"
	"sync"
	"time"

	"github.com/lindb/lindb/pkg/queue"
)

// caseGCRoll: appends that roll over to a new index page while GC() releases acknowledged pages. The queue gets
// many index pages cheaply (SetAppendedSeq to the last slot of a page + one Put, as a follower that was reset
// several times), everything before the last page is acknowledged; then GC runs in one goroutine while the single
// appender appends across the page boundary. Every message whose Put returned and whose sequence is above the
// acknowledged position must read back byte for byte - in this process and after reopen. The start of the appends
// is swept over the measured duration of GC (schedule control only; the verdict is the read-back).
func caseGCRoll(res *caseResult, idx int, dir string, seed int64, tier string) {
	const itemsPerPage = 1024 * 256
	r := rand.New(rand.NewSource(seed*2203 + int64(idx)*17 + 1))
	rounds := 10
	if tier == "thorough" {
		rounds = 40
	}
	s := newState(res)
	res.Config = fmt.Sprintf("rounds=%d", rounds)
	gcCost := 2 * time.Millisecond
	for round := 0; round < rounds; round++ {
		oldPages := 24 + r.Intn(48)
		qdir := filepath.Join(dir, fmt.Sprintf("q%03d", round))
		q, err := queue.NewQueue(qdir, 0)
		if err != nil {
			s.violate("C05/open-fails", "NewQueue: %v", err)
			return
		}
		for k := int64(1); k <= int64(oldPages); k++ {
			q.SetAppendedSeq(k*itemsPerPage - 1)
			if err := q.Put([]byte(fmt.Sprintf("filler-%d", k))); err != nil {
				s.violate("C05/put-fails", "filler put: %v", err)
				return
			}
		}
		before := 1 + r.Intn(3) // messages before the boundary
		after := 2 + r.Intn(4)  // messages from the boundary on
		base := int64(oldPages+1)*itemsPerPage - 1 - int64(before)
		q.SetAppendedSeq(base)
		expect := map[int64][]byte{}
		put := func() bool {
			seq := q.AppendedSeq() + 1
			msg := payload(900+round, int(seq%1000000), 24+r.Intn(200))
			if round%3 == 1 && seq%2 == 0 {
				msg = []byte{} // empty messages around the index page boundary (expected by sequence)
				s.count("empty.empty_messages_appended", 1)
			}
			if err := q.Put(msg); err != nil {
				s.violate("C05/put-fails", "round %d: Put of sequence %d: %v", round, seq, err)
				return false
			}
			if got := q.AppendedSeq(); got != seq {
				s.violate("C05/sequences-not-dense", "round %d: appended %d after the put of %d", round, got, seq)
				return false
			}
			expect[seq] = msg
			return true
		}
		for i := 0; i < before; i++ {
			put()
		}
		var wg sync.WaitGroup
		start := make(chan struct{})
		var cost time.Duration
		wg.Add(1)
		go func() {
			defer wg.Done()
			<-start
			t0 := time.Now()
			q.GC()
			cost = time.Since(t0)
		}()
		delay := gcCost * time.Duration(round%12) / 12
		close(start)
		for t0 := time.Now(); time.Since(t0) < delay; {
		}
		for i := 0; i < after; i++ {
			put() // the first one opens the next index page
		}
		wg.Wait()
		if cost > 0 {
			gcCost = cost
		}
		s.count("gcroll.rounds", 1)
		s.count("gcroll.index_pages_released_by_gc", oldPages)
		check := func(q queue.Queue, phase string) {
			for seq, want := range expect {
				if seq <= q.AcknowledgedSeq() {
					continue
				}
				got, err := q.Get(seq)
				if err != nil {
					s.violate("C05/acknowledged-append-missing/gc-during-index-page-roll-over", "round %d %s: Get(%d) of an appended message above the acknowledged position %d fails: %v (appended %d)",
						round, phase, seq, q.AcknowledgedSeq(), err, q.AppendedSeq())
					continue
				}
				if !bytes.Equal(got, want) {
					s.violate("C05/bytes-differ/gc-during-index-page-roll-over", "round %d %s: sequence %d reads %d bytes (head %x), appended %d bytes (head %x)",
						round, phase, seq, len(got), head(got), len(want), head(want))
				}
				res.Evals++
			}
		}
		check(q, "same process")
		q.Close()
		q2, err := queue.NewQueue(qdir, 0)
		if err != nil {
			s.violate("C05/reopen-fails", "round %d: %v", round, err)
			continue
		}
		check(q2, "after reopen")
		q2.Close()
		res.Nontrivial = append(res.Nontrivial, fmt.Sprintf("gcroll%d/round%d", idx, round))
	}
	res.Sample = map[string]interface{}{"kind": "gcroll", "config": res.Config}
}

// caseBackReset: the append position is reset backwards (SetAppendedSeq, what a follower's ResetReplicaIndex and a
// leader's ResetAppendIndex do) across an index page boundary, then messages are appended again: every message
// appended after the reset must read back under its sequence with its own bytes - in this process and after reopen.
func caseBackReset(res *caseResult, idx int, dir string, seed int64, tier string) {
	const itemsPerPage = 1024 * 256
	r := rand.New(rand.NewSource(seed*3307 + int64(idx)*29 + 5))
	s := newState(res)
	pagesAhead := 1 + idx%2 // how many index pages the queue is ahead of the reset target
	over := 5 + r.Intn(200)
	total := int64(pagesAhead)*itemsPerPage + int64(over)
	back := int64(1 + r.Intn(150))
	target := itemsPerPage - back // last slot region of index page 0
	res.Config = fmt.Sprintf("appended=%d reset-to=%d", total, target)
	qdir := filepath.Join(dir, "q")
	q, err := queue.NewQueue(qdir, 0)
	if err != nil {
		s.violate("C05/open-fails", "NewQueue: %v", err)
		return
	}
	old := []byte("old-message-of-the-first-life")
	for i := int64(0); i < total; i++ {
		if err := q.Put(old); err != nil {
			s.violate("C05/put-fails", "prefill put %d: %v", i, err)
			return
		}
	}
	q.SetAppendedSeq(target)
	s.count("backreset.resets_across_an_index_page_boundary", 1)
	expect := map[int64][]byte{}
	put := func(q queue.Queue, empty bool) {
		seq := q.AppendedSeq() + 1
		msg := payload(800+idx, int(seq%1000000), 30+r.Intn(300))
		if empty {
			// an empty message over the index entry of a message of the first life (expected by sequence)
			msg = []byte{}
			s.count("empty.empty_messages_appended", 1)
			s.count("backreset.empty_messages_appended_over_an_old_index_entry", 1)
		}
		if err := q.Put(msg); err != nil {
			s.violate("C05/put-fails", "Put of sequence %d after the reset: %v", seq, err)
			return
		}
		if got := q.AppendedSeq(); got != seq {
			s.violate("C05/sequences-not-dense", "appended %d after the put of %d", got, seq)
			return
		}
		expect[seq] = msg
	}
	check := func(q queue.Queue, phase string) {
		for seq, want := range expect {
			if seq <= q.AcknowledgedSeq() {
				continue
			}
			got, err := q.Get(seq)
			if err != nil {
				s.violate("C05/acknowledged-append-missing/after-backward-reset-across-index-page", "%s: Get(%d) of a message appended after the reset to %d fails: %v (appended %d, acknowledged %d)",
					phase, seq, target, err, q.AppendedSeq(), q.AcknowledgedSeq())
				continue
			}
			if !bytes.Equal(got, want) {
				s.violate("C05/bytes-differ/after-backward-reset-across-index-page", "%s: sequence %d reads %d bytes (head %x), appended %d bytes (head %x)",
					phase, seq, len(got), head(got), len(want), head(want))
			}
			res.Evals++
		}
	}
	n := 3 + r.Intn(int(back)+20) // may cross the boundary forwards again
	for i := 0; i < n; i++ {
		put(q, i%4 == 1 || (i == n-1 && idx%2 == 1)) // idx odd: the last message before the reopen is empty
	}
	check(q, "same process")
	q.Close()
	q2, err := queue.NewQueue(qdir, 0)
	if err != nil {
		s.violate("C05/reopen-fails", "%v", err)
		return
	}
	check(q2, "after reopen")
	for i := 0; i < 3; i++ {
		put(q2, false)
	}
	check(q2, "after reopen and more appends")
	q2.Close()
	res.Nontrivial = append(res.Nontrivial, fmt.Sprintf("backreset%d", idx))
	res.Sample = map[string]interface{}{"kind": "backreset", "config": res.Config}
}
