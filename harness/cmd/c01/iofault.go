package main

// I/O-fault histories ("iofault"): ONE failing file-system step per history, the store keeps running.
//
// The other histories kill the process; here the process lives and one call of the file-system seams answers with an
// error (ENOSPC/EIO), the way a full or failing disk does: creating a table, a write into a table (a key/value or the
// footer), the final flush+close of a table (half of the bytes reached the file / none did / all did but close failed),
// creating / writing / flushing / fsyncing the manifest, writing CURRENT.tmp, renaming it. The step lies inside a flush,
// inside a compaction or inside a reopen (stratified by history number and seed). Like the real buffered writer, a writer
// whose flush failed stays failed (every later call returns the error, nothing more reaches its file).
//
// Oracle = the ledger rule, extended by the result of the operation: a flush whose Commit (or Add) returned an ERROR must
// be invisible and must not have destroyed anything committed earlier; one that returned success must be fully visible;
// a compaction or a reopen never changes content. That is checked on the running store right after the faulted operation,
// after the family's obsolete-file cleanup, after the operations that follow, and on every later crash image (recovered
// with the real code). Violation classes of an iofault history carry what was injected and what the operation answered:
// C01/commit-returned-success-after-failed-table-write/flush.table-close-partial/running-store/referenced-table-unreadable.

import (
	"encoding/binary"
	"fmt"
	"os"
	"path/filepath"
	"sort"
	"strings"
	"sync"
	"syscall"

	"github.com/lindb/lindb/kv"
	"github.com/lindb/lindb/kv/table"
	"github.com/lindb/lindb/kv/version"
	"github.com/lindb/lindb/pkg/bufioutil"
	"github.com/lindb/lindb/verif/internal/core"
)

type faultPlan struct {
	Op   string `json:"op"`   // flush | compact | reopen
	Step string `json:"step"` // see faultSteps
	Nth  int    `json:"nth"`  // the nth matching call while the operation runs
}

// strata that are always part of a run (the final write of a table inside a flush and inside a compaction,
// a manifest record cut half-way, a reopen that cannot write its new manifest) ...
var fixedStrata = []faultPlan{
	{"flush", "table-close-partial", 1},
	{"compact", "table-close-partial", 1},
	{"flush", "table-close-empty", 1},
	{"compact", "table-close-empty", 1},
	{"compact", "table-close-partial", 2},
	{"flush", "table-close-full", 1},
	// the strata in which the unchanged tree once failed (fixes d4b4601, 9cf76a6): every seed keeps them armed
	{"flush", "manifest-sync-partial", 1},
	{"reopen", "manifest-create", 1},
	{"compact", "manifest-sync-partial", 1},
	{"reopen", "manifest-write", 1},
}

// ... and the strata the remaining iofault histories rotate through (offset by the seed)
var rotatingStrata = []faultPlan{
	{"flush", "table-create", 1},
	{"flush", "table-add-write", 1},
	{"flush", "table-add-write", 2},
	{"flush", "table-footer-write", 1},
	{"flush", "manifest-write", 1},
	{"flush", "manifest-sync-none", 1},
	{"flush", "manifest-sync-partial", 1},
	{"compact", "table-create", 1},
	{"compact", "table-create", 2},
	{"compact", "table-add-write", 1},
	{"compact", "table-add-write", 3},
	{"compact", "table-footer-write", 1},
	{"compact", "table-close-full", 1},
	{"compact", "manifest-write", 1},
	{"compact", "manifest-sync-none", 1},
	{"compact", "manifest-sync-partial", 1},
	{"reopen", "manifest-create", 1},
	{"reopen", "manifest-write", 1},
	{"reopen", "manifest-write", 2},
	{"reopen", "manifest-sync-none", 1},
	{"reopen", "manifest-sync-partial", 1},
	{"reopen", "current-write", 1},
	{"reopen", "current-rename", 1},
}

// iofaultPlan is a function of (seed, k) only: k-th iofault history of the run.
func iofaultPlan(seed int64, k int) faultPlan {
	if k < len(fixedStrata) {
		return fixedStrata[k]
	}
	off := int(uint64(seed) % uint64(len(rotatingStrata)))
	return rotatingStrata[(k-len(fixedStrata)+off*7)%len(rotatingStrata)]
}

type faultState struct {
	plan   faultPlan
	d      *driver
	mu     sync.Mutex
	armed  bool
	seen   int
	fired  bool
	at     int    // number of images when the fault was injected
	file   string // file the failing step belongs to
	result string // what the faulted operation answered: commit-returned-success | commit-returned-error | compaction | reopen-returned-error | reopen-returned-success
	// the live manifest writer failed in a flush: it stays failed until the store is reopened
	manifestBroken bool
	// a destructive outcome with a class of its own was observed: the crash images after the fault are not verified
	// (they would repeat it under the names of its symptoms)
	destructive bool
}

func (fs *faultState) arm(on bool) {
	fs.mu.Lock()
	fs.armed = on
	fs.mu.Unlock()
}

// hit reports whether this call is the one to fail.
func (fs *faultState) hit(step, file string) bool {
	fs.mu.Lock()
	defer fs.mu.Unlock()
	if !fs.armed || fs.fired {
		return false
	}
	if fs.plan.Step != step && !(step == "table-close" && strings.HasPrefix(fs.plan.Step, "table-close-")) &&
		!(step == "manifest-sync" && strings.HasPrefix(fs.plan.Step, "manifest-sync-")) {
		return false
	}
	fs.seen++
	if fs.seen != fs.plan.Nth {
		return false
	}
	fs.fired = true
	fs.at = fs.d.world.Count()
	fs.file = file
	return true
}

func (fs *faultState) firedNow() (bool, int) {
	fs.mu.Lock()
	defer fs.mu.Unlock()
	return fs.fired, fs.at
}

// tag names the injected fault and the answer of the operation; it becomes part of every violation class raised after it.
func (fs *faultState) tag() string {
	fs.mu.Lock()
	defer fs.mu.Unlock()
	what := "table-write"
	if strings.HasPrefix(fs.plan.Step, "manifest") || strings.HasPrefix(fs.plan.Step, "current") {
		what = "manifest-write"
	}
	res := fs.result
	if res == "" {
		res = "operation-in-flight"
	}
	var head string
	switch res {
	case "compaction":
		head = "compaction-after-failed-" + what
	default:
		head = res + "-after-failed-" + what
	}
	return head + "/" + fs.plan.Op + "." + fs.plan.Step
}

var (
	errNoSpace = &os.PathError{Op: "write", Path: "(injected)", Err: syscall.ENOSPC}
	errIO      = &os.PathError{Op: "close", Path: "(injected)", Err: syscall.EIO}
)

// faultWriter sits on top of the imaging writer of internal/seam.
type faultWriter struct {
	inner    bufioutil.BufioWriter
	fs       *faultState
	name     string
	manifest bool
	synced   int64 // size at the last successful sync
	sticky   error
}

const tableFooterMagic uint64 = 0x69632d656d656c65

func isFooter(p []byte) bool {
	return len(p) == 17 && binary.LittleEndian.Uint64(p[9:]) == tableFooterMagic
}

func (w *faultWriter) truncate(size int64) {
	_ = w.fs.d.gate.Do("truncate "+w.name, func() error { return os.Truncate(w.name, size) })
}

func (w *faultWriter) Write(p []byte) (int, error) {
	if w.sticky != nil {
		return 0, w.sticky
	}
	step := "table-add-write"
	switch {
	case w.manifest:
		step = "manifest-write"
	case isFooter(p):
		step = "table-footer-write"
	}
	if w.fs.hit(step, w.name) {
		w.sticky = errNoSpace
		if w.manifest {
			w.fs.d.setManifestBroken(w)
		}
		return 0, w.sticky
	}
	return w.inner.Write(p)
}

func (w *faultWriter) Close() error {
	if w.sticky != nil {
		// like bufio.Writer after a failed write: Flush returns the error, the file is never closed
		return w.sticky
	}
	if !w.manifest && w.fs.hit("table-close", w.name) {
		size := w.inner.Size()
		err := w.inner.Close()
		if err != nil {
			return err
		}
		w.fs.mu.Lock()
		step := w.fs.plan.Step
		w.fs.mu.Unlock()
		switch step {
		case "table-close-partial":
			w.truncate(size / 2)
			w.sticky = errNoSpace
		case "table-close-empty":
			w.truncate(0)
			w.sticky = errNoSpace
		default: // every byte reached the file, close(2) reports an error
			w.sticky = errIO
		}
		return w.sticky
	}
	return w.inner.Close()
}

func (w *faultWriter) Reset(fileName string) error {
	if w.sticky != nil {
		return w.sticky
	}
	err := w.inner.Reset(fileName)
	if err == nil {
		w.name = fileName
		w.synced = 0
	}
	return err
}

func (w *faultWriter) Sync() error {
	if w.sticky != nil {
		return w.sticky
	}
	if w.manifest && w.fs.hit("manifest-sync", w.name) {
		w.fs.mu.Lock()
		step := w.fs.plan.Step
		w.fs.mu.Unlock()
		total := w.inner.Size()
		if step == "manifest-sync-partial" {
			// half of the buffered bytes reached the file
			if err := w.inner.Sync(); err != nil {
				return err
			}
			w.truncate(w.synced + (total-w.synced)/2)
		}
		w.sticky = errNoSpace
		w.fs.d.setManifestBroken(w)
		return w.sticky
	}
	err := w.inner.Sync()
	if err == nil {
		w.synced = w.inner.Size()
	}
	return err
}

func (w *faultWriter) Flush() error {
	if w.sticky != nil {
		return w.sticky
	}
	return w.inner.Flush()
}

func (w *faultWriter) Size() int64 { return w.inner.Size() }

func (d *driver) setManifestBroken(w *faultWriter) {
	d.fault.mu.Lock()
	// only the manifest of the running store counts (a reopen that failed throws its writer away)
	if d.fault.plan.Op != "reopen" {
		d.fault.manifestBroken = true
	}
	d.fault.mu.Unlock()
}

// installFaultSeams puts the fault wrappers in front of the (imaging) seams installed by internal/seam.
func (d *driver) installFaultSeams() {
	fs := d.fault
	tbl := table.VerifGetSeams()
	ver := version.VerifGetSeams()
	table.VerifSetSeams(table.VerifSeams{
		NewBufioWriter: func(fileName string) (bufioutil.BufioWriter, error) {
			if fs.hit("table-create", fileName) {
				return nil, errNoSpace
			}
			w, err := tbl.NewBufioWriter(fileName)
			if err != nil {
				return nil, err
			}
			return &faultWriter{inner: w, fs: fs, name: fileName}, nil
		},
	})
	version.VerifSetSeams(version.VerifSeams{
		NewBufferWriter: func(fileName string) (bufioutil.BufioWriter, error) {
			if fs.hit("manifest-create", fileName) {
				return nil, errNoSpace
			}
			w, err := ver.NewBufferWriter(fileName)
			if err != nil {
				return nil, err
			}
			return &faultWriter{inner: w, fs: fs, name: fileName, manifest: true}, nil
		},
		WriteFile: func(name string, data []byte, perm os.FileMode) error {
			if fs.hit("current-write", name) {
				// half of the name reached CURRENT.tmp
				_ = ver.WriteFile(name, data[:len(data)/2], perm)
				return errNoSpace
			}
			return ver.WriteFile(name, data, perm)
		},
		Rename: func(oldpath, newpath string) error {
			if fs.hit("current-rename", newpath) {
				return errIO
			}
			return ver.Rename(oldpath, newpath)
		},
	})
}

func (d *driver) destructive(class, msg string) {
	d.fault.mu.Lock()
	d.fault.destructive = true
	d.fault.mu.Unlock()
	d.mu.Lock()
	d.res.Violations = append(d.res.Violations, core.Violation{Class: class, Message: msg,
		Witness: map[string]interface{}{"fault": d.fault.plan, "config": fmt.Sprintf("%+v", d.cfg), "ops": d.ops}})
	d.mu.Unlock()
}

func (d *driver) count(name string, n int) {
	d.mu.Lock()
	d.res.Counters[name] += n
	d.mu.Unlock()
}

func (d *driver) sortedFamilies() []string {
	var ns []string
	for n := range d.fams {
		ns = append(ns, n)
	}
	sort.Strings(ns)
	return ns
}

func (d *driver) liveCheckAll(phase string) {
	for _, n := range d.sortedFamilies() {
		d.liveCheck(n, phase)
	}
}

// laterOp runs an operation that follows the fault. While the manifest writer of the running store is failed every
// commit has to fail (and stay invisible); otherwise an error is a violation of its own.
func (d *driver) laterOp(what string, err error) {
	if err == nil {
		return
	}
	d.fault.mu.Lock()
	broken := d.fault.manifestBroken
	d.fault.mu.Unlock()
	if broken {
		d.count("iofault.later_commits_failed_while_manifest_writer_failed", 1)
		return
	}
	d.mu.Lock()
	d.res.Violations = append(d.res.Violations, core.Violation{Class: "C01/" + d.fault.tag() + "/later-operation-fails",
		Message: fmt.Sprintf("%s after the fault failed although nothing was injected: %v", what, err), Witness: d.ops})
	d.mu.Unlock()
}

// driveIOFault: a short history, one faulted operation, checks, a few more operations (crash images follow the fault).
func (d *driver) driveIOFault() error {
	fs := d.fault
	if err := d.openStore("create-store"); err != nil {
		return fmt.Errorf("create store: %w", err)
	}
	for _, n := range d.cfg.Families {
		if err := d.createFamily(n); err != nil {
			return err
		}
	}
	names := d.sortedFamilies()
	target := names[d.rnd.Intn(len(names))]
	// before the fault: every family holds committed data; now and then a compaction and a reopen
	for i, n := 0, 1+d.rnd.Intn(3); i < n; i++ {
		fam := names[d.rnd.Intn(len(names))]
		switch r := d.rnd.Intn(10); {
		case r < 6:
			if err := d.doFlush(d.planFlush(fam, false, 0)); err != nil {
				return err
			}
		case r < 7:
			if err := d.doFlush(d.planFlush(fam, true, 0)); err != nil {
				return err
			}
		case r < 9:
			if d.l0Files(fam) > 1 {
				d.compact(fam)
			} else if err := d.doFlush(d.planFlush(fam, false, 0)); err != nil {
				return err
			}
		default:
			if err := d.reopen(); err != nil {
				return err
			}
		}
	}
	if err := d.doFlush(d.planFlush(target, false, 0)); err != nil {
		return err
	}
	need := 0
	if fs.plan.Op == "compact" {
		need = d.cfg.Threshold
		if need < 2 {
			need = 2
		}
		if fs.plan.Nth > 1 {
			need += 2 // more keys, more output tables
		}
	}
	for d.l0Files(target) < need {
		p := d.planFlush(target, false, 0)
		if err := d.doFlush(p); err != nil {
			return err
		}
	}

	// the faulted operation
	fs.arm(true)
	switch fs.plan.Op {
	case "flush":
		p := d.planFlush(target, false, 0)
		if fs.plan.Step == "table-add-write" && fs.plan.Nth > 1 {
			for len(p.keys) < 3 {
				p = d.planFlush(target, false, 0)
			}
		}
		err := d.doFlush(p)
		fs.arm(false)
		fs.mu.Lock()
		if err != nil {
			fs.result = "commit-returned-error"
		} else {
			fs.result = "commit-returned-success"
		}
		fs.mu.Unlock()
	case "compact":
		d.compact(target)
		fs.arm(false)
		fs.mu.Lock()
		fs.result = "compaction"
		fs.mu.Unlock()
	case "reopen":
		err := d.reopen()
		fs.arm(false)
		fs.mu.Lock()
		if err != nil {
			fs.result = "reopen-returned-error"
		} else {
			fs.result = "reopen-returned-success"
		}
		fs.mu.Unlock()
		if err != nil {
			// the store is closed now; opening it again (nothing injected) must work and show everything
			_ = kv.GetStoreManager().CloseStore(d.storeDir)
			if cur, e := os.ReadFile(filepath.Join(d.storeDir, "CURRENT")); e == nil && len(cur) > 0 {
				if _, e := os.Stat(filepath.Join(d.storeDir, string(cur))); os.IsNotExist(e) {
					d.count("iofault.fired", 1)
					d.count("iofault.fired."+fs.plan.Op+"."+fs.plan.Step, 1)
					d.destructive("C01/failed-reopen-deletes-live-manifest/"+fs.plan.Step,
						fmt.Sprintf("reopen failed with the injected fault (%v) and removed %s, the manifest CURRENT names: the store cannot be opened any more", err, cur))
					return nil
				}
			}
			if err2 := d.reopen(); err2 != nil {
				d.mu.Lock()
				d.res.Violations = append(d.res.Violations, core.Violation{Class: "C01/" + fs.tag() + "/store-cannot-be-opened-any-more",
					Message: fmt.Sprintf("reopen failed with the injected fault (%v); the next reopen, nothing injected, fails: %v", err, err2), Witness: d.ops})
				d.mu.Unlock()
				return nil
			}
			d.count("iofault.reopen_retried_after_failed_reopen", 1)
		}
	}
	fired, _ := fs.firedNow()
	key := fs.plan.Op + "." + fs.plan.Step
	if !fired {
		d.count("iofault.step_not_reached."+key, 1)
	} else {
		d.count("iofault.fired", 1)
		d.count("iofault.fired."+key, 1)
		d.count("iofault.answer."+key+"."+fs.result, 1)
		if strings.HasPrefix(fs.plan.Step, "table-close-") {
			d.count("iofault.fired_final_table_write."+fs.plan.Op, 1)
			if fs.plan.Step != "table-close-full" {
				d.count("iofault.fired_final_table_write_truncated."+fs.plan.Op, 1)
			}
		}
	}
	d.liveCheckAll("running-store")
	for _, n := range d.sortedFamilies() {
		clop := d.begin("cleanup", n)
		kv.VerifFamilyDeleteObsoleteFiles(d.fams[n])
		d.end(clop, nil)
	}
	d.liveCheckAll("running-store-after-cleanup")

	if fs.plan.Step == "manifest-sync-partial" && fs.plan.Op != "reopen" && fired {
		// the live manifest ends with half a record now (the writer is failed, nothing is appended any more)
		if err := d.reopen(); err != nil {
			if strings.Contains(err.Error(), "manifest") {
				d.destructive("C01/torn-manifest-tail-prevents-reopen/"+fs.plan.Op,
					fmt.Sprintf("the flush of the last manifest record failed half-way during a %s; reopen (nothing injected): %v", fs.plan.Op, err))
				return nil
			}
		} else {
			fs.mu.Lock()
			fs.manifestBroken = false
			fs.mu.Unlock()
			d.liveCheckAll("reopened-store-after-torn-manifest-tail")
		}
	}
	// after the fault: flushes, a compaction, a reopen, a flush - with crash images all along
	d.laterOp("flush", d.doFlush(d.planFlush(target, false, 0)))
	other := names[d.rnd.Intn(len(names))]
	d.laterOp("flush", d.doFlush(d.planFlush(other, false, 0)))
	if d.l0Files(target) > 1 {
		d.compact(target)
	}
	d.liveCheckAll("running-store-after-later-operations")
	if err := d.reopen(); err != nil {
		d.mu.Lock()
		d.res.Violations = append(d.res.Violations, core.Violation{Class: "C01/" + fs.tag() + "/later-reopen-fails",
			Message: fmt.Sprintf("reopen (nothing injected) after the fault: %v", err), Witness: d.ops})
		d.mu.Unlock()
		return nil
	}
	fs.mu.Lock()
	fs.manifestBroken = false
	fs.mu.Unlock()
	d.liveCheckAll("reopened-store")
	d.laterOp("flush", d.doFlush(d.planFlush(target, false, 0)))
	if d.l0Files(target) > 1 {
		d.compact(target)
	}
	d.liveCheckAll("reopened-store-after-later-operations")
	return nil
}
