// C01 — KV store: a committed flush is atomic and durable across a crash.
//
// One child process per generated history: the child runs the history against a real kv.Store whose
// file-system seams are routed through an imgfs.World (an image of the store directory after every
// file-system operation), then reopens every image with the real recovery code and compares what the
// recovered families show with the reference state the ledger allows for that image.
package main

import (
	"encoding/json"
	"fmt"
	"os"
	"path/filepath"
	"runtime"
	"strconv"
	"strings"
	"time"

	"github.com/lindb/lindb/verif/internal/core"
)

// childResult is what a history child reports back.
type childResult struct {
	History      int               `json:"history"`
	Shape        string            `json:"shape"`
	Ops          int               `json:"ops"`
	Images       int               `json:"images"`
	InsideImages int               `json:"inside_images"`
	Counters     map[string]int    `json:"counters"`
	Nontrivial   []string          `json:"nontrivial"`
	Violations   []core.Violation  `json:"violations"`
	Sample       interface{}       `json:"sample"`
	Fatal        string            `json:"fatal,omitempty"`
	OpKinds      map[string]int    `json:"op_kinds"`
	Extra        map[string]string `json:"extra,omitempty"`
}

func main() {
	if len(os.Args) > 1 && os.Args[1] == "history" {
		runHistoryChild()
		return
	}
	c := core.New("C01", "fault_enumeration")
	c.SetRule("one case = (history, crash image): an image of the store directory taken after a file-system operation " +
		"(mkdir, create, write that reached the file, sync, close, rename, remove, toml dump) of a generated history " +
		"create-family/flush/flush-empty/compact/reopen/concurrent-flush/commit-convoy (2-4 flushers of ONE family built one " +
		"after the other and committed concurrently, optionally with a compaction of that family committing in the same " +
		"window, free-running or with the first committer held in its manifest write until the others queue behind it; " +
		"then the family's obsolete-file cleanup; the running store is read after the commits returned); every image is recovered with the real " +
		"kv.CreateStore and compared with the ledger. Non-trivial = image strictly inside an operation (taken after " +
		"the operation's first and before its last file-system event); distinct by (history, image content hash). " +
		"iofault histories (iofault.go): the process lives, ONE file-system step of a flush / a compaction / a reopen answers with " +
		"ENOSPC/EIO (table create, key/value write, footer write, final flush+close of a table with half / none / all of the bytes " +
		"in the file, manifest create / write / flush half or not at all, CURRENT.tmp write, rename; 6 fixed strata + a seed-rotated " +
		"slice of 23 in quick, all in thorough); a flush that answered with an error must be invisible and must have destroyed " +
		"nothing, one that answered success must be fully visible - on the running store (after the operation, after cleanup, after " +
		"later operations, after reopen) and on every later crash image.")
	c.Assume("a killed process loses user-space buffers and keeps what the kernel has: the directory as read(2) shows it between two operations is a crash state")
	c.Assume("granularity is the seam: writes inside ltoml.EncodeToml and lockers.FileLock are not split; power loss (un-fsynced page cache) is out of scope")
	c.Assume("fsync(2) of buffered writers is skipped by the harness wrapper (bytes still reach the kernel): irrelevant under the process-kill fault model")
	c.Assume("test merger 'verifTokenUnion' (registered by the harness) is the value semantics: a key's content is the union of the tokens of all its values")

	nHist := c.Pick(32, 400)
	nBig := c.Pick(0, 1) // histories with a >256KiB manifest snapshot record
	scratch := c.Scratch()
	type job struct {
		idx   int
		shape string
	}
	var jobs []job
	for i := 0; i < nHist; i++ {
		if i%4 == 3 {
			// many families, created between reopens (family ids handed out by a reopened store)
			jobs = append(jobs, job{i, "families"})
			continue
		}
		jobs = append(jobs, job{i, "random"})
	}
	for i := 0; i < nBig; i++ {
		jobs = append(jobs, job{nHist + i, "bigsnapshot"})
	}
	if !c.Quick() {
		jobs = append(jobs, job{nHist + nBig, "bigtable"})
	}
	// iofault histories: one failing file-system step each (iofault.go); the plan is a function of (seed, k)
	nFault := c.Pick(16, 120)
	var fjobs []job
	for k := 0; k < nFault; k++ {
		fjobs = append(fjobs, job{nHist + 10 + k, fmt.Sprintf("iofault:%d", k)})
	}
	if c.Quick() {
		// the short ones last: they fill the tail of the schedule
		jobs = append(jobs, fjobs...)
	} else {
		jobs = append(fjobs, jobs...)
	}
	results := make([]*childResult, len(jobs))
	workers := runtime.NumCPU()
	core.Parallel(len(jobs), workers, func(i int) {
		j := jobs[i]
		dir := filepath.Join(scratch, fmt.Sprintf("h%04d", j.idx))
		_ = os.MkdirAll(dir, 0o755)
		out := filepath.Join(dir, "child.log")
		timeout := 10 * time.Minute
		if !c.Quick() {
			timeout = 40 * time.Minute
		}
		res := core.RunChild("", []string{"history", strconv.Itoa(j.idx), j.shape, dir, c.Tier},
			[]string{"VERIF_SEED=" + strconv.FormatInt(c.Seed, 10)}, timeout, out)
		r := &childResult{History: j.idx, Shape: j.shape}
		data, err := os.ReadFile(filepath.Join(dir, "result.json"))
		if err == nil {
			err = json.Unmarshal(data, r)
		}
		if err != nil || res.ExitCode != 0 || res.TimedOut {
			if res.TimedOut {
				r.Fatal = "watchdog"
			} else {
				r.Fatal = fmt.Sprintf("child exit=%d err=%v output tail: %s", res.ExitCode, err, tail(res.Output, 3000))
			}
		}
		results[i] = r
		_ = os.RemoveAll(dir)
	})
	for _, r := range results {
		if r.Fatal == "watchdog" {
			c.Inconclusive("history %d (%s): watchdog fired", r.History, r.Shape)
			continue
		}
		if r.Fatal != "" {
			// the driver child died: a crash of the real code while driving/recovering is attributed to the property
			// only when lindb frames are on the stack; otherwise it is a harness problem => inconclusive
			if strings.Contains(r.Fatal, "github.com/lindb/lindb/kv") {
				c.Violation("C01/process-died-in-kv", fmt.Sprintf("history %d (%s): %s", r.History, r.Shape, r.Fatal), r)
			} else {
				c.Inconclusive("history %d (%s): child failed: %s", r.History, r.Shape, tail(r.Fatal, 600))
			}
			continue
		}
		c.Eval(r.Images)
		for _, k := range r.Nontrivial {
			c.Nontrivial(k)
		}
		for k, v := range r.Counters {
			c.Count(k, v)
		}
		for k, v := range r.OpKinds {
			c.Count("op."+k, v)
		}
		c.Count("histories", 1)
		c.Count("images", r.Images)
		c.Count("images_strictly_inside_an_operation", r.InsideImages)
		if r.Sample != nil {
			c.Sample(r.Sample)
		}
		for _, v := range r.Violations {
			c.Violation(v.Class, fmt.Sprintf("history %d (%s): %s", r.History, r.Shape, v.Message), v.Witness)
		}
	}
	// the overlapping-commit situation must have been observed: convoys whose schedule was reached, crash images with two
	// or more commits of one family in flight, and the running store read after the commits returned
	if n := c.Counter("convoy.groups"); n < int64(c.Pick(16, 100)) {
		c.Inconclusive("only %d commit convoys (overlapping commits of one family) reached their schedule", n)
	}
	if n := c.Counter("convoy.groups_gated"); n < int64(c.Pick(4, 25)) {
		c.Inconclusive("only %d gated commit convoys (first committer held in its manifest write until the others queued)", n)
	}
	if n := c.Counter("family_states_with_2plus_commits_in_flight"); n < int64(c.Pick(20, 100)) {
		c.Inconclusive("only %d recovered family states with two or more commits of the family in flight", n)
	}
	if n := c.Counter("live.running-store-after-concurrent-commits.family_states_compared"); n < int64(c.Pick(16, 100)) && c.Violations() == 0 {
		c.Inconclusive("the running store was compared with the ledger after only %d commit convoys", n)
	}
	// the failing final write of a table (what a full disk does to a flush / a compaction output) must have been injected
	for _, op := range []string{"flush", "compact"} {
		if n := c.Counter("iofault.fired_final_table_write_truncated." + op); n < 2 {
			c.Inconclusive("only %d histories in which the final write of a table of a %s failed (truncated table)", n, op)
		}
	}
	if n := c.Counter("iofault.fired"); n < int64(c.Pick(8, 70)) {
		c.Inconclusive("only %d iofault histories reached their failing step", n)
	}
	if c.Counter("images_strictly_inside_an_operation") < 20 {
		c.Inconclusive("only %d images strictly inside an operation", c.Counter("images_strictly_inside_an_operation"))
	}
	c.Finish()
}

func tail(s string, n int) string {
	if len(s) > n {
		return s[len(s)-n:]
	}
	return s
}
