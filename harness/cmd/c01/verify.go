package main

import (
	"fmt"
	"os"
	"path/filepath"
	"sort"
	"strings"

	"github.com/lindb/lindb/kv"
	"github.com/lindb/lindb/kv/table"
	"github.com/lindb/lindb/kv/version"
	"github.com/lindb/lindb/verif/internal/core"
	"github.com/lindb/lindb/verif/internal/imgfs"
)

type verifier struct {
	d   *driver
	res *childResult
	// live != "": the verifier reads the running store (no crash) in the named phase; classes become C01/<live>/<what>
	live string
}

func (v *verifier) violate(class string, img imgfs.Image, format string, args ...interface{}) {
	if fs := v.d.fault; fs != nil {
		// iofault history: everything observed after the injected fault names the fault and the operation's answer
		if fired, at := fs.firedNow(); fired && (v.live != "" || img.Index >= at) {
			// the phase of a read of the running store is part of the message (img.Label), not of the class
			where := "running-store"
			if v.live == "" {
				where = "crash-image"
			}
			class = "C01/" + fs.tag() + "/" + where + "/" + strings.TrimPrefix(class, "C01/")
		} else if v.live != "" {
			class = "C01/" + v.live + "/" + strings.TrimPrefix(class, "C01/")
		}
	} else if v.live != "" {
		class = "C01/" + v.live + "/" + strings.TrimPrefix(class, "C01/")
	}
	v.d.mu.Lock()
	defer v.d.mu.Unlock()
	msg := fmt.Sprintf("image %d (after %q): ", img.Index, strings.ReplaceAll(img.Label, v.d.storeDir, "<store>")) + fmt.Sprintf(format, args...)
	for _, old := range v.res.Violations {
		if old.Class == class {
			v.res.Counters["violations."+class]++
			return
		}
	}
	v.res.Counters["violations."+class]++
	v.res.Violations = append(v.res.Violations, core.Violation{Class: class, Message: msg,
		Witness: map[string]interface{}{"history": v.res.History, "shape": v.res.Shape, "config": fmt.Sprintf("%+v", v.d.cfg),
			"image": img.Index, "label": img.Label, "ops": v.d.ops}})
}

// expectation for one family at one image
type famExpect struct {
	mustExist bool
	mayExist  bool
	must      map[uint32]map[uint32]struct{} // key -> tokens of operations that had returned
	inflight  []*opRec                       // flush operations in flight at the image
	mustSeq   map[int32]int64
	mustFlush int // number of returned non-empty flushes
}

func (v *verifier) expect(k int) (map[string]*famExpect, bool) {
	exp := map[string]*famExpect{}
	inside := false
	get := func(name string) *famExpect {
		e, ok := exp[name]
		if !ok {
			e = &famExpect{must: map[uint32]map[uint32]struct{}{}, mustSeq: map[int32]int64{}}
			exp[name] = e
		}
		return e
	}
	for _, op := range v.d.ops {
		done := op.Last >= 0 && k >= op.Last
		started := k >= op.First
		if !started {
			continue
		}
		if !done && k >= op.First && (op.Last < 0 || k < op.Last-1) {
			// the image was taken after the operation's first and before its last file-system event
			inside = true
		}
		switch op.Kind {
		case "create-family":
			e := get(op.Family)
			if done {
				e.mustExist = true
			}
			e.mayExist = true
		case "flush", "flush-empty":
			e := get(op.Family)
			if done && op.Err != "" {
				// the flush answered with an error (only iofault histories have those): nothing of it may be visible
				continue
			}
			if done {
				for key, toks := range op.Tokens {
					m := e.must[key]
					if m == nil {
						m = map[uint32]struct{}{}
						e.must[key] = m
					}
					for _, t := range toks {
						m[t] = struct{}{}
					}
				}
				if op.HasSeq {
					e.mustSeq[op.Leader] = op.Seq // sequences per (family, leader) are issued in increasing order
				}
				if len(op.Tokens) > 0 {
					e.mustFlush++
				}
			} else {
				e.inflight = append(e.inflight, op)
			}
		}
	}
	return exp, inside
}

type famState struct {
	content   map[uint32]map[uint32]struct{} // via Snapshot.Load
	files     []table.FileNumber
	rollup    map[table.FileNumber]int
	seqs      map[int32]int64
	rollupTok map[uint32]struct{}
}

// readFamily reads everything the recovered family shows. Any error is a violation.
func (v *verifier) readFamily(img imgfs.Image, name string, f kv.Family, keys []uint32, phase string) (*famState, bool) {
	st := &famState{content: map[uint32]map[uint32]struct{}{}, rollup: map[table.FileNumber]int{}, rollupTok: map[uint32]struct{}{}}
	snap := f.GetSnapshot()
	defer snap.Close()
	cur := snap.GetCurrent()
	st.seqs = cur.GetSequences()
	byFile := map[uint32]map[uint32]struct{}{}
	readFile := func(fn table.FileNumber, into map[uint32]map[uint32]struct{}, flat map[uint32]struct{}) bool {
		r, err := snap.GetReader(fn)
		if err != nil || r == nil {
			v.violate("C01/referenced-table-unreadable", img, "%s: family %s references table %d which cannot be opened: %v", phase, name, fn, err)
			return false
		}
		it := r.Iterator()
		last := int64(-1)
		for it.HasNext() {
			key := it.Key()
			if int64(key) <= last {
				v.violate("C01/table-keys-not-ascending", img, "%s: family %s table %d key %d after %d", phase, name, fn, key, last)
				return false
			}
			last = int64(key)
			toks, err := decodeValue(it.Value())
			if err != nil {
				v.violate("C01/table-value-corrupt", img, "%s: family %s table %d key %d: %v", phase, name, fn, key, err)
				return false
			}
			for _, t := range toks {
				if into != nil {
					if into[key] == nil {
						into[key] = map[uint32]struct{}{}
					}
					into[key][t] = struct{}{}
				}
				if flat != nil {
					flat[t] = struct{}{}
				}
			}
		}
		return true
	}
	for _, fm := range cur.GetAllFiles() {
		st.files = append(st.files, fm.GetFileNumber())
		if !readFile(fm.GetFileNumber(), byFile, nil) {
			return nil, false
		}
	}
	for fn, intervals := range cur.GetRollupFiles() {
		st.rollup[fn] = len(intervals)
		if !readFile(fn, nil, st.rollupTok) {
			return nil, false
		}
	}
	probe := append([]uint32(nil), keys...)
	probe = append(probe, 7_777_777) // a key never written
	for _, key := range probe {
		err := snap.Load(key, func(value []byte) error {
			toks, err := decodeValue(value)
			if err != nil {
				return err
			}
			if st.content[key] == nil {
				st.content[key] = map[uint32]struct{}{}
			}
			for _, t := range toks {
				st.content[key][t] = struct{}{}
			}
			return nil
		})
		if err != nil {
			v.violate("C01/load-fails-after-recovery", img, "%s: family %s Load(%d): %v", phase, name, key, err)
			return nil, false
		}
	}
	// lookups must agree with iterating every file of the version
	if !sameContent(st.content, byFile) {
		v.violate("C01/lookup-disagrees-with-files", img, "%s: family %s: Load() shows %s, iterating all files shows %s",
			phase, name, fmtContent(st.content), fmtContent(byFile))
		return nil, false
	}
	return st, true
}

func sameContent(a, b map[uint32]map[uint32]struct{}) bool {
	if len(a) != len(b) {
		return false
	}
	for k, ta := range a {
		tb, ok := b[k]
		if !ok || len(ta) != len(tb) {
			return false
		}
		for t := range ta {
			if _, ok := tb[t]; !ok {
				return false
			}
		}
	}
	return true
}

func fmtContent(c map[uint32]map[uint32]struct{}) string {
	var keys []uint32
	for k := range c {
		keys = append(keys, k)
	}
	sort.Slice(keys, func(i, j int) bool { return keys[i] < keys[j] })
	var sb strings.Builder
	for i, k := range keys {
		if i > 40 {
			sb.WriteString("...")
			break
		}
		var ts []int
		for t := range c[k] {
			ts = append(ts, int(t))
		}
		sort.Ints(ts)
		fmt.Fprintf(&sb, "%d:%v ", k, ts)
	}
	return sb.String()
}

// verify recovers one image and checks it against the ledger; reports whether the image lies strictly inside an operation.
func (v *verifier) verify(img imgfs.Image) (inside bool) {
	exp, inside := v.expect(img.Index)
	defer func() {
		if r := recover(); r != nil {
			v.violate("C01/recovery-panics", img, "panic while recovering/reading the image: %v", r)
			_ = kv.GetStoreManager().CloseStore(img.Dir)
		}
	}()
	var keys []uint32
	for k := range v.d.keys {
		keys = append(keys, k)
	}
	sort.Slice(keys, func(i, j int) bool { return keys[i] < keys[j] })

	store, err := kv.GetStoreManager().CreateStore(img.Dir, v.d.storeOption())
	if err != nil {
		class := "C01/reopen-fails/other"
		if strings.Contains(err.Error(), "manifest") || strings.Contains(err.Error(), "edit log") {
			class = "C01/reopen-fails/manifest-record-unreadable"
		}
		v.violate(class, img, "store cannot be reopened: %v", err)
		return inside
	}
	closed := false
	defer func() {
		if !closed {
			_ = kv.GetStoreManager().CloseStore(img.Dir)
		}
	}()
	v.res.Counters["images_recovered"]++

	names := store.ListFamilyNames()
	have := map[string]bool{}
	for _, n := range names {
		have[n] = true
		if e, ok := exp[n]; !ok || !e.mayExist {
			v.violate("C01/unexpected-family", img, "recovered store has family %s that no started operation created", n)
		}
	}
	referenced := map[table.FileNumber]bool{}
	before := map[string]*famState{}
	for name, e := range exp {
		if !have[name] {
			if e.mustExist {
				v.violate("C01/family-lost", img, "family %s was created (operation returned) but is missing after recovery", name)
			}
			continue
		}
		f, err := store.CreateFamily(name, v.d.famOption())
		if err != nil {
			v.violate("C01/family-open-fails", img, "family %s: %v", name, err)
			continue
		}
		st, ok := v.readFamily(img, name, f, keys, "after recovery")
		if !ok {
			continue
		}
		before[name] = st
		for _, fn := range st.files {
			referenced[fn] = true
		}
		for fn := range st.rollup {
			referenced[fn] = true
		}
		v.checkFamily(img, name, e, st)
	}
	// exactly one manifest, named by CURRENT
	v.checkManifest(img)

	// a table created after recovery must not reuse a referenced file number; old content must stay
	for name, st := range before {
		f := store.GetFamily(name)
		fl := f.NewFlusher()
		tok := uint32(4_000_000_000)
		key := uint32(5)
		err := fl.Add(key, encodeValue([]uint32{tok}, 0))
		if err == nil {
			err = fl.Commit()
		}
		fl.Release()
		if err != nil {
			v.violate("C01/flush-after-recovery-fails", img, "family %s: %v", name, err)
			continue
		}
		after, ok := v.readFamily(img, name, f, append(append([]uint32(nil), keys...), key), "after a flush on the recovered store")
		if !ok {
			continue
		}
		oldFiles := map[table.FileNumber]bool{}
		for _, fn := range st.files {
			oldFiles[fn] = true
		}
		newCount := 0
		for _, fn := range after.files {
			if !oldFiles[fn] {
				newCount++
				if referenced[fn] {
					v.violate("C01/file-number-reused", img, "family %s: table created after recovery got number %d which the recovered state references", name, fn)
				}
			}
		}
		if newCount != 1 {
			v.violate("C01/flush-after-recovery-file-count", img, "family %s: expected exactly one new table after a flush, got %d (before %v after %v)", name, newCount, st.files, after.files)
		}
		want := cloneContent(st.content)
		if want[key] == nil {
			want[key] = map[uint32]struct{}{}
		}
		want[key][tok] = struct{}{}
		if !sameContent(want, after.content) {
			v.violate("C01/flush-after-recovery-changes-old-content", img, "family %s: expected %s got %s", name, fmtContent(want), fmtContent(after.content))
		}
		v.res.Counters["post_recovery_flushes"]++
		st.content = after.content
		st.seqs = after.seqs
	}
	// recovery is idempotent: close and reopen once more
	closed = true
	if err := kv.GetStoreManager().CloseStore(img.Dir); err != nil {
		v.violate("C01/close-after-recovery-fails", img, "%v", err)
		return inside
	}
	store2, err := kv.GetStoreManager().CreateStore(img.Dir, v.d.storeOption())
	if err != nil {
		v.violate("C01/second-reopen-fails", img, "store cannot be reopened a second time: %v", err)
		return inside
	}
	defer func() { _ = kv.GetStoreManager().CloseStore(img.Dir) }()
	for name, st := range before {
		f := store2.GetFamily(name)
		if f == nil {
			v.violate("C01/family-lost", img, "family %s missing after the second reopen", name)
			continue
		}
		again, ok := v.readFamily(img, name, f, append(append([]uint32(nil), keys...), 5), "after the second reopen")
		if !ok {
			continue
		}
		if !sameContent(st.content, again.content) {
			v.violate("C01/second-reopen-changes-content", img, "family %s: %s then %s", name, fmtContent(st.content), fmtContent(again.content))
		}
		if fmt.Sprint(st.seqs) != fmt.Sprint(again.seqs) {
			v.violate("C01/second-reopen-changes-sequences", img, "family %s: %v then %v", name, st.seqs, again.seqs)
		}
	}
	v.checkManifest(img)
	return inside
}

func cloneContent(c map[uint32]map[uint32]struct{}) map[uint32]map[uint32]struct{} {
	out := map[uint32]map[uint32]struct{}{}
	for k, ts := range c {
		m := map[uint32]struct{}{}
		for t := range ts {
			m[t] = struct{}{}
		}
		out[k] = m
	}
	return out
}

func (v *verifier) checkManifest(img imgfs.Image) {
	cur, err := os.ReadFile(filepath.Join(img.Dir, "CURRENT"))
	if err != nil {
		v.violate("C01/current-missing-after-recovery", img, "%v", err)
		return
	}
	entries, _ := os.ReadDir(img.Dir)
	var manifests []string
	for _, e := range entries {
		if strings.HasPrefix(e.Name(), version.ManifestPrefix) {
			manifests = append(manifests, e.Name())
		}
	}
	if len(manifests) != 1 || manifests[0] != string(cur) {
		v.violate("C01/manifest-set-after-recovery", img, "CURRENT names %q, manifests on disk %v", string(cur), manifests)
	}
}

// checkFamily compares the recovered state of one family with what the ledger allows.
func (v *verifier) checkFamily(img imgfs.Image, name string, e *famExpect, st *famState) {
	// 1. everything that had returned is there
	for key, toks := range e.must {
		for t := range toks {
			if _, ok := st.content[key][t]; !ok {
				v.violate("C01/committed-data-lost", img, "family %s key %d: token %d of a flush that had returned is missing; recovered %s", name, key, t, fmtContent(st.content))
				return
			}
		}
	}
	// 2. in-flight flushes are all-or-nothing; nothing else is visible
	allowed := cloneContent(e.must)
	visibleSeq := map[int32]int64{}
	for l, s := range e.mustSeq {
		visibleSeq[l] = s
	}
	maybeSeq := map[int32][]int64{}
	visibleFlushes := e.mustFlush
	inflightVisible := 0
	for _, op := range e.inflight {
		present, absent := 0, 0
		for key, toks := range op.Tokens {
			for _, t := range toks {
				if _, ok := st.content[key][t]; ok {
					present++
				} else {
					absent++
				}
			}
		}
		switch {
		case present > 0 && absent > 0:
			v.violate("C01/in-flight-flush-partially-visible", img, "family %s: flush op %d shows %d of %d tokens; recovered %s", name, op.ID, present, present+absent, fmtContent(st.content))
			return
		case present > 0:
			inflightVisible++
			visibleFlushes++
			for key, toks := range op.Tokens {
				if allowed[key] == nil {
					allowed[key] = map[uint32]struct{}{}
				}
				for _, t := range toks {
					allowed[key][t] = struct{}{}
				}
			}
			if op.HasSeq {
				visibleSeq[op.Leader] = op.Seq
			}
		case len(op.Tokens) == 0 && op.HasSeq:
			maybeSeq[op.Leader] = append(maybeSeq[op.Leader], op.Seq)
		}
	}
	if !sameContent(allowed, st.content) {
		v.violate("C01/content-not-explained-by-ledger", img, "family %s: recovered %s, allowed %s", name, fmtContent(st.content), fmtContent(allowed))
		return
	}
	// 3. sequences stored with the data
	leaders := map[int32]bool{}
	for l := range visibleSeq {
		leaders[l] = true
	}
	for l := range st.seqs {
		leaders[l] = true
	}
	for l := range leaders {
		got, has := st.seqs[l]
		want, wantHas := visibleSeq[l]
		ok := has == wantHas && got == want
		if !ok {
			for _, s := range maybeSeq[l] {
				if has && got == s && s >= want {
					ok = true
				}
			}
		}
		if !ok {
			v.violate("C01/sequence-mismatch", img, "family %s leader %d: recovered sequence %d (present=%v), ledger allows %d (present=%v) or in-flight %v",
				name, l, got, has, want, wantHas, maybeSeq[l])
			return
		}
	}
	// 4. rollup bookkeeping: every visible non-empty flush output is marked for every target interval,
	//    its table is still there and the marked tables hold exactly the flushed tokens
	if n := len(v.d.cfg.Rollup); n > 0 {
		if len(st.rollup) != visibleFlushes {
			v.violate("C01/rollup-marks-count", img, "family %s: %d tables marked for rollup, %d visible non-empty flushes", name, len(st.rollup), visibleFlushes)
			return
		}
		for fn, cnt := range st.rollup {
			if cnt != n {
				v.violate("C01/rollup-marks-intervals", img, "family %s: table %d marked for %d intervals, store rolls up to %d", name, fn, cnt, n)
				return
			}
		}
		flat := map[uint32]struct{}{}
		for _, toks := range allowed {
			for t := range toks {
				flat[t] = struct{}{}
			}
		}
		if len(flat) != len(st.rollupTok) {
			v.violate("C01/rollup-tables-content", img, "family %s: tables marked for rollup hold %d tokens, flushed %d", name, len(st.rollupTok), len(flat))
			return
		}
		for t := range flat {
			if _, ok := st.rollupTok[t]; !ok {
				v.violate("C01/rollup-tables-content", img, "family %s: token %d not in any table marked for rollup", name, t)
				return
			}
		}
	} else if len(st.rollup) != 0 {
		v.violate("C01/rollup-marks-count", img, "family %s: %d rollup marks in a store without rollup targets", name, len(st.rollup))
	}
	if v.live != "" {
		v.d.mu.Lock()
		v.res.Counters["live."+v.live+".family_states_compared"]++
		v.d.mu.Unlock()
		return
	}
	v.res.Counters["family_states_compared"]++
	if len(e.inflight) > 0 {
		v.res.Counters["family_states_with_inflight_flush"]++
	}
	if len(e.inflight) > 1 {
		// several commits of this family were in flight at the image (a commit convoy, or two flushes of one family)
		v.res.Counters["family_states_with_2plus_commits_in_flight"]++
		if inflightVisible > 0 && inflightVisible < len(e.inflight) {
			v.res.Counters["family_states_with_some_but_not_all_in_flight_commits_visible"]++
		}
	}
}
