package main

import (
	"encoding/json"
	"fmt"
	"math/rand"
	"os"
	"path/filepath"
	"runtime"
	"runtime/debug"
	"sort"
	"strconv"
	"strings"
	"sync"
	"sync/atomic"

	"github.com/lindb/common/pkg/ltoml"

	"github.com/lindb/lindb/kv"
	"github.com/lindb/lindb/kv/table"
	"github.com/lindb/lindb/pkg/timeutil"
	"github.com/lindb/lindb/verif/internal/core"
	"github.com/lindb/lindb/verif/internal/imgfs"
	"github.com/lindb/lindb/verif/internal/kvtok"
	"github.com/lindb/lindb/verif/internal/seam"
)

const mergerName = kvtok.MergerName

func encodeValue(tokens []uint32, pad int) []byte { return kvtok.Encode(tokens, pad) }

func decodeValue(v []byte) ([]uint32, error) { return kvtok.Decode(v) }

// ---- ledger ----

type opRec struct {
	ID     int                 `json:"id"`
	Kind   string              `json:"kind"` // create-store, create-family, flush, flush-empty, compact, reopen
	Family string              `json:"family,omitempty"`
	First  int                 `json:"first"` // number of images before the operation started
	Last   int                 `json:"last"`  // number of images when the operation had returned
	Tokens map[uint32][]uint32 `json:"tokens,omitempty"`
	Leader int32               `json:"leader,omitempty"`
	Seq    int64               `json:"seq,omitempty"`
	HasSeq bool                `json:"has_seq,omitempty"`
	Stream bool                `json:"stream,omitempty"`
	Err    string              `json:"err,omitempty"`
}

type historyCfg struct {
	Levels      int
	Rollup      []timeutil.Interval
	Threshold   int
	MaxFileSize uint32
	Families    []string
}

type driver struct {
	rnd      *rand.Rand
	world    *imgfs.World
	storeDir string
	cfg      historyCfg
	store    kv.Store
	fams     map[string]kv.Family
	mu       sync.Mutex
	ops      []*opRec
	nextTok  uint32
	seqs     map[string]int64 // family/leader -> last seq issued
	keys     map[uint32]struct{}
	pad      int
	famHeavy bool       // create-family and reopen are frequent, several families exist before the first reopen
	crnd     *rand.Rand // stream of the commit convoys (convoy.go); the history's own stream is not consumed by them
	gate     *gateIC
	res      *childResult
	fault    *faultState // iofault histories only
}

func (d *driver) begin(kind, family string) *opRec {
	d.mu.Lock()
	defer d.mu.Unlock()
	op := &opRec{ID: len(d.ops), Kind: kind, Family: family, First: d.world.Count(), Last: -1}
	d.ops = append(d.ops, op)
	return op
}

func (d *driver) end(op *opRec, err error) {
	d.mu.Lock()
	defer d.mu.Unlock()
	op.Last = d.world.Count()
	if err != nil {
		op.Err = err.Error()
	}
}

func (d *driver) storeOption() kv.StoreOption {
	opt := kv.DefaultStoreOption()
	opt.Levels = d.cfg.Levels
	opt.Rollup = d.cfg.Rollup
	opt.Source = timeutil.Interval(10_000)
	opt.TTL = ltoml.Duration(3600_000_000_000)
	return opt
}

func (d *driver) famOption() kv.FamilyOption {
	return kv.FamilyOption{Merger: mergerName, CompactThreshold: d.cfg.Threshold, MaxFileSize: d.cfg.MaxFileSize}
}

func (d *driver) openStore(kind string) error {
	op := d.begin(kind, "")
	s, err := kv.GetStoreManager().CreateStore(d.storeDir, d.storeOption())
	if err == nil {
		d.store = s
		d.fams = map[string]kv.Family{}
		for _, name := range s.ListFamilyNames() {
			d.fams[name] = s.GetFamily(name)
		}
	}
	d.end(op, err)
	return err
}

func (d *driver) createFamily(name string) error {
	op := d.begin("create-family", name)
	f, err := d.store.CreateFamily(name, d.famOption())
	if err == nil {
		d.fams[name] = f
	}
	d.end(op, err)
	return err
}

func (d *driver) newToken() uint32 {
	d.mu.Lock()
	defer d.mu.Unlock()
	d.nextTok++
	return d.nextTok
}

var specialKeys = []uint32{65535, 65536, 65537, 1 << 20, 0xFFFFFFFE, 0xFFFFFFFF}

func (d *driver) genKeys(n int) []uint32 {
	set := map[uint32]struct{}{}
	for len(set) < n {
		if d.rnd.Intn(8) == 0 {
			set[specialKeys[d.rnd.Intn(len(specialKeys))]] = struct{}{}
		} else {
			set[uint32(d.rnd.Intn(24))] = struct{}{}
		}
	}
	var ks []uint32
	for k := range set {
		ks = append(ks, k)
	}
	sort.Slice(ks, func(i, j int) bool { return ks[i] < ks[j] })
	return ks
}

type flushPlan struct {
	family string
	keys   []uint32
	toks   []uint32
	leader int32
	seq    int64
	hasSeq bool
	stream bool
}

func (d *driver) planFlush(family string, empty bool, leader int32) flushPlan {
	p := flushPlan{family: family}
	if !empty {
		p.keys = d.genKeys(1 + d.rnd.Intn(5))
		for range p.keys {
			p.toks = append(p.toks, d.newToken())
		}
		p.stream = d.rnd.Intn(3) == 0
	}
	if empty || d.rnd.Intn(10) < 6 {
		if leader == 0 {
			leader = int32(1 + d.rnd.Intn(2))
		}
		p.leader = leader
		k := family + "/" + strconv.Itoa(int(leader))
		d.mu.Lock()
		d.seqs[k] += int64(1 + d.rnd.Intn(5))
		p.seq = d.seqs[k]
		d.mu.Unlock()
		p.hasSeq = true
	}
	return p
}

func (d *driver) doFlush(p flushPlan) error {
	op, fl, err := d.buildFlush(p)
	if err != nil {
		return err
	}
	return d.commitFlush(op, fl)
}

// buildFlush opens the operation in the ledger, creates the flusher and hands it every key/value (and the sequence);
// nothing is committed yet. On error the flusher is released and the operation closed.
func (d *driver) buildFlush(p flushPlan) (*opRec, kv.Flusher, error) {
	kind := "flush"
	if len(p.keys) == 0 {
		kind = "flush-empty"
	}
	op := d.begin(kind, p.family)
	op.Tokens = map[uint32][]uint32{}
	for i, k := range p.keys {
		op.Tokens[k] = []uint32{p.toks[i]}
		d.mu.Lock()
		d.keys[k] = struct{}{}
		d.mu.Unlock()
	}
	op.Leader, op.Seq, op.HasSeq, op.Stream = p.leader, p.seq, p.hasSeq, p.stream
	f := d.fams[p.family]
	fl := f.NewFlusher()
	err := func() error {
		for i, k := range p.keys {
			val := encodeValue([]uint32{p.toks[i]}, d.pad*int(1+p.toks[i]%5))
			if p.stream {
				sw, err := fl.StreamWriter()
				if err != nil {
					return err
				}
				sw.Prepare(k)
				half := len(val) / 2
				if _, err := sw.Write(val[:half]); err != nil {
					return err
				}
				if _, err := sw.Write(val[half:]); err != nil {
					return err
				}
				if err := sw.Commit(); err != nil {
					return err
				}
			} else if err := fl.Add(k, val); err != nil {
				return err
			}
		}
		if p.hasSeq {
			fl.Sequence(p.leader, p.seq)
		}
		return nil
	}()
	if err != nil {
		fl.Release()
		d.end(op, err)
		return op, nil, err
	}
	return op, fl, nil
}

// commitFlush commits a built flusher, releases it and closes the operation in the ledger.
func (d *driver) commitFlush(op *opRec, fl kv.Flusher) error {
	err := fl.Commit()
	d.end(op, err)
	fl.Release()
	return err
}

func (d *driver) l0Files(family string) int {
	snap := d.fams[family].GetSnapshot()
	defer snap.Close()
	return snap.GetCurrent().NumberOfFilesInLevel(0)
}

func (d *driver) compact(family string) {
	op := d.begin("compact", family)
	f := d.fams[family]
	// every other compaction runs while the family's obsolete-file cleanup (what the end of any other background job
	// of the family does) is called in a loop: finished outputs must survive until the compaction installs them
	var stop atomic.Bool
	var wg sync.WaitGroup
	if op.ID%2 == 1 {
		wg.Add(1)
		go func() {
			defer wg.Done()
			for !stop.Load() {
				kv.VerifFamilyDeleteObsoleteFiles(f)
				runtime.Gosched()
			}
		}()
	}
	f.Compact()
	kv.VerifFamilyWait(f)
	stop.Store(true)
	wg.Wait()
	d.end(op, nil)
}

func (d *driver) reopen() error {
	op := d.begin("reopen", "")
	err := kv.GetStoreManager().CloseStore(d.storeDir)
	if err == nil {
		var s kv.Store
		s, err = kv.GetStoreManager().CreateStore(d.storeDir, d.storeOption())
		if err == nil {
			d.store = s
			d.fams = map[string]kv.Family{}
			for _, name := range s.ListFamilyNames() {
				var f kv.Family
				f, err = s.CreateFamily(name, d.famOption())
				if err != nil {
					break
				}
				d.fams[name] = f
			}
		}
	}
	d.end(op, err)
	return err
}

func runHistoryChild() {
	idx, _ := strconv.Atoi(os.Args[2])
	shape := os.Args[3]
	dir := os.Args[4]
	tier := os.Args[5]
	debug.SetPanicOnFault(true)
	seed, _ := strconv.ParseInt(os.Getenv("VERIF_SEED"), 10, 64)
	rnd := rand.New(rand.NewSource(seed*7919 + int64(idx)*104729 + 17))
	res := &childResult{History: idx, Shape: shape, Counters: map[string]int{}, OpKinds: map[string]int{}}

	storeDir := filepath.Join(dir, "store")
	imgDir := filepath.Join(dir, "img")
	world := imgfs.NewWorld(storeDir, imgDir)
	d := &driver{rnd: rnd, world: world, storeDir: storeDir, seqs: map[string]int64{}, keys: map[uint32]struct{}{}}
	d.crnd = rand.New(rand.NewSource(seed*15485863 + int64(idx)*32452843 + 29))
	d.gate = &gateIC{world: world}
	d.res = res
	d.cfg = historyCfg{Levels: 2 + rnd.Intn(2), Threshold: 2 + rnd.Intn(2)}
	if rnd.Intn(2) == 0 {
		d.cfg.Rollup = []timeutil.Interval{timeutil.Interval(300_000), timeutil.Interval(3600_000)}
	}
	switch rnd.Intn(3) {
	case 0:
		d.cfg.MaxFileSize = 40 // every merged key closes an output file
	case 1:
		d.cfg.MaxFileSize = 200
	}
	nFam := 1 + rnd.Intn(3)
	if shape == "families" {
		nFam = 4 + rnd.Intn(3)
		d.famHeavy = true
	}
	for i := 0; i < nFam; i++ {
		d.cfg.Families = append(d.cfg.Families, fmt.Sprintf("fam%d", i))
	}

	seam.NoFsync = true
	seam.InstallKV(d.gate, nil)
	if strings.HasPrefix(shape, "iofault:") {
		k, _ := strconv.Atoi(strings.TrimPrefix(shape, "iofault:"))
		d.fault = &faultState{plan: iofaultPlan(seed, k), d: d}
		d.installFaultSeams()
		if len(d.cfg.Families) > 2 {
			d.cfg.Families = d.cfg.Families[:2]
		}
		if d.fault.plan.Op == "compact" && d.fault.plan.Nth > 1 {
			d.cfg.MaxFileSize = 40 // several output tables
		}
		res.Extra = map[string]string{"fault": fmt.Sprintf("%+v", d.fault.plan)}
	}
	world.Enable(true)
	world.Snapshot("initial")

	var driveErr error
	switch {
	case d.fault != nil:
		driveErr = d.driveIOFault()
	case shape == "bigsnapshot":
		driveErr = d.driveBigSnapshot(tier)
	case shape == "bigtable":
		driveErr = d.driveBigTable()
	default:
		driveErr = d.driveRandom(tier)
	}
	world.Snapshot("final")
	world.Enable(false)
	_ = kv.GetStoreManager().CloseStore(storeDir)
	seam.Restore()
	// recovery of the images runs through pass-through seams that skip fsync(2)
	seam.InstallKV(seam.Direct{}, nil)

	if driveErr != nil {
		// an operation of the history failed although no fault was injected
		res.Violations = append(res.Violations, core.Violation{Class: "C01/operation-failed-without-fault",
			Message: driveErr.Error(), Witness: d.ops})
	}

	images := world.Images()
	res.Images = len(images)
	res.Ops = len(d.ops)
	for _, op := range d.ops {
		res.OpKinds[op.Kind]++
	}
	ver := &verifier{d: d, res: res}
	for _, img := range images {
		if d.fault != nil && d.fault.destructive && img.Index >= d.fault.at {
			res.Counters["iofault.crash_images_not_verified_after_a_destructive_outcome"]++
			_ = os.RemoveAll(img.Dir)
			continue
		}
		inside := ver.verify(img)
		if inside {
			res.InsideImages++
			res.Nontrivial = append(res.Nontrivial, fmt.Sprintf("h%d/%s", idx, img.Hash[:16]))
		}
		_ = os.RemoveAll(img.Dir)
	}
	var sampleOps []string
	for i, op := range d.ops {
		if i >= 14 {
			sampleOps = append(sampleOps, "...")
			break
		}
		sampleOps = append(sampleOps, fmt.Sprintf("%s(%s) images[%d,%d)", op.Kind, op.Family, op.First, op.Last))
	}
	var labels []string
	for i, img := range images {
		if i >= 12 {
			break
		}
		labels = append(labels, strings.ReplaceAll(img.Label, storeDir, "<store>"))
	}
	if d.fault != nil {
		res.Counters["iofault.histories"]++
		if fired, at := d.fault.firedNow(); fired {
			res.Counters["iofault.crash_images_after_the_fault"] += len(images) - at
		}
	}
	res.Sample = map[string]interface{}{"history": idx, "shape": shape, "fault": res.Extra["fault"], "config": fmt.Sprintf("%+v", d.cfg),
		"ops": sampleOps, "first_image_labels": labels, "images": len(images)}
	data, _ := json.Marshal(res)
	if err := os.WriteFile(filepath.Join(dir, "result.json"), data, 0o644); err != nil {
		fmt.Println("cannot write result:", err)
		os.Exit(3)
	}
}

func (d *driver) driveRandom(tier string) error {
	if err := d.openStore("create-store"); err != nil {
		return fmt.Errorf("create store: %w", err)
	}
	// create the first family right away, the others later in the history
	pendingFams := append([]string(nil), d.cfg.Families...)
	if err := d.createFamily(pendingFams[0]); err != nil {
		return err
	}
	pendingFams = pendingFams[1:]
	pCreate, pReopen := 8, 8
	if d.famHeavy {
		pCreate, pReopen = 22, 14
		// two or three families exist (with data) before the first reopen
		for n := 1 + d.rnd.Intn(2); n > 0 && len(pendingFams) > 1; n-- {
			if err := d.createFamily(pendingFams[0]); err != nil {
				return err
			}
			if err := d.doFlush(d.planFlush(pendingFams[0], false, 0)); err != nil {
				return fmt.Errorf("flush: %w", err)
			}
			pendingFams = pendingFams[1:]
		}
	}
	nOps := 8 + d.rnd.Intn(8)
	if tier == "thorough" {
		nOps = 8 + d.rnd.Intn(20)
	}
	famNames := func() []string {
		var ns []string
		for n := range d.fams {
			ns = append(ns, n)
		}
		sort.Strings(ns)
		return ns
	}
	// commit convoys (several overlapping commits of one family, convoy.go) at two places of the history: one in the
	// middle, one in the last third, so that flushes, compactions, reopens and crash points follow them
	convoyAt := map[int]bool{nOps/3 + d.crnd.Intn(1+nOps/3): true, 2*nOps/3 + d.crnd.Intn(nOps-2*nOps/3): true}
	for i := 0; i < nOps; i++ {
		if convoyAt[i] {
			if err := d.convoy(d.planConvoy(famNames())); err != nil {
				return err
			}
		}
		names := famNames()
		fam := names[d.rnd.Intn(len(names))]
		r := d.rnd.Intn(100)
		switch {
		case r < pCreate && len(pendingFams) > 0:
			if err := d.createFamily(pendingFams[0]); err != nil {
				return err
			}
			pendingFams = pendingFams[1:]
		case r < 50:
			if err := d.doFlush(d.planFlush(fam, false, 0)); err != nil {
				return fmt.Errorf("flush: %w", err)
			}
		case r < 56:
			if err := d.doFlush(d.planFlush(fam, true, 0)); err != nil {
				return fmt.Errorf("flush-empty: %w", err)
			}
		case r < 72:
			if d.l0Files(fam) > 1 {
				d.compact(fam)
			} else if err := d.doFlush(d.planFlush(fam, false, 0)); err != nil {
				return err
			}
		case r < 72+pReopen:
			if err := d.reopen(); err != nil {
				return fmt.Errorf("reopen: %w", err)
			}
		case r < 90:
			// two flushes at the same time (different families when possible, else different leaders)
			fam2 := names[d.rnd.Intn(len(names))]
			p1 := d.planFlush(fam, false, 1)
			p2 := d.planFlush(fam2, false, 2)
			var wg sync.WaitGroup
			errs := make([]error, 2)
			wg.Add(2)
			go func() { defer wg.Done(); errs[0] = d.doFlush(p1) }()
			go func() { defer wg.Done(); errs[1] = d.doFlush(p2) }()
			wg.Wait()
			for _, e := range errs {
				if e != nil {
					return fmt.Errorf("concurrent flush: %w", e)
				}
			}
		case r < 94:
			// a flush racing with the obsolete-file cleanup of the same family (what the end of every background
			// compaction / rollup job runs): the table of the flush must survive until its commit is installed
			p := d.planFlush(fam, false, 0)
			cop := d.begin("cleanup", fam)
			var stop atomic.Bool
			var wg sync.WaitGroup
			wg.Add(1)
			f := d.fams[fam]
			go func() {
				defer wg.Done()
				for !stop.Load() {
					kv.VerifFamilyDeleteObsoleteFiles(f)
					runtime.Gosched()
				}
			}()
			ferr := d.doFlush(p)
			stop.Store(true)
			wg.Wait()
			d.end(cop, nil)
			if ferr != nil {
				return fmt.Errorf("flush during cleanup: %w", ferr)
			}
		default:
			// a flush racing with a compaction of the same family
			if d.l0Files(fam) > 1 {
				p := d.planFlush(fam, false, 0)
				var wg sync.WaitGroup
				var ferr error
				wg.Add(2)
				go func() { defer wg.Done(); d.compact(fam) }()
				go func() { defer wg.Done(); ferr = d.doFlush(p) }()
				wg.Wait()
				if ferr != nil {
					return fmt.Errorf("flush during compaction: %w", ferr)
				}
			} else if err := d.doFlush(d.planFlush(fam, false, 0)); err != nil {
				return err
			}
		}
	}
	return nil
}

// driveBigSnapshot builds a family with so many files that the manifest snapshot record written at
// reopen exceeds the 256KiB write buffer (imaging is off during the bulk load), then reopens with imaging on.
func (d *driver) driveBigSnapshot(tier string) error {
	d.cfg.Rollup = []timeutil.Interval{timeutil.Interval(300_000), timeutil.Interval(3600_000)}
	d.cfg.Threshold = 1 << 30
	d.cfg.Families = []string{"fam0"}
	d.world.Enable(false)
	if err := d.openStore("create-store"); err != nil {
		return err
	}
	if err := d.createFamily("fam0"); err != nil {
		return err
	}
	n := 11500 + d.rnd.Intn(1500)
	for i := 0; i < n; i++ {
		p := flushPlan{family: "fam0", keys: []uint32{uint32(i % 50)}, toks: []uint32{d.newToken()}}
		if err := d.doFlush(p); err != nil {
			return err
		}
	}
	// everything so far has returned before the next image is taken
	for _, op := range d.ops {
		op.First, op.Last = d.world.Count(), d.world.Count()
	}
	d.world.Enable(true)
	d.world.Snapshot("bulk-loaded")
	if err := d.reopen(); err != nil {
		return err
	}
	if err := d.doFlush(d.planFlush("fam0", false, 0)); err != nil {
		return err
	}
	return d.reopen()
}

// driveBigTable flushes tables larger than the write buffer so that images exist between two write(2)s of one table.
func (d *driver) driveBigTable() error {
	d.cfg.Families = []string{"fam0"}
	d.cfg.MaxFileSize = 0
	d.pad = 60_000
	if err := d.openStore("create-store"); err != nil {
		return err
	}
	if err := d.createFamily("fam0"); err != nil {
		return err
	}
	for i := 0; i < 3; i++ {
		p := d.planFlush("fam0", false, 0)
		p.keys = d.genKeys(12)
		p.toks = nil
		for range p.keys {
			p.toks = append(p.toks, d.newToken())
		}
		if err := d.doFlush(p); err != nil {
			return err
		}
	}
	d.compact("fam0")
	return d.reopen()
}

var _ = table.FileNumber(0)
