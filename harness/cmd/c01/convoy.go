package main

// Commit convoys: several commits of ONE family that overlap.
//
// The other operations of a history are sequential per family (only flushes of different families are interleaved).
// A convoy builds k flushers of one family one after the other (tables written, nothing committed) and then calls their
// Commit() concurrently; optionally a compaction of the same family commits in the same window. Two schedules:
//
//   - free: all committers (and Family.Compact()) are released by one barrier;
//   - gated: the first committer is held inside its manifest write (it holds the version set's lock there) until every
//     other committer has closed its table and the compaction - parked right after it closed an output table - has been
//     released, so that all of them queue behind one commit in progress and then run their commits back to back.
//
// The gate only delays file-system operations of the real code (it sits in front of the imaging world); it never
// decides anything. The oracle is the ledger: a commit that returned before an image is fully visible in it, any subset
// of the commits not yet returned may be visible, each all-or-nothing. In addition the running store is read after all
// commits returned (and again after the family's obsolete-file cleanup): it must show exactly the union as well.

import (
	"fmt"
	"path/filepath"
	"sort"
	"strings"
	"sync"
	"time"

	"github.com/lindb/lindb/kv"
	"github.com/lindb/lindb/verif/internal/imgfs"
)

// gateIC is the interceptor installed into the seams: the imaging world plus hooks that run outside the world lock.
type gateIC struct {
	world *imgfs.World
	mu    sync.Mutex
	pre   func(label string) // before the operation takes the world lock (may block)
	post  func(label string) // after the operation released the world lock (may block)
}

func (g *gateIC) Do(label string, op func() error) error {
	g.mu.Lock()
	pre := g.pre
	g.mu.Unlock()
	if pre != nil {
		pre(label)
	}
	err := g.world.Do(label, op)
	g.mu.Lock()
	post := g.post
	g.mu.Unlock()
	if post != nil {
		post(label)
	}
	return err
}

func (g *gateIC) set(pre, post func(label string)) {
	g.mu.Lock()
	g.pre, g.post = pre, post
	g.mu.Unlock()
}

// gateWatchdog bounds every wait of the schedule (a watchdog, never an oracle): a wait that runs into it is counted
// and the convoy does not count as "reached".
const gateWatchdog = 20 * time.Second

func waitOr(ch <-chan struct{}, d time.Duration) bool {
	t := time.NewTimer(d)
	defer t.Stop()
	select {
	case <-ch:
		return true
	case <-t.C:
		return false
	}
}

type convoyPlan struct {
	family      string
	k           int
	withCompact bool
	gated       bool
	cleanup     bool
}

// planConvoy draws the next convoy from the convoy stream (the history's own stream is not consumed).
func (d *driver) planConvoy(names []string) convoyPlan {
	r := d.crnd
	p := convoyPlan{k: 2 + r.Intn(3), gated: r.Intn(2) == 0, cleanup: r.Intn(3) != 0}
	wantCompact := r.Intn(2) == 0
	p.family = names[r.Intn(len(names))]
	if wantCompact {
		// a compaction needs two or more level-0 files
		var cands []string
		for _, n := range names {
			if d.l0Files(n) > 1 {
				cands = append(cands, n)
			}
		}
		if len(cands) > 0 {
			p.family = cands[r.Intn(len(cands))]
			p.withCompact = true
		}
	}
	return p
}

// convoy runs one commit convoy on a family.
func (d *driver) convoy(cp convoyPlan) error {
	f := d.fams[cp.family]
	famDir := filepath.Join(d.storeDir, cp.family)
	count := func(name string) { d.mu.Lock(); d.res.Counters[name]++; d.mu.Unlock() }
	gop := d.begin("convoy", cp.family)

	// 1. build the flushers one after the other; remember their table files
	var created []string
	d.gate.set(nil, func(label string) {
		if strings.HasPrefix(label, "create "+famDir+"/") {
			d.mu.Lock()
			created = append(created, strings.TrimPrefix(label, "create "))
			d.mu.Unlock()
		}
	})
	saved := d.rnd
	d.rnd = d.crnd
	var plans []flushPlan
	for i := 0; i < cp.k; i++ {
		// at most one member without data (sequence only): its Commit has no table to close
		empty := cp.k >= 3 && i == cp.k-1 && d.crnd.Intn(3) == 0
		pl := d.planFlush(cp.family, empty, int32(11+i))
		plans = append(plans, pl)
	}
	d.rnd = saved
	type member struct {
		op *opRec
		fl kv.Flusher
	}
	var members []member
	for _, pl := range plans {
		op, fl, err := d.buildFlush(pl)
		if err != nil {
			for _, m := range members {
				m.fl.Release()
				d.end(m.op, fmt.Errorf("abandoned: %w", err))
			}
			d.gate.set(nil, nil)
			d.end(gop, err)
			return fmt.Errorf("convoy build: %w", err)
		}
		members = append(members, member{op, fl})
	}
	d.mu.Lock()
	flusherFile := map[string]bool{}
	for _, c := range created {
		flusherFile[c] = true
	}
	d.mu.Unlock()
	withTable := func(ms []member) int {
		n := 0
		for _, m := range ms {
			if len(m.op.Tokens) > 0 {
				n++
			}
		}
		return n
	}

	// no Commit has been called so far: the commits start here
	start := d.world.Count()
	d.mu.Lock()
	for _, m := range members {
		m.op.First = start
	}
	d.mu.Unlock()

	errs := make([]error, len(members))
	var wg sync.WaitGroup
	commit := func(i int, startCh <-chan struct{}) {
		wg.Add(1)
		go func() {
			defer wg.Done()
			if startCh != nil {
				<-startCh
			}
			errs[i] = d.commitFlush(members[i].op, members[i].fl)
		}()
	}
	var cop *opRec
	reached := false
	if !cp.gated {
		barrier := make(chan struct{})
		for i := range members {
			commit(i, barrier)
		}
		if cp.withCompact {
			cop = d.begin("compact", cp.family)
			wg.Add(1)
			go func() {
				defer wg.Done()
				<-barrier
				f.Compact()
			}()
		}
		d.gate.set(nil, nil)
		close(barrier)
		wg.Wait()
		reached = true
	} else {
		timeouts := 0
		// a. the compaction runs until it has closed an output table and is parked there
		var parkMu sync.Mutex
		parkArmed := cp.withCompact
		parked := make(chan struct{})
		release := make(chan struct{})
		// b. the first committer is held in front of its manifest write
		holdArmed := false
		held := make(chan struct{})
		goOn := make(chan struct{})
		closes := 0
		allClosed := make(chan struct{})
		wantCloses := -1
		pre := func(label string) {
			if !strings.HasPrefix(label, "write "+d.storeDir+"/MANIFEST-") {
				return
			}
			parkMu.Lock()
			hold := holdArmed
			holdArmed = false
			parkMu.Unlock()
			if hold {
				close(held)
				if !waitOr(goOn, gateWatchdog) {
					count("convoy.watchdog.first_committer_held_too_long")
				}
			}
		}
		post := func(label string) {
			if !strings.HasPrefix(label, "close "+famDir+"/") {
				return
			}
			name := strings.TrimPrefix(label, "close ")
			if flusherFile[name] {
				parkMu.Lock()
				closes++
				if closes == wantCloses {
					close(allClosed)
				}
				parkMu.Unlock()
				return
			}
			parkMu.Lock()
			park := parkArmed
			parkArmed = false
			parkMu.Unlock()
			if park {
				close(parked)
				if !waitOr(release, gateWatchdog) {
					count("convoy.watchdog.compaction_parked_too_long")
				}
			}
		}
		d.gate.set(pre, post)
		compactionParked := false
		if cp.withCompact {
			cop = d.begin("compact", cp.family)
			f.Compact()
			// parked, or the job ended without closing a table
			done := make(chan struct{})
			go func() {
				for kv.VerifFamilyBusy(f) {
					select {
					case <-parked:
						return
					default:
						time.Sleep(50 * time.Microsecond)
					}
				}
				close(done)
			}()
			t := time.NewTimer(gateWatchdog)
			select {
			case <-parked:
				compactionParked = true
				count("convoy.compaction_parked_after_output_close")
			case <-done:
				parkMu.Lock()
				parkArmed = false
				parkMu.Unlock()
			case <-t.C:
				timeouts++
			}
			t.Stop()
		}
		parkMu.Lock()
		holdArmed = true
		// the first committer's own table close counts too
		wantCloses = withTable(members)
		if wantCloses == 0 {
			close(allClosed)
		}
		parkMu.Unlock()
		commit(0, nil)
		if !waitOr(held, gateWatchdog) {
			timeouts++
		}
		// the first committer is inside CommitFamilyEditLog now; release everybody else
		for i := 1; i < len(members); i++ {
			commit(i, nil)
		}
		close(release)
		if !waitOr(allClosed, gateWatchdog) {
			timeouts++
		}
		// the tables are closed; give the committers the few instructions to the version set's lock
		time.Sleep(time.Millisecond)
		close(goOn)
		wg.Wait()
		d.gate.set(nil, nil)
		if timeouts == 0 {
			reached = true
			count("convoy.gated.first_commit_held_until_all_others_queued")
			if compactionParked {
				count("convoy.gated.compaction_released_into_the_queue")
			}
		} else {
			count("convoy.watchdog.schedule_not_reached")
		}
	}
	if cop != nil {
		kv.VerifFamilyWait(f)
		d.end(cop, nil)
	}
	d.end(gop, nil)
	for _, e := range errs {
		if e != nil {
			return fmt.Errorf("convoy commit: %w", e)
		}
	}
	if reached {
		count("convoy.groups")
		count(fmt.Sprintf("convoy.groups.k%d", cp.k))
		if cp.withCompact {
			count("convoy.groups_with_compaction")
		}
		if cp.gated {
			count("convoy.groups_gated")
		} else {
			count("convoy.groups_free")
		}
	}
	// every commit has returned: the running store shows exactly the union
	d.liveCheck(cp.family, "running-store-after-concurrent-commits")
	if cp.cleanup {
		clop := d.begin("cleanup", cp.family)
		kv.VerifFamilyDeleteObsoleteFiles(f)
		d.end(clop, nil)
		count("convoy.groups_followed_by_cleanup")
		d.liveCheck(cp.family, "running-store-after-concurrent-commits-and-cleanup")
	}
	return nil
}

// liveCheck reads a family of the running store (no crash, nothing in flight) and compares it with the ledger with the
// same oracle the crash images get; violation classes carry the phase.
func (d *driver) liveCheck(family, phase string) {
	k := d.world.Count()
	ver := &verifier{d: d, res: d.res, live: phase}
	exp, _ := ver.expect(k)
	e := exp[family]
	if e == nil {
		return
	}
	img := imgfs.Image{Index: k, Label: "no crash: " + phase}
	defer func() {
		if r := recover(); r != nil {
			ver.violate("C01/reading-panics", img, "panic while reading the running store: %v", r)
		}
	}()
	var keys []uint32
	d.mu.Lock()
	for key := range d.keys {
		keys = append(keys, key)
	}
	d.mu.Unlock()
	sort.Slice(keys, func(i, j int) bool { return keys[i] < keys[j] })
	st, ok := ver.readFamily(img, family, d.fams[family], keys, phase)
	if !ok {
		return
	}
	ver.checkFamily(img, family, e, st)
}
