package main

import (
	"fmt"
	"math/rand"
	"os"
	"path/filepath"
	"sort"
	"strings"
	"time"

	"github.com/lindb/common/pkg/ltoml"
	"github.com/lindb/lindb/config"
	"github.com/lindb/lindb/kv"
	"github.com/lindb/lindb/kv/table"
	"github.com/lindb/lindb/models"
	"github.com/lindb/lindb/pkg/option"
	"github.com/lindb/lindb/pkg/timeutil"
	"github.com/lindb/lindb/series/field"
	"github.com/lindb/lindb/tsdb"
	"github.com/lindb/lindb/verif/internal/blocks"
	"github.com/lindb/lindb/verif/internal/core"
	"github.com/lindb/lindb/verif/internal/imgfs"
	"github.com/lindb/lindb/verif/internal/seam"
)

const (
	dbName       = "c04db"
	shardID      = models.ShardID(1)
	retention    = int64(200 * 366 * 24 * 3600 * 1000) // nothing ever expires
	witnessID    = uint32(5000)                        // metric id of the hand-made "witness" block (not in blocks' id pool)
	stPending    = "pending"
	stIn         = "in"
	stLost       = "lost"
	classKnownL0 = "C04/source-file-compacted-before-rollup/contribution-lost"
)

// histSpec is the generated description of one history (also written into witnesses).
type histSpec struct {
	Idx       int               `json:"idx"`
	Kind      string            `json:"kind"` // direct | ingest | crash
	Scenario  string            `json:"scenario"`
	TZ        string            `json:"tz"`
	Seed      int64             `json:"seed"`
	Tier      string            `json:"tier"`
	Src       int64             `json:"source_interval_ms"`
	Month     int64             `json:"month_type_interval_ms"` // 0 = not configured
	Year      int64             `json:"year_type_interval_ms"`  // 0 = not configured
	Spots     []calendarSpot    `json:"source_families"`
	SpotsAt   []string          `json:"source_families_at"`
	Steps     []string          `json:"steps"`
	Gen       blocks.GenOptions `json:"gen"`
	Metrics   []string          `json:"metrics,omitempty"`
	Files     []string          `json:"files,omitempty"` // description of every flushed file, filled while running
	MaxImgs   int               `json:"max_images,omitempty"`
	GateFirst bool              `json:"gate_first_target,omitempty"`
}

func (s *histSpec) targets() []int64 {
	var t []int64
	if s.Month > 0 {
		t = append(t, s.Month)
	}
	if s.Year > 0 {
		t = append(t, s.Year)
	}
	return t
}

// histResult is what a child reports per history.
type histResult struct {
	Idx        int              `json:"idx"`
	Kind       string           `json:"kind"`
	Scenario   string           `json:"scenario"`
	TZ         string           `json:"tz"`
	Steps      int              `json:"steps"`
	Counters   map[string]int   `json:"counters"`
	Nontrivial []string         `json:"nontrivial"`
	Violations []core.Violation `json:"violations"`
	Sample     interface{}      `json:"sample,omitempty"`
	Fatal      string           `json:"fatal,omitempty"`
	WallMs     int64            `json:"wall_ms"` // for tuning only, never part of a verdict
}

func (r *histResult) count(name string, n int) { r.Counters[name] += n }

func (r *histResult) violation(class, msg string, witness interface{}) {
	for _, v := range r.Violations {
		if v.Class == class {
			r.count("violations_suppressed_same_class_same_history", 1)
			return
		}
	}
	r.Violations = append(r.Violations, core.Violation{Class: class, Message: msg, Witness: witness})
}

// ---------------------------------------------------------------------------------------------------------------
// engine

type env struct {
	dataDir string
	engine  tsdb.Engine
	db      tsdb.Database
	shard   tsdb.Shard
}

func storageConfig(dataDir string) *config.StorageBase {
	cfg := config.NewDefaultStorageBase()
	cfg.TSDB.Dir = dataDir
	cfg.WAL.Dir = filepath.Join(filepath.Dir(dataDir), "wal")
	cfg.TSDB.MutableMemDBTTL = ltoml.Duration(1000 * time.Hour)
	cfg.TSDB.MaxMemDBSize = ltoml.Size(64 << 30)
	cfg.TSDB.MaxMemUsageBeforeFlush = 0.999
	cfg.TSDB.FlushConcurrency = 2
	return cfg
}

func dbOption(s *histSpec) *option.DatabaseOption {
	opt := &option.DatabaseOption{AutoCreateNS: true}
	for _, iv := range append([]int64{s.Src}, s.targets()...) {
		opt.Intervals = append(opt.Intervals, option.Interval{Interval: timeutil.Interval(iv), Retention: timeutil.Interval(retention)})
	}
	return opt
}

// openEnv opens the real tsdb engine on dataDir. opt != nil creates the database and its shard (first open).
func openEnv(dataDir string, opt *option.DatabaseOption) (*env, error) {
	config.SetGlobalStorageConfig(storageConfig(dataDir))
	eng, err := tsdb.NewEngine()
	if err != nil {
		return nil, fmt.Errorf("new engine: %w", err)
	}
	e := &env{dataDir: dataDir, engine: eng}
	if opt != nil {
		if err := eng.CreateShards(dbName, opt, shardID); err != nil {
			eng.Close()
			return nil, fmt.Errorf("create shard: %w", err)
		}
	}
	db, ok := eng.GetDatabase(dbName)
	if !ok {
		eng.Close()
		return nil, fmt.Errorf("database %s not loaded from %s", dbName, dataDir)
	}
	sh, ok := db.GetShard(shardID)
	if !ok {
		eng.Close()
		return nil, fmt.Errorf("shard %d of %s not loaded from %s", shardID, dbName, dataDir)
	}
	e.db, e.shard = db, sh
	return e, nil
}

func (e *env) close() {
	if e != nil && e.engine != nil {
		e.engine.Close()
		e.engine = nil
	}
}

// ---------------------------------------------------------------------------------------------------------------
// history state

type srcFamily struct {
	Idx   int
	Start int64
	place place // (segment, family) of the source family, by the calendar
	maps  map[int64]*slotMap
	ref   *blocks.Ref // naive reference of the source family itself (direct kind)

	df    tsdb.DataFamily
	fam   kv.Family
	store kv.Store
}

type fileRec struct {
	Seq    int
	Fam    int
	Number table.FileNumber
	Status map[int64]string // target interval -> pending | in | lost
	Cells  int
}

type famBook struct {
	Marks map[table.FileNumber][]int64
	Level map[table.FileNumber]int
}

func (b famBook) has(n table.FileNumber, iv int64) bool {
	for _, x := range b.Marks[n] {
		if x == iv {
			return true
		}
	}
	return false
}

type refEntry struct {
	Place    int32
	SrcStore string
	FamID    int
	File     table.FileNumber
}

type targetView struct {
	obs          map[int64]observed
	refs         map[int64][]refEntry
	notes        []string
	blocks       int
	tables       int
	families     int
	multiTable   int // cells held by >= 2 tables of a target family
	pointQueries int
}

type hist struct {
	spec    *histSpec
	res     *histResult
	rnd     *rand.Rand
	env     *env
	m       *model
	u       *blocks.Universe
	fams    []*srcFamily
	files   []*fileRec
	tainted map[int64]bool // target intervals with an unexplained mismatch: no further comparisons
	stepNo  int
	stepOp  string
	prevOp  string
	rolled  bool // at least one rollup job completed

	concurrent       bool // a flush is running while rollup jobs run
	refsBeforeReopen string
	crashWindow      bool              // judging a recovered crash image before the rollup was repeated
	fault            *faultState       // failed-job part: the failing step armed for the current rollup step
	faultPending     map[int64]string  // failed-job part: target intervals whose last job failed and has not been made up for -> context of the failure
	faultSwitch      *faultSwitch      // failed-job part: interceptor installed for the whole history
	markLeft         map[[2]int64]bool // failed-job part: (file seq, interval) whose target work was done but whose mark removal failed to commit
	world            *imgfs.World      // crash part
	beforeTrigger    func()            // crash part: switch imaging on
	afterIdle        func()            // crash part: switch imaging off
}

func newHist(spec *histSpec, res *histResult, rnd *rand.Rand) *hist {
	return &hist{spec: spec, res: res, rnd: rnd, m: newModel(spec.Src, spec.targets()), tainted: map[int64]bool{}}
}

func (h *hist) slots() int { return int(msHour / h.spec.Src) }

func (h *hist) witness(extra map[string]interface{}) map[string]interface{} {
	w := map[string]interface{}{"history": h.spec, "step": h.stepNo, "op": h.stepOp}
	var fs []string
	for _, f := range h.files {
		fs = append(fs, fmt.Sprintf("file#%d family=%d table=%d status=%v", f.Seq, f.Fam, f.Number, f.Status))
	}
	w["files"] = fs
	for k, v := range extra {
		w[k] = v
	}
	return w
}

// bind (re)attaches the source families to the open engine: Shard.GetOrCrateDataFamily creates/loads the source
// segment AND the segments (kv stores) of every rollup target interval for that timestamp - this is what registers
// the target stores that family.rollup() looks up by name.
func (h *hist) bind() error {
	for i, sp := range h.spec.Spots {
		var f *srcFamily
		if i < len(h.fams) {
			f = h.fams[i]
		} else {
			f = &srcFamily{Idx: i, Start: sp.Start, place: placeOf(h.spec.Src, sp.Start), maps: map[int64]*slotMap{}, ref: blocks.NewRef()}
			for _, t := range h.m.targets {
				f.maps[t] = h.m.slotMapOf(sp.Start, t)
			}
			h.fams = append(h.fams, f)
		}
		df, err := h.env.shard.GetOrCrateDataFamily(sp.Start + h.spec.Src) // any timestamp of the hour
		if err != nil {
			return fmt.Errorf("GetOrCrateDataFamily(%d): %w", sp.Start, err)
		}
		tr := df.TimeRange()
		if tr.Start != f.place.FamStart || tr.End != f.place.FamEnd || df.Family().Name() != f.place.Family {
			return fmt.Errorf("source family of %s is %s [%d,%d], calendar says family %s [%d,%d] (property C13)", fmtTS(sp.Start), df.Family().Name(), tr.Start, tr.End, f.place.Family, f.place.FamStart, f.place.FamEnd)
		}
		storeName := tsdb.ShardSegmentPath(dbName, shardID, timeutil.Interval(h.spec.Src), f.place.Segment)
		st, ok := kv.GetStoreManager().GetStoreByName(storeName)
		if !ok {
			return fmt.Errorf("source store %s not registered", storeName)
		}
		f.df, f.fam, f.store = df, df.Family(), st
	}
	return nil
}

func (h *hist) srcStores() []kv.Store {
	var out []kv.Store
	seen := map[string]bool{}
	for _, f := range h.fams {
		if !seen[f.store.Name()] {
			seen[f.store.Name()] = true
			out = append(out, f.store)
		}
	}
	return out
}

func readBook(f kv.Family) famBook {
	snap := f.GetSnapshot()
	defer snap.Close()
	cur := snap.GetCurrent()
	b := famBook{Marks: map[table.FileNumber][]int64{}, Level: map[table.FileNumber]int{}}
	for n, ivs := range cur.GetRollupFiles() {
		for _, iv := range ivs {
			b.Marks[n] = append(b.Marks[n], iv.Int64())
		}
		sort.Slice(b.Marks[n], func(i, j int) bool { return b.Marks[n][i] < b.Marks[n][j] })
	}
	for lvl := 0; lvl < len(cur.Levels()); lvl++ {
		for _, fm := range cur.GetFiles(lvl) {
			b.Level[fm.GetFileNumber()] = lvl
		}
	}
	return b
}

func (h *hist) books() []famBook {
	out := make([]famBook, len(h.fams))
	for i, f := range h.fams {
		out[i] = readBook(f.fam)
	}
	return out
}

// waitIdle: see cmd/c03 - the job's goroutine signals the wait group before it clears the busy flag.
func waitIdle(fam kv.Family) {
	kv.VerifFamilyWait(fam)
	start := time.Now()
	for kv.VerifFamilyBusy(fam) {
		time.Sleep(100 * time.Microsecond)
		if time.Since(start) > 2*time.Minute {
			panic("harness: family still busy two minutes after its background job was awaited")
		}
	}
}

func (h *hist) targetStores(iv int64) []kv.Store {
	prefix := tsdb.ShardIntervalSegmentPath(dbName, shardID, timeutil.Interval(iv)) + string(filepath.Separator)
	var out []kv.Store
	for _, st := range kv.GetStoreManager().GetStores() {
		if strings.HasPrefix(st.Name(), prefix) {
			out = append(out, st)
		}
	}
	sort.Slice(out, func(i, j int) bool { return out[i].Name() < out[j].Name() })
	return out
}

func (h *hist) waitAllIdle() {
	// a rollup job runs in the goroutine of the SOURCE family and works synchronously inside the target family;
	// target families are awaited too (their own compaction jobs, if any)
	for round := 0; round < 2; round++ {
		for _, f := range h.fams {
			for _, name := range f.store.ListFamilyNames() {
				if kf := f.store.GetFamily(name); kf != nil {
					waitIdle(kf)
				}
			}
		}
		for _, iv := range h.m.targets {
			for _, st := range h.targetStores(iv) {
				for _, name := range st.ListFamilyNames() {
					if kf := st.GetFamily(name); kf != nil {
						waitIdle(kf)
					}
				}
			}
		}
	}
}

var wideRange = timeutil.TimeRange{Start: 946684800000 /* 2000-01-01 */, End: 4102444800000 /* 2100-01-01 */}

// placeRange computes the time range of a target family from its names alone (plain time.Date).
func placeRange(typ, seg, fam string) (start, end int64, ok bool) {
	var y, mo, d int
	switch typ {
	case "month":
		if _, err := fmt.Sscanf(seg, "%4d%2d", &y, &mo); err != nil || len(seg) != 6 {
			return 0, 0, false
		}
		if _, err := fmt.Sscanf(fam, "%d", &d); err != nil {
			return 0, 0, false
		}
		s := time.Date(y, time.Month(mo), d, 0, 0, 0, 0, time.Local)
		e := time.Date(y, time.Month(mo), d+1, 0, 0, 0, 0, time.Local)
		return ms(s), ms(e) - 1, true
	case "year":
		if _, err := fmt.Sscanf(seg, "%4d", &y); err != nil || len(seg) != 4 {
			return 0, 0, false
		}
		if _, err := fmt.Sscanf(fam, "%d", &mo); err != nil {
			return 0, 0, false
		}
		s := time.Date(y, time.Month(mo), 1, 0, 0, 0, 0, time.Local)
		e := time.Date(y, time.Month(mo)+1, 1, 0, 0, 0, 0, time.Local)
		return ms(s), ms(e) - 1, true
	}
	return 0, 0, false
}

// readTargets reads every cell of every family of every store of the target intervals (all segments on disk are
// loaded first through the shard), the reference-file bookkeeping of the target families and the tsdb view of them.
func (h *hist) readTargets() (*targetView, error) {
	tv := &targetView{obs: map[int64]observed{}, refs: map[int64][]refEntry{}}
	for _, iv := range h.m.targets {
		typ := typeOf(iv)
		obs := observed{}
		tv.obs[iv] = obs
		// loads every segment directory of the interval type (stores get registered) and gives the tsdb view
		dfs := h.env.shard.GetDataFamilies(timeutil.Interval(iv).Type(), wideRange)
		byKV := map[kv.Family]tsdb.DataFamily{}
		for _, df := range dfs {
			byKV[df.Family()] = df
		}
		for _, st := range h.targetStores(iv) {
			seg := filepath.Base(st.Name())
			for _, name := range st.ListFamilyNames() {
				kf := st.GetFamily(name)
				if kf == nil {
					continue
				}
				tv.families++
				ps, pe, okRange := placeRange(typ, seg, name)
				pl := h.m.place(typ, seg, name, ps, pe)
				snap := kf.GetSnapshot()
				cur := snap.GetCurrent()
				if n := len(cur.GetRollupFiles()); n > 0 {
					tv.notes = append(tv.notes, fmt.Sprintf("target family %s/%s carries %d rollup marks", st.Name(), name, n))
				}
				for srcStore, fams := range cur.GetAllReferenceFiles() {
					for fid, files := range fams {
						for _, fn := range files {
							tv.refs[iv] = append(tv.refs[iv], refEntry{Place: pl, SrcStore: srcStore, FamID: fid.Int(), File: fn})
						}
					}
				}
				fv, err := blocks.ReadFamily(snap, blocks.Options{}, nil)
				snap.Close()
				if err != nil {
					return nil, fmt.Errorf("target family %s/%s: %w", st.Name(), name, err)
				}
				tv.tables += len(fv.Files)
				for _, n := range fv.Notes {
					tv.notes = append(tv.notes, fmt.Sprintf("%s/%s: %s", st.Name(), name, n))
				}
				hasData := false
				for metric, bvs := range fv.Blocks {
					seen := map[blocks.CellKey]int{}
					for _, bv := range bvs {
						tv.blocks++
						for _, n := range bv.LoadNotes {
							tv.notes = append(tv.notes, fmt.Sprintf("%s/%s table %d metric %d: %s", st.Name(), name, bv.File, metric, n))
						}
						for _, fm := range bv.Fields {
							if t, ok := h.m.types[blocks.MetricField{Metric: metric, Field: fm.ID}]; ok && t != fm.Type {
								tv.notes = append(tv.notes, fmt.Sprintf("%s/%s table %d metric %d: field %d has type %s, the source wrote %s", st.Name(), name, bv.File, metric, fm.ID, fm.Type, t))
							}
						}
						for ck, v := range bv.Cells {
							hasData = true
							k := tkey{Place: pl, Metric: metric, Series: ck.Series, Field: ck.Field, Slot: ck.Slot}
							obs[k] = append(obs[k], v)
							seen[ck]++
							if seen[ck] == 2 {
								tv.multiTable++
							}
						}
					}
				}
				// the tsdb view of the family: listed by the shard for its interval type with the calendar's time range
				if hasData {
					df, listed := byKV[kf]
					switch {
					case !okRange:
						tv.notes = append(tv.notes, fmt.Sprintf("target family %s/%s holds data but its names are not a calendar position", st.Name(), name))
					case !listed:
						tv.notes = append(tv.notes, fmt.Sprintf("target family %s/%s holds data but Shard.GetDataFamilies(%s, wide range) does not list it", st.Name(), name, typ))
					case df.TimeRange().Start != ps || df.TimeRange().End != pe:
						tv.notes = append(tv.notes, fmt.Sprintf("target family %s/%s: tsdb time range [%d,%d], calendar [%d,%d]", st.Name(), name, df.TimeRange().Start, df.TimeRange().End, ps, pe))
					default:
						// a point query at the first and at the last millisecond of the family finds exactly this family
						for _, ts := range []int64{ps, pe} {
							nl := h.env.shard.GetDataFamilies(timeutil.Interval(iv).Type(), timeutil.TimeRange{Start: ts, End: ts})
							if len(nl) != 1 || nl[0].Family() != kf {
								tv.notes = append(tv.notes, fmt.Sprintf("target family %s/%s holds data of [%d,%d] but Shard.GetDataFamilies(%s, [%d,%d]) returns %d families (not this one alone)", st.Name(), name, ps, pe, typ, ts, ts, len(nl)))
							}
						}
						tv.pointQueries += 2
					}
				}
			}
		}
	}
	return tv, nil
}

// ---------------------------------------------------------------------------------------------------------------
// oracle over the current statuses

func (h *hist) inclFor(iv int64) func(seq int) bool {
	return func(seq int) bool { return h.files[seq].Status[iv] == stIn }
}

// verify compares every (untainted) target interval with the reference under the current file statuses.
// It returns the intervals that disagree.
func (h *hist) verify(ctx string, tv *targetView) {
	for _, iv := range h.m.targets {
		if h.tainted[iv] {
			h.res.count("comparisons_skipped_after_unexplained_mismatch", 1)
			continue
		}
		r := h.m.compare(iv, tv.obs[iv], h.inclFor(iv), 6)
		h.countCompare(iv, r)
		if r.Mismatch > 0 {
			h.reportDiffs(iv, ctx, r)
		}
	}
	h.checkNotes(ctx, tv)
	h.checkBookkeeping(ctx, tv, h.books())
}

func (h *hist) countCompare(iv int64, r cmpResult) {
	typ := typeOf(iv)
	h.res.count("target_cells_compared."+typ, r.Cells)
	h.res.count("target_cells_fed_by_several_source_slots."+typ, r.MultiSource)
	h.res.count("target_cells_fed_by_several_source_files."+typ, r.MultiFile)
	h.res.count("comparisons."+typ, 1)
}

func (h *hist) reportDiffs(iv int64, ctx string, r cmpResult) {
	h.tainted[iv] = true
	typ := typeOf(iv)
	byClass := map[string][]string{}
	var order []string
	for _, d := range r.Diffs {
		class := fmt.Sprintf("C04/target/%s/%s/%s/after-%s", typ, d.Kind, d.Sub, ctx)
		if _, ok := byClass[class]; !ok {
			order = append(order, class)
		}
		byClass[class] = append(byClass[class], d.Detail)
	}
	for _, class := range order {
		h.res.violation(class, fmt.Sprintf("step %d (%s), %s->%s: %d target cells disagree with the reference, e.g. %s", h.stepNo, h.stepOp, ivName(h.spec.Src), ivName(iv), r.Mismatch, byClass[class][0]),
			h.witness(map[string]interface{}{"interval": ivName(iv), "mismatching_cells": r.Mismatch, "examples": r.Diffs}))
	}
}

func (h *hist) checkNotes(ctx string, tv *targetView) {
	h.res.count("target_family_point_queries_through_shard", tv.pointQueries)
	h.res.count("target_cells_held_by_several_tables", tv.multiTable)
	h.res.count("target_blocks_read", tv.blocks)
	if len(tv.notes) > 0 {
		h.res.violation("C04/target/anomaly/after-"+ctx, fmt.Sprintf("step %d (%s): %d anomalies while reading the targets, e.g. %s", h.stepNo, h.stepOp, len(tv.notes), tv.notes[0]),
			h.witness(map[string]interface{}{"notes": firstN(tv.notes, 10)}))
	}
}

// checkBookkeeping: rollup marks of the source and reference files of the targets must agree with the statuses (which
// the comparison has just checked against the data):
//
//	pending <=> the source family carries the mark (file, interval)
//	a reference (source store, source family id, file) in a target family => the file's data is in that target
func (h *hist) checkBookkeeping(ctx string, tv *targetView, books []famBook) {
	for _, f := range h.files {
		fam := h.fams[f.Fam]
		for _, iv := range h.m.targets {
			mark := books[f.Fam].has(f.Number, iv)
			st := f.Status[iv]
			switch {
			case st == stPending && !mark:
				h.res.violation("C04/bookkeeping/rollup-mark-missing/after-"+ctx, fmt.Sprintf("step %d (%s): file#%d (table %d of source family %s/%s) has not been rolled up into %s, but the source version carries no rollup mark for it (marks: %v)",
					h.stepNo, h.stepOp, f.Seq, f.Number, fam.place.Segment, fam.place.Family, ivName(iv), books[f.Fam].Marks), h.witness(nil))
			case st != stPending && mark && h.crashWindow && h.referenced(tv, f, iv):
				// recovered from a crash between the target's commit and the source's commit: the reference stands for the mark
			case st != stPending && mark && h.markLeft[[2]int64{int64(f.Seq), iv}] && h.referenced(tv, f, iv):
				// the source commit of the mark removal failed after the target work: the reference stands for the mark
				h.res.count("fault.marks_left_by_a_failed_source_commit_covered_by_a_reference", 1)
			case st != stPending && mark && h.markLeft[[2]int64{int64(f.Seq), iv}]:
				h.res.violation("C04/bookkeeping/rollup-mark-kept-but-reference-removed/after-"+ctx, fmt.Sprintf("step %d (%s): file#%d (table %d of source family %s/%s) is in the %s target and the source family's commit of its mark removal failed, "+
					"so the mark is still there (marks: %v) - but the target family no longer references the file: the next rollup adds it a second time",
					h.stepNo, h.stepOp, f.Seq, f.Number, fam.place.Segment, fam.place.Family, ivName(iv), books[f.Fam].Marks), h.witness(nil))
			case st != stPending && mark:
				h.res.violation("C04/bookkeeping/rollup-mark-left/after-"+ctx, fmt.Sprintf("step %d (%s): file#%d (table %d of source family %s/%s) is %s for %s, but the source version still carries its rollup mark (marks: %v)",
					h.stepNo, h.stepOp, f.Seq, f.Number, fam.place.Segment, fam.place.Family, st, ivName(iv), books[f.Fam].Marks), h.witness(nil))
			}
		}
	}
	for _, iv := range h.m.targets {
		for _, re := range tv.refs[iv] {
			h.res.count("reference_files_seen_outside_a_job", 1)
			var file *fileRec
			for _, f := range h.files {
				fam := h.fams[f.Fam]
				if f.Number == re.File && fam.place.Segment == re.SrcStore && fam.fam.ID().Int() == re.FamID {
					file = f
				}
			}
			if file == nil {
				h.res.violation("C04/bookkeeping/reference-to-unknown-file/after-"+ctx, fmt.Sprintf("step %d (%s): target family %s references source file (store %s, family id %d, table %d) which no flush of this history produced",
					h.stepNo, h.stepOp, h.m.places[re.Place], re.SrcStore, re.FamID, re.File), h.witness(nil))
			} else if file.Status[iv] != stIn {
				h.res.violation("C04/bookkeeping/reference-without-data/after-"+ctx, fmt.Sprintf("step %d (%s): target family %s references file#%d (table %d), but the file's data is not in the target (%s): the next rollup would skip it",
					h.stepNo, h.stepOp, h.m.places[re.Place], file.Seq, file.Number, file.Status[iv]), h.witness(nil))
			}
		}
	}
}

// referenced reports whether the target family of iv references the file (source store, source family id, table).
func (h *hist) referenced(tv *targetView, f *fileRec, iv int64) bool {
	fam := h.fams[f.Fam]
	for _, re := range tv.refs[iv] {
		if re.File == f.Number && re.SrcStore == fam.place.Segment && re.FamID == fam.fam.ID().Int() {
			return true
		}
	}
	return false
}

func firstN(s []string, n int) []string {
	if len(s) > n {
		return s[:n]
	}
	return s
}

// ---------------------------------------------------------------------------------------------------------------
// steps

// registerFile finds the table a flush added to level 0 and checks that the flusher marked it for every target interval.
func (h *hist) registerFile(f *srcFamily, before famBook, cells int) *fileRec {
	after := readBook(f.fam)
	var added []table.FileNumber
	for n, lvl := range after.Level {
		if _, ok := before.Level[n]; !ok && lvl == 0 {
			added = append(added, n)
		}
	}
	if len(added) != 1 {
		h.res.Fatal = fmt.Sprintf("step %d: flush into family %d added %d level-0 tables (%v)", h.stepNo, f.Idx, len(added), added)
		return nil
	}
	rec := &fileRec{Seq: len(h.files), Fam: f.Idx, Number: added[0], Status: map[int64]string{}, Cells: cells}
	for _, iv := range h.m.targets {
		rec.Status[iv] = stPending
	}
	h.files = append(h.files, rec)
	want := append([]int64{}, h.m.targets...)
	if h.concurrent {
		// a rollup job is running: it may already have processed (and unmarked) the new table
	} else if fmt.Sprint(after.Marks[rec.Number]) != fmt.Sprint(want) {
		h.res.violation("C04/bookkeeping/flush-does-not-mark-new-file-for-every-target-interval", fmt.Sprintf("step %d: flushed table %d of source family %s/%s carries rollup marks %v, configured target intervals %v",
			h.stepNo, rec.Number, f.place.Segment, f.place.Family, after.Marks[rec.Number], want), h.witness(nil))
	}
	for n, ivs := range before.Marks {
		if h.concurrent {
			break
		}
		if fmt.Sprint(after.Marks[n]) != fmt.Sprint(ivs) {
			h.res.violation("C04/bookkeeping/flush-changes-marks-of-older-files", fmt.Sprintf("step %d: rollup marks of table %d changed from %v to %v by a flush", h.stepNo, n, ivs, after.Marks[n]), h.witness(nil))
		}
	}
	h.res.count("flushes", 1)
	h.res.count("source_cells_flushed", cells)
	return rec
}

// flushDirect writes generated blocks straight into the kv family of the source data family.
func (h *hist) flushDirect(f *srcFamily) bool {
	seq := len(h.files)
	fo := blocks.FileOptions{Seq: seq, MaxSlot: h.slots() - 1, PSilent: 0.05, NoLongRange: h.spec.Src == msSecond && h.spec.Tier == "quick"}
	if h.spec.Gen.BigSeries > 0 {
		fo.AllMetrics, fo.NoLongRange, fo.PSilent = true, true, 0
	}
	blks, shape := h.u.GenFile(h.rnd, fo)
	blks = append(blks, h.witnessBlock(seq))
	sort.Slice(blks, func(i, j int) bool { return blks[i].Metric < blks[j].Metric })
	cells := 0
	for _, b := range blks {
		// blocks' range generator may start a range behind MaxSlot; a source family has exactly slots() slots
		last := uint16(h.slots() - 1)
		if b.Range.Start > last {
			b.Range.Start = last
		}
		if b.Range.End > last {
			b.Range.End = last
		}
		for si := range b.Series {
			for _, fd := range b.Series[si].Fields {
				for s := range fd {
					if s > last {
						delete(fd, s)
					}
				}
			}
		}
		if b.CellCount() == 0 {
			b.Series[0].Fields[0] = blocks.FieldData{b.Range.Start: float64(64 + seq%64)}
		}
		// keep sums exact: |v| < 2^30 (7200 source slots x 64 files stay below 2^53); the low 6 bits (flush number) survive
		for si := range b.Series {
			for _, fd := range b.Series[si].Fields {
				for s, v := range fd {
					fd[s] = float64(int64(v) % (1 << 30))
				}
			}
		}
		cells += b.CellCount()
		h.spec.Files = append(h.spec.Files, fmt.Sprintf("file#%d -> family %d: %s", seq, f.Idx, b.Describe()))
	}
	before := readBook(f.fam)
	if err := blocks.FlushFile(f.fam, blks); err != nil {
		h.res.Fatal = fmt.Sprintf("step %d: flushing generated blocks failed: %v", h.stepNo, err)
		return false
	}
	rec := h.registerFile(f, before, cells)
	if rec == nil {
		return false
	}
	f.ref.Add(seq, blks)
	for _, b := range blks {
		for si := range b.Series {
			s := &b.Series[si]
			for fi, fd := range s.Fields {
				for slot, v := range fd {
					h.m.add(f.maps, f.Start, seq, b.Metric, s.ID, b.Fields[fi].ID, b.Fields[fi].Type, slot, v)
				}
			}
		}
	}
	h.res.count("blocks_flushed", shape.Blocks+1)
	for _, k := range shape.RangeKinds {
		h.res.count("block_range."+k, 1)
	}
	return true
}

// witnessBlock is a hand-made block with all six field types whose slot range sits at the edges that matter for the
// slot arithmetic: whole family, first/last target slot of the family, a pair of source slots straddling a target
// slot boundary, the very first / very last source slot. Values are non-zero, so a doubled sum is always visible.
func (h *hist) witnessBlock(seq int) *blocks.Block {
	rnd := h.rnd
	n := h.slots()
	ratio := n
	if h.spec.Month > 0 {
		ratio = int(h.spec.Month / h.spec.Src)
	}
	var lo, hi int
	kind := rnd.Intn(7)
	switch kind {
	case 0:
		lo, hi = 0, n-1
	case 1:
		lo, hi = 0, ratio-1
	case 2:
		lo, hi = n-ratio, n-1
	case 3:
		k := 1 + rnd.Intn(n/ratio)
		if k*ratio >= n {
			k = n/ratio - 1
		}
		if k < 1 {
			lo, hi = 0, n-1
		} else {
			lo, hi = k*ratio-1, k*ratio
		}
	case 4:
		if rnd.Intn(2) == 0 {
			lo, hi = 0, 0
		} else {
			lo, hi = n-1, n-1
		}
	default:
		lo = rnd.Intn(n)
		hi = lo + rnd.Intn(n-lo)
	}
	if hi-lo > 400 && h.spec.Tier == "quick" {
		// keep the 1 s families affordable: a window of 400 slots at the start, the end or around a boundary
		switch rnd.Intn(3) {
		case 0:
			hi = lo + 400
		case 1:
			lo = hi - 400
		default:
			mid := (lo + hi) / 2 / ratio * ratio
			lo, hi = mid-200, mid+200
			if lo < 0 {
				lo = 0
			}
			if hi > n-1 {
				hi = n - 1
			}
		}
	}
	h.res.count(fmt.Sprintf("witness_block_range_kind.%d", kind), 1)
	b := &blocks.Block{Metric: witnessID, Range: timeutil.SlotRange{Start: uint16(lo), End: uint16(hi)}}
	types := []field.Type{field.SumField, field.MinField, field.MaxField, field.LastField, field.HistogramField, field.FirstField}
	for i, t := range types {
		b.Fields = append(b.Fields, field.Meta{ID: field.ID(i + 1), Type: t})
	}
	for si, sid := range []uint32{1, 2, 65536 + 3} {
		se := blocks.Series{ID: sid, Fields: make([]blocks.FieldData, len(b.Fields))}
		for fi := range b.Fields {
			fd := blocks.FieldData{}
			for s := lo; s <= hi; s++ {
				if si == 0 || s == lo || s == hi || rnd.Intn(3) == 0 {
					fd[uint16(s)] = float64((1+rnd.Intn(5000))*64 + seq%64)
				}
			}
			se.Fields[fi] = fd
		}
		b.Series = append(b.Series, se)
	}
	return b
}

// trigger kinds of a rollup step
const (
	trigForce = "rollup" // kv.Store.ForceRollup on every source store
	trigTick  = "tick"   // the store-level tick (kv.VerifStoreCompact = store.compact(): needCompact/needRollup thresholds)
)

// rollupStep triggers the rollup, waits for quiescence and applies the oracle.
func (h *hist) rollupStep(trig string) { h.rollupStepWith(trig, nil) }

// rollupStepWith: during, if not nil, runs right after the jobs were started (ForceRollup only starts goroutines):
// a flush that commits while the rollup jobs run.
func (h *hist) rollupStepWith(trig string, during func()) { h.rollupStepFull(trig, "", nil, during) }

// rollupStepFull: custom, if not nil, replaces the plain trigger (one ForceRollup / tick per source store) by a schedule
// of its own (retrigger.go: directed and unshaped repeated triggers); ctxName, if not empty, names that schedule in the
// violation classes. The oracle is the same: at quiescence every file whose mark is gone is in its target exactly once.
func (h *hist) rollupStepFull(trig, ctxName string, custom func(), during func()) {
	pre := h.books()
	nBefore := len(h.files)
	// is the target store of (source family, interval) registered with the store manager when the job looks it up?
	// (target segments open lazily after a restart and idle ones are closed by Shard.EvictSegment; rollup() skips
	// such a target and must leave the marks for it alone)
	open := map[[2]int64]bool{}
	for _, f := range h.fams {
		for _, iv := range h.m.targets {
			name := tsdb.ShardSegmentPath(dbName, shardID, timeutil.Interval(iv), placeOf(iv, f.Start).Segment)
			_, ok := kv.GetStoreManager().GetStoreByName(name)
			open[[2]int64{int64(f.Idx), iv}] = ok
		}
	}
	if h.beforeTrigger != nil {
		h.beforeTrigger()
	}
	if custom != nil {
		custom()
		if h.res.Fatal != "" {
			return
		}
	} else {
		for _, st := range h.srcStores() {
			if trig == trigTick {
				kv.VerifStoreCompact(st)
			} else {
				st.ForceRollup()
			}
		}
	}
	if during != nil {
		during()
	}
	h.waitAllIdle()
	if h.afterIdle != nil {
		h.afterIdle()
	}
	post := h.books()
	tv, err := h.readTargets()
	if err != nil {
		h.res.violation("C04/target/unreadable/after-"+trig, fmt.Sprintf("step %d (%s): %v", h.stepNo, h.stepOp, err), h.witness(nil))
		h.tainted = map[int64]bool{h.spec.Month: true, h.spec.Year: true}
		return
	}
	anyRan := false
	for _, iv := range h.m.targets {
		typ := typeOf(iv)
		var ran []*fileRec
		faultedDone := false        // the job into this target hit the injected failing step and removed its marks all the same
		definite := map[int]bool{}  // seq: not on level 0 before the trigger
		possible := map[int][]int{} // family -> seqs that left level 0 during the step
		for _, f := range h.fams {
			var pend []*fileRec
			for _, fr := range h.files {
				if fr.Fam == f.Idx && pre[f.Idx].has(fr.Number, iv) {
					pend = append(pend, fr)
				}
			}
			// a table flushed while the jobs were running: either the job saw its mark (then it must be in the target and
			// the mark is gone) or the mark is still there for the next job
			for _, fr := range h.files[nBefore:] {
				if fr.Fam != f.Idx {
					continue
				}
				if !post[f.Idx].has(fr.Number, iv) {
					ran = append(ran, fr)
					h.res.count("concurrent_flush_taken_by_the_running_job."+typ, 1)
				} else {
					h.res.count("concurrent_flush_left_for_the_next_job."+typ, 1)
				}
			}
			storeOpen := open[[2]int64{int64(f.Idx), iv}]
			if trig == trigForce && storeOpen && during == nil && len(h.files) == nBefore {
				// a file that still has to go into this target but carries no mark any more can never be picked up: after a
				// forced rollup with the target store available the property demands it in the target all the same
				for _, fr := range h.files[:nBefore] {
					if fr.Fam == f.Idx && fr.Status[iv] == stPending && !pre[f.Idx].has(fr.Number, iv) {
						ran = append(ran, fr)
						h.res.count("files_without_mark_that_still_had_to_be_rolled_up."+typ, 1)
					}
				}
			}
			if len(pend) == 0 {
				continue
			}
			if !storeOpen {
				left := 0
				for _, fr := range pend {
					if post[f.Idx].has(fr.Number, iv) {
						left++
					}
				}
				h.res.count("rollup_targets_skipped_because_store_not_open."+typ, 1)
				if left != len(pend) {
					h.res.violation("C04/bookkeeping/marks-removed-although-target-store-not-open/"+typ, fmt.Sprintf("step %d (%s): the %s target store of source family %s/%s was not registered when the rollup job ran (the job skips it), "+
						"yet %d of the %d rollup marks for %s are gone (marks before %v, after %v): those files can never be rolled up into it",
						h.stepNo, h.stepOp, typ, f.place.Segment, f.place.Family, len(pend)-left, len(pend), ivName(iv), pre[f.Idx].Marks, post[f.Idx].Marks), h.witness(nil))
				}
				continue
			}
			removed := 0
			for _, fr := range pend {
				if !post[f.Idx].has(fr.Number, iv) {
					removed++
				}
			}
			switch {
			case removed == len(pend):
				if h.fault.injectedInto(iv) {
					h.res.count("fault.failed_jobs_that_removed_their_rollup_marks."+typ, 1)
					h.fault.judged = true
					faultedDone = h.fault.kind != "reference-manifest"
				}
				h.res.count("rollup_jobs_completed."+typ, 1)
				h.res.count("source_files_rolled_up."+typ, len(pend))
				if len(pend) > 1 {
					h.res.count("rollup_jobs_with_several_source_files."+typ, 1)
				}
				for _, fr := range pend {
					ran = append(ran, fr)
					if lvl, live := pre[f.Idx].Level[fr.Number]; !live || lvl != 0 {
						definite[fr.Seq] = true
					} else if lvl, live := post[f.Idx].Level[fr.Number]; !live || lvl != 0 {
						possible[f.Idx] = append(possible[f.Idx], fr.Seq)
					}
				}
				if trig == trigTick && len(pre[f.Idx].Marks) < 3 {
					h.res.count("tick_rollups_below_file_threshold(time threshold)", 1)
				}
			case removed == 0:
				if h.fault.injectedInto(iv) {
					// the job into this target failed at the injected step: keeping the marks is what makes the retry possible
					h.res.count("fault.failed_jobs_that_kept_their_rollup_marks."+typ, 1)
					h.fault.judged = true
					if h.fault.kind == "source-manifest" {
						// only the source family's commit of the mark removal failed: the target work of the job is done, the data
						// is claimed to be in the target (the comparison below decides); the mark is left and the target's
						// reference has to stand for it until a retry commits the removal
						if h.markLeft == nil {
							h.markLeft = map[[2]int64]bool{}
						}
						for _, fr := range pend {
							ran = append(ran, fr)
							h.markLeft[[2]int64{int64(fr.Seq), iv}] = true
						}
					}
				} else if trig == trigForce {
					h.res.violation("C04/rollup/forced-job-leaves-rollup-marks/"+typ, fmt.Sprintf("step %d (%s): ForceRollup on an idle source family %s/%s with %d marked files ran to quiescence, the marks for %s are still there",
						h.stepNo, h.stepOp, f.place.Segment, f.place.Family, len(pend), ivName(iv)), h.witness(nil))
				} else if len(pre[f.Idx].Marks) >= 3 {
					h.res.violation("C04/tick/file-threshold-reached-but-no-rollup/"+typ, fmt.Sprintf("step %d (%s): store tick with %d marked files (threshold 3) in source family %s/%s did not roll up into %s",
						h.stepNo, h.stepOp, len(pre[f.Idx].Marks), f.place.Segment, f.place.Family, ivName(iv)), h.witness(nil))
				} else {
					h.res.count("ticks_below_threshold_without_rollup."+typ, 1)
				}
			default:
				h.res.violation("C04/rollup/job-removed-only-some-marks/"+typ, fmt.Sprintf("step %d (%s): %d of %d rollup marks for %s of source family %s/%s were removed by one job",
					h.stepNo, h.stepOp, removed, len(pend), ivName(iv), f.place.Segment, f.place.Family), h.witness(nil))
				h.tainted[iv] = true
			}
		}
		if len(ran) > 0 {
			anyRan = true
		}
		// the property: every file whose job completed is in the target, exactly once
		for _, fr := range ran {
			fr.Status[iv] = stIn
		}
		if h.tainted[iv] {
			continue
		}
		ctx := h.rollupCtx(trig, len(ran) > 0)
		if ctxName != "" {
			ctx = ctxName
		}
		r := h.m.compare(iv, tv.obs[iv], h.inclFor(iv), 6)
		h.countCompare(iv, r)
		if r.Mismatch == 0 {
			if len(ran) > 0 {
				h.res.Nontrivial = append(h.res.Nontrivial, fmt.Sprintf("h%d/step%d/%s", h.spec.Idx, h.stepNo, typ))
			}
			continue
		}
		// not as the property demands. Can it be explained by the known defect (a marked file that is no longer on
		// level 0 when its job runs contributes nothing, its mark is deleted nevertheless)? Only used to LABEL.
		if h.explainByLeftLevel0(iv, tv, ran, definite, possible, pre, post, r) {
			continue
		}
		if faultedDone {
			h.res.violation("C04/bookkeeping/marks-removed-although-rollup-job-failed/"+typ+"/"+faultStage(h.fault.kind), fmt.Sprintf("step %d (%s): the rollup job into the %s target hit an i/o error (%s) and installed nothing, "+
				"yet all its rollup marks for %s are gone and %d target cells are missing or wrong, e.g. %s: no later trigger can roll these files up",
				h.stepNo, h.stepOp, typ, h.fault.kind, ivName(iv), r.Mismatch, firstDetail(r)), h.witness(map[string]interface{}{"interval": ivName(iv), "failing_step": h.fault.kind}))
		}
		h.reportDiffs(iv, ctx, r)
	}
	if anyRan {
		h.rolled = true
	}
	if ctxName != "" {
		trig = ctxName
	}
	h.checkNotes(trig, tv)
	h.checkBookkeeping(trig, tv, post)
}

func (h *hist) rollupCtx(trig string, ran bool) string {
	switch {
	case !ran && trig == trigForce:
		return "repeated-trigger"
	case !ran:
		return "tick-without-job"
	case h.prevOp == "reopen":
		return trig + "-after-reopen"
	case h.rolled:
		return trig + "-after-more-flushes"
	}
	return "first-" + trig
}

func (h *hist) explainByLeftLevel0(iv int64, tv *targetView, ran []*fileRec, definite map[int]bool, possible map[int][]int, pre, post []famBook, r0 cmpResult) bool {
	if len(definite) == 0 && len(possible) == 0 {
		return false
	}
	var famIdx []int
	for fi := range possible {
		famIdx = append(famIdx, fi)
	}
	sort.Ints(famIdx)
	for mask := 0; mask < 1<<len(famIdx); mask++ {
		lost := map[int]bool{}
		for s := range definite {
			lost[s] = true
		}
		for i, fi := range famIdx {
			if mask&(1<<i) != 0 {
				for _, s := range possible[fi] {
					lost[s] = true
				}
			}
		}
		if len(lost) == 0 {
			continue
		}
		for _, fr := range ran {
			if lost[fr.Seq] {
				fr.Status[iv] = stLost
			} else {
				fr.Status[iv] = stIn
			}
		}
		r := h.m.compare(iv, tv.obs[iv], h.inclFor(iv), 3)
		if r.Mismatch != 0 {
			continue
		}
		var desc []string
		concurrent := false
		for _, fr := range ran {
			if !lost[fr.Seq] {
				continue
			}
			where := "not in the version any more (merged by a compaction)"
			if lvl, live := post[fr.Fam].Level[fr.Number]; live {
				where = fmt.Sprintf("on level %d", lvl)
			}
			when := "before the rollup was triggered"
			if !definite[fr.Seq] {
				when = "by the compaction job the same store tick started"
				concurrent = true
			}
			desc = append(desc, fmt.Sprintf("file#%d (table %d of %s/%s, %d cells) left level 0 %s and is %s", fr.Seq, fr.Number, h.fams[fr.Fam].place.Segment, h.fams[fr.Fam].place.Family, fr.Cells, when, where))
		}
		h.res.count("known_defect.files_lost_because_not_on_level0."+typeOf(iv), len(lost))
		if concurrent {
			h.res.count("known_defect.lost_through_concurrent_tick_compaction", 1)
		}
		h.res.violation(classKnownL0, fmt.Sprintf("step %d (%s), %s->%s: the rollup job completed and deleted the rollup marks, but the target lacks exactly the contribution of the source files that were not on level 0 "+
			"when doRollupWork looked them up (%d target cells differ from the reference, e.g. %s); with those files left out the target equals the reference: %s",
			h.stepNo, h.stepOp, ivName(h.spec.Src), ivName(iv), r0.Mismatch, firstDetail(r0), strings.Join(desc, "; ")),
			h.witness(map[string]interface{}{"interval": ivName(iv), "lost_files": desc, "examples": r0.Diffs}))
		return true
	}
	for _, fr := range ran {
		fr.Status[iv] = stIn
	}
	return false
}

func firstDetail(r cmpResult) string {
	if len(r.Diffs) > 0 {
		return r.Diffs[0].Detail
	}
	return ""
}

// compactSource runs a compaction of a source family: "compact" = Family.Compact (needs >= 2 level-0 tables, what
// DataFamily.Compact calls), "force" = a compaction job without threshold (a single table is moved to level 1).
func (h *hist) compactSource(f *srcFamily, forced bool) {
	before := readBook(f.fam)
	if forced {
		kv.VerifFamilyCompact(f.fam)
	} else {
		f.fam.Compact()
	}
	h.waitAllIdle()
	after := readBook(f.fam)
	moved := 0
	for n, lvl := range before.Level {
		if l2, ok := after.Level[n]; lvl == 0 && (!ok || l2 != 0) {
			moved++
			if len(before.Marks[n]) > 0 {
				h.res.count("marked_source_files_compacted_before_their_rollup", 1)
			} else {
				h.res.count("rolled_up_source_files_compacted", 1)
			}
		}
	}
	if moved > 0 {
		h.res.count("source_compactions", 1)
	}
	if fmt.Sprint(before.Marks) != fmt.Sprint(after.Marks) {
		h.res.violation("C04/bookkeeping/source-compaction-changes-rollup-marks", fmt.Sprintf("step %d (%s): rollup marks of source family %s/%s changed from %v to %v by a compaction",
			h.stepNo, h.stepOp, f.place.Segment, f.place.Family, before.Marks, after.Marks), h.witness(nil))
	}
	// a marked table must stay readable on disk until its rollup ran (family.deleteObsoleteFiles keeps it)
	for n := range after.Marks {
		p := filepath.Join(f.store.Name(), f.fam.Name(), fmt.Sprintf("%06d.sst", n.Int64()))
		if _, err := os.Stat(p); err != nil {
			h.res.violation("C04/source/marked-table-deleted-before-rollup", fmt.Sprintf("step %d (%s): table %d still carries rollup marks %v but its file is gone: %v", h.stepNo, h.stepOp, n, after.Marks[n], err), h.witness(nil))
		}
	}
}

func (h *hist) compactTargets() {
	n := 0
	for _, iv := range h.m.targets {
		for _, st := range h.targetStores(iv) {
			for _, name := range st.ListFamilyNames() {
				if kf := st.GetFamily(name); kf != nil {
					b := readBook(kf)
					l0 := 0
					for _, lvl := range b.Level {
						if lvl == 0 {
							l0++
						}
					}
					if l0 > 1 {
						kf.Compact()
						n++
					}
				}
			}
		}
	}
	h.waitAllIdle()
	h.res.count("target_family_compactions", n)
}

// checkSources: a rollup (or a compaction) must not change what the source families show.
func (h *hist) checkSources(ctx string) {
	if h.spec.Kind == "ingest" {
		return
	}
	for _, f := range h.fams {
		snap := f.fam.GetSnapshot()
		fv, err := blocks.ReadFamily(snap, blocks.Options{}, nil)
		snap.Close()
		if err != nil {
			h.res.violation("C04/source/unreadable/after-"+ctx, fmt.Sprintf("step %d (%s): source family %s/%s: %v", h.stepNo, h.stepOp, f.place.Segment, f.place.Family, err), h.witness(nil))
			continue
		}
		got := map[blocks.Cell][]float64{}
		for metric, bvs := range fv.Blocks {
			for _, bv := range bvs {
				for ck, v := range bv.Cells {
					c := blocks.Cell{Metric: metric, Series: ck.Series, Field: ck.Field, Slot: ck.Slot}
					got[c] = append(got[c], v)
				}
			}
		}
		bad := ""
		nbad := 0
		for c, contribs := range f.ref.Cells {
			ft := f.ref.Types[blocks.MetricField{Metric: c.Metric, Field: c.Field}]
			vals := blocks.Values(contribs)
			g, ok := got[c]
			okCell := ok
			if ok {
				want, exact := blocks.Aggregate(ft, vals)
				if exact {
					have, _ := blocks.Aggregate(ft, g)
					okCell = have == want
				} else {
					for _, x := range g {
						okCell = okCell && blocks.OneOf(x, vals)
					}
				}
			}
			if !okCell {
				nbad++
				if bad == "" {
					bad = fmt.Sprintf("metric=%d series=%d field=%d slot=%d: source shows %v, flushed %v", c.Metric, c.Series, c.Field, c.Slot, g, vals)
				}
			}
		}
		for c := range got {
			if _, ok := f.ref.Cells[c]; !ok {
				nbad++
				if bad == "" {
					bad = fmt.Sprintf("metric=%d series=%d field=%d slot=%d: source shows %v, never flushed", c.Metric, c.Series, c.Field, c.Slot, got[c])
				}
			}
		}
		h.res.count("source_cells_rechecked", len(f.ref.Cells))
		if nbad > 0 {
			h.res.violation("C04/source/changed/after-"+ctx, fmt.Sprintf("step %d (%s): source family %s/%s no longer shows what was flushed (%d cells), e.g. %s", h.stepNo, h.stepOp, f.place.Segment, f.place.Family, nbad, bad), h.witness(nil))
		}
	}
}

func (h *hist) reopen() bool {
	h.refsBeforeReopen = ""
	if tv, err := h.readTargets(); err == nil {
		h.refsBeforeReopen = refSet(h.m, tv)
	}
	h.env.close()
	e, err := openEnv(h.env.dataDir, nil)
	if err != nil {
		h.res.violation("C04/reopen/engine-does-not-open", fmt.Sprintf("step %d: %v", h.stepNo, err), h.witness(nil))
		return false
	}
	h.env = e
	if err := h.bind(); err != nil {
		h.res.violation("C04/reopen/source-family-not-found", fmt.Sprintf("step %d: %v", h.stepNo, err), h.witness(nil))
		return false
	}
	h.res.count("reopens", 1)
	pending := 0
	for _, f := range h.files {
		for _, iv := range h.m.targets {
			if f.Status[iv] == stPending {
				pending++
			}
		}
	}
	if pending > 0 {
		h.res.count("reopens_with_pending_rollup_marks", 1)
	}
	return true
}

// reopenPartial restarts the engine and opens only some of the stores, the way production does it lazily:
//
//	lazy:  the source families are found through Shard.GetDataFamilies(day type, ...) (a query on the source interval
//	       loads the source segment only); the segment of target type `keep` is loaded by a query on that interval type;
//	       the other target segment stays closed until the next write (GetOrCrateDataFamily) or read of it.
//	evict: everything is opened (GetOrCrateDataFamily), the families of target type `keep` are loaded by a query, then
//	       Shard.EvictSegment closes every interval segment without a loaded family.
//
// keep = month | year | none.
func (h *hist) reopenPartial(mode, keep string) bool {
	h.refsBeforeReopen = ""
	h.env.close()
	e, err := openEnv(h.env.dataDir, nil)
	if err != nil {
		h.res.violation("C04/reopen/engine-does-not-open", fmt.Sprintf("step %d: %v", h.stepNo, err), h.witness(nil))
		return false
	}
	h.env = e
	keepIv := int64(0)
	for _, iv := range h.m.targets {
		if typeOf(iv) == keep {
			keepIv = iv
		}
	}
	touchKeep := func() {
		if keepIv == 0 {
			return
		}
		for _, f := range h.fams {
			h.env.shard.GetDataFamilies(timeutil.Interval(keepIv).Type(), timeutil.TimeRange{Start: f.Start, End: f.Start + h.spec.Src})
		}
	}
	if mode == "evict" {
		if err := h.bind(); err != nil {
			h.res.violation("C04/reopen/source-family-not-found", fmt.Sprintf("step %d: %v", h.stepNo, err), h.witness(nil))
			return false
		}
		touchKeep()
		h.env.shard.EvictSegment()
		h.res.count("reopens_followed_by_segment_eviction", 1)
	} else {
		for _, f := range h.fams {
			var found tsdb.DataFamily
			for _, df := range h.env.shard.GetDataFamilies(timeutil.Interval(h.spec.Src).Type(), timeutil.TimeRange{Start: f.Start, End: f.Start + h.spec.Src}) {
				if df.TimeRange().Start == f.place.FamStart && df.Family().Name() == f.place.Family {
					found = df
				}
			}
			st, ok := kv.GetStoreManager().GetStoreByName(tsdb.ShardSegmentPath(dbName, shardID, timeutil.Interval(h.spec.Src), f.place.Segment))
			if found == nil || !ok {
				h.res.violation("C04/reopen/source-family-not-found", fmt.Sprintf("step %d: Shard.GetDataFamilies(day type) does not list source family %s/%s after the restart", h.stepNo, f.place.Segment, f.place.Family), h.witness(nil))
				return false
			}
			f.df, f.fam, f.store = found, found.Family(), st
		}
		touchKeep()
		h.res.count("reopens_with_lazily_opened_stores", 1)
	}
	closed := 0
	for _, f := range h.fams {
		for _, iv := range h.m.targets {
			if _, ok := kv.GetStoreManager().GetStoreByName(tsdb.ShardSegmentPath(dbName, shardID, timeutil.Interval(iv), placeOf(iv, f.Start).Segment)); !ok {
				closed++
			}
		}
	}
	if closed > 0 {
		h.res.count("reopens_leaving_a_target_store_closed", 1)
	}
	h.res.count("reopens", 1)
	return true
}

// run executes the steps of the spec against a fresh engine in dir.
func (h *hist) run(dir string) {
	spec, res := h.spec, h.res
	if spec.Kind == "crash" {
		h.installWorld(dir)
		defer seam.Restore()
	}
	if spec.Kind == "fault" {
		// before the first open: manifest writers are wrapped when their store is opened
		h.faultSwitch = &faultSwitch{}
		seam.InstallKV(h.faultSwitch, nil)
		defer seam.Restore()
	}
	e, err := openEnv(filepath.Join(dir, "data"), dbOption(spec))
	if err != nil {
		res.Fatal = err.Error()
		return
	}
	h.env = e
	defer func() { h.env.close() }()
	if err := h.bind(); err != nil {
		res.Fatal = err.Error()
		return
	}
	h.u = blocks.GenUniverse(h.rnd, spec.Gen)
	for _, m := range h.u.Metrics {
		spec.Metrics = append(spec.Metrics, fmt.Sprintf("metric=%d fields(%s)=%d series(%s)=%d ids %d..%d base=[%d,%d]",
			m.ID, m.FieldKind, len(m.Fields), m.SeriesKind, len(m.Pool), m.Pool[0], m.Pool[len(m.Pool)-1], m.Base.Start, m.Base.End))
	}
	for i, op := range spec.Steps {
		if res.Fatal != "" {
			return
		}
		h.stepNo, h.stepOp = i, op
		res.Steps++
		name, arg := op, 0
		if k := strings.IndexByte(op, ':'); k >= 0 {
			name = op[:k]
			fmt.Sscanf(op[k+1:], "%d", &arg)
		}
		if arg >= len(h.fams) {
			arg = 0
		}
		switch name {
		case "flush":
			ok := false
			if spec.Kind == "ingest" {
				ok = h.flushIngest(h.fams[arg])
			} else {
				ok = h.flushDirect(h.fams[arg])
			}
			if !ok {
				return
			}
			h.checkAfter("flush")
		case "rollup":
			if ctx := h.faultRetryCtx(); ctx != "" {
				h.rollupStepFull(trigForce, ctx, nil, nil)
				h.afterFaultRetry(ctx)
			} else {
				h.rollupStep(trigForce)
			}
			if h.prevOp == "flush" {
				h.checkSources("rollup")
			}
		case "rollup+flush":
			h.rollupStepWith(trigForce, func() {
				h.concurrent = true
				if spec.Kind == "ingest" {
					h.flushIngest(h.fams[arg])
				} else {
					h.flushDirect(h.fams[arg])
				}
				h.concurrent = false
			})
		case "tick":
			h.rollupStep(trigTick)
		case "compact":
			h.compactSource(h.fams[arg], false)
			h.checkAfter("source-compaction")
			h.checkSources("source-compaction")
		case "force":
			h.compactSource(h.fams[arg], true)
			h.checkAfter("source-compaction")
		case "tcompact":
			h.compactTargets()
			h.checkAfter("target-compaction")
		case "reopen":
			if !h.reopen() {
				return
			}
			h.checkAfter("reopen")
		case "reopen-lazy", "reopen-evict":
			keep := "none"
			if k := strings.IndexByte(op, ':'); k >= 0 {
				keep = op[k+1:]
			}
			if !h.reopenPartial(strings.TrimPrefix(name, "reopen-"), keep) {
				return
			}
			name = "reopen" // for the context of the next rollup step; no target read here (it would open the stores)
		case "crash":
			h.crashStep(dir)
		case "shutdown":
			h.shutdownStep()
		case "retrigger":
			h.retriggerStep()
			name = "rollup"
		case "faultrollup":
			h.faultStep(op[strings.IndexByte(op, ':')+1:])
			name = "rollup"
		case "storm":
			h.stormStep(arg)
			name = "rollup"
		}
		h.prevOp = name
	}
	if res.Sample == nil && spec.Idx < 6 {
		res.Sample = map[string]interface{}{"history": spec.Idx, "kind": spec.Kind, "scenario": spec.Scenario, "tz": spec.TZ,
			"intervals": fmt.Sprintf("%s -> %s / %s", ivName(spec.Src), ivName(spec.Month), ivName(spec.Year)), "source_families": spec.SpotsAt,
			"steps": spec.Steps, "files": firstN(spec.Files, 3), "source_cells": h.m.srcCells}
	}
}

// checkAfter: a step that is not a rollup must leave the targets exactly as they were.
func (h *hist) checkAfter(ctx string) {
	tv, err := h.readTargets()
	if err != nil {
		h.res.violation("C04/target/unreadable/after-"+ctx, fmt.Sprintf("step %d (%s): %v", h.stepNo, h.stepOp, err), h.witness(nil))
		return
	}
	if ctx == "reopen" && h.refsBeforeReopen != "" {
		if got := refSet(h.m, tv); got != h.refsBeforeReopen {
			h.res.violation("C04/bookkeeping/reference-files-changed-by-reopen", fmt.Sprintf("step %d (%s): reference files (target family <- source store/family id/table) were %s, after close+open they are %s", h.stepNo, h.stepOp, h.refsBeforeReopen, got), h.witness(nil))
		}
	}
	h.verify(ctx, tv)
}
