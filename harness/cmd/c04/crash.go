package main

import (
	"fmt"
	"os"
	"path/filepath"
	"runtime/debug"
	"sort"
	"strings"

	"github.com/lindb/lindb/kv"
	"github.com/lindb/lindb/kv/table"

	"github.com/lindb/lindb/verif/internal/imgfs"
	"github.com/lindb/lindb/verif/internal/seam"
)

// Crash part (fault enumeration). The step "crash" is the last step of a crash history: the source tables are already
// flushed (imaging off). The whole engine directory is put under an imgfs.World, all kv / kv/version / kv/table file
// system seams are routed through it, and ONE ForceRollup runs to quiescence: an image of the directory is taken after
// every file-system operation of the rollup jobs (target table create/write/sync/close, target manifest record, source
// manifest record that deletes the marks, target manifest record that drops the references, obsolete file removal).
// Every image is then opened with the real engine (a restart after a kill at that point) and judged twice:
//
//  1. as recovered: for every (source file, target interval) the file's data is in the target iff the bookkeeping
//     says so: "mark deleted OR target references the file". Anything else is a state from which exactly-once is lost
//     (mark + data without reference => counted twice by the next job; no mark and no data => lost).
//  2. after ForceRollup ran to quiescence on the recovered engine: every flushed file is in every target exactly once
//     and no marks are left.
//
// installWorld routes lindb's file-system seams through an imgfs.World over the engine directory. It must happen before
// the engine is opened: the manifest writers of the kv stores are created when a store is opened. Imaging stays off
// until the crash step. The metadata and index databases (never written by a direct history, untouched by a rollup)
// are left out of the images; the recovered engine creates them afresh.
func (h *hist) installWorld(dir string) {
	dataDir := filepath.Join(dir, "data")
	_ = os.MkdirAll(dataDir, 0o755)
	w := imgfs.NewWorld(dataDir, filepath.Join(dir, "img"))
	w.SetSkip(func(rel string) bool {
		return rel == filepath.Join(dbName, "meta") || rel == filepath.Join(dbName, "shard", "1", "index") || rel == filepath.Join(dbName, "shard", "1", "buffer")
	})
	h.world = w
	seam.NoFsync = true
	seam.InstallKV(&sizeAwareWorld{w: w}, nil)
}

// sizeAwareWorld is the interceptor: a Write into a buffered writer that did not move the file's size changed nothing
// on disk, so no image is attempted for it (imgfs would copy and hash the whole tree only to drop the copy).
type sizeAwareWorld struct{ w *imgfs.World }

func (s *sizeAwareWorld) Do(label string, op func() error) error {
	if !strings.HasPrefix(label, "write ") {
		return s.w.Do(label, op)
	}
	name := strings.TrimPrefix(label, "write ")
	var err error
	changed := false
	s.w.Locked(func() {
		before := int64(-1)
		if st, e := os.Stat(name); e == nil {
			before = st.Size()
		}
		err = op()
		after := int64(-1)
		if st, e := os.Stat(name); e == nil {
			after = st.Size()
		}
		changed = before != after
	})
	if changed {
		s.w.Snapshot(label) // the directory as it is now, between two operations
	}
	return err
}

func (h *hist) crashStep(dir string) {
	res := h.res
	world := h.world
	if world == nil {
		res.Fatal = "crash step without an installed world"
		return
	}
	defer world.DropAll()
	before := map[int]map[int64]string{}
	for _, f := range h.files {
		before[f.Seq] = map[int64]string{}
		for iv, st := range f.Status {
			before[f.Seq][iv] = st
		}
	}
	// marked tables that are not on level 0 when the crashing job starts (compacted / moved before their rollup)
	notL0 := 0
	for _, f := range h.files {
		b := readBook(h.fams[f.Fam].fam)
		if lvl, live := b.Level[f.Number]; len(b.Marks[f.Number]) > 0 && (!live || lvl != 0) {
			notL0++
		}
	}
	if notL0 > 0 {
		res.count("crash.histories_with_marked_files_not_on_level0", 1)
		res.count("crash.marked_files_not_on_level0_at_the_crashing_rollup", notL0)
	}
	h.beforeTrigger = func() {
		world.Enable(true)
		world.Snapshot("initial")
	}
	h.afterIdle = func() {
		world.Snapshot("final")
		world.Enable(false)
	}
	h.rollupStep(trigForce) // the live run is judged like every other rollup step
	h.beforeTrigger, h.afterIdle = nil, nil
	h.env.close()
	seam.Restore()

	images := world.Images()
	res.count("crash.file_system_operations_during_the_rollup", int(world.Ops()))
	res.count("crash.images_taken", len(images))
	opKinds := map[string]int{}
	for _, img := range images {
		opKinds[strings.SplitN(img.Label, " ", 2)[0]]++
	}
	for k, n := range opKinds {
		res.count("crash.image_after_op."+k, n)
	}
	// bound the number of recovered images (first and last always): evenly spread
	pick := make([]bool, len(images))
	if max := h.spec.MaxImgs; max > 0 && len(images) > max {
		for i := 0; i < max; i++ {
			pick[i*(len(images)-1)/(max-1)] = true
		}
		res.count("crash.images_not_recovered_because_of_the_cap", len(images)-max)
	} else {
		for i := range pick {
			pick[i] = true
		}
	}
	debug.SetPanicOnFault(true)
	for i, img := range images {
		if pick[i] {
			// variant with idle restarts (open + close without any work) between the recovery and the repeated rollup, on
			// a copy of the image: a store writes a fresh MANIFEST snapshot each time it is opened, the next open reads it
			cp := imgfs.Image{Index: img.Index, Label: img.Label, Hash: img.Hash, Dir: img.Dir + "-restarts"}
			if _, err := imgfs.CopyTree(img.Dir, cp.Dir, nil); err == nil {
				h.verifyImage(cp, before, 1+i%2, "crash")
				_ = os.RemoveAll(cp.Dir)
			} else {
				res.Fatal = "cannot copy image: " + err.Error()
			}
			h.verifyImage(img, before, 0, "crash")
		}
		_ = os.RemoveAll(img.Dir)
	}
}

// what = "crash" (an image of a killed process) or "shutdown" (the directory an engine left behind that was closed while a rollup job was running).
func (h *hist) verifyImage(img imgfs.Image, before map[int]map[int64]string, restarts int, what string) {
	res := h.res
	label := strings.ReplaceAll(img.Label, h.env.dataDir, "<data>")
	// a view of the history bound to the recovered engine, with its own file statuses
	v := &hist{spec: h.spec, res: res, rnd: h.rnd, m: h.m, u: h.u, tainted: map[int64]bool{}, stepNo: h.stepNo, stepOp: fmt.Sprintf("%s image %d after '%s'", what, img.Index, label), prevOp: "crash"}
	for _, f := range h.fams {
		c := *f
		v.fams = append(v.fams, &c)
	}
	for _, f := range h.files {
		c := *f
		c.Status = map[int64]string{}
		v.files = append(v.files, &c)
	}
	defer func() {
		if r := recover(); r != nil {
			res.violation("C04/"+what+"/recovery-panics", fmt.Sprintf("%s: panic while recovering / rolling up the image: %v\n%s", v.stepOp, r, debug.Stack()), h.witness(map[string]interface{}{"image": label}))
		}
		v.env.close()
	}()
	e, err := openEnv(img.Dir, nil)
	if err != nil {
		res.violation("C04/"+what+"/engine-does-not-open", fmt.Sprintf("%s: %v", v.stepOp, err), h.witness(map[string]interface{}{"image": label}))
		return
	}
	v.env = e
	if err := v.bind(); err != nil {
		res.violation("C04/"+what+"/source-family-not-recovered", fmt.Sprintf("%s: %v", v.stepOp, err), h.witness(map[string]interface{}{"image": label}))
		return
	}
	res.count(what+".images_recovered", 1)

	// ---- 1. as recovered: data <=> bookkeeping
	books := v.books()
	tv, err := v.readTargets()
	if err != nil {
		res.violation("C04/"+what+"/target-unreadable-after-recovery", fmt.Sprintf("%s: %v", v.stepOp, err), h.witness(map[string]interface{}{"image": label}))
		return
	}
	hasRef := func(f *fileRec, iv int64) bool {
		fam := v.fams[f.Fam]
		for _, re := range tv.refs[iv] {
			if re.File == f.Number && re.SrcStore == fam.place.Segment && re.FamID == fam.fam.ID().Int() {
				return true
			}
		}
		return false
	}
	state := map[string]bool{}
	for _, f := range v.files {
		for _, iv := range v.m.targets {
			mark, ref := books[f.Fam].has(f.Number, iv), hasRef(f, iv)
			switch {
			case before[f.Seq][iv] == stLost:
				f.Status[iv] = stLost
			case !mark || ref:
				f.Status[iv] = stIn
			default:
				f.Status[iv] = stPending
			}
			if before[f.Seq][iv] == stIn && f.Status[iv] != stIn {
				res.violation("C04/"+what+"/rolled-up-file-marked-again", fmt.Sprintf("%s: file#%d was rolled up into %s before the crashed job started, the recovered source family carries its mark again", v.stepOp, f.Seq, ivName(iv)), h.witness(map[string]interface{}{"image": label}))
			}
			if before[f.Seq][iv] == stPending {
				switch {
				case mark && !ref:
					state[typeOf(iv)+":not-yet"] = true
				case mark && ref:
					state[typeOf(iv)+":target-committed,mark-still-there"] = true
				case !mark && ref:
					state[typeOf(iv)+":mark-deleted,reference-still-there"] = true
				default:
					state[typeOf(iv)+":done"] = true
				}
			}
		}
	}
	for s := range state {
		res.count(what+".recovered_state."+s, 1)
	}
	inside := false
	for s := range state {
		if strings.Contains(s, ",") {
			inside = true
		}
	}
	if len(state) > len(v.m.targets) {
		inside = true // different (family, interval) jobs at different stages
	}
	if inside {
		res.count(what+".images_strictly_inside_the_rollup", 1)
		res.Nontrivial = append(res.Nontrivial, fmt.Sprintf("h%d/%s/%s", h.spec.Idx, what, img.Hash))
	}
	for _, iv := range v.m.targets {
		r := v.m.compare(iv, tv.obs[iv], v.inclFor(iv), 6)
		v.countCompare(iv, r)
		if r.Mismatch > 0 {
			v.reportDiffs(iv, what+"-recovery", r)
		}
	}
	v.checkNotes(what+"-recovery", tv)

	// ---- 1b. idle restarts: marks, references (source store, source family id, table) and target data stay what they were
	for n := 1; n <= restarts; n++ {
		ctx := fmt.Sprintf(what+"-recovery-and-idle-restart-%d", n)
		marksBefore, refsBefore := fmt.Sprint(marksOf(books)), refSet(v.m, tv)
		// before the restart the target families may commit something of their own (a compaction job: a single table is
		// moved to level 1, several are merged): later records in the target store's manifest, replayed by the next open
		// after the snapshot that carries the surviving references. Data, marks and references stay what they were.
		switch (img.Index + n) % 3 {
		case 1:
			res.count(what+".target_compaction_jobs_between_recovery_and_retry", v.compactTargetsForced(true))
		case 2:
			res.count(what+".target_compaction_jobs_between_recovery_and_retry", v.compactTargetsForced(false))
		}
		v.env.close()
		e, err := openEnv(img.Dir, nil)
		if err != nil {
			res.violation("C04/"+what+"/engine-does-not-open/after-idle-restart", fmt.Sprintf("%s, restart %d: %v", v.stepOp, n, err), h.witness(map[string]interface{}{"image": label}))
			return
		}
		v.env = e
		if err := v.bind(); err != nil {
			res.violation("C04/"+what+"/source-family-not-recovered/after-idle-restart", fmt.Sprintf("%s, restart %d: %v", v.stepOp, n, err), h.witness(map[string]interface{}{"image": label}))
			return
		}
		res.count(what+".idle_restarts_before_the_repeated_rollup", 1)
		books = v.books()
		tv, err = v.readTargets()
		if err != nil {
			res.violation("C04/"+what+"/target-unreadable/after-idle-restart", fmt.Sprintf("%s, restart %d: %v", v.stepOp, n, err), h.witness(map[string]interface{}{"image": label}))
			return
		}
		if got := fmt.Sprint(marksOf(books)); got != marksBefore {
			res.violation("C04/bookkeeping/rollup-marks-changed-by-idle-restart", fmt.Sprintf("%s, restart %d: rollup marks per source family were %s, after close+open they are %s", v.stepOp, n, marksBefore, got), h.witness(map[string]interface{}{"image": label}))
		}
		if got := refSet(v.m, tv); got != refsBefore {
			res.violation("C04/bookkeeping/reference-files-changed-by-idle-restart", fmt.Sprintf("%s, restart %d: reference files (target family <- source store/family id/table) were %s, after close+open they are %s", v.stepOp, n, refsBefore, got), h.witness(map[string]interface{}{"image": label}))
		}
		if len(tv.refs[v.m.targets[0]]) > 0 || (len(v.m.targets) > 1 && len(tv.refs[v.m.targets[1]]) > 0) {
			res.count(what+".idle_restarts_with_surviving_reference_files", 1)
		}
		for _, iv := range v.m.targets {
			if v.tainted[iv] {
				continue
			}
			r := v.m.compare(iv, tv.obs[iv], v.inclFor(iv), 6)
			v.countCompare(iv, r)
			if r.Mismatch > 0 {
				v.reportDiffs(iv, ctx, r)
			}
		}
		v.checkNotes(ctx, tv)
		v.crashWindow = true
		v.checkBookkeeping("idle-restart", tv, books)
		v.crashWindow = false
	}
	rollupCtx := what + "-recovery-and-rollup"
	if restarts > 0 {
		rollupCtx = what + "-recovery-idle-restarts-and-rollup"
		res.count(what+".images_rolled_up_after_idle_restarts", 1)
	}

	// ---- 2. rollup to quiescence on the recovered engine: exactly once
	for round := 0; round < 3; round++ {
		pend := 0
		for _, b := range v.books() {
			pend += len(b.Marks)
		}
		if pend == 0 && round > 0 {
			break
		}
		for _, st := range v.srcStores() {
			st.ForceRollup()
		}
		v.waitAllIdle()
	}
	books = v.books()
	for _, f := range v.files {
		for _, iv := range v.m.targets {
			if f.Status[iv] == stPending {
				f.Status[iv] = stIn
			}
		}
	}
	tv, err = v.readTargets()
	if err != nil {
		res.violation("C04/"+what+"/target-unreadable-after-recovery-rollup", fmt.Sprintf("%s: %v", v.stepOp, err), h.witness(map[string]interface{}{"image": label}))
		return
	}
	for _, iv := range v.m.targets {
		if v.tainted[iv] {
			continue
		}
		r := v.m.compare(iv, tv.obs[iv], v.inclFor(iv), 6)
		v.countCompare(iv, r)
		if r.Mismatch > 0 {
			v.reportDiffs(iv, rollupCtx, r)
		}
	}
	v.checkNotes(rollupCtx, tv)
	v.checkBookkeeping(rollupCtx, tv, books)
	res.count(what+".images_rolled_up_to_quiescence_after_recovery", 1)
	if restarts == 0 {
		return
	}

	// ---- 3. one more restart after the repeated rollup (the manifests now also hold the records of the retry and of the
	// reference cleanup), rollup again: nothing changes any more
	ctx := what + "-recovery-retry-reopen-and-rollup-again"
	v.env.close()
	e, err = openEnv(img.Dir, nil)
	if err != nil {
		res.violation("C04/"+what+"/engine-does-not-open/after-retry", fmt.Sprintf("%s: %v", v.stepOp, err), h.witness(map[string]interface{}{"image": label}))
		return
	}
	v.env = e
	if err := v.bind(); err != nil {
		res.violation("C04/"+what+"/source-family-not-recovered/after-retry", fmt.Sprintf("%s: %v", v.stepOp, err), h.witness(map[string]interface{}{"image": label}))
		return
	}
	for _, st := range v.srcStores() {
		st.ForceRollup()
	}
	v.waitAllIdle()
	books = v.books()
	tv, err = v.readTargets()
	if err != nil {
		res.violation("C04/"+what+"/target-unreadable/after-retry", fmt.Sprintf("%s: %v", v.stepOp, err), h.witness(map[string]interface{}{"image": label}))
		return
	}
	for _, iv := range v.m.targets {
		if v.tainted[iv] {
			continue
		}
		r := v.m.compare(iv, tv.obs[iv], v.inclFor(iv), 6)
		v.countCompare(iv, r)
		if r.Mismatch > 0 {
			v.reportDiffs(iv, ctx, r)
		}
	}
	v.checkNotes(ctx, tv)
	v.checkBookkeeping(ctx, tv, books)
	res.count(what+".images_reopened_and_rolled_up_again_after_the_retry", 1)
}

// compactTargetsForced starts a compaction job on every target family that holds tables (forced: also a single level-0
// table, which is moved to level 1; otherwise Family.Compact, which needs two) and waits for them.
func (h *hist) compactTargetsForced(forced bool) int {
	n := 0
	for _, iv := range h.m.targets {
		for _, st := range h.targetStores(iv) {
			for _, name := range st.ListFamilyNames() {
				kf := st.GetFamily(name)
				if kf == nil {
					continue
				}
				l0 := 0
				for _, lvl := range readBook(kf).Level {
					if lvl == 0 {
						l0++
					}
				}
				switch {
				case forced && l0 >= 1:
					kv.VerifFamilyCompact(kf)
					n++
				case !forced && l0 >= 2:
					kf.Compact()
					n++
				}
			}
		}
	}
	h.waitAllIdle()
	return n
}

func marksOf(books []famBook) []string {
	var out []string
	for i, b := range books {
		var ns []int
		for n := range b.Marks {
			ns = append(ns, int(n.Int64()))
		}
		sort.Ints(ns)
		for _, n := range ns {
			out = append(out, fmt.Sprintf("family%d/table%d->%v", i, n, b.Marks[table.FileNumber(n)]))
		}
	}
	return out
}

// refSet renders the reference files of all target families as a sorted list.
func refSet(m *model, tv *targetView) string {
	var out []string
	for _, iv := range m.targets {
		for _, re := range tv.refs[iv] {
			out = append(out, fmt.Sprintf("%s<-%s/id%d/table%d", m.places[re.Place], re.SrcStore, re.FamID, re.File))
		}
	}
	sort.Strings(out)
	return fmt.Sprint(out)
}
