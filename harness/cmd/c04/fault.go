package main

import (
	"fmt"
	"path/filepath"
	"runtime"
	"strings"
	"sync"

	"github.com/lindb/lindb/pkg/timeutil"
	"github.com/lindb/lindb/tsdb"
)

// Failed-job part ("A source file contributes to a given target exactly once, also when the rollup is triggered
// repeatedly or is repeated after a restart" - here: repeated because the first job FAILED while the node kept running).
//
// Step "faultrollup:<month|year>/<step kind>": exactly one source family carries rollup marks. The kv/table file seam
// (the one the shutdown / retrigger histories park a job at) returns an i/o error for ONE file-system step of the
// output table the rollup job writes into the chosen target family - and only when the calling goroutine is inside
// kv.(*family).doRollupWork (read from its stack; other jobs are never disturbed):
//
//	create          the creation of the output table (directory not writable, no file handles)
//	write-in-merge  the first write into the table while the merger streams a merged block (disk full)
//	write-footer    the first write of the table's footer inside storeBuilder.Close
//	close           the close of the finished table (the real close runs, its result is replaced by an error)
//
// Everything else runs unchanged, the node keeps running. The other target interval of the same job (if configured)
// is expected to complete normally. Then the history goes on: ForceRollup again (the fault is gone), optionally after
// a reopen, after more flushes, or after a second failed job on the other target.
//
// Oracle = the ordinary one of a forced rollup step, applied at quiescence after the failing job and after every later
// step: a file whose rollup mark for a target is gone must be in that target exactly once (all cells, all field types);
// marks <=> data, references <=> data. A failed job may keep its marks (then the files stay "pending" and the
// target must show exactly what it showed before: no partial output) - that is the only thing the fault changes in the
// expectation (the "forced job leaves its marks" check is waived for the faulted target of that one step).

// Manifest kinds (one manifest record write of the version set fails; the write is NOT executed, the manifest file stays
// as it was, later commits and the reopen work). The kv/version seam wraps a manifest writer when its store is opened,
// so fault histories keep a switchable interceptor (faultSwitch) installed from before the first open to their end:
//
//	target-manifest     the commit of the job's results (new table + reference files) in the target family
//	                    (stack inside doRollupWork): nothing is installed, the job has failed, the marks must stay
//	source-manifest     the source family's commit of the DeleteRollupFile records after the target work (stack inside
//	                    (*family).rollup, outside doRollupWork / cleanReferenceFiles): the data IS in the targets, the
//	                    marks stay; the targets' reference files must stay too (they stand for the missing mark removal),
//	                    so that the retry skips the files instead of adding them a second time
//	reference-manifest  the target's commit of cleanReferenceFiles: marks gone, data in, a stale reference is harmless
var faultKinds = []string{"create", "write-in-merge", "write-footer", "close", "target-manifest", "source-manifest", "reference-manifest"}

func faultCtx(kind string) string {
	switch kind {
	case "target-manifest":
		return "failed-target-commit-of-rollup-job"
	case "source-manifest":
		return "failed-source-commit-of-rollup-marks"
	case "reference-manifest":
		return "failed-reference-cleanup-commit-of-rollup-job"
	}
	return "failed-rollup-job"
}

// faultSwitch is the interceptor a fault history installs before its engine is opened; it forwards to the gate of the
// current faultrollup step (if any).
type faultSwitch struct {
	mu   sync.Mutex
	gate *faultGate
}

func (s *faultSwitch) set(g *faultGate) {
	s.mu.Lock()
	s.gate = g
	s.mu.Unlock()
}

func (s *faultSwitch) Do(label string, op func() error) error {
	s.mu.Lock()
	g := s.gate
	s.mu.Unlock()
	if g == nil {
		return op()
	}
	return g.Do(label, op)
}

// faultState is what rollupStepFull needs to know about the fault of the current step.
type faultState struct {
	iv     int64 // target interval whose output table gets the failing step
	kind   string
	gate   *faultGate
	judged bool // rollupStepFull has seen the outcome of the failed job (marks kept or removed)
}

func (f *faultState) injectedInto(iv int64) bool {
	if f == nil || (f.iv != iv && f.kind != "source-manifest") {
		return false
	}
	f.gate.mu.Lock()
	defer f.gate.mu.Unlock()
	return f.gate.injected > 0
}

// faultGate is a seam.Interceptor: it forwards everything except one step of one target table of a rollup job.
type faultGate struct {
	mu       sync.Mutex
	prefix   string // directory of the segments of the chosen target interval
	srcDir   string // directory of the segments of the source interval
	kind     string
	injected int
	label    string
	notInJob int // matching table operations outside doRollupWork (forwarded)
	tableOps int // operations on tables of the chosen target seen from inside doRollupWork
}

func (g *faultGate) Do(label string, op func() error) error {
	k := strings.IndexByte(label, ' ')
	if k < 0 {
		return op()
	}
	verb, path := label[:k], label[k+1:]
	if strings.HasSuffix(g.kind, "-manifest") {
		return g.doManifest(label, verb, path, op)
	}
	if !strings.HasSuffix(path, ".sst") || !strings.HasPrefix(path, g.prefix) {
		return op()
	}
	buf := make([]byte, 1<<16)
	st := string(buf[:runtime.Stack(buf, false)])
	inJob := strings.Contains(st, "kv.(*family).doRollupWork")
	inClose := strings.Contains(st, "table.(*storeBuilder).Close")
	g.mu.Lock()
	if !inJob {
		g.notInJob++
		g.mu.Unlock()
		return op()
	}
	g.tableOps++
	hit := false
	if g.injected == 0 {
		switch g.kind {
		case "create":
			hit = verb == "create"
		case "write-in-merge":
			hit = verb == "write" && !inClose
		case "write-footer":
			hit = verb == "write" && inClose
		case "close":
			hit = verb == "close" && inClose
		}
	}
	if hit {
		g.injected++
		g.label = label
	}
	g.mu.Unlock()
	if !hit {
		return op()
	}
	if verb == "close" {
		_ = op() // the descriptor is released; the caller is told the close failed (delayed write error)
	}
	return fmt.Errorf("verif: injected i/o error at %q", verb+" "+filepath.Base(path))
}

// doManifest fails one manifest record write of a rollup job's commit; which commit is read from the caller's stack.
func (g *faultGate) doManifest(label, verb, path string, op func() error) error {
	if verb != "write" || !strings.HasPrefix(filepath.Base(path), "MANIFEST-") {
		return op()
	}
	buf := make([]byte, 1<<16)
	st := string(buf[:runtime.Stack(buf, false)])
	inWork := strings.Contains(st, "kv.(*family).doRollupWork")
	inClean := strings.Contains(st, "kv.(*family).cleanReferenceFiles")
	inRollup := strings.Contains(st, "kv.(*family).rollup")
	hit := false
	switch g.kind {
	case "target-manifest":
		hit = inWork && strings.HasPrefix(path, g.prefix)
	case "reference-manifest":
		hit = inClean && strings.HasPrefix(path, g.prefix)
	case "source-manifest":
		hit = inRollup && !inWork && !inClean && strings.HasPrefix(path, g.srcDir)
	}
	g.mu.Lock()
	if inRollup || inWork || inClean {
		g.tableOps++
	} else {
		g.notInJob++
	}
	if hit && g.injected == 0 {
		g.injected++
		g.label = label
	} else {
		hit = false
	}
	g.mu.Unlock()
	if !hit {
		return op()
	}
	return fmt.Errorf("verif: injected i/o error at %q (nothing written)", verb+" "+filepath.Base(path))
}

// parseFault splits "month/create" (the part behind "faultrollup:").
func parseFault(arg string) (typ, kind string) {
	if k := strings.IndexByte(arg, '/'); k >= 0 {
		return arg[:k], arg[k+1:]
	}
	return arg, "create"
}

func (h *hist) faultStep(arg string) {
	res := h.res
	typ, kind := parseFault(arg)
	pending := map[int]bool{}
	for _, f := range h.files {
		for _, st := range f.Status {
			if st == stPending {
				pending[f.Fam] = true
			}
		}
	}
	for i, b := range h.books() {
		if len(b.Marks) > 0 { // marks left by a failed source commit
			pending[i] = true
		}
	}
	if len(pending) == 0 {
		// the previous failed job left nothing to do (e.g. only its reference cleanup failed): no job would run
		res.count("fault.steps_skipped_because_nothing_is_waiting_for_rollup", 1)
		return
	}
	if len(pending) != 1 {
		res.Fatal = fmt.Sprintf("faultrollup step needs exactly one source family with rollup marks, have %d", len(pending))
		return
	}
	iv := int64(0)
	for _, t := range h.m.targets {
		if typeOf(t) == typ {
			iv = t
		}
	}
	if iv == 0 {
		iv = h.m.targets[0] // only one target interval configured
		typ = typeOf(iv)
	}
	// the faulted target must have something to do, otherwise no table is written (e.g. second fault of a history whose
	// first fault hit the other target)
	todo := 0
	for _, f := range h.files {
		if f.Status[iv] == stPending {
			todo++
		}
	}
	if todo == 0 {
		for _, t := range h.m.targets {
			for _, f := range h.files {
				if f.Status[t] == stPending {
					iv, typ = t, typeOf(t)
				}
			}
		}
	}
	g := &faultGate{kind: kind, prefix: tsdb.ShardIntervalSegmentPath(dbName, shardID, timeutil.Interval(iv)) + string(filepath.Separator),
		srcDir: tsdb.ShardIntervalSegmentPath(dbName, shardID, timeutil.Interval(h.spec.Src)) + string(filepath.Separator)}
	h.fault = &faultState{iv: iv, kind: kind, gate: g}
	defer func() { h.fault = nil }()
	retryOfFailed := h.faultPending[iv] != ""
	hadData := false
	for _, f := range h.files {
		if f.Status[iv] == stIn {
			hadData = true
		}
	}
	// the gate stays armed until the step has been judged: it only ever touches one operation of a goroutine that
	// is inside the rollup job, reading the targets never gets there
	h.faultSwitch.set(g)
	h.rollupStepFull(trigForce, faultCtx(kind), nil, nil)
	h.faultSwitch.set(nil)
	judged := h.fault.judged
	g.mu.Lock()
	injected, label, ops, outside := g.injected, g.label, g.tableOps, g.notInJob
	g.mu.Unlock()
	res.count("fault.rollup_steps_with_an_armed_failing_step", 1)
	res.count("fault.target_table_operations_seen_inside_the_job", ops)
	res.count("fault.target_table_operations_outside_a_rollup_job(forwarded)", outside)
	if injected == 0 {
		res.count("fault.armed_step_never_reached."+kind, 1)
		return
	}
	res.count("fault.failing_steps_injected_into_a_rollup_job", injected)
	res.count("fault.failing_steps_injected.kind."+kind, injected)
	res.count("fault.failing_steps_injected.target."+typ, injected)
	if judged {
		res.count("fault.failed_jobs_judged.kind."+kind, 1)
	}
	if hadData {
		res.count("fault.failing_steps_injected_into_a_job_whose_target_already_holds_data", 1)
	}
	if retryOfFailed {
		res.count("fault.failing_steps_injected_into_the_retry_of_a_failed_job", 1)
	}
	if h.spec.Files != nil && len(h.spec.Files) < 400 {
		h.spec.Files = append(h.spec.Files, fmt.Sprintf("step %d: injected failure of %q", h.stepNo, strings.TrimPrefix(label, h.env.dataDir)))
	}
	if h.faultPending == nil {
		h.faultPending = map[int64]string{}
	}
	for _, t := range h.m.targets {
		if h.workLeft(t) && (t == iv || kind == "source-manifest") {
			h.faultPending[t] = faultCtx(kind)
		}
	}
}

// workLeft: a file is still pending for the target interval or a source family still carries a rollup mark for it.
func (h *hist) workLeft(iv int64) bool {
	for _, f := range h.files {
		if f.Status[iv] == stPending {
			return true
		}
	}
	for _, b := range h.books() {
		for _, ivs := range b.Marks {
			for _, x := range ivs {
				if x == iv {
					return true
				}
			}
		}
	}
	return false
}

// faultRetryCtx names the context of an ordinary rollup step that repeats the work of a failed job ("" = it does not).
func (h *hist) faultRetryCtx() string {
	if len(h.faultPending) == 0 {
		return ""
	}
	ctx := ""
	for _, t := range h.m.targets {
		if c := h.faultPending[t]; c != "" && ctx == "" {
			ctx = "retry-after-" + c
		}
	}
	if h.prevOp == "reopen" {
		ctx += "-and-reopen"
	}
	return ctx
}

// afterFaultRetry is called behind a plain forced rollup step: which failed jobs have been made up for?
func (h *hist) afterFaultRetry(ctx string) {
	for iv, failed := range h.faultPending {
		if !h.workLeft(iv) && !h.tainted[iv] {
			delete(h.faultPending, iv)
			h.res.count("fault.retries_that_completed_the_work_of_a_failed_job."+typeOf(iv), 1)
			h.res.count("fault.retries_completed.after-"+failed, 1)
			if strings.HasSuffix(ctx, "-and-reopen") {
				h.res.count("fault.retries_after_a_reopen_that_completed_the_work_of_a_failed_job", 1)
			}
		}
	}
}

// faultStage: where in the job the failing step sits (part of the class).
func faultStage(kind string) string {
	if kind == "target-manifest" {
		return "target-commit"
	}
	if kind == "source-manifest" {
		return "source-commit"
	}
	return "output-table"
}
