package main

import (
	"bytes"
	"fmt"
	"sort"
	"time"

	protoMetricsV1 "github.com/lindb/common/proto/gen/v1/linmetrics"

	"github.com/lindb/lindb/models"
	"github.com/lindb/lindb/series/field"
	"github.com/lindb/lindb/series/metric"
	"github.com/lindb/lindb/verif/internal/blocks"
)

// The "ingest" history kind goes through the real ingestion path: protobuf metrics -> BrokerRow -> StorageRow ->
// DataFamily.WriteRows (memory database, real slot computation, real metric/series/field ids from the metadata and
// index databases) -> DataFamily.Flush (memdb's flusher). The reference of the rollup is then what the flushed source
// table shows (read back per table through the query-path reader): the property is about source slots -> target slots.
// That the flushed table holds what was written is checked in bulk (per field type the aggregate over everything
// written equals the aggregate over the table's cells) so the kind cannot pass vacuously.

type ingestPoint struct {
	Metric string
	Host   string
	Ts     int64
	V      float64
}

var ingestFields = []struct {
	Name string
	Type protoMetricsV1.SimpleFieldType
}{
	{"f_sum", protoMetricsV1.SimpleFieldType_DELTA_SUM},
	{"f_min", protoMetricsV1.SimpleFieldType_Min},
	{"f_max", protoMetricsV1.SimpleFieldType_Max},
	{"f_last", protoMetricsV1.SimpleFieldType_LAST},
	{"f_first", protoMetricsV1.SimpleFieldType_FIRST},
}

func (h *hist) genIngestPoints(f *srcFamily, seq int) []ingestPoint {
	rnd := h.rnd
	n := h.slots()
	src := h.spec.Src
	var pts []ingestPoint
	metrics := []string{"cpu", "mem"}
	hosts := []string{"a", "b", "c"}
	slotSet := map[int]bool{0: true, n - 1: true}
	// a run around a target slot boundary, a run at the end, random slots
	ratio := n
	if h.spec.Month > 0 {
		ratio = int(h.spec.Month / src)
	}
	k := (1 + rnd.Intn(n/ratio)) * ratio
	for s := k - 3; s <= k+2; s++ {
		if s >= 0 && s < n {
			slotSet[s] = true
		}
	}
	for i := 0; i < 20; i++ {
		slotSet[rnd.Intn(n)] = true
	}
	var slots []int
	for s := range slotSet {
		slots = append(slots, s)
	}
	sort.Ints(slots)
	for _, s := range slots {
		for _, m := range metrics {
			for _, hst := range hosts {
				if rnd.Intn(4) == 0 {
					continue
				}
				// one or two points per source slot (the memory database aggregates them)
				for r := 0; r <= rnd.Intn(2); r++ {
					pts = append(pts, ingestPoint{Metric: m, Host: hst, Ts: f.Start + int64(s)*src + rnd.Int63n(src), V: float64((1+rnd.Intn(2000))*64 + seq%64)})
				}
			}
		}
	}
	// deterministic order (map iteration above): sort by (ts, metric, host)
	sortPoints(pts)
	return pts
}

func sortPoints(p []ingestPoint) {
	less := func(a, b ingestPoint) bool {
		if a.Ts != b.Ts {
			return a.Ts < b.Ts
		}
		if a.Metric != b.Metric {
			return a.Metric < b.Metric
		}
		if a.Host != b.Host {
			return a.Host < b.Host
		}
		return a.V < b.V
	}
	for i := 1; i < len(p); i++ {
		for j := i; j > 0 && less(p[j], p[j-1]); j-- {
			p[j], p[j-1] = p[j-1], p[j]
		}
	}
}

func mkRows(points []ingestPoint) []*metric.StorageRow {
	ml := protoMetricsV1.MetricList{}
	for _, p := range points {
		m := &protoMetricsV1.Metric{Name: p.Metric, Namespace: "default-ns", Timestamp: p.Ts,
			Tags: []*protoMetricsV1.KeyValue{{Key: "host", Value: p.Host}}}
		for _, f := range ingestFields {
			m.SimpleFields = append(m.SimpleFields, &protoMetricsV1.SimpleField{Name: f.Name, Type: f.Type, Value: p.V})
		}
		ml.Metrics = append(ml.Metrics, m)
	}
	var buf bytes.Buffer
	converter := metric.NewProtoConverter(models.NewDefaultLimits())
	_, _ = converter.MarshalProtoMetricListV1To(ml, &buf)
	var br metric.StorageBatchRows
	br.UnmarshalRows(buf.Bytes())
	return br.Rows()
}

func (h *hist) flushIngest(f *srcFamily) bool {
	seq := len(h.files)
	pts := h.genIngestPoints(f, seq)
	// lindb keys a memory database's per-metric slot range by a 5 ms clock tick (a defect of property C11): keep the
	// memory databases of this process in different ticks
	time.Sleep(12 * time.Millisecond)
	rows := mkRows(pts)
	if len(rows) != len(pts) {
		h.res.Fatal = fmt.Sprintf("step %d: %d points converted into %d rows", h.stepNo, len(pts), len(rows))
		return false
	}
	before := readBook(f.fam)
	if err := f.df.WriteRows(rows); err != nil {
		h.res.Fatal = fmt.Sprintf("step %d: WriteRows: %v", h.stepNo, err)
		return false
	}
	if err := h.env.db.FlushMeta(); err != nil {
		h.res.Fatal = fmt.Sprintf("step %d: FlushMeta: %v", h.stepNo, err)
		return false
	}
	if err := h.env.shard.FlushIndex(); err != nil {
		h.res.Fatal = fmt.Sprintf("step %d: FlushIndex: %v", h.stepNo, err)
		return false
	}
	if err := f.df.Flush(); err != nil {
		h.res.Fatal = fmt.Sprintf("step %d: DataFamily.Flush: %v", h.stepNo, err)
		return false
	}
	rec := h.registerFile(f, before, 0)
	if rec == nil {
		return false
	}
	// what the new table shows is the source of the rollup
	snap := f.fam.GetSnapshot()
	fv, err := blocks.ReadFamily(snap, blocks.Options{}, nil)
	snap.Close()
	if err != nil {
		h.res.Fatal = fmt.Sprintf("step %d: flushed source table unreadable: %v", h.stepNo, err)
		return false
	}
	agg := map[field.Type]float64{}
	cells := 0
	for metricID, bvs := range fv.Blocks {
		for _, bv := range bvs {
			if bv.File != rec.Number.Int64() {
				continue
			}
			for ck, v := range bv.Cells {
				ft, _ := bv.FieldType(ck.Field)
				h.m.add(f.maps, f.Start, seq, metricID, ck.Series, ck.Field, ft, ck.Slot, v)
				cells++
				switch ft {
				case field.SumField:
					agg[ft] += v
				case field.MinField:
					if x, ok := agg[ft]; !ok || v < x {
						agg[ft] = v
					}
				case field.MaxField:
					if x, ok := agg[ft]; !ok || v > x {
						agg[ft] = v
					}
				}
			}
		}
	}
	rec.Cells = cells
	h.res.count("source_cells_flushed", cells)
	h.res.count("ingest_points_written", len(pts))
	var sum, mn, mx float64
	for i, p := range pts {
		sum += p.V
		if i == 0 || p.V < mn {
			mn = p.V
		}
		if i == 0 || p.V > mx {
			mx = p.V
		}
	}
	if cells == 0 || agg[field.SumField] != sum || agg[field.MinField] != mn || agg[field.MaxField] != mx {
		// not this property's business (C11/C16), but the kind must not run on a source that lost the writes
		h.res.count("ingest_flushes_whose_table_differs_from_points(C11 territory)", 1)
		if cells == 0 {
			h.res.Fatal = fmt.Sprintf("step %d: real ingestion produced an empty source table", h.stepNo)
			return false
		}
	} else {
		h.res.count("ingest_flushes_whose_table_matches_points_in_sum_min_max", 1)
	}
	h.spec.Files = append(h.spec.Files, fmt.Sprintf("file#%d -> family %d: %d points through WriteRows+Flush, %d source cells", seq, f.Idx, len(pts), cells))
	return true
}
