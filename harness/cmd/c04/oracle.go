package main

import (
	"fmt"
	"math"
	"sort"

	"github.com/lindb/lindb/series/field"
	"github.com/lindb/lindb/verif/internal/blocks"
)

// The reference of a history: every source cell ever flushed, re-bucketed per target interval with the calendar of
// calendar.go. It knows nothing about files on disk, levels, marks or references; which flushed files have to be
// visible in a target is decided by the history (status of the file for that interval).

// tkey addresses a cell of one target interval's stores.
type tkey struct {
	Place  int32 // index into model.places: (type, segment, family)
	Metric uint32
	Series uint32
	Field  field.ID
	Slot   uint16
}

// srcVal is one source cell that falls into a target cell.
type srcVal struct {
	Seq   int   // flush sequence number (= source file) that wrote it
	Ts    int64 // timestamp of the source slot
	Value float64
}

type placeInfo struct {
	Type, Segment, Family string
	FamStart, FamEnd      int64
}

func (p placeInfo) String() string { return p.Type + "/" + p.Segment + "/" + p.Family }

type model struct {
	src      int64
	targets  []int64 // ascending target intervals
	places   []placeInfo
	placeIdx map[string]int32
	ref      map[int64]map[tkey][]srcVal // target interval -> cell -> contributions in flush order
	types    map[blocks.MetricField]field.Type
	srcCells int
}

func newModel(src int64, targets []int64) *model {
	m := &model{src: src, targets: targets, placeIdx: map[string]int32{}, ref: map[int64]map[tkey][]srcVal{}, types: map[blocks.MetricField]field.Type{}}
	for _, t := range targets {
		m.ref[t] = map[tkey][]srcVal{}
	}
	return m
}

func (m *model) place(typ, seg, fam string, start, end int64) int32 {
	k := typ + "/" + seg + "/" + fam
	if i, ok := m.placeIdx[k]; ok {
		if start != 0 && m.places[i].FamStart == 0 {
			m.places[i].FamStart, m.places[i].FamEnd = start, end
		}
		return i
	}
	m.places = append(m.places, placeInfo{Type: typ, Segment: seg, Family: fam, FamStart: start, FamEnd: end})
	m.placeIdx[k] = int32(len(m.places) - 1)
	return int32(len(m.places) - 1)
}

// slotMap maps every source slot of one source family to its target (place, slot) for one target interval.
type slotMap struct {
	place []int32
	slot  []uint16
}

func (m *model) slotMapOf(famStart int64, target int64) *slotMap {
	n := int(msHour / m.src)
	sm := &slotMap{place: make([]int32, n), slot: make([]uint16, n)}
	for s := 0; s < n; s++ {
		p := placeOf(target, famStart+int64(s)*m.src)
		sm.place[s] = m.place(p.Type, p.Segment, p.Family, p.FamStart, p.FamEnd)
		sm.slot[s] = uint16(p.Slot)
	}
	return sm
}

// add records one source cell of flush seq written into the source family starting at famStart.
func (m *model) add(maps map[int64]*slotMap, famStart int64, seq int, metric, series uint32, fid field.ID, ft field.Type, slot uint16, v float64) {
	m.types[blocks.MetricField{Metric: metric, Field: fid}] = ft
	m.srcCells++
	ts := famStart + int64(slot)*m.src
	for _, t := range m.targets {
		sm := maps[t]
		k := tkey{Place: sm.place[slot], Metric: metric, Series: series, Field: fid, Slot: sm.slot[slot]}
		m.ref[t][k] = append(m.ref[t][k], srcVal{Seq: seq, Ts: ts, Value: v})
	}
}

// observed is what the stores of one target interval show: cell -> the value of every block that holds it.
type observed map[tkey][]float64

// diff is one disagreement between the reference and the observed target.
type diff struct {
	Kind   string `json:"kind"` // missing | unexpected | value
	Detail string `json:"detail"`
	Sub    string `json:"sub,omitempty"` // refinement used for the violation class
}

type cmpResult struct {
	Mismatch    int
	Cells       int // expected cells compared
	MultiSource int // expected cells fed by >= 2 source cells
	MultiFile   int // expected cells fed by >= 2 source files
	Diffs       []diff
}

// compare checks the observed target of one interval against the reference restricted to the files for which
// incl(seq) holds. maxDiffs bounds the number of described differences (the count is always complete).
func (m *model) compare(target int64, obs observed, incl func(seq int) bool, maxDiffs int) cmpResult {
	var r cmpResult
	ref := m.ref[target]
	note := func(d diff) {
		r.Mismatch++
		if len(r.Diffs) < maxDiffs {
			r.Diffs = append(r.Diffs, d)
		}
	}
	var vals []srcVal
	for k, all := range ref {
		vals = vals[:0]
		for _, v := range all {
			if incl(v.Seq) {
				vals = append(vals, v)
			}
		}
		got, has := obs[k]
		if len(vals) == 0 {
			if has {
				note(m.unexpected(target, k, got, all, incl))
			}
			continue
		}
		r.Cells++
		if len(vals) > 1 {
			r.MultiSource++
			for _, v := range vals[1:] {
				if v.Seq != vals[0].Seq {
					r.MultiFile++
					break
				}
			}
		}
		ft := m.types[blocks.MetricField{Metric: k.Metric, Field: k.Field}]
		if !has {
			note(diff{Kind: "missing", Sub: m.whoIsMissing(vals), Detail: fmt.Sprintf("%s: expected %s of %d source cells %s, the target holds no such cell",
				m.cellName(target, k), aggName(ft), len(vals), describeVals(vals))})
			continue
		}
		if d, ok := m.checkValue(target, k, ft, vals, got, all); !ok {
			note(d)
		}
	}
	for k, got := range obs {
		if _, ok := ref[k]; !ok {
			note(m.unexpected(target, k, got, nil, incl))
		}
	}
	sort.Slice(r.Diffs, func(i, j int) bool { return r.Diffs[i].Detail < r.Diffs[j].Detail })
	return r
}

func (m *model) unexpected(target int64, k tkey, got []float64, all []srcVal, incl func(int) bool) diff {
	sub := "nothing-maps-here"
	if len(all) > 0 {
		sub = "only-files-not-rolled-up-map-here"
	}
	return diff{Kind: "unexpected", Sub: sub, Detail: fmt.Sprintf("%s: target holds value(s) %v, no rolled-up source cell falls into this cell (source cells of files not (yet) rolled up that map here: %s)",
		m.cellName(target, k), got, describeVals(all))}
}

func (m *model) whoIsMissing(vals []srcVal) string {
	seqs := map[int]bool{}
	for _, v := range vals {
		seqs[v.Seq] = true
	}
	if len(seqs) == 1 {
		return "single-file"
	}
	return "several-files"
}

// checkValue compares the observable value of a cell with the reference aggregate.
func (m *model) checkValue(target int64, k tkey, ft field.Type, vals []srcVal, got []float64, all []srcVal) (diff, bool) {
	switch ft {
	case field.FirstField, field.LastField:
		// per source file the extreme source slot (first: earliest, last: latest) inside the target slot; across files
		// (and across target tables) the order of merging decides, every per-file extreme is acceptable
		cand := map[int]srcVal{}
		for _, v := range vals {
			c, ok := cand[v.Seq]
			if !ok || (ft == field.FirstField && v.Ts < c.Ts) || (ft == field.LastField && v.Ts > c.Ts) {
				cand[v.Seq] = v
			}
		}
		for _, g := range got {
			ok := false
			for _, c := range cand {
				if math.Float64bits(c.Value) == math.Float64bits(g) {
					ok = true
					break
				}
			}
			if !ok {
				sub := "not-a-source-value"
				for _, v := range vals {
					if math.Float64bits(v.Value) == math.Float64bits(g) {
						sub = "not-the-" + aggName(ft) + "-source-slot-of-its-file"
					}
				}
				return diff{Kind: "value", Sub: aggName(ft) + "/" + sub, Detail: fmt.Sprintf("%s: target holds %v (per table: %v); source cells %s; acceptable: the %s source slot of one file",
					m.cellName(target, k), g, got, describeVals(vals), aggName(ft))}, false
			}
		}
		return diff{}, true
	}
	fv := make([]float64, len(vals))
	for i, v := range vals {
		fv[i] = v.Value
	}
	want, _ := blocks.Aggregate(ft, fv)
	have, _ := blocks.Aggregate(ft, got)
	if math.Float64bits(want) == math.Float64bits(have) || (want == 0 && have == 0) {
		return diff{}, true
	}
	sub := aggName(ft) + "/other"
	if ft == field.SumField || ft == field.HistogramField {
		// explain a wrong sum by whole files: counted twice / left out / a not rolled-up file counted
		perFile := map[int]float64{}
		for _, v := range vals {
			perFile[v.Seq] += v.Value
		}
		other := map[int]float64{}
		for _, v := range all {
			if _, in := perFile[v.Seq]; !in {
				other[v.Seq] += v.Value
			}
		}
		d := have - want
		switch {
		case d == want:
			sub = "sum/everything-counted-twice"
		case matchesSubset(perFile, d):
			sub = "sum/file-counted-twice"
		case matchesSubset(perFile, -d):
			sub = "sum/file-left-out"
		case matchesSubset(other, d):
			sub = "sum/file-not-rolled-up-counted"
		}
	}
	return diff{Kind: "value", Sub: sub, Detail: fmt.Sprintf("%s: target shows %s=%v (per table: %v), reference %s=%v over source cells %s",
		m.cellName(target, k), aggName(ft), have, got, aggName(ft), want, describeVals(vals))}, false
}

// matchesSubset reports whether d is the sum of a non-empty subset of the per-file sums (at most 12 files are tried exhaustively).
func matchesSubset(perFile map[int]float64, d float64) bool {
	var xs []float64
	for _, v := range perFile {
		xs = append(xs, v)
	}
	if len(xs) == 0 || len(xs) > 12 {
		return false
	}
	for mask := 1; mask < 1<<len(xs); mask++ {
		s := 0.0
		for i, x := range xs {
			if mask&(1<<i) != 0 {
				s += x
			}
		}
		if s == d {
			return true
		}
	}
	return false
}

func (m *model) cellName(target int64, k tkey) string {
	return fmt.Sprintf("target %s %s metric=%d series=%d field=%d(%s) slot=%d", ivName(target), m.places[k.Place], k.Metric, k.Series, k.Field,
		m.types[blocks.MetricField{Metric: k.Metric, Field: k.Field}], k.Slot)
}

func describeVals(vals []srcVal) string {
	s := "["
	for i, v := range vals {
		if i == 6 {
			s += fmt.Sprintf(" ...(%d more)", len(vals)-i)
			break
		}
		if i > 0 {
			s += " "
		}
		s += fmt.Sprintf("file#%d@%s=%v", v.Seq, at(v.Ts).Format("01-02T15:04:05"), v.Value)
	}
	return s + "]"
}

func aggName(t field.Type) string {
	switch t {
	case field.SumField:
		return "sum"
	case field.HistogramField:
		return "histogram-sum"
	case field.MinField:
		return "min"
	case field.MaxField:
		return "max"
	case field.FirstField:
		return "first"
	case field.LastField:
		return "last"
	}
	return "unknown"
}
