package main

import (
	"fmt"
	"time"
)

// Calendar arithmetic of the oracle. It is written with plain time.Date / time.Time only and shares nothing with
// lindb's timeutil.IntervalCalculator:
//
//	day type   (interval < 5 min):  segment = calendar day  "YYYYMMDD", family = hour of the day (0..23), slot = (ts - hour start) / interval
//	month type (5 min .. < 1 h):    segment = calendar month "YYYYMM",  family = day of the month (1..31), slot = (ts - day start) / interval
//	year type  (>= 1 h):            segment = calendar year "YYYY",     family = month of the year (1..12), slot = (ts - month start) / interval
//
// All of it is evaluated in time.Local (the deciding runs set TZ=UTC).

const (
	msSecond = int64(1000)
	msMinute = 60 * msSecond
	msHour   = 60 * msMinute
	msDay    = 24 * msHour
)

// place is where a timestamp lives for one storage interval.
type place struct {
	Type     string // day | month | year
	Segment  string // segment (= kv store directory) name
	Family   string // kv family name
	Slot     int    // slot inside the family
	FamStart int64  // first millisecond of the family
	FamEnd   int64  // last millisecond of the family
}

func typeOf(interval int64) string {
	switch {
	case interval >= msHour:
		return "year"
	case interval >= 5*msMinute:
		return "month"
	}
	return "day"
}

func ms(t time.Time) int64 { return t.Unix()*1000 + int64(t.Nanosecond()/1e6) }

func at(ts int64) time.Time {
	sec := ts / 1000
	rem := ts % 1000
	if rem < 0 {
		sec--
		rem += 1000
	}
	return time.Unix(sec, rem*1e6).In(time.Local)
}

// placeOf computes the (segment, family, slot) of ts for a storage interval.
func placeOf(interval, ts int64) place {
	t := at(ts)
	y, m, d := t.Date()
	switch typeOf(interval) {
	case "year":
		start := time.Date(y, m, 1, 0, 0, 0, 0, time.Local)
		end := time.Date(y, m+1, 1, 0, 0, 0, 0, time.Local)
		return place{Type: "year", Segment: fmt.Sprintf("%04d", y), Family: fmt.Sprintf("%d", int(m)),
			Slot: int((ts - ms(start)) / interval), FamStart: ms(start), FamEnd: ms(end) - 1}
	case "month":
		start := time.Date(y, m, d, 0, 0, 0, 0, time.Local)
		end := time.Date(y, m, d+1, 0, 0, 0, 0, time.Local)
		return place{Type: "month", Segment: fmt.Sprintf("%04d%02d", y, int(m)), Family: fmt.Sprintf("%d", d),
			Slot: int((ts - ms(start)) / interval), FamStart: ms(start), FamEnd: ms(end) - 1}
	default:
		start := time.Date(y, m, d, t.Hour(), 0, 0, 0, time.Local)
		day := time.Date(y, m, d, 0, 0, 0, 0, time.Local)
		// family = number of whole hours since local midnight (equal to t.Hour() without DST shifts)
		return place{Type: "day", Segment: fmt.Sprintf("%04d%02d%02d", y, int(m), d), Family: fmt.Sprintf("%d", int((ms(start)-ms(day))/msHour)),
			Slot: int((ts - ms(start)) / interval), FamStart: ms(start), FamEnd: ms(start) + msHour - 1}
	}
}

func fmtTS(ts int64) string { return at(ts).Format("2006-01-02T15:04:05.000Z07:00") }

func ivName(iv int64) string {
	switch {
	case iv%msHour == 0:
		return fmt.Sprintf("%dh", iv/msHour)
	case iv%msMinute == 0:
		return fmt.Sprintf("%dm", iv/msMinute)
	}
	return fmt.Sprintf("%ds", iv/msSecond)
}

func daysIn(y int, m time.Month) int { return time.Date(y, m+1, 0, 0, 0, 0, 0, time.Local).Day() }

// calendarSpot is a source position the generator picks: the first millisecond of a source family (an hour).
type calendarSpot struct {
	Start int64
	Kind  string
}

func hourStart(y int, m time.Month, d, h int) int64 {
	return ms(time.Date(y, m, d, h, 0, 0, 0, time.Local))
}
