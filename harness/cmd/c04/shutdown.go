package main

import (
	"fmt"
	"path/filepath"
	"runtime"
	"strings"
	"sync"
	"time"

	"github.com/lindb/lindb/pkg/timeutil"
	"github.com/lindb/lindb/tsdb"
	"github.com/lindb/lindb/verif/internal/imgfs"
	"github.com/lindb/lindb/verif/internal/seam"
)

// Shutdown part. The step "shutdown" is the last step of a shutdown history: exactly one source family carries rollup
// marks. A rollup job is started and parked INSIDE its work on a target family - at the creation of its output table
// (the kv/table file seam; the job has looked its target store up and has not committed yet). For a database with two
// target intervals the job is parked at the table of the target it handles LAST (the first target is committed, no
// store lookup is ahead of the job). Then the engine is closed (engine.Close -> shard.Close -> segments/stores) in
// another goroutine; once that goroutine waits for the job inside the close of the source store (kv family.close,
// found in the goroutine dump - a logical condition, no timing) the job is released. The directory the closed engine
// leaves behind is then judged like a crash image: reopen, data <=> bookkeeping, ForceRollup to quiescence, every
// flushed file in every target exactly once.
//
// What decides the outcome inside lindb is the order in which shard.Close closes the interval segments: the close of
// the source store waits for the running job, the close of a target store does not.

type createGate struct {
	mu       sync.Mutex
	prefixes []string // directories of the target interval segments
	gateAt   int      // park the gateAt-th target table creation
	seen     int
	reached  chan struct{}
	release  chan struct{}
	labels   []string
	onPark   func() // optional: runs in the goroutine that is about to be parked, before `reached` is closed
}

func (g *createGate) Do(label string, op func() error) error {
	if strings.HasPrefix(label, "create ") && strings.HasSuffix(label, ".sst") {
		path := strings.TrimPrefix(label, "create ")
		for _, p := range g.prefixes {
			if strings.HasPrefix(path, p) {
				g.mu.Lock()
				g.seen++
				n := g.seen
				g.labels = append(g.labels, path)
				g.mu.Unlock()
				if n == g.gateAt {
					if g.onPark != nil {
						g.onPark()
					}
					close(g.reached)
					<-g.release
				}
				break
			}
		}
	}
	return op()
}

// goroutineParkedIn reports whether some goroutine's stack contains all the given frames.
func goroutineParkedIn(frames ...string) bool {
	buf := make([]byte, 1<<20)
	for {
		n := runtime.Stack(buf, true)
		if n < len(buf) {
			buf = buf[:n]
			break
		}
		buf = make([]byte, 2*len(buf))
	}
	for _, g := range strings.Split(string(buf), "\n\n") {
		all := true
		for _, f := range frames {
			if !strings.Contains(g, f) {
				all = false
				break
			}
		}
		if all {
			return true
		}
	}
	return false
}

func (h *hist) shutdownStep() {
	res := h.res
	before := map[int]map[int64]string{}
	pendingFams := map[int]bool{}
	for _, f := range h.files {
		before[f.Seq] = map[int64]string{}
		for iv, st := range f.Status {
			before[f.Seq][iv] = st
			if st == stPending {
				pendingFams[f.Fam] = true
			}
		}
	}
	if len(pendingFams) != 1 {
		res.Fatal = fmt.Sprintf("shutdown step needs exactly one source family with rollup marks, have %d", len(pendingFams))
		return
	}
	g := &createGate{gateAt: len(h.m.targets), reached: make(chan struct{}), release: make(chan struct{})}
	if h.spec.GateFirst {
		// park the job at its FIRST target although the store lookup of a second target is still ahead of it
		g.gateAt = 1
	}
	for _, iv := range h.m.targets {
		g.prefixes = append(g.prefixes, tsdb.ShardIntervalSegmentPath(dbName, shardID, timeutil.Interval(iv))+string(filepath.Separator))
	}
	seam.InstallKV(g, nil)
	defer seam.Restore()
	for _, st := range h.srcStores() {
		st.ForceRollup()
	}
	watchdog := time.After(2 * time.Minute)
	select {
	case <-g.reached:
	case <-watchdog:
		close(g.release)
		res.Fatal = "shutdown step: the rollup job never reached the creation of its last target table"
		return
	}
	res.count("shutdown.rollup_jobs_parked_between_target_lookup_and_commit", 1)
	// close the engine while the job is in flight
	closed := make(chan struct{})
	eng := h.env.engine
	go func() {
		eng.Close()
		close(closed)
	}()
	h.env.engine = nil
	start := time.Now()
	for {
		done := false
		select {
		case <-closed:
			// the engine closed completely while the job was still parked: nothing waited for the job
			res.count("shutdown.engine_closed_without_waiting_for_the_running_job", 1)
			done = true
		default:
		}
		if done {
			break
		}
		if goroutineParkedIn("kv.(*family).close", "sync.(*WaitGroup).Wait") {
			res.count("shutdown.closes_waiting_for_the_running_job_in_the_source_store", 1)
			break
		}
		if time.Since(start) > 2*time.Minute {
			close(g.release)
			res.Fatal = "shutdown step: engine.Close neither returned nor reached the wait for the running rollup job (goroutine dump shows no kv family.close)"
			return
		}
		time.Sleep(200 * time.Microsecond)
	}
	close(g.release)
	// the close returns, or - logical condition, read from the goroutine dump - a wait cycle exists: the close waits for
	// the job (family.close) while the job waits for the store manager's mutex that the close holds (GetStoreByName)
	start = time.Now()
	cycle := 0
	for {
		done := false
		select {
		case <-closed:
			done = true
		default:
		}
		if done {
			break
		}
		if goroutineParkedIn("kv.(*storeManager).GetStoreByName", "kv.(*family).rollup", "sync.(*Mutex).Lock") && goroutineParkedIn("kv.(*family).close", "sync.(*WaitGroup).Wait", "kv.(*storeManager).CloseStore") {
			cycle++
		} else {
			cycle = 0
		}
		if cycle >= 200 {
			res.count("shutdown.closes_deadlocked_with_the_running_job", 1)
			res.violation("C04/shutdown/close-deadlocks-with-rollup-job-that-has-a-second-target-ahead", fmt.Sprintf("step %d: engine.Close never returns: storeManager.CloseStore holds the manager mutex while store.close waits for the source family's rollup job; "+
				"the job (parked while creating %s, then released) needs GetStoreManager().GetStoreByName for its next target interval and waits for that mutex", h.stepNo, strings.Join(g.labels, ",")), h.witness(nil))
			return
		}
		if time.Since(start) > 2*time.Minute {
			res.Fatal = "shutdown step: engine.Close did not return within two minutes after the job was released (no wait cycle found in the goroutine dump)"
			return
		}
		time.Sleep(500 * time.Microsecond)
	}
	res.count("shutdown.engines_closed_during_a_rollup_job", 1)
	seam.Restore()
	// judge what the closed engine left behind, like a crash image (no copy: the directory itself)
	img := imgfs.Image{Index: 0, Label: "engine closed while the rollup job was creating " + strings.TrimPrefix(strings.Join(g.labels, ","), h.env.dataDir), Dir: h.env.dataDir,
		Hash: fmt.Sprintf("shutdown-%d", h.spec.Idx)}
	h.verifyImage(img, before, h.spec.Idx%2, "shutdown")
}
