// C04 — Rollup writes the right aggregate into the right coarse slot, once.
//
// Repeated triggers under a running job (directed gate schedule and unshaped storm): retrigger.go.
// Parent: builds the list of histories for (seed, tier), runs them in child processes (one real tsdb engine per
// history; lindb keeps its store manager and storage config in process-wide singletons), merges the children's
// observations and writes the evidence.
// Child: per history a real tsdb.Engine + shard whose database option makes the day->month and day->year rollups
// real; source tables are written into the source data family's kv family (internal/blocks) or through real ingestion
// (ingest.go); rollups are triggered by kv.Store.ForceRollup or the store tick; every cell of every target store is
// read back through the query-path block reader and compared with a naive reference re-bucketed by plain calendar
// arithmetic (calendar.go, oracle.go); crash.go recovers a crash image of the engine directory for every file-system
// operation of one rollup.
package main

import (
	"encoding/json"
	"fmt"
	"math/rand"
	"os"
	"path/filepath"
	"runtime"
	"runtime/debug"
	"sort"
	"strconv"
	"strings"
	"sync"
	"time"

	"github.com/lindb/lindb/verif/internal/blocks"
	"github.com/lindb/lindb/verif/internal/core"
)

type job struct {
	Idx  int    `json:"idx"`
	Kind string `json:"kind"` // direct | ingest | crash
	TZ   string `json:"tz"`
}

func main() {
	if len(os.Args) > 1 && os.Args[1] == "child" {
		runChild()
		return
	}
	if len(os.Args) > 1 && os.Args[1] == "repro" {
		runRepro()
		return
	}
	c := core.New("C04", "exploration")
	c.SetRule("one case = one step of a generated history on a real tsdb engine/shard whose database option has a day-type source interval (1s|10s|30s|1m) and a month-type (5m|10m) and/or " +
		"year-type (1h|2h) rollup interval: flush into 1-4 source families (hours) chosen at calendar edges (first/last hour of a day, adjacent hours sharing a 2h slot, last day of a " +
		"28/29/30/31-day month, 31 Dec/1 Jan, several days of one month) with C03's block shapes plus a hand-made all-field-types block at the slot-arithmetic edges; ForceRollup, ForceRollup again, " +
		"more flushes + rollup, close/reopen + rollup, source compaction before/after/between rollups, the store tick (file thresholds), target family compaction; one kind through real ingestion " +
		"(WriteRows->Flush). After every step all cells of all target stores are read through the query-path reader and compared with the calendar re-bucketed reference; marks/references are " +
		"checked against the data. Crash kind: an image of the engine directory after every file-system operation of one rollup is recovered, judged, rolled up to quiescence and judged again. " +
		"Retrigger kind: a rollup job is parked inside its target work (kv/table file seam), 1-3 further triggers (Store.ForceRollup / family.rollup) arrive from other goroutines; each is refused by the running job or - " +
		"when it reads the family's live rollup files outside the running job - held at a gate around the family version until the job's goroutine is gone, then continues (optionally after one more flush); " +
		"storm kind: 2-6 goroutines trigger repeatedly while files are flushed; both are judged at quiescence with the same exactly-once oracle. " +
		"Fault kind: one file-system step (create | first write while merging | first footer write | close) of the output table a rollup job writes into its month- or year-type target, or one manifest record write " +
		"(the target family's commit of the job's results | the source family's commit of the mark removal | the target's reference cleanup commit; not executed, the manifest stays as it was) " +
		"returns an i/o error (kv/table and kv/version seams, only for the goroutine inside the rollup job; stratified over step kind x target type), the node keeps running; then ForceRollup again, optionally after a reopen, " +
		"more flushes or a second failed job; same exactly-once oracle after the failed job and after every later step (a failed job may keep its marks, nothing else is waived). " +
		"Non-trivial = a completed rollup job whose target agrees cell by cell (distinct by history, step, target type) or a crash image strictly inside the rollup (distinct by content hash).")
	c.Assume("source tables are written with the real metricsdata flusher through the kv family of the real source data family, bypassing the write window (that is what allows old calendar positions); the flusher/reader pair is property C03's subject")
	c.Assume("values are integers |v| < 2^30 so that sums over up to 7200 source slots x 64 files are exact in float64")
	c.Assume("first/last fields: per source file the value of the earliest/latest source slot inside the target slot is acceptable; across files the merge order decides (flush order, not time)")
	c.Assume("deciding runs use TZ=UTC; the Asia/Shanghai histories are reported in the evidence but never decide")
	c.Assume("crash model = process kill (page cache survives); granularity = lindb's file-system seams; fsync is skipped by the seam wrapper")
	c.Assume("retrigger kind: holding a goroutine right behind (or in front of) its read of the live rollup files is a schedule the Go runtime may produce (preemption between two statements); the gate never alters a returned value")
	c.Assume("jobs are awaited (wait group + busy flag) before the oracle reads the targets; the store tick may start a compaction and a rollup of one family concurrently - the oracle accepts both orders only through the known-defect label")

	var jobs []job
	add := func(kind, tz string, n int) {
		for i := 0; i < n; i++ {
			jobs = append(jobs, job{Idx: len(jobs), Kind: kind, TZ: tz})
		}
	}
	add("direct", "UTC", c.Pick(360, 9000))
	add("ingest", "UTC", c.Pick(28, 400))
	add("crash", "UTC", c.Pick(24, 400))
	add("shutdown", "UTC", c.Pick(40, 800))
	add("shutdownlock", "UTC", c.Pick(3, 12))
	add("direct", "Asia/Shanghai", c.Pick(28, 300))
	add("ingest", "Asia/Shanghai", c.Pick(2, 20))
	// appended behind the older kinds so that their indices (and with them their generated histories) stay what they were
	add("retrigger", "UTC", c.Pick(32, 600))
	add("storm", "UTC", c.Pick(12, 200))
	add("fault", "UTC", c.Pick(42, 840))

	scratch := c.Scratch()
	// batches: crash histories alone, the others a few per child, one time zone per child
	var batches [][]job
	per := c.Pick(7, 20)
	cur := map[string][]job{}
	for _, j := range jobs {
		key := j.TZ
		if j.Kind == "crash" {
			key = "crash"
		}
		if j.Kind == "shutdownlock" {
			// a deadlocked engine.Close keeps the store manager's mutex for ever: own process, last history
			batches = append(batches, []job{j})
			continue
		}
		if j.Kind == "crash" && c.Quick() {
			batches = append(batches, []job{j})
			continue
		}
		if j.Kind == "crash" {
			cur[key] = append(cur[key], j)
			if len(cur[key]) == 4 {
				batches = append(batches, cur[key])
				cur[key] = nil
			}
			continue
		}
		cur[j.TZ] = append(cur[j.TZ], j)
		if len(cur[j.TZ]) == per {
			batches = append(batches, cur[j.TZ])
			cur[j.TZ] = nil
		}
	}
	for _, tz := range []string{"UTC", "Asia/Shanghai", "crash"} {
		if len(cur[tz]) > 0 {
			batches = append(batches, cur[tz])
		}
	}
	sort.SliceStable(batches, func(a, b int) bool { return batches[a][0].Kind == "crash" && batches[b][0].Kind != "crash" })

	type batchOut struct {
		results []*histResult
		died    string
		timeout bool
		running string
	}
	outs := make([]batchOut, len(batches))
	core.Parallel(len(batches), runtime.NumCPU(), func(bi int) {
		dir := filepath.Join(scratch, fmt.Sprintf("b%05d", bi))
		_ = os.MkdirAll(dir, 0o755)
		spec, _ := json.Marshal(batches[bi])
		_ = os.WriteFile(filepath.Join(dir, "jobs.json"), spec, 0o644)
		timeout := 10 * time.Minute
		if !c.Quick() {
			timeout = 40 * time.Minute
		}
		res := core.RunChild("", []string{"child", dir, c.Tier},
			[]string{"VERIF_SEED=" + strconv.FormatInt(c.Seed, 10), "LOG_LEVEL=error", "TZ=" + batches[bi][0].TZ}, timeout, filepath.Join(dir, "child.log"))
		o := batchOut{}
		if data, err := os.ReadFile(filepath.Join(dir, "results.json")); err == nil {
			_ = json.Unmarshal(data, &o.results)
		}
		if res.TimedOut {
			o.timeout = true
		} else if res.ExitCode != 0 || len(o.results) != len(batches[bi]) {
			o.died = fmt.Sprintf("exit=%d err=%v crash excerpt:\n%s\noutput tail:\n%s", res.ExitCode, res.Err, res.Death, tail(res.Output, 3000))
		}
		if cur, err := os.ReadFile(filepath.Join(dir, "current.json")); err == nil {
			o.running = string(cur)
		}
		outs[bi] = o
		_ = os.RemoveAll(dir)
	})

	for bi, o := range outs {
		deciding := batches[bi][0].TZ == "UTC"
		for _, r := range o.results {
			merge(c, r, deciding)
		}
		if !deciding {
			if o.timeout || o.died != "" {
				c.Count("non_deciding_tz.children_failed", 1)
			}
			continue
		}
		if o.timeout {
			c.Inconclusive("batch %d (%v): watchdog fired while running %s", bi, batches[bi], oneLine(o.running))
			continue
		}
		if o.died != "" {
			class, ok := classifyDeath(o.died)
			msg := fmt.Sprintf("child process died while running history %s: %s", oneLine(o.running), o.died)
			if ok {
				c.Count("histories_that_killed_the_process", 1)
				c.Violation(class, msg, map[string]interface{}{"history": json.RawMessage(orNull(o.running)), "output": o.died})
			} else {
				c.Inconclusive("batch %d: child failed outside the anchored code: %s", bi, head(msg, 3000))
			}
		}
	}
	for _, typ := range []string{"month", "year"} {
		if n := c.Counter("rollup_jobs_completed." + typ); n < 20 {
			c.Inconclusive("only %d completed rollup jobs into %s-type targets", n, typ)
		}
		if n := c.Counter("target_cells_fed_by_several_source_files." + typ); n < 100 {
			c.Inconclusive("only %d %s-type target cells were fed by several source files", n, typ)
		}
	}
	if n := c.Counter("crash.images_strictly_inside_the_rollup"); n < 10 {
		c.Inconclusive("only %d crash images strictly inside a rollup", n)
	}
	if n := c.Counter("shutdown.engines_closed_during_a_rollup_job"); n < 10 {
		c.Inconclusive("only %d engines were closed while a rollup job was in flight", n)
	}
	if n := c.Counter("retrigger.schedules_completed"); n < int64(c.Pick(20, 300)) {
		c.Inconclusive("only %d directed schedules with further rollup triggers under a running job were completed", n)
	}
	if n, m := c.Counter("retrigger.triggers_refused_while_job_running")+c.Counter("retrigger.callers_held_after_reading_live_rollup_files_outside_the_running_job")+
		c.Counter("retrigger.callers_held_before_reading_live_rollup_files_outside_the_running_job"), c.Counter("retrigger.triggers_issued_while_job_parked"); n != m || m < int64(c.Pick(20, 300)) {
		c.Inconclusive("%d triggers were issued under a parked rollup job, %d of them were observed as refused or held", m, n)
	}
	if n := c.Counter("storm.steps_completed"); n < int64(c.Pick(10, 150)) {
		c.Inconclusive("only %d steps with concurrent repeated rollup triggers were completed", n)
	}
	if n := c.Counter("fault.failing_steps_injected_into_a_rollup_job"); n < int64(c.Pick(24, 400)) {
		c.Inconclusive("only %d rollup jobs ran into an injected failing file-system step", n)
	}
	for _, k := range faultKinds {
		n := c.Counter("fault.failing_steps_injected.kind." + k)
		if n < 3 {
			c.Inconclusive("only %d rollup jobs ran into an injected failing step of kind %s", n, k)
		}
		if m := c.Counter("fault.failed_jobs_judged.kind." + k); m != n {
			c.Inconclusive("%d failing steps of kind %s were injected, but the outcome (marks kept or removed) of %d such jobs was judged", n, k, m)
		}
	}
	for _, typ := range []string{"month", "year"} {
		if n := c.Counter("fault.failing_steps_injected.target." + typ); n < 6 {
			c.Inconclusive("only %d rollup jobs into %s-type targets ran into an injected failing step", n, typ)
		}
	}
	if n := c.Counter("reopens_with_pending_rollup_marks"); n < 2 {
		c.Inconclusive("only %d reopens with pending rollup marks", n)
	}
	c.Finish()
}

func merge(c *core.Ctx, r *histResult, deciding bool) {
	if !deciding {
		// reported, never deciding
		c.Count("non_deciding_tz.histories", 1)
		c.Count("non_deciding_tz.steps", r.Steps)
		for k, v := range r.Counters {
			if strings.HasPrefix(k, "rollup_jobs_completed") || strings.HasPrefix(k, "target_cells_compared") {
				c.Count("non_deciding_tz."+k, v)
			}
		}
		for _, v := range r.Violations {
			c.Count("non_deciding_tz.disagreements", 1)
			c.Count("non_deciding_tz.disagreement."+v.Class, 1)
		}
		if r.Fatal != "" {
			c.Count("non_deciding_tz.harness_errors", 1)
		}
		return
	}
	c.Eval(r.Steps)
	c.Count("histories", 1)
	c.Count("histories."+r.Kind, 1)
	c.Count("scenario."+r.Scenario, 1)
	for k, v := range r.Counters {
		c.Count(k, v)
	}
	for _, k := range r.Nontrivial {
		c.Nontrivial(k)
	}
	if r.Sample != nil {
		c.Sample(r.Sample)
	}
	for _, v := range r.Violations {
		c.Violation(v.Class, fmt.Sprintf("history %d (%s/%s): %s", r.Idx, r.Kind, r.Scenario, v.Message), v.Witness)
	}
	if os.Getenv("C04_TIMING") != "" {
		fmt.Printf("TIMING history %d %s/%s src=%s wall=%dms steps=%d\n", r.Idx, r.Kind, r.Scenario, r.TZ, r.WallMs, r.Steps)
	}
	if r.Fatal != "" {
		c.Inconclusive("history %d (%s/%s): harness error: %s", r.Idx, r.Kind, r.Scenario, r.Fatal)
	}
}

// classifyDeath maps the stack of a dead child to a violation class when the failing frames are in the anchored code.
func classifyDeath(out string) (string, bool) {
	switch {
	case strings.Contains(out, "concurrent map") && (strings.Contains(out, "getReferenceFiles") || strings.Contains(out, "removeReferenceFile") || strings.Contains(out, "addReferenceFile") || strings.Contains(out, "getAllReferenceFiles")):
		// two rollup jobs (two source families of one store) work on the same target family: Version.Clone shares the
		// inner reference-file map between versions, one job applies its edit log to the clone while the other reads
		return "C04/rollup/concurrent-jobs-into-one-target/version-clone-shares-reference-map/process-dies", true
	case strings.Contains(out, "kv.(*family).rollup") || strings.Contains(out, "doRollupWork"):
		return "C04/rollup/process-dies-in-rollup-job", true
	case strings.Contains(out, "kv.(*compactJob)") && strings.Contains(out, "metricsdata."):
		return "C04/rollup/process-dies-in-metric-merger", true
	case strings.Contains(out, "lindb/tsdb/tblstore/metricsdata.") || strings.Contains(out, "lindb/aggregation."):
		return "C04/process-dies-in-metricsdata", true
	case strings.Contains(out, "lindb/kv"):
		return "C04/process-dies-in-kv", true
	}
	return "", false
}

func orNull(s string) string {
	if json.Valid([]byte(s)) && s != "" {
		return s
	}
	b, _ := json.Marshal(s)
	return string(b)
}

func tail(s string, n int) string {
	if len(s) > n {
		return s[len(s)-n:]
	}
	return s
}

func oneLine(s string) string { return strings.Join(strings.Fields(s), " ") }

// ---------------------------------------------------------------------------------------------------------------
// child

func runChild() {
	dir, tier := os.Args[2], os.Args[3]
	var jobs []job
	data, err := os.ReadFile(filepath.Join(dir, "jobs.json"))
	if err == nil {
		err = json.Unmarshal(data, &jobs)
	}
	if err != nil {
		fmt.Println("cannot read jobs:", err)
		os.Exit(4)
	}
	os.Args = []string{os.Args[0], tier}
	c := core.New("C04", "exploration")
	var results []*histResult
	var mu sync.Mutex
	save := func(running *histSpec) {
		mu.Lock()
		defer mu.Unlock()
		cur, _ := json.Marshal(running)
		_ = os.WriteFile(filepath.Join(dir, "current.json"), cur, 0o644)
		out, _ := json.Marshal(results)
		_ = os.WriteFile(filepath.Join(dir, "results.json"), out, 0o644)
	}
	for _, j := range jobs {
		rnd := c.Rand(fmt.Sprintf("history-%d", j.Idx))
		spec := genSpec(rnd, j, c)
		save(spec) // logged before running
		hdir := filepath.Join(dir, fmt.Sprintf("h%d", j.Idx))
		r := runHistory(rnd, spec, hdir)
		_ = os.RemoveAll(hdir)
		results = append(results, r)
		save(nil)
	}
	os.Exit(0)
}

func runHistory(rnd *rand.Rand, spec *histSpec, dir string) (res *histResult) {
	res = &histResult{Idx: spec.Idx, Kind: spec.Kind, Scenario: spec.Scenario, TZ: spec.TZ, Counters: map[string]int{}}
	h := newHist(spec, res, rnd)
	defer func() {
		if p := recover(); p != nil {
			st := string(debug.Stack())
			if strings.Contains(st, "github.com/lindb/lindb/tsdb") || strings.Contains(st, "github.com/lindb/lindb/kv") ||
				strings.Contains(st, "github.com/lindb/lindb/aggregation") || strings.Contains(st, "github.com/lindb/lindb/pkg/encoding") {
				res.violation("C04/panic-in-lindb", fmt.Sprintf("step %d (%s): panic in lindb code: %v", h.stepNo, h.stepOp, p), map[string]interface{}{"history": spec, "stack": st})
			} else {
				res.Fatal = fmt.Sprintf("panic: %v\n%s", p, st)
			}
			h.env.close()
		}
	}()
	_ = os.MkdirAll(dir, 0o755)
	start := time.Now()
	h.run(dir)
	res.WallMs = time.Since(start).Milliseconds()
	return res
}

// ---------------------------------------------------------------------------------------------------------------
// generation of histories: a function of (seed, tier, index, kind, tz)

var scenarios = []string{"basic", "same-day-hours", "adjacent-hours", "days-of-one-month", "month-boundary", "year-boundary",
	"compact-before-rollup", "compact-after-rollup", "tick-thresholds", "tick-race", "reopen-with-pending", "target-compaction", "flush-during-rollup", "target-store-not-open", "random", "random"}

func genSpec(rnd *rand.Rand, j job, c *core.Ctx) *histSpec {
	s := &histSpec{Idx: j.Idx, Kind: j.Kind, TZ: j.TZ, Seed: c.Seed, Tier: c.Tier}
	// configuration: all 16 full combinations are cycled through; every 5th history has only one target interval
	srcs := []int64{10 * msSecond, msMinute, 30 * msSecond, msSecond}
	months := []int64{5 * msMinute, 10 * msMinute}
	years := []int64{msHour, 2 * msHour}
	k := j.Idx + int(c.Seed%16)
	s.Src, s.Month, s.Year = srcs[k%4], months[(k/4)%2], years[(k/8)%2]
	switch {
	case j.Idx%10 == 4:
		s.Year = 0
	case j.Idx%10 == 9:
		s.Month = 0
	}
	s.Scenario = scenarios[(j.Idx/2+int(c.Seed))%len(scenarios)]
	if j.Kind == "crash" {
		s.Scenario = []string{"crash-first-rollup", "crash-compacted-before-rollup", "crash-second-rollup", "crash-moved-to-level1-before-rollup",
			"crash-two-families", "crash-mixed-compacted-and-level0"}[(j.Idx+int(c.Seed))%6]
		if s.Src == msSecond {
			s.Src = 10 * msSecond
		}
		s.MaxImgs = c.Pick(130, 400)
	}
	if j.Kind == "shutdownlock" {
		s.Scenario = "shutdown-at-first-of-two-targets"
		s.GateFirst = true
		if s.Src == msSecond {
			s.Src = 10 * msSecond
		}
		s.Month, s.Year = []int64{5 * msMinute, 10 * msMinute}[j.Idx%2], []int64{msHour, 2 * msHour}[(j.Idx/2)%2]
	}
	if j.Kind == "shutdown" {
		s.Scenario = []string{"shutdown-first-rollup", "shutdown-second-rollup", "shutdown-sibling-rolled-up"}[(j.Idx+int(c.Seed))%3]
		if s.Src == msSecond {
			s.Src = 30 * msSecond
		}
	}
	if j.Kind == "retrigger" {
		s.Scenario = []string{"retrigger-first-rollup", "retrigger-second-rollup", "retrigger-sibling-rolled-up", "retrigger-twice"}[(j.Idx+int(c.Seed))%4]
		if s.Src == msSecond {
			s.Src = 30 * msSecond
		}
	}
	if j.Kind == "storm" {
		s.Scenario = []string{"storm-two-families", "storm-one-family"}[(j.Idx+int(c.Seed))%2]
		if s.Src == msSecond {
			s.Src = 10 * msSecond
		}
	}
	if j.Kind == "fault" {
		s.Scenario = []string{"fault-first-rollup", "fault-reopen-before-retry", "fault-second-rollup", "fault-twice"}[(j.Idx/3+int(c.Seed))%4]
		if s.Src == msSecond {
			s.Src = 30 * msSecond
		}
	}
	if j.Kind == "ingest" {
		s.Scenario = []string{"basic", "same-day-hours", "reopen-with-pending", "year-boundary"}[(j.Idx+int(c.Seed))%4]
	}
	n := int(msHour / s.Src)
	s.Gen = blocks.GenOptions{MaxMetrics: 3, MaxPool: 24, MaxSlot: n - 1}
	if s.Src == msSecond {
		s.Gen.MaxPool = c.Pick(6, 24)
		s.Gen.MaxFields = c.Pick(4, 0)
		s.Gen.MaxMetrics = 2
		s.Gen.MaxBaseLen = c.Pick(300, 0)
	}

	// calendar positions
	year := 2019 + rnd.Intn(7)
	month := time.Month(1 + rnd.Intn(12))
	edgeDays := []struct {
		y int
		m time.Month
		d int
	}{{2023, 2, 28}, {2024, 2, 29}, {2022, 4, 30}, {2021, 3, 31}, {2023, 12, 31}, {2024, 1, 1}, {2020, 2, 29}, {2025, 6, 30}}
	day := 1 + rnd.Intn(daysIn(year, month))
	if rnd.Intn(2) == 0 {
		e := edgeDays[rnd.Intn(len(edgeDays))]
		year, month, day = e.y, e.m, e.d
	}
	spot := func(y int, m time.Month, d, h int, kind string) {
		st := hourStart(y, m, d, h)
		for _, sp := range s.Spots {
			if sp.Start == st {
				return
			}
		}
		s.Spots = append(s.Spots, calendarSpot{Start: st, Kind: kind})
	}
	fl := func(f int) string { return fmt.Sprintf("flush:%d", f) }
	steps := func(xs ...string) { s.Steps = append(s.Steps, xs...) }
	nf := func(lo, hi int, f int) {
		for i, n := 0, lo+rnd.Intn(hi-lo+1); i < n; i++ {
			steps(fl(f))
		}
	}
	switch s.Scenario {
	case "basic":
		spot(year, month, day, []int{0, 23, rnd.Intn(24)}[rnd.Intn(3)], "edge-hour")
		nf(1, 3, 0)
		steps("rollup", "rollup")
		nf(1, 2, 0)
		steps("rollup", "reopen", "rollup", fl(0), "rollup", "rollup")
	case "same-day-hours":
		spot(year, month, day, 0, "first-hour-of-day")
		spot(year, month, day, 23, "last-hour-of-day")
		spot(year, month, day, 1+rnd.Intn(22), "hour")
		steps(fl(0), fl(1), fl(2), fl(rnd.Intn(3)), "rollup", fl(1), "rollup", "rollup", "reopen", fl(2), fl(0), "rollup")
	case "adjacent-hours":
		hh := 2 * rnd.Intn(12)
		spot(year, month, day, hh, "even-hour")
		spot(year, month, day, hh+1, "odd-hour-of-the-same-2h-slot")
		steps(fl(0), fl(1), "rollup", fl(1), fl(0), fl(0), "rollup", "reopen", "rollup", fl(1), "rollup", "tcompact")
	case "days-of-one-month":
		dim := daysIn(year, month)
		spot(year, month, 1, rnd.Intn(24), "first-day-of-month")
		spot(year, month, dim, 23, "last-hour-of-month")
		spot(year, month, 1+rnd.Intn(dim), rnd.Intn(24), "day")
		steps(fl(0), fl(1), fl(2), "rollup", "rollup", fl(0), fl(2), "rollup", "reopen", fl(1), "rollup")
	case "month-boundary":
		e := edgeDays[rnd.Intn(4)]
		spot(e.y, e.m, e.d, 23, fmt.Sprintf("last-hour-of-a-%d-day-month", e.d))
		spot(e.y, e.m, e.d+1, 0, "first-hour-of-next-month")
		spot(e.y, e.m, e.d, 0, "first-hour-of-last-day")
		steps(fl(0), fl(1), fl(2), "rollup", fl(0), fl(1), "rollup", "rollup", "reopen", "rollup")
	case "year-boundary":
		y := 2019 + rnd.Intn(6)
		spot(y, 12, 31, 23, "last-hour-of-year")
		spot(y+1, 1, 1, 0, "first-hour-of-year")
		steps(fl(0), fl(1), "rollup", fl(1), fl(0), "rollup", "reopen", fl(0), "rollup", "rollup")
	case "compact-before-rollup":
		spot(year, month, day, rnd.Intn(24), "hour")
		switch rnd.Intn(3) {
		case 0: // the coordinator's probe: flush, flush, compact, rollup
			steps(fl(0), fl(0), "compact:0", "rollup", fl(0), "rollup", "rollup")
		case 1: // a single table moved to level 1 by a compaction job
			steps(fl(0), "force:0", "rollup", fl(0), "rollup")
		default: // one rolled-up and two marked tables merged, then rollup; later a clean round
			steps(fl(0), "rollup", fl(0), fl(0), "compact:0", "rollup", "reopen", fl(0), "rollup")
		}
	case "compact-after-rollup":
		spot(year, month, day, rnd.Intn(24), "hour")
		spot(year, month, day, rnd.Intn(24), "hour")
		steps(fl(0), fl(0), fl(1), "rollup", "compact:0", fl(0), "rollup", "compact:0", "rollup", fl(1), "rollup", "compact:1", "reopen", "rollup", fl(0), "rollup", "force:0")
	case "tick-thresholds":
		spot(year, month, day, rnd.Intn(24), "hour")
		if rnd.Intn(2) == 0 {
			// 2 marked files: below the threshold; 3: rollup; a 4th level-0 table: the tick compacts (4 tables) but does not
			// roll up (1 marked file) -> the marked table is merged away before its rollup (production route to the known defect)
			steps(fl(0), fl(0), "tick", fl(0), "tick", "tick", fl(0), "tick", "rollup")
		} else {
			steps(fl(0), fl(0), fl(0), "tick", "rollup", fl(0), "tick", fl(0), fl(0), "tick", "reopen", "tick", "rollup")
		}
	case "tick-race":
		// >= 4 level-0 tables and >= 3 marked files: one tick starts the compaction job and the rollup job back to back
		spot(year, month, day, rnd.Intn(24), "hour")
		spot(year, month, day, rnd.Intn(24), "hour")
		steps(fl(0), fl(0), fl(0), fl(0), fl(1), "tick", "rollup", fl(0), fl(1), "rollup")
	case "flush-during-rollup":
		spot(year, month, day, rnd.Intn(24), "hour")
		spot(year, month, day, rnd.Intn(24), "hour")
		steps(fl(0), fl(1), "rollup+flush:0", "rollup", fl(0), fl(1), fl(1), "rollup+flush:1", "rollup+flush:0", "reopen", "rollup", "rollup")
	case "target-store-not-open":
		// a rollup job runs while one (or both) of its target stores is not registered: lazily opened stores after a
		// restart, or idle target segments closed by Shard.EvictSegment. The job must skip that target and keep its marks;
		// once the store is there again the files go in, exactly once
		spot(year, month, day, rnd.Intn(24), "hour")
		spot(year, month, day, rnd.Intn(24), "hour")
		mode := []string{"reopen-lazy", "reopen-evict"}[rnd.Intn(2)]
		k1 := []string{"month", "year", "month", "none"}[rnd.Intn(4)]
		k2 := []string{"month", "year", "year", "none"}[rnd.Intn(4)]
		steps(fl(0), fl(1), "rollup", fl(0), fl(1), mode+":"+k1, "rollup", "rollup", fl(0), "reopen", "rollup",
			fl(1), fl(0), []string{"reopen-lazy", "reopen-evict"}[rnd.Intn(2)]+":"+k2, "rollup", "reopen-lazy:"+k1, "rollup", "rollup", "reopen", "rollup")
	case "reopen-with-pending":
		spot(year, month, day, 23, "last-hour-of-day")
		spot(year, month, day, 0, "first-hour-of-day")
		steps(fl(0), fl(1), "reopen", "rollup", fl(0), "reopen", fl(0), "reopen", "rollup", "rollup", "reopen", "rollup")
	case "target-compaction":
		spot(year, month, day, rnd.Intn(24), "hour")
		spot(year, month, day, rnd.Intn(24), "hour")
		steps(fl(0), "rollup", fl(0), "rollup", fl(1), "rollup", "tcompact", "rollup", fl(0), fl(1), "rollup", "tcompact", "reopen", fl(1), "rollup")
	// crash histories: family 0 is a filler hour of the same day created first, so the families that are rolled up
	// are the 2nd/3rd of their store (kv family ids 2, 3) while the month/year target families are the 1st of theirs
	// (id 1): source family id != target family id, a reference recorded under the wrong id cannot hide
	// shutdown histories: exactly one source family carries rollup marks when the engine is closed under its job
	case "shutdown-at-first-of-two-targets":
		spot(year, month, day, rnd.Intn(24), "hour")
		steps(fl(0), fl(0), "shutdown")
	case "shutdown-first-rollup":
		spot(year, month, day, 12, "filler-hour")
		spot(year, month, day, []int{0, 23, 5}[rnd.Intn(3)], "hour")
		steps(fl(1), fl(1), "shutdown")
	case "shutdown-second-rollup":
		spot(year, month, day, rnd.Intn(24), "hour")
		steps(fl(0), "rollup", fl(0), fl(0), "shutdown")
	case "shutdown-sibling-rolled-up":
		hh := 2 + 2*rnd.Intn(11)
		spot(year, month, day, hh, "even-hour")
		spot(year, month, day, hh+1, "odd-hour-of-the-same-2h-slot")
		steps(fl(1), fl(0), "rollup", fl(1), "shutdown")
	// retrigger histories: exactly one source family carries rollup marks when further triggers arrive under its running job
	case "retrigger-first-rollup":
		spot(year, month, day, 12, "filler-hour")
		spot(year, month, day, []int{0, 23, 5}[rnd.Intn(3)], "hour")
		nf(1, 3, 1)
		steps("retrigger", "rollup", fl(1), "rollup", "reopen", "rollup")
	case "retrigger-second-rollup":
		spot(year, month, day, rnd.Intn(24), "hour")
		steps(fl(0), "rollup")
		nf(1, 2, 0)
		steps("retrigger", "rollup", "tcompact", "reopen", "rollup")
	case "retrigger-sibling-rolled-up":
		hh := 2 + 2*rnd.Intn(11)
		spot(year, month, day, hh, "even-hour")
		spot(year, month, day, hh+1, "odd-hour-of-the-same-2h-slot")
		steps(fl(1), fl(0), "rollup", fl(1), "retrigger", "rollup", fl(0), fl(0), "retrigger", "rollup")
	case "retrigger-twice":
		spot(year, month, day, rnd.Intn(24), "hour")
		steps(fl(0), "retrigger", fl(0), "retrigger", "rollup", "reopen", fl(0), "retrigger", "rollup")
	// fault histories: exactly one source family carries rollup marks when a job runs into the failing step; the step kind
	// and the target type are stratified over the history index (14 consecutive histories = all 14 combinations)
	case "fault-first-rollup", "fault-reopen-before-retry", "fault-second-rollup", "fault-twice":
		combo := j.Idx + int(c.Seed)
		typ := []string{"month", "year"}[combo%2]
		other := []string{"year", "month"}[combo%2]
		kind := faultKinds[(combo/2)%len(faultKinds)]
		fr := func(typ, kind string) string { return "faultrollup:" + typ + "/" + kind }
		spot(year, month, day, 12, "filler-hour")
		spot(year, month, day, []int{0, 23, 5, 1 + rnd.Intn(22)}[rnd.Intn(4)], "hour")
		switch s.Scenario {
		case "fault-first-rollup":
			nf(1, 3, 1)
			steps(fr(typ, kind), "rollup", "rollup", fl(1), "rollup", "reopen", "rollup")
		case "fault-reopen-before-retry":
			nf(1, 2, 1)
			steps(fr(typ, kind), "reopen", "rollup", "rollup", fl(1), "rollup")
		case "fault-second-rollup":
			steps(fl(1), "rollup")
			nf(1, 2, 1)
			steps(fr(typ, kind))
			if rnd.Intn(2) == 0 {
				steps(fl(1))
			}
			steps("rollup", "tcompact", "reopen", "rollup")
		default: // a second failed job: on the other target (if configured) or the retry on the same one, with another step kind
			nf(1, 2, 1)
			steps(fr(typ, kind), fr(other, faultKinds[(combo/2+1+rnd.Intn(len(faultKinds)-1))%len(faultKinds)]))
			if rnd.Intn(2) == 0 {
				steps("reopen")
			}
			steps("rollup", "rollup", fl(1), fr(typ, faultKinds[rnd.Intn(len(faultKinds))]), "rollup")
		}
	case "storm-two-families":
		spot(year, month, day, rnd.Intn(24), "hour")
		spot(year, month, day, rnd.Intn(24), "hour")
		steps(fl(0), fl(1), "storm:0", "rollup", fl(0), "storm:1", "rollup", "reopen", "rollup")
	case "storm-one-family":
		spot(year, month, day, rnd.Intn(24), "hour")
		steps(fl(0), "storm:0", "rollup", fl(0), fl(0), "storm:0", "storm:0", "rollup", "tcompact", "rollup")
	case "crash-first-rollup":
		spot(year, month, day, 12, "filler-hour")
		spot(year, month, day, []int{0, 23}[rnd.Intn(2)], "edge-hour")
		steps(fl(1), fl(1), "crash")
	case "crash-second-rollup":
		hh := 1 + rnd.Intn(23)
		spot(year, month, day, 0, "filler-hour")
		spot(year, month, day, hh, "hour")
		steps(fl(1), fl(0), "rollup", fl(1), fl(1), "crash")
	case "crash-compacted-before-rollup":
		// the marked tables were merged by a compaction before the (crashing) rollup runs: the job reads them by file number
		hh := 1 + rnd.Intn(23)
		spot(year, month, day, 0, "filler-hour")
		spot(year, month, day, hh, "hour")
		steps(fl(1), fl(1), "compact:1", "crash")
	case "crash-moved-to-level1-before-rollup":
		// one marked table moved to level 1 by a forced job, a second one still on level 0
		spot(year, month, day, 12, "filler-hour")
		spot(year, month, day, []int{0, 23}[rnd.Intn(2)], "edge-hour")
		steps(fl(1), "force:1", fl(1), "crash")
	case "crash-mixed-compacted-and-level0":
		// a rolled-up table and two marked tables merged, one more marked table on level 0, another family untouched
		hh := 2 + 2*rnd.Intn(11)
		spot(year, month, day, 0, "filler-hour")
		spot(year, month, day, hh, "even-hour")
		spot(year, month, day, hh+1, "odd-hour-of-the-same-2h-slot")
		steps(fl(1), "rollup", fl(1), fl(1), "compact:1", fl(1), fl(2), "crash")
	case "crash-two-families":
		hh := 2 + 2*rnd.Intn(11)
		spot(year, month, day, 0, "filler-hour")
		spot(year, month, day, hh, "even-hour")
		spot(year, month, day, hh+1, "odd-hour-of-the-same-2h-slot")
		steps(fl(1), fl(2), "rollup", fl(1), fl(2), fl(0), "crash")
	default: // random walk
		nSpots := 1 + rnd.Intn(4)
		for len(s.Spots) < nSpots {
			switch rnd.Intn(3) {
			case 0:
				spot(year, month, day, rnd.Intn(24), "hour")
			case 1:
				spot(year, month, 1+rnd.Intn(daysIn(year, month)), rnd.Intn(24), "day-of-month")
			default:
				spot(year, time.Month(1+rnd.Intn(12)), 1+rnd.Intn(28), rnd.Intn(24), "day-of-year")
			}
		}
		steps(fl(0))
		for i, n := 0, 8+rnd.Intn(10); i < n; i++ {
			switch r := rnd.Intn(20); {
			case r < 8:
				steps(fl(rnd.Intn(nSpots)))
			case r < 12:
				steps("rollup")
			case r < 13:
				steps(fmt.Sprintf("rollup+flush:%d", rnd.Intn(nSpots)))
			case r < 14:
				steps("tick")
			case r < 15:
				steps(fmt.Sprintf("compact:%d", rnd.Intn(nSpots)))
			case r < 16:
				steps("tcompact")
			case r < 17:
				steps(fmt.Sprintf("force:%d", rnd.Intn(nSpots)))
			case r < 18:
				steps([]string{"reopen-lazy", "reopen-evict"}[rnd.Intn(2)]+":"+[]string{"month", "year", "none"}[rnd.Intn(3)], "rollup")
			default:
				steps("reopen")
			}
		}
		steps("rollup", "rollup")
	}
	// thorough tier only: blocks with thousands of series (several roaring containers, tables far beyond the 256 KiB
	// write buffer: the crash part then also sees images inside the write of a target table)
	if !c.Quick() && (j.Kind == "direct" && j.Idx%750 == 11 || j.Kind == "crash" && j.Idx%100 == 50) {
		s.Scenario += "+big-blocks"
		s.Src = 10 * msSecond
		s.Gen = blocks.GenOptions{MaxMetrics: 2, MaxPool: 24, MaxSlot: 359, MaxFields: 3, MaxBaseLen: 5, BigSeries: []int{3000, 66000, 20000}[j.Idx%3]}
		if j.Kind == "crash" {
			s.Gen.BigSeries = 20000
		} else {
			s.Steps = []string{"flush:0", "flush:0", "rollup", "flush:0", "rollup", "rollup", "reopen", "rollup"}
		}
	}
	for _, sp := range s.Spots {
		s.SpotsAt = append(s.SpotsAt, fmtTS(sp.Start)+" ("+sp.Kind+")")
	}
	return s
}

// runRepro is the standalone minimal reproduction of the known finding
// C04/source-file-compacted-before-rollup/contribution-lost (usage: TZ=UTC LOG_LEVEL=fatal bin/c04 repro):
// one source family (10 s, 2024-02-29 23:00 UTC), flush, flush, Family.Compact, Store.ForceRollup.
func runRepro() {
	os.Args = []string{os.Args[0], "quick"}
	c := core.New("C04", "exploration")
	rnd := c.Rand("repro")
	spec := &histSpec{Idx: 0, Kind: "direct", Scenario: "repro", TZ: os.Getenv("TZ"), Seed: c.Seed, Tier: "quick", Src: 10 * msSecond, Month: 5 * msMinute, Year: msHour,
		Spots: []calendarSpot{{Start: hourStart(2024, 2, 29, 23), Kind: "last-hour-of-leap-february"}}, Steps: []string{"flush:0", "flush:0", "compact:0", "rollup"},
		Gen: blocks.GenOptions{MaxMetrics: 1, MaxPool: 4, MaxSlot: 359}}
	dir, err := os.MkdirTemp(os.Getenv("VERIF_SCRATCH"), "c04-repro-")
	if err != nil {
		fmt.Println(err)
		os.Exit(3)
	}
	defer os.RemoveAll(dir)
	r := runHistory(rnd, spec, dir)
	fmt.Printf("steps: %v\nsource family: %s, intervals %s -> %s, %s\n", spec.Steps, fmtTS(spec.Spots[0].Start), ivName(spec.Src), ivName(spec.Month), ivName(spec.Year))
	for _, f := range spec.Files {
		fmt.Println("  ", f)
	}
	keys := make([]string, 0, len(r.Counters))
	for k := range r.Counters {
		keys = append(keys, k)
	}
	sort.Strings(keys)
	for _, k := range keys {
		if strings.HasPrefix(k, "target_cells_compared") || strings.HasPrefix(k, "rollup_jobs") || strings.HasPrefix(k, "known_defect") || strings.HasPrefix(k, "marked_source") {
			fmt.Printf("  %-60s %d\n", k, r.Counters[k])
		}
	}
	if r.Fatal != "" {
		fmt.Println("harness error:", r.Fatal)
		os.Exit(3)
	}
	if len(r.Violations) == 0 {
		fmt.Println("RESULT: both targets hold the aggregate of both flushed files - the defect is not present in this tree")
		os.Exit(0)
	}
	for _, v := range r.Violations {
		fmt.Printf("RESULT: %s\n  %s\n", v.Class, v.Message)
	}
	os.Exit(1)
}

func head(s string, n int) string {
	if len(s) > n {
		return s[:n]
	}
	return s
}
