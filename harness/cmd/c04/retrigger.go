package main

import (
	"fmt"
	"path/filepath"
	"runtime"
	"strconv"
	"strings"
	"sync"
	"sync/atomic"
	"time"

	"github.com/lindb/lindb/kv"
	"github.com/lindb/lindb/kv/table"
	"github.com/lindb/lindb/kv/version"
	"github.com/lindb/lindb/pkg/timeutil"
	"github.com/lindb/lindb/tsdb"
	"github.com/lindb/lindb/verif/internal/seam"
)

// Repeated-trigger part ("A source file contributes to a given target exactly once, also when the rollup is triggered
// repeatedly"). The plain histories trigger a rollup, wait for quiescence and trigger again; here further triggers
// arrive WHILE a job of the same source family runs.
//
// Step "retrigger" (directed schedule; the harness is the scheduler at two points of the real code):
//
//  1. exactly one source family F carries rollup marks. F's version.FamilyVersion is wrapped (kv.VerifWrapFamilyVersion,
//     hook file kv/verif_hooks_c04_rollupgate.go) by a gate that forwards everything and sees every read of the live
//     rollup files; the kv/table file seam parks rollup job #1 (started by Store.ForceRollup) inside its work on a
//     target family, at the creation of an output table (nothing of that target is committed yet).
//  2. while job #1 is parked, 1-3 further triggers (Store.ForceRollup / family.rollup) are issued from goroutines of
//     their own. Each of them either returns (the running job makes it a no-op: "refused") or reads F's live rollup
//     files from a goroutine that is not the running job - such a caller is held at the gate, after the read (it keeps
//     what it read, like a goroutine descheduled right behind the call) or before it.
//  3. job #1 is released; the harness waits until the job's goroutine no longer exists (logical: goroutine dump), i.e.
//     target commit, source commit, reference cleanup and the reset of the busy flag are all done; optionally a new file
//     is flushed into F now.
//  4. the held callers continue; quiescence; the ordinary oracle of a forced rollup step: every file whose mark is gone
//     is in each target exactly once (values, all field types), marks <=> data, references <=> data.
//
// Step "storm" (unshaped): several goroutines call ForceRollup / family.rollup repeatedly while files are flushed into
// the source families; every read of the live rollup files is followed by a seeded number of scheduler yields. Same
// oracle at quiescence.

const (
	ctxRetrigger = "trigger-delayed-past-the-end-of-the-running-job"
	ctxStorm     = "concurrent-repeated-triggers"
)

func curGID() int64 {
	var buf [64]byte
	n := runtime.Stack(buf[:], false)
	f := strings.Fields(string(buf[:n])) // "goroutine 123 [running]:"
	if len(f) < 2 {
		return -1
	}
	id, err := strconv.ParseInt(f[1], 10, 64)
	if err != nil {
		return -1
	}
	return id
}

func allStacks() string {
	buf := make([]byte, 1<<20)
	for {
		n := runtime.Stack(buf, true)
		if n < len(buf) {
			return string(buf[:n])
		}
		buf = make([]byte, 2*len(buf))
	}
}

func goroutineAlive(gid int64) bool {
	st := allStacks()
	tag := fmt.Sprintf("goroutine %d [", gid)
	return strings.HasPrefix(st, tag) || strings.Contains(st, "\n"+tag)
}

// rollupGate wraps the FamilyVersion of one source family. Everything is forwarded to the real family version.
type rollupGate struct {
	version.FamilyVersion

	mu        sync.Mutex
	armed     bool
	readFirst bool  // a held caller reads the real list before it is held (it returns what it read then)
	jobGID    int64 // goroutine of the running (parked) rollup job
	release   chan struct{}
	event     chan struct{}
	heldNow   int
	heldTotal int
	readsJob  int // reads of the live rollup files by the running job's goroutine while the gate was armed
	readsIdle int // reads while the gate was not armed

	yields []int // storm mode: scheduler yields after a read
	next   atomic.Int64
}

func (g *rollupGate) arm(gid int64) {
	g.mu.Lock()
	g.armed, g.jobGID = true, gid
	g.mu.Unlock()
}

func (g *rollupGate) disarm() {
	g.mu.Lock()
	g.armed = false
	g.mu.Unlock()
}

func (g *rollupGate) GetLiveRollupFiles() map[table.FileNumber][]timeutil.Interval {
	if g.yields != nil {
		rs := g.FamilyVersion.GetLiveRollupFiles()
		for i, n := 0, g.yields[int(g.next.Add(1))%len(g.yields)]; i < n; i++ {
			runtime.Gosched()
		}
		return rs
	}
	gid := curGID()
	g.mu.Lock()
	if !g.armed || gid == g.jobGID {
		if g.armed {
			g.readsJob++
		} else {
			g.readsIdle++
		}
		g.mu.Unlock()
		return g.FamilyVersion.GetLiveRollupFiles()
	}
	readFirst, rel := g.readFirst, g.release
	g.mu.Unlock()
	var rs map[table.FileNumber][]timeutil.Interval
	if readFirst {
		rs = g.FamilyVersion.GetLiveRollupFiles()
	}
	g.mu.Lock()
	g.heldNow++
	g.heldTotal++
	g.mu.Unlock()
	g.event <- struct{}{}
	<-rel
	g.mu.Lock()
	g.heldNow--
	g.mu.Unlock()
	if !readFirst {
		rs = g.FamilyVersion.GetLiveRollupFiles()
	}
	return rs
}

func (h *hist) retriggerStep() {
	res := h.res
	pending := map[int]bool{}
	for _, f := range h.files {
		for _, st := range f.Status {
			if st == stPending {
				pending[f.Fam] = true
			}
		}
	}
	if len(pending) != 1 {
		res.Fatal = fmt.Sprintf("retrigger step needs exactly one source family with rollup marks, have %d", len(pending))
		return
	}
	var src *srcFamily
	for fi := range pending {
		src = h.fams[fi]
	}
	rnd := h.rnd
	gateAt := 1 + rnd.Intn(len(h.m.targets))
	nTrig := 1 + rnd.Intn(3)
	kinds := make([]int, nTrig)
	for i := range kinds {
		kinds[i] = rnd.Intn(3) // 0,1: Store.ForceRollup; 2: family.rollup
	}
	readFirst := rnd.Intn(4) != 0
	flushBeforeRelease := rnd.Intn(3) == 0
	h.rollupStepFull(trigForce, ctxRetrigger, func() { h.retriggerSchedule(src, gateAt, kinds, readFirst, flushBeforeRelease) }, nil)
}

func (h *hist) retriggerSchedule(src *srcFamily, gateAt int, kinds []int, readFirst, flushBeforeRelease bool) {
	res := h.res
	nTrig := len(kinds)
	gate := &rollupGate{readFirst: readFirst, release: make(chan struct{}), event: make(chan struct{}, 4*nTrig+4)}
	restore := kv.VerifWrapFamilyVersion(src.fam, func(fv version.FamilyVersion) version.FamilyVersion {
		gate.FamilyVersion = fv
		return gate
	})
	parkedIsJob := false
	cg := &createGate{gateAt: gateAt, reached: make(chan struct{}), release: make(chan struct{})}
	cg.onPark = func() {
		buf := make([]byte, 1<<16)
		st := string(buf[:runtime.Stack(buf, false)])
		parkedIsJob = strings.Contains(st, "kv.(*family).doRollupWork")
		gate.arm(curGID())
	}
	for _, iv := range h.m.targets {
		cg.prefixes = append(cg.prefixes, tsdb.ShardIntervalSegmentPath(dbName, shardID, timeutil.Interval(iv))+string(filepath.Separator))
	}
	seam.InstallKV(cg, nil)
	jobReleased, heldReleased := false, false
	bail := func(msg string) {
		// watchdog path only: let everything run, the history ends as a harness error (inconclusive)
		gate.disarm()
		if !jobReleased {
			close(cg.release)
		}
		if !heldReleased {
			close(gate.release)
		}
		seam.Restore()
		res.Fatal = "retrigger step: " + msg
	}

	// trigger #1
	for _, st := range h.srcStores() {
		st.ForceRollup()
	}
	select {
	case <-cg.reached:
	case <-time.After(2 * time.Minute):
		bail("the rollup job never reached the creation of a target table")
		return
	}
	if !parkedIsJob {
		bail("the goroutine parked at the creation of a target table is not inside doRollupWork")
		return
	}
	res.count("retrigger.jobs_parked_inside_their_target_work", 1)
	if kv.VerifFamilyBusy(src.fam) {
		res.count("retrigger.source_family_busy_while_job_parked", 1)
	}

	// further triggers while job #1 is parked
	returned := make(chan int, nTrig)
	for i, k := range kinds {
		go func(i, k int) {
			if k == 2 {
				kv.VerifFamilyRollup(src.fam)
			} else {
				src.store.ForceRollup()
			}
			returned <- i
			gate.event <- struct{}{}
		}(i, k)
	}
	nReturned := 0
	watchdog := time.After(2 * time.Minute)
	for {
		for drained := false; !drained; {
			select {
			case <-returned:
				nReturned++
			default:
				drained = true
			}
		}
		gate.mu.Lock()
		held := gate.heldNow
		gate.mu.Unlock()
		if nReturned+held == nTrig {
			break
		}
		select {
		case <-gate.event:
		case <-watchdog:
			bail(fmt.Sprintf("of %d triggers issued while the job was parked %d returned and %d are held at the gate, the others neither", nTrig, nReturned, held))
			return
		}
	}
	gate.mu.Lock()
	held := gate.heldNow
	gate.mu.Unlock()
	res.count("retrigger.triggers_issued_while_job_parked", nTrig)
	res.count("retrigger.triggers_refused_while_job_running", nReturned)
	if readFirst {
		res.count("retrigger.callers_held_after_reading_live_rollup_files_outside_the_running_job", held)
	} else {
		res.count("retrigger.callers_held_before_reading_live_rollup_files_outside_the_running_job", held)
	}

	// job #1 runs to its very end
	jobReleased = true
	close(cg.release)
	start := time.Now()
	for goroutineAlive(gate.jobGID) {
		if time.Since(start) > 2*time.Minute {
			bail("the released rollup job's goroutine still exists after two minutes")
			return
		}
		time.Sleep(200 * time.Microsecond)
	}
	gate.disarm()
	if kv.VerifFamilyBusy(src.fam) {
		// nobody but a held caller could have started another job
		res.count("retrigger.source_family_busy_although_job_gone_and_callers_held", 1)
	}
	res.count("retrigger.jobs_finished_completely_before_the_held_callers_continued", 1)
	if flushBeforeRelease {
		if !h.flushDirect(src) {
			bail("flush between the end of the job and the release of the held callers failed: " + res.Fatal)
			return
		}
		res.count("retrigger.flushes_between_end_of_job_and_release_of_held_callers", 1)
	}

	// the delayed callers continue
	heldReleased = true
	close(gate.release)
	watchdog = time.After(2 * time.Minute)
	for nReturned < nTrig {
		select {
		case <-returned:
			nReturned++
		case <-watchdog:
			bail("a released trigger did not return")
			return
		}
	}
	h.waitAllIdle()
	seam.Restore()
	restore()
	gate.mu.Lock()
	res.count("retrigger.live_rollup_file_reads_by_the_running_job", gate.readsJob)
	gate.mu.Unlock()
	res.count("retrigger.schedules_completed", 1)
}

// stormStep: unshaped repeated triggers from several goroutines while flushes arrive.
func (h *hist) stormStep(arg int) {
	res := h.res
	rnd := h.rnd
	nG := 2 + rnd.Intn(5)
	nCalls := 2 + rnd.Intn(7)
	nFlush := 1 + rnd.Intn(3)
	flushInto := make([]int, nFlush)
	for i := range flushInto {
		flushInto[i] = arg
		if rnd.Intn(3) == 0 {
			flushInto[i] = rnd.Intn(len(h.fams))
		}
	}
	var restores []func()
	for _, f := range h.fams {
		g := &rollupGate{yields: make([]int, 64)}
		for i := range g.yields {
			g.yields[i] = rnd.Intn(40)
		}
		restores = append(restores, kv.VerifWrapFamilyVersion(f.fam, func(fv version.FamilyVersion) version.FamilyVersion {
			g.FamilyVersion = fv
			return g
		}))
	}
	kinds := make([][]int, nG)
	for i := range kinds {
		kinds[i] = make([]int, nCalls)
		for j := range kinds[i] {
			kinds[i][j] = rnd.Intn(4)
		}
	}
	var wg sync.WaitGroup
	var calls atomic.Int64
	stores := h.srcStores()
	fams := h.fams
	h.rollupStepFull(trigForce, ctxStorm, func() {
		for i := 0; i < nG; i++ {
			wg.Add(1)
			go func(i int) {
				defer wg.Done()
				for j, k := range kinds[i] {
					if k == 3 {
						kv.VerifFamilyRollup(fams[(i+j)%len(fams)].fam)
					} else {
						stores[(i+j)%len(stores)].ForceRollup()
					}
					calls.Add(1)
					runtime.Gosched()
				}
			}(i)
		}
	}, func() {
		h.concurrent = true
		for _, fi := range flushInto {
			if !h.flushDirect(h.fams[fi]) {
				break
			}
			res.count("storm.flushes_while_triggers_arrive", 1)
		}
		h.concurrent = false
		wg.Wait()
	})
	for _, r := range restores {
		r()
	}
	res.count("storm.trigger_calls", int(calls.Load()))
	res.count("storm.trigger_goroutines", nG)
	res.count("storm.steps_completed", 1)
}
