package main

// Process isolation: everything that runs lindb code happens in a child process (a re-execution of this binary).
// A fatal error in lindb code (stack overflow, concurrent map access, ...) cannot be recovered in-process and would
// take the evidence with it; the parent turns such a death into a verdict. Each worker writes the text it is about
// to hand to sql.Parse into a slot file *before* the call, so the parent can name the in-flight inputs.

import (
	"encoding/binary"
	"fmt"
	"os"
	"path/filepath"
	"regexp"
	"strings"
	"time"

	"github.com/lindb/lindb/verif/internal/core"
)

const numSlots = 64

// slots is the in-flight log of the child (nil in case no slot directory was given).
type slots struct {
	free  chan int
	files []*os.File
}

func openSlots(dir string) *slots {
	if dir == "" {
		return nil
	}
	s := &slots{free: make(chan int, numSlots)}
	for i := 0; i < numSlots; i++ {
		f, err := os.OpenFile(filepath.Join(dir, fmt.Sprintf("slot-%02d", i)), os.O_CREATE|os.O_RDWR, 0o644)
		if err != nil {
			return nil
		}
		s.files = append(s.files, f)
		s.free <- i
	}
	return s
}

func (s *slots) acquire() int {
	if s == nil {
		return -1
	}
	return <-s.free
}

func (s *slots) release(i int) {
	if s == nil || i < 0 {
		return
	}
	s.note(i, "")
	s.free <- i
}

// note records what slot i is about to run (empty = idle).
func (s *slots) note(i int, what string) {
	if s == nil || i < 0 {
		return
	}
	if len(what) > 16<<10 {
		what = what[:16<<10]
	}
	buf := make([]byte, 4+len(what))
	binary.LittleEndian.PutUint32(buf, uint32(len(what)))
	copy(buf[4:], what)
	_, _ = s.files[i].WriteAt(buf, 0)
}

func readSlots(dir string) []string {
	var out []string
	for i := 0; i < numSlots; i++ {
		data, err := os.ReadFile(filepath.Join(dir, fmt.Sprintf("slot-%02d", i)))
		if err != nil || len(data) < 4 {
			continue
		}
		n := int(binary.LittleEndian.Uint32(data))
		if n == 0 || 4+n > len(data) {
			continue
		}
		out = append(out, string(data[4:4+n]))
	}
	return out
}

var lindbFrame = regexp.MustCompile(`github\.com/lindb/lindb/(sql|query|models|pkg/timeutil)[^\s(]*`)

// parentMain runs the engine in a child and reports for it if it dies.
func parentMain() {
	base := os.Getenv("VERIF_SCRATCH")
	if base == "" {
		base = os.TempDir()
	}
	dir, err := os.MkdirTemp(base, "verif-C17-iso-")
	if err != nil {
		fmt.Println("INCONCLUSIVE property=C17 cannot create scratch:", err)
		os.Exit(2)
	}
	defer os.RemoveAll(dir)
	outFile := filepath.Join(dir, "child.out")
	res := core.RunChild("", os.Args[1:], []string{"C17_CHILD=1", "C17_SLOTS=" + dir}, 8*time.Hour, outFile)
	out, _ := os.ReadFile(outFile)
	if !res.TimedOut && strings.Contains(string(out), "SUMMARY property=C17") {
		// the child reached its verdict: pass it on unchanged
		_, _ = os.Stdout.Write(out)
		_ = os.RemoveAll(dir)
		os.Exit(res.ExitCode)
	}
	// abnormal end: no verdict was written
	c := core.New("C17", "exploration")
	c.SetRule("child process died before reaching a verdict")
	text := string(out)
	head := text
	if i := strings.Index(text, "fatal error:"); i >= 0 {
		head = text[i:]
	} else if i := strings.Index(text, "panic:"); i >= 0 {
		head = text[i:]
	}
	if len(head) > 6000 {
		head = head[:6000]
	}
	inflight := readSlots(dir)
	switch {
	case res.TimedOut:
		c.Inconclusive("child did not finish within the watchdog")
	case lindbFrame.MatchString(head):
		reason := "process died"
		if i := strings.Index(head, "\n"); i > 0 {
			reason = strings.TrimSpace(head[:i])
		}
		frame := lindbFrame.FindString(head)
		pkg := "sql"
		if m := lindbFrame.FindStringSubmatch(head); len(m) > 1 {
			pkg = strings.ReplaceAll(m[1], "/", "-")
		}
		c.Violation("C17/fatal/process-dies-in-lindb-"+pkg, fmt.Sprintf("lindb code killed the process (%s; first lindb frame %s); %d inputs were in flight", reason, frame, len(inflight)),
			map[string]interface{}{"in_flight_inputs": inflight, "crash_head": head, "exit_code": res.ExitCode})
	default:
		c.Inconclusive("child died without a verdict (exit %d): %s", res.ExitCode, strings.ReplaceAll(trunc(head, 300), "\n", " | "))
	}
	_ = os.RemoveAll(dir)
	c.Finish()
}
