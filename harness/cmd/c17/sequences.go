package main

// Request HISTORIES on one leaf: a leaf node serves many requests one after another, so whatever its task processor
// keeps between requests (pooled statement objects, per-processor scratch statements, caches) must not leak from one
// request into the next. Sequences of metadata-suggest and data requests go through one real
// query.NewLeafTaskProcessor(...).Process, the pipeline of each request is completed before the next arrives, and the
// oracle is: what the leaf executes for request N+1 of a history equals what a leaf executes for request N+1 alone
// (= the payload decoded into a fresh statement, which is what a leaf with no history does).
// This phase runs on one goroutine, so the witness (the preceding requests) is the actual history of the processor.

import (
	"fmt"

	"github.com/lindb/common/pkg/encoding"

	"github.com/lindb/lindb/models"
	protoCommonV1 "github.com/lindb/lindb/proto/gen/v1/common"
	"github.com/lindb/lindb/sql/stmt"
)

type seqRequest struct {
	Text     string // SQL text, or a rendering of a model statement
	Req      *protoCommonV1.TaskRequest
	Query    *stmt.Query          // what a leaf without history executes (fresh decode), data request
	Metadata *stmt.MetricMetadata // same for a metadata suggest request
}

func (s *seqRequest) kind() string {
	if s.Metadata != nil {
		return "metadata"
	}
	return "query"
}

// directed statement pairs: every guarded/omitted member of the wire form present in one request, absent in the next
var directedHistories = [][]string{
	{
		"show tag values from cpu with key=host where dc='sh' and rack in ('r1','r2') limit 10",
		"show tag values from cpu with key=host",
		"show tag keys from cpu",
		"show fields from cpu",
		"show tag values from mem on 'ns' with key=ip where host like 'a*'",
		"show metrics where metric='c' limit 3",
		"show namespaces",
		"show tag values from cpu with key=host limit 7",
	},
	{
		"show metrics on 'ns' where metric='abc' limit 10",
		"show metrics",
		"show namespaces where namespace='n' limit 2",
		"show namespaces",
		"show tag values from 'cpu' on 'ns' with key = 'key1' where key1='value1' and key2 in ('a','') limit 10",
		"show fields from 'cpu'",
		"show tag keys from 'cpu' on 'ns'",
		"show tag keys from mem",
	},
	{
		"explain select max(sum(c)+c*d/e) as x from memory on 'ns' where time>'20190410 00:00:00' and time<'20190410 10:00:00' and (host='a' or ip in ('1','2')) group by host,time(1m) having (sum(c) > 100.5 or max(d) <= 3) order by sum(c) desc limit 5",
		"select f from cpu where time>'20190410 00:00:00' and time<'20190410 10:00:00'",
		"select * from cpu where time>'20190410 00:00:00' and time<'20190410 10:00:00' limit 0",
		"select f from cpu where host='a' and time>'20190410 00:00:00' and time<'20190410 10:00:00' group by host having f > 1",
		"select g from mem where time>'20190411 00:00:00' and time<'20190412 10:00:00' group by time()",
		"show tag values from cpu with key=host where dc='sh'",
		"select f from cpu where time>'20190410 00:00:00' and time<'20190410 10:00:00'",
		"show tag values from cpu with key=host",
	},
}

// newSeqRequest turns a statement into the request a broker sends to leaf 0, through the real MakePlan.
func newSeqRequest(st stmt.Statement, text string, topo *topology, reqID string, raw bool) (*seqRequest, error) {
	out := &seqRequest{Text: text}
	switch x := st.(type) {
	case *stmt.MetricMetadata:
		if raw {
			// the payload as MarshalJSON gives it, without MetadataContext's limit clamp (limit 0 is then omitted)
			payload, _ := x.MarshalJSON()
			plan := &models.PhysicalPlan{Database: topo.Database, Targets: copyTargets(topo.Leafs), Receivers: []string{curNode.Indicator()}}
			out.Req = &protoCommonV1.TaskRequest{RequestID: reqID, RequestType: protoCommonV1.RequestType_Metadata,
				PhysicalPlan: encoding.JSONMarshal(plan), Payload: payload}
		} else {
			h, err := metadataHop(cloneMetadata(x), topo.leafPlans, topo.Database, reqID)
			if err != nil {
				return nil, err
			}
			out.Req = h.Received[0].Req
		}
		m, err, p := unmarshalMetadata(out.Req.Payload)
		if err != nil || p != nil {
			return nil, fmt.Errorf("fresh decode: %v %v", err, p)
		}
		out.Metadata = m
	case *stmt.Query:
		h, err := rootHop(cloneQuery(x), topo, true, reqID)
		if err != nil {
			return nil, err
		}
		out.Req = h.Received[0].Req
		q, err, p := unmarshalQuery(out.Req.Payload)
		if err != nil || p != nil {
			return nil, fmt.Errorf("fresh decode: %v %v", err, p)
		}
		out.Query = q
	default:
		return nil, fmt.Errorf("statement kind %T", st)
	}
	return out, nil
}

func (e *engine) runLeafSequences() {
	r := e.c.Rand("leaf-sequences")
	a := newAcc()
	g := &sqlGen{r: r, maxDepth: 3}
	tg := &treeGen{r: r}
	topo := genTopology(r)
	topo.Leafs = topo.Leafs[:1] // one leaf: every request of a history goes to the same processor
	cl := newCluster()
	nSeq := e.scaled(e.c.Pick(1500, 150_000))
	const rounds = 3 // a sync.Pool may drop objects: every history is replayed a few times

	build := func(i int) []*seqRequest {
		var seq []*seqRequest
		add := func(st stmt.Statement, text string, raw bool) {
			a.seq++
			rq, err := newSeqRequest(st, text, topo, fmt.Sprintf("seq-%d-%d", i, a.seq), raw)
			if err != nil {
				a.count("leafseq_request_not_buildable", 1)
				return
			}
			seq = append(seq, rq)
		}
		if i < len(directedHistories) {
			for _, text := range directedHistories[i] {
				st, err, _ := safeParse(text)
				if err != nil || st == nil {
					e.c.Inconclusive("directed history statement is not accepted by the parser: %q (%v)", text, err)
					continue
				}
				add(st, text, false)
			}
			return seq
		}
		n := 3 + r.Intn(6)
		for len(seq) < n {
			switch x := r.Intn(100); {
			case x < 45:
				cs := g.metadata()
				if st, err, _ := safeParse(cs.Text); err == nil && st != nil {
					add(st, cs.Text, r.Intn(4) == 0)
				}
			case x < 75:
				cs := g.query()
				if st, err, _ := safeParse(cs.Text); err == nil && st != nil {
					add(st, cs.Text, false)
				}
			case x < 90:
				m := tg.metadata(r.Intn(3))
				add(m, fmt.Sprintf("model %+v condition=%s", *m, rewriteOf(m.Condition)), r.Intn(2) == 0)
			default:
				qr := tg.query(r.Intn(3))
				add(qr, "model "+describeQuery(qr), false)
			}
		}
		return seq
	}

	var previous []*seqRequest // the history replayed before the current one
	for i := 0; i < nSeq; i++ {
		seq := build(i)
		if len(seq) < 2 {
			continue
		}
		a.evals++
		a.count("leafseq_histories", 1)
		failed := false
		for round := 0; round < rounds && !failed; round++ {
			for k, rq := range seq {
				rc := received{Target: leafIndicator(0), Req: rq.Req}
				lq, lm, err := cl.leafReceive(rc)
				w := func() map[string]interface{} {
					var hist []string
					for j := 0; j <= k; j++ {
						hist = append(hist, trunc(seq[j].Text, 400))
					}
					var before []string
					for _, p := range previous {
						before = append(before, trunc(p.Text, 200))
					}
					return map[string]interface{}{"history_on_one_leaf": hist, "round": round, "position": k, "history_replayed_before_it": before,
						"payload": trunc(string(rq.Req.Payload), 2000)}
				}
				if err != nil {
					ww := w()
					ww["error"] = err.Error()
					e.violation("C17/leaf-sequence/"+rq.kind()+"-process-error", fmt.Sprintf("leaf fails on request %d of a history although it decodes alone: %v", k, err), ww)
					failed = true
					break
				}
				a.count("leafseq_requests", 1)
				prev := "first"
				if k > 0 {
					prev = seq[k-1].kind()
					e.countSeqTransition(seq[k-1], rq, a)
				} else if round > 0 {
					prev = seq[len(seq)-1].kind()
				} else if len(previous) > 0 {
					prev = previous[len(previous)-1].kind()
				}
				var d *diff
				switch {
				case rq.Metadata != nil && lm != nil:
					d = diffMetadata(rq.Metadata, lm)
				case rq.Query != nil && lq != nil:
					d = diffQuery(rq.Query, lq, timeMask{})
				default:
					d = &diff{What: "statement-kind", Path: "statement", Before: rq.kind(), After: fmt.Sprintf("query=%v metadata=%v", lq != nil, lm != nil)}
				}
				if d != nil {
					ww := w()
					ww["diff"] = d.String()
					e.violation("C17/leaf-sequence/"+rq.kind()+"-after-"+prev+":"+d.What,
						fmt.Sprintf("after %d earlier requests the leaf executes request %q differently than alone: %s", k+round*len(seq), trunc(rq.Text, 200), d), ww)
					failed = true
					break
				}
			}
		}
		a.nontrivial(hashKey("seq", seqShape(seq)))
		previous = seq
	}
	e.flush(a)
}

func seqShape(seq []*seqRequest) string {
	s := ""
	for _, rq := range seq {
		if rq.Metadata != nil {
			s += "|" + shapeOfMetadata(rq.Metadata)
		} else {
			s += "|" + shapeOfQuery(rq.Query)
		}
	}
	return s
}

// countSeqTransition counts the transitions the oracle relies on: a member of the wire form present in request N
// and absent in request N+1.
func (e *engine) countSeqTransition(prev, cur *seqRequest, a *acc) {
	a.count("leafseq_"+cur.kind()+"_after_"+prev.kind(), 1)
	pc, cc := seqCondition(prev), seqCondition(cur)
	if pc && !cc {
		a.count("leafseq_no_condition_after_condition", 1)
		if prev.Metadata != nil && cur.Metadata != nil {
			a.count("leafseq_metadata_no_condition_after_metadata_condition", 1)
		}
	}
	if prev.Metadata != nil && cur.Metadata != nil {
		p, c := prev.Metadata, cur.Metadata
		if p.Limit != 0 && c.Limit == 0 {
			a.count("leafseq_metadata_no_limit_after_limit", 1)
		}
		if p.Type != c.Type {
			a.count("leafseq_metadata_type_changes", 1)
		}
		if p.TagKey != "" && c.TagKey == "" {
			a.count("leafseq_metadata_no_tag_key_after_tag_key", 1)
		}
		if p.Prefix != "" && c.Prefix == "" {
			a.count("leafseq_metadata_no_prefix_after_prefix", 1)
		}
		if p.MetricName != "" && c.MetricName == "" {
			a.count("leafseq_metadata_no_metric_after_metric", 1)
		}
	}
	if prev.Query != nil && cur.Query != nil {
		p, c := prev.Query, cur.Query
		if p.Having != nil && c.Having == nil {
			a.count("leafseq_query_no_having_after_having", 1)
		}
		if len(p.GroupBy) > 0 && len(c.GroupBy) == 0 {
			a.count("leafseq_query_no_group_by_after_group_by", 1)
		}
		if len(p.OrderByItems) > 0 && len(c.OrderByItems) == 0 {
			a.count("leafseq_query_no_order_by_after_order_by", 1)
		}
		if len(p.SelectItems) > 0 && len(c.SelectItems) == 0 {
			a.count("leafseq_query_all_fields_after_select_list", 1)
		}
		if p.Limit != 0 && c.Limit == 0 {
			a.count("leafseq_query_limit_zero_after_limit", 1)
		}
		if p.Explain && !c.Explain {
			a.count("leafseq_query_no_explain_after_explain", 1)
		}
	}
}

func seqCondition(s *seqRequest) bool {
	if s.Metadata != nil {
		return s.Metadata.Condition != nil
	}
	return s.Query.Condition != nil
}
