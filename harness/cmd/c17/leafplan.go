package main

// Executable meaning on the leaf: the real metadata-lookup operator (query/operator/metadata_lookup.go) plans
// fields, down-sampling and aggregator specs from the statement. The statement the root planned and the
// statement the leaf decoded must give the same plan (or the same error) over the same schema.

import (
	"fmt"
	"hash/fnv"
	"sort"
	"strings"

	"github.com/lindb/lindb/aggregation"
	"github.com/lindb/lindb/flow"
	"github.com/lindb/lindb/index"
	"github.com/lindb/lindb/query/operator"
	"github.com/lindb/lindb/series/field"
	"github.com/lindb/lindb/series/metric"
	"github.com/lindb/lindb/series/tag"
	"github.com/lindb/lindb/sql/stmt"
	"github.com/lindb/lindb/tsdb"
)

type fakeMetaDB struct {
	index.MetricMetaDatabase
	schema *metric.Schema
}

func (f *fakeMetaDB) GetMetricID(_, _ string) (metric.ID, error)    { return 7, nil }
func (f *fakeMetaDB) GetSchema(_ metric.ID) (*metric.Schema, error) { return f.schema, nil }

type fakeDB struct {
	tsdb.Database
	meta *fakeMetaDB

	// what the leaf's (captured) pipeline was started with
	gotQuery      *stmt.Query
	gotMetadata   *stmt.MetricMetadata
	captured      int
	completed     int
	completePanic string
}

func (f *fakeDB) MetaDB() index.MetricMetaDatabase { return f.meta }

// schemaFor builds a schema from the names used by the planned statement: every field name gets a type
// derived from a hash of its name, every group-by key is a tag key (a few are left out on purpose so that
// the error paths are compared as well).
func schemaFor(qr *stmt.Query) *metric.Schema {
	names := map[string]struct{}{}
	for _, e := range qr.SelectItems {
		walkExpr(e, func(n stmt.Expr) {
			if f, ok := n.(*stmt.FieldExpr); ok {
				names[f.Name] = struct{}{}
			}
		})
	}
	sorted := make([]string, 0, len(names))
	for n := range names {
		sorted = append(sorted, n)
	}
	sort.Strings(sorted)
	s := &metric.Schema{}
	types := []field.Type{field.SumField, field.MinField, field.MaxField, field.LastField, field.FirstField, field.SumField, field.HistogramField}
	id := 1
	for _, n := range sorted {
		h := fnv.New32a()
		_, _ = h.Write([]byte(n))
		hv := h.Sum32()
		if hv%11 == 0 {
			continue // unknown field: error path
		}
		s.Fields = append(s.Fields, field.Meta{Name: field.Name(n), Type: types[hv%uint32(len(types))], ID: field.ID(id)})
		id++
	}
	s.Fields = append(s.Fields,
		field.Meta{Name: "__bucket_1", Type: field.HistogramField, ID: field.ID(id)},
		field.Meta{Name: "__bucket_2", Type: field.HistogramField, ID: field.ID(id + 1)},
		field.Meta{Name: "extra_sum", Type: field.SumField, ID: field.ID(id + 2)})
	for i, k := range qr.GroupBy {
		if len(k)%13 == 12 {
			continue
		}
		s.TagKeys = append(s.TagKeys, tag.Meta{Key: k, ID: tag.KeyID(i + 1)})
	}
	return s
}

// leafPlan runs the real operator and renders its outcome canonically.
func leafPlan(qr *stmt.Query, schema *metric.Schema) (out string) {
	defer func() {
		if r := recover(); r != nil {
			out = fmt.Sprintf("panic: %v", r)
		}
	}()
	ectx := &flow.StorageExecuteContext{Query: qr}
	op := operator.NewMetadataLookup(ectx, &fakeDB{meta: &fakeMetaDB{schema: schema}})
	if err := op.Execute(); err != nil {
		return "error: " + err.Error()
	}
	var sb strings.Builder
	fmt.Fprintf(&sb, "metric=%d fields=[", ectx.MetricID)
	for _, f := range ectx.Fields {
		fmt.Fprintf(&sb, "%s/%d/%d/%d;", f.Name, f.Type, f.ID, f.Index)
	}
	sb.WriteString("] down=[")
	sb.WriteString(specs(ectx.DownSamplingSpecs))
	sb.WriteString("] agg=[")
	sb.WriteString(specs(ectx.AggregatorSpecs))
	sb.WriteString("] groupBy=[")
	for i, t := range ectx.GroupByTags {
		fmt.Fprintf(&sb, "%s/%d/%d;", t.Key, t.ID, ectx.GroupByTagKeyIDs[i])
	}
	sb.WriteString("]")
	return sb.String()
}

func specs(list aggregation.AggregatorSpecs) string {
	var sb strings.Builder
	for _, s := range list {
		var fns []int
		for f := range s.Functions() {
			fns = append(fns, int(f))
		}
		sort.Ints(fns)
		fmt.Fprintf(&sb, "%s/%d/%v;", s.FieldName(), s.GetFieldType(), fns)
	}
	return sb.String()
}
