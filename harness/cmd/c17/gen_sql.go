package main

// Grammar-directed generator of SQL text for /repo/sql/grammar/SQL.g4: the queryStmt rule and the
// metric metadata statements (show namespaces/metrics/fields/tag keys/tag values).
// The generator only produces text; what the statement *is* is always read from the real parser's result.

import (
	"fmt"
	"math/rand"
	"strings"
)

// boundKind says where a time bound of a generated query comes from.
type boundKind int

const (
	boundDefault boundKind = iota // not given: parser uses now-1h (start) / now (end)
	boundAbs                      // absolute timestamp literal
	boundRel                      // now() + offset
)

type bound struct {
	Kind   boundKind
	Offset int64 // ms, for boundRel (and the implied offset of boundDefault)
}

type sqlCase struct {
	Text       string
	Kind       string // query | metadata
	Start, End bound
	Hostile    []string // hostile constructs put into the text on purpose
}

type sqlGen struct {
	r        *rand.Rand
	maxDepth int
	// per statement state
	selFields []string // field identifiers (text) usable in order by
	selCalls  []string // order-by capable call texts
	aliases   []string
	hostile   []string
}

const (
	msSecond = int64(1000)
	msMinute = 60 * msSecond
	msHour   = 60 * msMinute
	msDay    = 24 * msHour
)

var unitMs = map[string]int64{"s": msSecond, "S": msSecond, "m": msMinute, "h": msHour, "H": msHour, "d": msDay, "D": msDay,
	"w": 7 * msDay, "W": 7 * msDay, "M": 30 * msDay, "y": 365 * msDay, "Y": 365 * msDay}

var units = []string{"s", "m", "h", "d", "w", "M", "y", "S", "H", "D", "W", "Y"}

func (g *sqlGen) pick(list []string) string { return list[g.r.Intn(len(list))] }
func (g *sqlGen) chance(p float64) bool     { return g.r.Float64() < p }

// kw renders a keyword with random case (keywords are case-insensitive in the lexer).
func (g *sqlGen) kw(s string) string {
	switch g.r.Intn(12) {
	case 0:
		return strings.ToUpper(s)
	case 1:
		b := []byte(s)
		for i := range b {
			if g.r.Intn(2) == 0 && b[i] >= 'a' && b[i] <= 'z' {
				b[i] -= 32
			}
		}
		return string(b)
	default:
		return s
	}
}

func (g *sqlGen) sp() string {
	switch g.r.Intn(20) {
	case 0:
		return "  "
	case 1:
		return "\n"
	case 2:
		return "\t "
	default:
		return " "
	}
}

// optional space (between punctuation)
func (g *sqlGen) osp() string {
	if g.r.Intn(4) == 0 {
		return " "
	}
	return ""
}

var plainNames = []string{"cpu", "mem", "disk", "load1", "usage", "system.cpu_load", "net.io.bytes", "a", "b", "c", "f", "g", "x1", "user_time",
	"idle", "iowait", "Load", "CPU", "f2", "v", "k8s.pod.cpu", "T1"}

// words that are keywords of the grammar but allowed as identifiers (nonReservedWords)
var keywordNames = []string{"sum", "min", "max", "count", "avg", "last", "first", "stddev", "quantile", "rate", "time", "now", "limit", "order",
	"by", "group", "as", "key", "keys", "value", "values", "metric", "metrics", "field", "fields", "tag", "namespace", "database", "on",
	"with", "where", "from", "select", "and", "or", "in", "like", "not", "fill", "NULL", "previous", "desc", "asc", "having", "interval",
	"name", "shard", "memory", "type", "types", "storage", "broker", "root", "master", "id", "s", "m", "h", "d", "w", "M", "y", "use", "show", "explain"}

var specialNames = []string{"_m1", "@host", "#tag", "$var", "$a:b", "_a_b", "${name}", "${a b}", "_1"}

var tagKeys = []string{"host", "ip", "region", "dc", "zone", "app", "env", "node", "disk", "core", "k8s.ns", "pod"}

var funcNames = []string{"sum", "min", "max", "avg", "count", "last", "first", "stddev", "quantile", "rate"}
var orderByFuncs = []string{"sum", "min", "max", "avg", "count", "last", "first", "stddev"}

var strAlphabet = []string{"a", "b", "z", "A", "Q", "0", "1", "9", ".", "-", "_", "/", "*", "%", " ", ":", ",", "(", ")", "[", "]", "{", "}", "|", "^", "$",
	"+", "?", "=", "<", ">", "&", "!", "~", "#", "@", ";", "\\", "é", "ß", "中", "文", "日本", "😀", "\u00a0", "\t", "\n", "\u2028", "\ufffd", "\\n", "\\u0041", "\\\\"}

// quoted returns a quoted string/identifier with hostile content.
func (g *sqlGen) quoted() string {
	quote := "'"
	switch g.r.Intn(40) {
	case 0:
		// a double-quoted string is the STRING token (JSON values), not an identifier: rejected by the parser
		quote = "\""
	case 1, 2, 3, 4, 5, 6:
		quote = "`"
	}
	n := 0
	switch g.r.Intn(12) {
	case 0:
		n = 0 // empty string
	case 1:
		n = 12 + g.r.Intn(30)
	default:
		n = 1 + g.r.Intn(8)
	}
	var sb strings.Builder
	sb.WriteString(quote)
	for i := 0; i < n; i++ {
		var s string
		if g.r.Intn(3) == 0 {
			s = g.pick(strAlphabet)
		} else {
			s = string(rune('a' + g.r.Intn(26)))
		}
		if strings.Contains(s, quote) {
			continue
		}
		sb.WriteString(s)
	}
	if g.chance(0.02) {
		// the parser rewrites \" to " before lexing
		if quote != "\"" {
			sb.WriteString("x\\\"y")
		}
	}
	sb.WriteString(quote)
	return sb.String()
}

// ident returns an identifier: plain, keyword-like, special-prefixed, quoted or dotted.
func (g *sqlGen) ident(pool []string) string {
	switch x := g.r.Intn(100); {
	case x < 62:
		return g.pick(pool)
	case x < 70:
		return g.pick(keywordNames)
	case x < 75:
		return g.pick(specialNames)
	case x < 95:
		return g.quoted()
	default:
		// dotted identifier built by the parser rule  ident: part ('.' part)*
		return g.pick(pool) + "." + g.pick(plainNames)
	}
}

func (g *sqlGen) tagValue() string {
	if g.r.Intn(100) < 80 {
		return g.quoted()
	}
	return g.ident([]string{"abc", "v1", "prod", "web01", "x.y", "us_east"})
}

func (g *sqlGen) digits(n int) string {
	b := make([]byte, n)
	for i := range b {
		b[i] = byte('0' + g.r.Intn(10))
	}
	if n > 1 && b[0] == '0' && g.r.Intn(4) != 0 {
		b[0] = byte('1' + g.r.Intn(9))
	}
	return string(b)
}

// number returns an intNumber/decNumber literal.
func (g *sqlGen) number() string {
	sign := ""
	switch g.r.Intn(10) {
	case 0:
		sign = "-"
	case 1:
		sign = "+"
	}
	switch x := g.r.Intn(100); {
	case x < 25:
		return sign + g.pick([]string{"0", "1", "2", "10", "100", "1000", "60", "1024"})
	case x < 40:
		return sign + g.digits(1+g.r.Intn(9))
	case x < 47:
		return sign + g.digits(15+g.r.Intn(6)) // integers around 2^53 .. 2^64
	case x < 49:
		return sign + g.digits(25+g.r.Intn(20))
	case x < 50:
		g.hostile = append(g.hostile, "huge-int-literal")
		return sign + "9" + g.digits(309+g.r.Intn(20)) // overflows float64
	case x < 65:
		return sign + g.pick([]string{"0.5", "0.99", "0.95", "0.1", "1.5", "3.14", "100.0", "0.0", ".5", ".25", "99.9"})
	case x < 80:
		return sign + g.digits(1+g.r.Intn(4)) + "." + g.digits(1+g.r.Intn(6))
	case x < 96:
		// 15..19 significant digits split around the decimal point
		total := 15 + g.r.Intn(5)
		intPart := 1 + g.r.Intn(total-1)
		return sign + g.digits(intPart) + "." + g.digits(total-intPart)
	case x < 98:
		return sign + "." + g.digits(1+g.r.Intn(18))
	case x < 99:
		return sign + "0." + strings.Repeat("0", g.r.Intn(25)) + g.digits(1+g.r.Intn(17))
	default:
		// L_DEC : L_DIGIT+ '.' ~'.' L_DIGIT*   accepts one arbitrary character after the dot
		g.hostile = append(g.hostile, "odd-decimal-token")
		return sign + g.digits(1+g.r.Intn(3)) + "." + g.pick([]string{"x", "e", "_", "a"}) + g.digits(g.r.Intn(3))
	}
}

func (g *sqlGen) duration(allowHostile bool) (string, int64) {
	n := int64(0)
	switch g.r.Intn(10) {
	case 0:
		n = int64(1 + g.r.Intn(400))
	default:
		n = []int64{1, 2, 5, 10, 15, 30, 60, 90, 100, 120, 300}[g.r.Intn(11)]
	}
	u := g.pick(units)
	if g.r.Intn(10) < 7 {
		u = g.pick(units[:7])
	}
	if allowHostile && g.chance(0.004) {
		g.hostile = append(g.hostile, "overflowing-duration")
		return g.pick([]string{"9223372036854776", "18446744073709552", "9223372036854775807", "4611686018427387905"}) + g.pick([]string{"s", "m", "h"}), 0
	}
	return fmt.Sprintf("%d%s", n, u), n * unitMs[u]
}

// fieldExpr generates the fieldExpr rule with the given remaining nesting depth.
func (g *sqlGen) fieldExpr(depth int, ctx string) string {
	x := g.r.Intn(1000)
	if depth <= 0 && x >= 400 && x < 985 {
		x = g.r.Intn(400)
	}
	switch {
	case x < 300: // field
		name := g.ident(plainNames)
		if ctx == "select" {
			g.selFields = append(g.selFields, name)
		}
		if g.chance(0.02) {
			g.hostile = append(g.hostile, "ident-filter")
			return name + "[" + g.tagFilter(1) + "]"
		}
		return name
	case x < 400: // number
		return g.number()
	case x < 700: // function call
		fn := g.pick(funcNames)
		if fn == "quantile" && g.r.Intn(4) != 0 {
			return g.kw(fn) + g.osp() + "(" + g.pick([]string{"0.99", "0.95", "0.9", "0.5", "0.999", ".75"}) + ")"
		}
		var params []string
		switch y := g.r.Intn(100); {
		case y < 72:
			params = []string{g.fieldExpr(depth-1, ctx)}
		case y < 86:
			params = []string{g.fieldExpr(depth-1, ctx), g.fieldExpr(depth-2, ctx)}
		case y < 92:
			params = []string{g.fieldExpr(depth-2, ctx), g.fieldExpr(depth-2, ctx), g.fieldExpr(depth-2, ctx)}
		case y < 95:
			params = nil
		default:
			g.hostile = append(g.hostile, "tag-filter-as-func-param")
			params = []string{g.fieldExpr(depth-1, ctx), g.tagFilter(1)}
		}
		text := g.kw(fn) + g.osp() + "(" + g.osp() + strings.Join(params, g.osp()+","+g.osp()) + g.osp() + ")"
		if ctx == "select" && len(params) == 1 && fn != "quantile" && fn != "rate" {
			g.selCalls = append(g.selCalls, text)
		}
		return text
	case x < 860: // arithmetic
		op := g.pick([]string{"+", "-", "*", "/"})
		return g.fieldExpr(depth-1, ctx) + g.sp() + op + g.sp() + g.fieldExpr(depth-1, ctx)
	case x < 985: // parenthesis
		return "(" + g.osp() + g.fieldExpr(depth-1, ctx) + g.osp() + ")"
	case x < 993: // durationLit is a fieldExpr alternative the listener ignores
		g.hostile = append(g.hostile, "duration-as-field-expr")
		d, _ := g.duration(false)
		return d
	default: // star is a fieldExpr alternative
		g.hostile = append(g.hostile, "star-as-operand")
		return "*"
	}
}

func (g *sqlGen) tagFilter(depth int) string {
	x := g.r.Intn(100)
	if depth <= 0 && x >= 70 {
		x = g.r.Intn(70)
	}
	key := g.ident(tagKeys)
	switch {
	case x < 22:
		return key + g.osp() + "=" + g.osp() + g.tagValue()
	case x < 30:
		return key + g.osp() + g.pick([]string{"!=", "<>"}) + g.osp() + g.tagValue()
	case x < 38:
		return key + g.sp() + g.kw("like") + g.sp() + g.tagValue()
	case x < 43:
		return key + g.sp() + g.kw("not") + g.sp() + g.kw("like") + g.sp() + g.tagValue()
	case x < 50:
		return key + g.osp() + "=~" + g.osp() + g.tagValue()
	case x < 55:
		return key + g.osp() + "!~" + g.osp() + g.tagValue()
	case x < 70:
		n := 1 + g.r.Intn(4)
		vals := make([]string, n)
		for i := range vals {
			vals[i] = g.tagValue()
		}
		in := g.kw("in")
		if g.r.Intn(3) == 0 {
			in = g.kw("not") + g.sp() + in
		}
		return key + g.sp() + in + g.osp() + "(" + strings.Join(vals, g.osp()+","+g.osp()) + ")"
	case x < 90:
		op := g.kw(g.pick([]string{"and", "or"}))
		return g.tagFilter(depth-1) + g.sp() + op + g.sp() + g.tagFilter(depth-1)
	default:
		return "(" + g.osp() + g.tagFilter(depth-1) + g.osp() + ")"
	}
}

func (g *sqlGen) absTime(year int) string {
	month, day := 1+g.r.Intn(12), 1+g.r.Intn(28)
	hh, mm, ss := g.r.Intn(24), g.r.Intn(60), g.r.Intn(60)
	switch g.r.Intn(4) {
	case 0:
		return fmt.Sprintf("'%04d%02d%02d %02d:%02d:%02d'", year, month, day, hh, mm, ss)
	case 1:
		return fmt.Sprintf("'%04d-%02d-%02d %02d:%02d:%02d'", year, month, day, hh, mm, ss)
	case 2:
		return fmt.Sprintf("'%04d/%02d/%02d %02d:%02d:%02d'", year, month, day, hh, mm, ss)
	default:
		return fmt.Sprintf("'%04d%02d%02d%02d%02d%02d'", year, month, day, hh, mm, ss)
	}
}

// relOffset returns a now()-relative expression with an offset in [-400d, 0].
func (g *sqlGen) relTime(offset int64) string {
	now := g.kw("now") + g.osp() + "(" + g.osp() + ")"
	if offset == 0 && g.r.Intn(2) == 0 {
		return now
	}
	// express offset exactly in the largest unit that divides it
	abs := -offset
	unit, val := "s", abs/msSecond
	for _, u := range []string{"d", "h", "m"} {
		if abs%unitMs[u] == 0 && abs > 0 {
			unit, val = u, abs/unitMs[u]
			break
		}
	}
	return now + g.osp() + fmt.Sprintf("-%s%d%s", g.osp(), val, unit)
}

var relOffsets = []int64{-5 * msMinute, -10 * msMinute, -30 * msMinute, -2 * msHour, -3 * msHour, -6 * msHour, -12 * msHour, -msDay, -2 * msDay,
	-7 * msDay, -30 * msDay, -90 * msDay, -400 * msDay, -45 * msSecond * 60, -100 * msMinute}

// timeRange generates timeRangeExpr and records where each bound comes from.
func (g *sqlGen) timeRange(c *sqlCase) string {
	t := g.kw("time")
	gt := g.pick([]string{">", ">="})
	lt := g.pick([]string{"<", "<="})
	and := g.sp() + g.kw("and") + g.sp()
	switch x := g.r.Intn(100); {
	case x < 40: // both absolute
		y := 2001 + g.r.Intn(19)
		a, b := g.absTime(y), g.absTime(y+1+g.r.Intn(2))
		c.Start, c.End = bound{Kind: boundAbs}, bound{Kind: boundAbs}
		if g.r.Intn(4) == 0 {
			return t + g.osp() + lt + g.osp() + b + and + t + g.osp() + gt + g.osp() + a
		}
		return t + g.osp() + gt + g.osp() + a + and + t + g.osp() + lt + g.osp() + b
	case x < 50: // absolute start only, end = now
		c.Start, c.End = bound{Kind: boundAbs}, bound{Kind: boundDefault}
		return t + g.osp() + gt + g.osp() + g.absTime(2001+g.r.Intn(20))
	case x < 68: // relative start only
		off := relOffsets[g.r.Intn(len(relOffsets))]
		c.Start, c.End = bound{Kind: boundRel, Offset: off}, bound{Kind: boundDefault}
		return t + g.osp() + gt + g.osp() + g.relTime(off)
	case x < 84: // relative start and end, at least 2 minutes apart
		i := g.r.Intn(len(relOffsets))
		j := g.r.Intn(len(relOffsets))
		a, b := relOffsets[i], relOffsets[j]
		if a > b {
			a, b = b, a
		}
		if b-a < 2*msMinute {
			b = 0
		}
		c.Start, c.End = bound{Kind: boundRel, Offset: a}, bound{Kind: boundRel, Offset: b}
		if g.r.Intn(4) == 0 {
			return t + g.osp() + lt + g.osp() + g.relTime(b) + and + t + g.osp() + gt + g.osp() + g.relTime(a)
		}
		return t + g.osp() + gt + g.osp() + g.relTime(a) + and + t + g.osp() + lt + g.osp() + g.relTime(b)
	case x < 90: // absolute start, relative end
		off := relOffsets[g.r.Intn(len(relOffsets))]
		c.Start, c.End = bound{Kind: boundAbs}, bound{Kind: boundRel, Offset: off}
		return t + g.osp() + gt + g.osp() + g.absTime(2001+g.r.Intn(20)) + and + t + g.osp() + lt + g.osp() + g.relTime(off)
	case x < 94: // relative end only; default start is now-1h: keep >= 2 minutes away from it
		off := []int64{0, -5 * msMinute, -30 * msMinute, -45 * msMinute, -3 * msHour, -msDay}[g.r.Intn(6)]
		c.Start, c.End = bound{Kind: boundDefault}, bound{Kind: boundRel, Offset: off}
		return t + g.osp() + lt + g.osp() + g.relTime(off)
	case x < 97: // operator without effect on the range
		c.Start, c.End = bound{Kind: boundDefault}, bound{Kind: boundDefault}
		g.hostile = append(g.hostile, "time-with-non-range-operator")
		return t + g.osp() + g.pick([]string{"=", "!=", "<>"}) + g.osp() + g.absTime(2010)
	default: // absolute end only (start defaults to now-1h, so this is rejected)
		c.Start, c.End = bound{Kind: boundDefault}, bound{Kind: boundAbs}
		return t + g.osp() + lt + g.osp() + g.absTime(2001+g.r.Intn(20))
	}
}

func (g *sqlGen) boolExpr(depth int) string {
	x := g.r.Intn(100)
	if depth <= 0 && x >= 60 {
		x = g.r.Intn(60)
	}
	switch {
	case x < 60:
		op := g.pick([]string{"=", "!=", "<>", "<", "<=", ">", ">=", ">", "<", g.kw("like"), "=~"})
		return g.fieldExpr(depth, "having") + g.sp() + op + g.sp() + g.fieldExpr(depth-1, "having")
	case x < 85:
		return g.boolExpr(depth-1) + g.sp() + g.kw(g.pick([]string{"and", "or"})) + g.sp() + g.boolExpr(depth-1)
	default:
		return "(" + g.osp() + g.boolExpr(depth-1) + g.osp() + ")"
	}
}

func (g *sqlGen) limit() string {
	var n string
	switch x := g.r.Intn(100); {
	case x < 10:
		n = "0"
	case x < 80:
		n = fmt.Sprint(1 + g.r.Intn(1000))
	case x < 90:
		n = g.pick([]string{"2147483647", "100000", "0010"})
	case x < 95:
		n = "2147483648" // does not fit int32: rejected
	default:
		n = g.digits(1 + g.r.Intn(12))
	}
	return g.kw("limit") + g.sp() + n
}

func (g *sqlGen) fromClause(metricPool []string) string {
	s := g.kw("from") + g.sp() + g.ident(metricPool)
	if g.chance(0.25) {
		s += g.sp() + g.kw("on") + g.sp() + g.ident([]string{"ns", "default_ns_x", "prod", "team_a"})
	}
	return s
}

func (g *sqlGen) whereClause(c *sqlCase, withTime bool) string {
	hasTag := g.chance(0.75)
	hasTime := withTime && g.chance(0.8)
	if !hasTag && !hasTime {
		if withTime {
			hasTime = true
		} else {
			hasTag = true
		}
	}
	w := g.kw("where") + g.sp()
	depth := g.r.Intn(g.maxDepth + 1)
	switch {
	case hasTag && hasTime:
		if g.r.Intn(2) == 0 {
			return w + g.tagFilter(depth) + g.sp() + g.kw("and") + g.sp() + g.timeRange(c)
		}
		return w + g.timeRange(c) + g.sp() + g.kw("and") + g.sp() + g.tagFilter(depth)
	case hasTime:
		return w + g.timeRange(c)
	default:
		return w + g.tagFilter(depth)
	}
}

var metricPool = []string{"cpu", "mem", "disk", "system.load", "net", "memory", "go.runtime.gc", "jvm_heap"}

// query generates the queryStmt rule.
func (g *sqlGen) query() *sqlCase {
	g.selFields, g.selCalls, g.aliases, g.hostile = nil, nil, nil, nil
	c := &sqlCase{Kind: "query", Start: bound{Kind: boundDefault, Offset: -msHour}, End: bound{Kind: boundDefault}}
	var parts []string
	if g.chance(0.1) {
		parts = append(parts, g.kw("explain"))
	}
	// select list
	var sel string
	if g.chance(0.06) {
		sel = g.kw("select") + g.sp() + "*"
	} else {
		n := 1
		switch x := g.r.Intn(10); {
		case x < 5:
			n = 1
		case x < 8:
			n = 2
		default:
			n = 3 + g.r.Intn(3)
		}
		items := make([]string, n)
		for i := range items {
			depth := g.r.Intn(g.maxDepth + 1)
			items[i] = g.fieldExpr(depth, "select")
			if g.chance(0.25) {
				alias := g.ident([]string{"f1", "total", "p99", "usage_pct", "x"})
				g.aliases = append(g.aliases, alias)
				items[i] += g.sp() + g.kw("as") + g.sp() + alias
			}
		}
		sel = g.kw("select") + g.sp() + strings.Join(items, g.osp()+","+g.osp())
	}
	from := g.fromClause(metricPool)
	if g.chance(0.2) {
		parts = append(parts, from, sel)
	} else {
		parts = append(parts, sel, from)
	}
	if g.chance(0.75) {
		parts = append(parts, g.whereClause(c, true))
	}
	if g.chance(0.45) {
		n := 1 + g.r.Intn(3)
		keys := make([]string, n)
		for i := range keys {
			switch x := g.r.Intn(10); {
			case x < 7:
				keys[i] = g.ident(tagKeys)
			case x < 9:
				d, _ := g.duration(true)
				keys[i] = g.kw("time") + g.osp() + "(" + g.osp() + d + g.osp() + ")"
			default:
				keys[i] = g.kw("time") + g.osp() + "(" + g.osp() + ")"
			}
		}
		gb := g.kw("group") + g.sp() + g.kw("by") + g.sp() + strings.Join(keys, g.osp()+","+g.osp())
		if g.chance(0.15) {
			gb += g.sp() + g.kw("fill") + g.osp() + "(" + g.pick([]string{"NULL", "previous", "0", "1.5", "Null", "PREVIOUS", "3"}) + ")"
		}
		if g.chance(0.4) {
			gb += g.sp() + g.kw("having") + g.sp() + g.boolExpr(g.r.Intn(g.maxDepth))
		}
		parts = append(parts, gb)
	}
	if g.chance(0.3) {
		var cands []string
		cands = append(cands, g.selFields...)
		cands = append(cands, g.selCalls...)
		cands = append(cands, g.aliases...)
		for _, f := range g.selFields {
			cands = append(cands, g.pick(orderByFuncs)+"("+f+")")
		}
		if len(cands) > 0 {
			n := 1 + g.r.Intn(2)
			items := make([]string, n)
			for i := range items {
				switch x := g.r.Intn(100); {
				case x < 92:
					items[i] = g.pick(cands)
				case x < 96:
					items[i] = g.fieldExpr(1, "orderby") // mostly rejected: not in select list
				default:
					g.hostile = append(g.hostile, "arithmetic-in-order-by")
					items[i] = g.pick(cands) + " + " + g.pick(cands)
				}
				for k := g.r.Intn(3); k > 0; k-- {
					items[i] += g.sp() + g.kw(g.pick([]string{"desc", "asc", "desc"}))
					if g.r.Intn(3) != 0 {
						break
					}
				}
			}
			parts = append(parts, g.kw("order")+g.sp()+g.kw("by")+g.sp()+strings.Join(items, g.osp()+","+g.osp()))
		}
	}
	if g.chance(0.4) {
		parts = append(parts, g.limit())
	}
	if g.chance(0.02) {
		parts = append(parts, g.kw("withvalue"))
	}
	c.Text = strings.Join(parts, g.sp())
	if g.chance(0.05) {
		c.Text = g.sp() + c.Text + g.sp()
	}
	c.Hostile = g.hostile
	return c
}

// metadata generates the metric metadata statements.
func (g *sqlGen) metadata() *sqlCase {
	g.hostile = nil
	c := &sqlCase{Kind: "metadata"}
	show := g.kw("show") + g.sp()
	var s string
	switch g.r.Intn(5) {
	case 0:
		s = show + g.kw("namespaces")
		if g.chance(0.6) {
			s += g.sp() + g.kw("where") + g.sp() + g.kw("namespace") + g.osp() + "=" + g.osp() + g.ident([]string{"ns", "pro", "default"})
		}
		if g.chance(0.5) {
			s += g.sp() + g.limit()
		}
	case 1:
		s = show + g.kw("metrics")
		if g.chance(0.4) {
			s += g.sp() + g.kw("on") + g.sp() + g.ident([]string{"ns", "prod"})
		}
		if g.chance(0.6) {
			s += g.sp() + g.kw("where") + g.sp() + g.kw("metric") + g.osp() + "=" + g.osp() + g.ident([]string{"cp", "sys", "m"})
		}
		if g.chance(0.5) {
			s += g.sp() + g.limit()
		}
	case 2:
		s = show + g.kw("fields") + g.sp() + g.fromClause(metricPool)
	case 3:
		s = show + g.kw("tag") + g.sp() + g.kw("keys") + g.sp() + g.fromClause(metricPool)
	default:
		s = show + g.kw("tag") + g.sp() + g.kw("values") + g.sp() + g.fromClause(metricPool) + g.sp() +
			g.kw("with") + g.sp() + g.kw("key") + g.osp() + "=" + g.osp() + g.ident(tagKeys)
		if g.chance(0.7) {
			// timeRangeExpr is grammatical here too (and ignored by the listener)
			s += g.sp() + g.whereClause(c, g.chance(0.1))
		}
		if g.chance(0.5) {
			s += g.sp() + g.limit()
		}
	}
	c.Text = s
	c.Start, c.End = bound{}, bound{}
	c.Hostile = g.hostile
	return c
}

// garbage returns a text that is (most likely) not a statement, derived from a valid one.
func (g *sqlGen) garbage(valid string) string {
	switch g.r.Intn(6) {
	case 0:
		if len(valid) > 4 {
			return valid[:len(valid)/2]
		}
		return "select"
	case 1:
		return valid + " )"
	case 2:
		return "select from where"
	case 3:
		return strings.Replace(valid, "from", "form", 1)
	case 4:
		return "select f from cpu where host='unterminated"
	default:
		return "select sum( from cpu limit 99999999999"
	}
}
