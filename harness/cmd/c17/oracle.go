package main

// Independent comparison of statement models: a field-by-field diff written against the
// struct definitions (not against Marshal/Rewrite), with reflect.DeepEqual as a safety net.

import (
	"fmt"
	"hash/fnv"
	"math"
	"reflect"
	"strings"
	"unicode/utf8"

	"github.com/lindb/lindb/sql/stmt"
)

// diff describes the first difference found between two models.
type diff struct {
	What   string // stable kind: "<NodeType>.<Field>" | "type:<A>-><B>" | "<Owner>.<Field>:nil"
	Path   string // concrete path of the difference
	Before string
	After  string
	// badUTF8: the differing value is a string that was not valid UTF-8 before
	badUTF8 bool
}

func (d *diff) String() string {
	return fmt.Sprintf("%s at %s: before=%s after=%s", d.What, d.Path, d.Before, d.After)
}

func typeName(e interface{}) string {
	if e == nil {
		return "nil"
	}
	t := reflect.TypeOf(e)
	for t.Kind() == reflect.Ptr {
		t = t.Elem()
	}
	return t.Name()
}

func isNilExpr(e stmt.Expr) bool {
	if e == nil {
		return true
	}
	v := reflect.ValueOf(e)
	return v.Kind() == reflect.Ptr && v.IsNil()
}

func q(s string) string { return fmt.Sprintf("%q", s) }

func strDiff(what, path, a, b string) *diff {
	if a == b {
		return nil
	}
	return &diff{What: what, Path: path, Before: q(a), After: q(b), badUTF8: !utf8.ValidString(a)}
}

// diffExpr returns the first difference between two expression trees (nil if identical).
// Numbers are compared by bit pattern (so -0 != +0 and NaN == same NaN).
func diffExpr(a, b stmt.Expr, owner, path string) *diff {
	an, bn := isNilExpr(a), isNilExpr(b)
	if an || bn {
		if an && bn {
			// untyped nil vs typed nil pointer is still a difference for an interface value
			if (a == nil) != (b == nil) {
				return &diff{What: owner + ":typed-nil", Path: path, Before: fmt.Sprintf("%T", a), After: fmt.Sprintf("%T", b)}
			}
			return nil
		}
		return &diff{What: owner + ":nil", Path: path, Before: typeName(a), After: typeName(b)}
	}
	if reflect.TypeOf(a) != reflect.TypeOf(b) {
		return &diff{What: "type:" + typeName(a) + "->" + typeName(b), Path: path, Before: typeName(a), After: typeName(b)}
	}
	switch x := a.(type) {
	case *stmt.FieldExpr:
		y := b.(*stmt.FieldExpr)
		return strDiff("FieldExpr.Name", path+".Name", x.Name, y.Name)
	case *stmt.NumberLiteral:
		y := b.(*stmt.NumberLiteral)
		if math.Float64bits(x.Val) != math.Float64bits(y.Val) {
			return &diff{What: "NumberLiteral.Val", Path: path + ".Val",
				Before: fmt.Sprintf("%v(%#x)", x.Val, math.Float64bits(x.Val)), After: fmt.Sprintf("%v(%#x)", y.Val, math.Float64bits(y.Val))}
		}
		return nil
	case *stmt.EqualsExpr:
		y := b.(*stmt.EqualsExpr)
		if d := strDiff("EqualsExpr.Key", path+".Key", x.Key, y.Key); d != nil {
			return d
		}
		return strDiff("EqualsExpr.Value", path+".Value", x.Value, y.Value)
	case *stmt.LikeExpr:
		y := b.(*stmt.LikeExpr)
		if d := strDiff("LikeExpr.Key", path+".Key", x.Key, y.Key); d != nil {
			return d
		}
		return strDiff("LikeExpr.Value", path+".Value", x.Value, y.Value)
	case *stmt.RegexExpr:
		y := b.(*stmt.RegexExpr)
		if d := strDiff("RegexExpr.Key", path+".Key", x.Key, y.Key); d != nil {
			return d
		}
		return strDiff("RegexExpr.Regexp", path+".Regexp", x.Regexp, y.Regexp)
	case *stmt.InExpr:
		y := b.(*stmt.InExpr)
		if d := strDiff("InExpr.Key", path+".Key", x.Key, y.Key); d != nil {
			return d
		}
		// no normalisation: JSON distinguishes null from [] for a plain []string field
		if (x.Values == nil) != (y.Values == nil) {
			return &diff{What: "InExpr.Values:nil-vs-empty", Path: path + ".Values", Before: fmt.Sprintf("%#v", x.Values), After: fmt.Sprintf("%#v", y.Values)}
		}
		if len(x.Values) != len(y.Values) {
			return &diff{What: "InExpr.Values.len", Path: path + ".Values", Before: fmt.Sprint(len(x.Values)), After: fmt.Sprint(len(y.Values))}
		}
		for i := range x.Values {
			if d := strDiff("InExpr.Values", fmt.Sprintf("%s.Values[%d]", path, i), x.Values[i], y.Values[i]); d != nil {
				return d
			}
		}
		return nil
	case *stmt.NotExpr:
		y := b.(*stmt.NotExpr)
		return diffExpr(x.Expr, y.Expr, "NotExpr.Expr", path+".Expr")
	case *stmt.ParenExpr:
		y := b.(*stmt.ParenExpr)
		return diffExpr(x.Expr, y.Expr, "ParenExpr.Expr", path+".Expr")
	case *stmt.SelectItem:
		y := b.(*stmt.SelectItem)
		if d := strDiff("SelectItem.Alias", path+".Alias", x.Alias, y.Alias); d != nil {
			return d
		}
		return diffExpr(x.Expr, y.Expr, "SelectItem.Expr", path+".Expr")
	case *stmt.OrderByExpr:
		y := b.(*stmt.OrderByExpr)
		if x.Desc != y.Desc {
			return &diff{What: "OrderByExpr.Desc", Path: path + ".Desc", Before: fmt.Sprint(x.Desc), After: fmt.Sprint(y.Desc)}
		}
		return diffExpr(x.Expr, y.Expr, "OrderByExpr.Expr", path+".Expr")
	case *stmt.CallExpr:
		y := b.(*stmt.CallExpr)
		if x.FuncType != y.FuncType {
			return &diff{What: "CallExpr.FuncType", Path: path + ".FuncType", Before: fmt.Sprint(int(x.FuncType)), After: fmt.Sprint(int(y.FuncType))}
		}
		// normalisation N1: nil and empty Params are the same (encoded as "params":null both ways)
		if len(x.Params) != len(y.Params) {
			return &diff{What: "CallExpr.Params.len", Path: path + ".Params", Before: fmt.Sprint(len(x.Params)), After: fmt.Sprint(len(y.Params))}
		}
		for i := range x.Params {
			if d := diffExpr(x.Params[i], y.Params[i], "CallExpr.Params", fmt.Sprintf("%s.Params[%d]", path, i)); d != nil {
				return d
			}
		}
		return nil
	case *stmt.BinaryExpr:
		y := b.(*stmt.BinaryExpr)
		if x.Operator != y.Operator {
			return &diff{What: "BinaryExpr.Operator", Path: path + ".Operator", Before: fmt.Sprint(int(x.Operator)), After: fmt.Sprint(int(y.Operator))}
		}
		if d := diffExpr(x.Left, y.Left, "BinaryExpr.Left", path+".Left"); d != nil {
			return d
		}
		return diffExpr(x.Right, y.Right, "BinaryExpr.Right", path+".Right")
	default:
		// unknown node type (e.g. a new one): fall back to reflection
		if !reflect.DeepEqual(a, b) {
			return &diff{What: "unknown-node:" + typeName(a), Path: path, Before: fmt.Sprintf("%+v", a), After: fmt.Sprintf("%+v", b)}
		}
		return nil
	}
}

func diffExprList(a, b []stmt.Expr, owner, path string) *diff {
	// normalisation N1: nil and empty lists are the same (omitempty)
	if len(a) != len(b) {
		return &diff{What: owner + ".len", Path: path, Before: fmt.Sprint(len(a)), After: fmt.Sprint(len(b))}
	}
	for i := range a {
		if d := diffExpr(a[i], b[i], owner, fmt.Sprintf("%s[%d]", path, i)); d != nil {
			return d
		}
	}
	return nil
}

func scalarDiff(what string, a, b interface{}) *diff {
	if a == b {
		return nil
	}
	return &diff{What: what, Path: what, Before: fmt.Sprintf("%#v", a), After: fmt.Sprintf("%#v", b)}
}

// timeMask says which time bounds are excluded from a comparison (clock-derived bounds of two parses).
type timeMask struct{ Start, End bool }

// diffQuery compares two query statements field by field.
func diffQuery(a, b *stmt.Query, mask timeMask) *diff {
	if d := scalarDiff("Query.Explain", a.Explain, b.Explain); d != nil {
		return d
	}
	if d := strDiff("Query.Namespace", "Query.Namespace", a.Namespace, b.Namespace); d != nil {
		return d
	}
	if d := strDiff("Query.MetricName", "Query.MetricName", a.MetricName, b.MetricName); d != nil {
		return d
	}
	if d := scalarDiff("Query.AllFields", a.AllFields, b.AllFields); d != nil {
		return d
	}
	if d := diffExprList(a.SelectItems, b.SelectItems, "Query.SelectItems", "Query.SelectItems"); d != nil {
		return d
	}
	if d := diffExpr(a.Condition, b.Condition, "Query.Condition", "Query.Condition"); d != nil {
		return d
	}
	if !mask.Start {
		if d := scalarDiff("Query.TimeRange.Start", a.TimeRange.Start, b.TimeRange.Start); d != nil {
			return d
		}
	}
	if !mask.End {
		if d := scalarDiff("Query.TimeRange.End", a.TimeRange.End, b.TimeRange.End); d != nil {
			return d
		}
	}
	if d := scalarDiff("Query.Interval", int64(a.Interval), int64(b.Interval)); d != nil {
		return d
	}
	if d := scalarDiff("Query.StorageInterval", int64(a.StorageInterval), int64(b.StorageInterval)); d != nil {
		return d
	}
	if d := scalarDiff("Query.IntervalRatio", a.IntervalRatio, b.IntervalRatio); d != nil {
		return d
	}
	if d := scalarDiff("Query.AutoGroupByTime", a.AutoGroupByTime, b.AutoGroupByTime); d != nil {
		return d
	}
	// normalisation N1: nil and empty GroupBy are the same (omitempty)
	if len(a.GroupBy) != len(b.GroupBy) {
		return &diff{What: "Query.GroupBy.len", Path: "Query.GroupBy", Before: fmt.Sprintf("%q", a.GroupBy), After: fmt.Sprintf("%q", b.GroupBy)}
	}
	for i := range a.GroupBy {
		if d := strDiff("Query.GroupBy", fmt.Sprintf("Query.GroupBy[%d]", i), a.GroupBy[i], b.GroupBy[i]); d != nil {
			return d
		}
	}
	if d := diffExpr(a.Having, b.Having, "Query.Having", "Query.Having"); d != nil {
		return d
	}
	if d := diffExprList(a.OrderByItems, b.OrderByItems, "Query.OrderByItems", "Query.OrderByItems"); d != nil {
		return d
	}
	if d := scalarDiff("Query.Limit", a.Limit, b.Limit); d != nil {
		return d
	}
	// safety net: anything the field list above does not know about (a field added to stmt.Query)
	if !mask.Start && !mask.End {
		na, nb := normQuery(a), normQuery(b)
		if !reflect.DeepEqual(na, nb) && !onlyFloatIdentity(na, nb) {
			return &diff{What: "Query.unclassified", Path: "Query", Before: fmt.Sprintf("%+v", *na), After: fmt.Sprintf("%+v", *nb)}
		}
	}
	return nil
}

// onlyFloatIdentity reports whether DeepEqual failed although the bitwise diff found nothing,
// which happens only for NaN literals (NaN != NaN under DeepEqual).
func onlyFloatIdentity(a, b *stmt.Query) bool {
	return containsNaN(a) && containsNaN(b)
}

func containsNaN(qr *stmt.Query) bool {
	found := false
	visit := func(e stmt.Expr) {
		walkExpr(e, func(n stmt.Expr) {
			if v, ok := n.(*stmt.NumberLiteral); ok && v != nil && math.IsNaN(v.Val) {
				found = true
			}
		})
	}
	for _, e := range qr.SelectItems {
		visit(e)
	}
	visit(qr.Condition)
	visit(qr.Having)
	for _, e := range qr.OrderByItems {
		visit(e)
	}
	return found
}

func diffMetadata(a, b *stmt.MetricMetadata) *diff {
	if d := strDiff("MetricMetadata.Namespace", "MetricMetadata.Namespace", a.Namespace, b.Namespace); d != nil {
		return d
	}
	if d := strDiff("MetricMetadata.MetricName", "MetricMetadata.MetricName", a.MetricName, b.MetricName); d != nil {
		return d
	}
	if d := scalarDiff("MetricMetadata.Type", a.Type, b.Type); d != nil {
		return d
	}
	if d := strDiff("MetricMetadata.TagKey", "MetricMetadata.TagKey", a.TagKey, b.TagKey); d != nil {
		return d
	}
	if d := strDiff("MetricMetadata.Prefix", "MetricMetadata.Prefix", a.Prefix, b.Prefix); d != nil {
		return d
	}
	if d := diffExpr(a.Condition, b.Condition, "MetricMetadata.Condition", "MetricMetadata.Condition"); d != nil {
		return d
	}
	if d := scalarDiff("MetricMetadata.Limit", a.Limit, b.Limit); d != nil {
		return d
	}
	ca, cb := *a, *b
	ca.Condition, cb.Condition = nil, nil
	if !reflect.DeepEqual(ca, cb) {
		return &diff{What: "MetricMetadata.unclassified", Path: "MetricMetadata", Before: fmt.Sprintf("%+v", ca), After: fmt.Sprintf("%+v", cb)}
	}
	return nil
}

// ---------------------------------------------------------------------------------------------
// deep copy (own code, so that a copy does not pass through the mechanism under test)

func cloneExpr(e stmt.Expr) stmt.Expr {
	if isNilExpr(e) {
		return e
	}
	switch x := e.(type) {
	case *stmt.FieldExpr:
		c := *x
		return &c
	case *stmt.NumberLiteral:
		c := *x
		return &c
	case *stmt.EqualsExpr:
		c := *x
		return &c
	case *stmt.LikeExpr:
		c := *x
		return &c
	case *stmt.RegexExpr:
		c := *x
		return &c
	case *stmt.InExpr:
		c := *x
		if x.Values != nil {
			c.Values = append(make([]string, 0, len(x.Values)), x.Values...)
		}
		return &c
	case *stmt.NotExpr:
		return &stmt.NotExpr{Expr: cloneExpr(x.Expr)}
	case *stmt.ParenExpr:
		return &stmt.ParenExpr{Expr: cloneExpr(x.Expr)}
	case *stmt.SelectItem:
		return &stmt.SelectItem{Expr: cloneExpr(x.Expr), Alias: x.Alias}
	case *stmt.OrderByExpr:
		return &stmt.OrderByExpr{Expr: cloneExpr(x.Expr), Desc: x.Desc}
	case *stmt.CallExpr:
		c := &stmt.CallExpr{FuncType: x.FuncType}
		if x.Params != nil {
			c.Params = make([]stmt.Expr, len(x.Params))
			for i := range x.Params {
				c.Params[i] = cloneExpr(x.Params[i])
			}
		}
		return c
	case *stmt.BinaryExpr:
		return &stmt.BinaryExpr{Left: cloneExpr(x.Left), Right: cloneExpr(x.Right), Operator: x.Operator}
	default:
		panic(fmt.Sprintf("cloneExpr: unknown node %T", e))
	}
}

func cloneExprList(l []stmt.Expr) []stmt.Expr {
	if l == nil {
		return nil
	}
	out := make([]stmt.Expr, len(l))
	for i := range l {
		out[i] = cloneExpr(l[i])
	}
	return out
}

func cloneQuery(a *stmt.Query) *stmt.Query {
	c := *a
	c.SelectItems = cloneExprList(a.SelectItems)
	c.Condition = cloneExpr(a.Condition)
	c.Having = cloneExpr(a.Having)
	c.OrderByItems = cloneExprList(a.OrderByItems)
	if a.GroupBy != nil {
		c.GroupBy = append(make([]string, 0, len(a.GroupBy)), a.GroupBy...)
	}
	return &c
}

func cloneMetadata(a *stmt.MetricMetadata) *stmt.MetricMetadata {
	c := *a
	c.Condition = cloneExpr(a.Condition)
	return &c
}

// normQuery returns a copy with normalisation N1 applied (empty slices -> nil) for the DeepEqual safety net.
func normQuery(a *stmt.Query) *stmt.Query {
	c := cloneQuery(a)
	if len(c.SelectItems) == 0 {
		c.SelectItems = nil
	}
	if len(c.OrderByItems) == 0 {
		c.OrderByItems = nil
	}
	if len(c.GroupBy) == 0 {
		c.GroupBy = nil
	}
	norm := func(e stmt.Expr) {
		walkExpr(e, func(n stmt.Expr) {
			if ce, ok := n.(*stmt.CallExpr); ok && ce != nil && len(ce.Params) == 0 {
				ce.Params = nil
			}
		})
	}
	for _, e := range c.SelectItems {
		norm(e)
	}
	norm(c.Condition)
	norm(c.Having)
	for _, e := range c.OrderByItems {
		norm(e)
	}
	return c
}

// ---------------------------------------------------------------------------------------------
// traversal, shape signature, tree properties

func walkExpr(e stmt.Expr, fn func(stmt.Expr)) {
	if isNilExpr(e) {
		return
	}
	fn(e)
	switch x := e.(type) {
	case *stmt.NotExpr:
		walkExpr(x.Expr, fn)
	case *stmt.ParenExpr:
		walkExpr(x.Expr, fn)
	case *stmt.SelectItem:
		walkExpr(x.Expr, fn)
	case *stmt.OrderByExpr:
		walkExpr(x.Expr, fn)
	case *stmt.CallExpr:
		for _, p := range x.Params {
			walkExpr(p, fn)
		}
	case *stmt.BinaryExpr:
		walkExpr(x.Left, fn)
		walkExpr(x.Right, fn)
	}
}

// treeFacts are properties of an expression tree the triage needs.
type treeFacts struct {
	NilChild  bool // a nil operand somewhere (Paren/Not/Binary/SelectItem/OrderBy child or a nil param)
	NonFinite bool // NaN or Inf literal
	BadUTF8   bool // a string that is not valid UTF-8
	Depth     int
	Nodes     int
	CallDepth int
}

func (f *treeFacts) merge(o treeFacts) {
	f.NilChild = f.NilChild || o.NilChild
	f.NonFinite = f.NonFinite || o.NonFinite
	f.BadUTF8 = f.BadUTF8 || o.BadUTF8
	if o.Depth > f.Depth {
		f.Depth = o.Depth
	}
	if o.CallDepth > f.CallDepth {
		f.CallDepth = o.CallDepth
	}
	f.Nodes += o.Nodes
}

func factsOf(e stmt.Expr) treeFacts {
	var f treeFacts
	var rec func(e stmt.Expr, depth, callDepth int, top bool)
	child := func(e stmt.Expr, depth, callDepth int) {
		if isNilExpr(e) {
			f.NilChild = true
			return
		}
		rec(e, depth, callDepth, false)
	}
	str := func(s string) {
		if !validUTF8(s) {
			f.BadUTF8 = true
		}
	}
	rec = func(e stmt.Expr, depth, callDepth int, top bool) {
		if isNilExpr(e) {
			return
		}
		f.Nodes++
		if depth > f.Depth {
			f.Depth = depth
		}
		switch x := e.(type) {
		case *stmt.NumberLiteral:
			if math.IsNaN(x.Val) || math.IsInf(x.Val, 0) {
				f.NonFinite = true
			}
		case *stmt.FieldExpr:
			str(x.Name)
		case *stmt.EqualsExpr:
			str(x.Key)
			str(x.Value)
		case *stmt.LikeExpr:
			str(x.Key)
			str(x.Value)
		case *stmt.RegexExpr:
			str(x.Key)
			str(x.Regexp)
		case *stmt.InExpr:
			str(x.Key)
			for _, v := range x.Values {
				str(v)
			}
		case *stmt.NotExpr:
			child(x.Expr, depth+1, callDepth)
		case *stmt.ParenExpr:
			child(x.Expr, depth+1, callDepth)
		case *stmt.SelectItem:
			str(x.Alias)
			child(x.Expr, depth+1, callDepth)
		case *stmt.OrderByExpr:
			child(x.Expr, depth+1, callDepth)
		case *stmt.CallExpr:
			if callDepth+1 > f.CallDepth {
				f.CallDepth = callDepth + 1
			}
			for _, p := range x.Params {
				child(p, depth+1, callDepth+1)
			}
		case *stmt.BinaryExpr:
			child(x.Left, depth+1, callDepth)
			child(x.Right, depth+1, callDepth)
		}
	}
	rec(e, 1, 0, true)
	return f
}

func factsOfQuery(qr *stmt.Query) treeFacts {
	var f treeFacts
	for _, e := range qr.SelectItems {
		if isNilExpr(e) {
			f.NilChild = true
			continue
		}
		f.merge(factsOf(e))
	}
	f.merge(factsOf(qr.Condition))
	f.merge(factsOf(qr.Having))
	for _, e := range qr.OrderByItems {
		if isNilExpr(e) {
			f.NilChild = true
			continue
		}
		f.merge(factsOf(e))
	}
	for _, s := range append([]string{qr.Namespace, qr.MetricName}, qr.GroupBy...) {
		if !validUTF8(s) {
			f.BadUTF8 = true
		}
	}
	return f
}

func validUTF8(s string) bool { return utf8.ValidString(s) }

// shape writes a structural signature (node kinds, operators, function types, arities; no literal values).
func shape(sb *strings.Builder, e stmt.Expr) {
	if isNilExpr(e) {
		sb.WriteByte('_')
		return
	}
	switch x := e.(type) {
	case *stmt.FieldExpr:
		sb.WriteByte('f')
	case *stmt.NumberLiteral:
		sb.WriteByte('n')
	case *stmt.EqualsExpr:
		sb.WriteByte('=')
	case *stmt.LikeExpr:
		sb.WriteByte('~')
	case *stmt.RegexExpr:
		sb.WriteByte('r')
	case *stmt.InExpr:
		fmt.Fprintf(sb, "i%d", len(x.Values))
	case *stmt.NotExpr:
		sb.WriteString("!(")
		shape(sb, x.Expr)
		sb.WriteByte(')')
	case *stmt.ParenExpr:
		sb.WriteString("p(")
		shape(sb, x.Expr)
		sb.WriteByte(')')
	case *stmt.SelectItem:
		if x.Alias != "" {
			sb.WriteString("Sa(")
		} else {
			sb.WriteString("S(")
		}
		shape(sb, x.Expr)
		sb.WriteByte(')')
	case *stmt.OrderByExpr:
		if x.Desc {
			sb.WriteString("Od(")
		} else {
			sb.WriteString("O(")
		}
		shape(sb, x.Expr)
		sb.WriteByte(')')
	case *stmt.CallExpr:
		fmt.Fprintf(sb, "c%d(", int(x.FuncType))
		for i, p := range x.Params {
			if i > 0 {
				sb.WriteByte(',')
			}
			shape(sb, p)
		}
		sb.WriteByte(')')
	case *stmt.BinaryExpr:
		fmt.Fprintf(sb, "b%d(", int(x.Operator))
		shape(sb, x.Left)
		sb.WriteByte(',')
		shape(sb, x.Right)
		sb.WriteByte(')')
	default:
		sb.WriteByte('?')
	}
}

func shapeOfQuery(qr *stmt.Query) string {
	var sb strings.Builder
	if qr.Explain {
		sb.WriteString("X")
	}
	if qr.AllFields {
		sb.WriteString("*")
	}
	sb.WriteString("S[")
	for _, e := range qr.SelectItems {
		shape(&sb, e)
		sb.WriteByte(';')
	}
	sb.WriteString("]W[")
	shape(&sb, qr.Condition)
	fmt.Fprintf(&sb, "]I%v,%v,G%d,H[", qr.Interval != 0, qr.AutoGroupByTime, len(qr.GroupBy))
	shape(&sb, qr.Having)
	sb.WriteString("]O[")
	for _, e := range qr.OrderByItems {
		shape(&sb, e)
		sb.WriteByte(';')
	}
	fmt.Fprintf(&sb, "]L%v", qr.Limit == 0)
	return sb.String()
}

func shapeOfMetadata(m *stmt.MetricMetadata) string {
	var sb strings.Builder
	fmt.Fprintf(&sb, "M%d,%v,%v,%v,W[", m.Type, m.MetricName != "", m.TagKey != "", m.Prefix != "")
	shape(&sb, m.Condition)
	sb.WriteString("]")
	return sb.String()
}

func hashKey(prefix, s string) string {
	h := fnv.New64a()
	_, _ = h.Write([]byte(s))
	return fmt.Sprintf("%s:%016x", prefix, h.Sum64())
}

// rewriteOf returns Rewrite() of an expression, or a marker when Rewrite panics (nil operands).
func rewriteOf(e stmt.Expr) (out string) {
	if isNilExpr(e) {
		return "<nil>"
	}
	defer func() {
		if r := recover(); r != nil {
			out = "<panic>"
		}
	}()
	return e.Rewrite()
}

// replaceInvalidUTF8 is what a JSON encoder does to a Go string that is not valid UTF-8:
// every invalid byte becomes U+FFFD.
func replaceInvalidUTF8(s string) string {
	if utf8.ValidString(s) {
		return s
	}
	var sb strings.Builder
	for _, r := range s { // ranging yields RuneError (width 1) for each invalid byte
		sb.WriteRune(r)
	}
	return sb.String()
}

// mapStrings applies fn to every string of a (cloned) tree in place.
func mapStrings(e stmt.Expr, fn func(string) string) {
	walkExpr(e, func(n stmt.Expr) {
		switch x := n.(type) {
		case *stmt.FieldExpr:
			x.Name = fn(x.Name)
		case *stmt.EqualsExpr:
			x.Key, x.Value = fn(x.Key), fn(x.Value)
		case *stmt.LikeExpr:
			x.Key, x.Value = fn(x.Key), fn(x.Value)
		case *stmt.RegexExpr:
			x.Key, x.Regexp = fn(x.Key), fn(x.Regexp)
		case *stmt.InExpr:
			x.Key = fn(x.Key)
			for i := range x.Values {
				x.Values[i] = fn(x.Values[i])
			}
		case *stmt.SelectItem:
			x.Alias = fn(x.Alias)
		}
	})
}
