package main

// The wire exactly as the nodes do it:
//   - sender: the real MakePlan of RootMetricContext / IntermediateMetricContext / MetadataContext produces the
//     TaskRequests (statement payload + physical plan);
//   - transport: every request passes the protobuf codec of TaskRequest (what gRPC does);
//   - receiver: the real leafTaskProcessor.Process / intermediateTaskProcessor.Process (query/leaf_processor.go,
//     query/intermediate_processor.go) decode plan and payload. The statement they hand to the execution pipeline
//     is read through the verif hooks (query/verif_hooks_c17.go, query/stage/verif_hooks_c17.go), which swap the
//     package's own "for testing" function variables: the pipeline factory captures the first leaf stage instead
//     of running it, the intermediate's search executor runs MakePlan and captures the outgoing requests.

import (
	"context"
	"errors"
	"fmt"
	"math/rand"
	"sort"
	"time"

	commonmodels "github.com/lindb/common/models"
	"github.com/lindb/common/pkg/encoding"

	"github.com/lindb/lindb/coordinator/broker"
	"github.com/lindb/lindb/flow"
	"github.com/lindb/lindb/models"
	"github.com/lindb/lindb/pkg/option"
	"github.com/lindb/lindb/pkg/timeutil"
	protoCommonV1 "github.com/lindb/lindb/proto/gen/v1/common"
	"github.com/lindb/lindb/query"
	queryctx "github.com/lindb/lindb/query/context"
	stagepkg "github.com/lindb/lindb/query/stage"
	trackerpkg "github.com/lindb/lindb/query/tracker"
	"github.com/lindb/lindb/rpc"
	"github.com/lindb/lindb/sql/stmt"
	"github.com/lindb/lindb/tsdb"
)

// plainChoose is a flow.NodeChoose that is not a broker state manager (the root node's case: no interval planning).
type plainChoose struct {
	plans func() []*models.PhysicalPlan
}

func (p *plainChoose) Choose(_ string, _ int) ([]*models.PhysicalPlan, error) { return p.plans(), nil }

// brokerChoose is a broker.StateManager (embedding the nil interface for the methods never called here):
// MakePlan then runs calcTimeRangeAndInterval with the database config before marshalling.
type brokerChoose struct {
	broker.StateManager
	plans func() []*models.PhysicalPlan
	cfg   models.Database

	// filled by the intermediate's search executor replacement
	outgoing map[string]*protoCommonV1.TaskRequest
	ran      int
}

func (b *brokerChoose) Choose(_ string, _ int) ([]*models.PhysicalPlan, error) { return b.plans(), nil }
func (b *brokerChoose) GetDatabaseCfg(_ string) (models.Database, bool)        { return b.cfg, true }

// ---- receivers' environment ----------------------------------------------------------------

// capturePipeline stands in for the execution pipeline of a leaf: it records (a deep copy of) the statement of the
// first stage and then completes the pipeline through the completion callback the task processor supplied, exactly as
// the real pipeline does after its last stage. Completing matters: whatever the processor recycles when a request is
// done (pooled statements, per-processor scratch objects) is then really recycled before the next request arrives.
type capturePipeline struct {
	complete func(err error)
}

// errCaptured completes a captured data search: the leaf answers its receivers with this error instead of a result set.
var errCaptured = errors.New("harness: statement captured, stages not executed")

func (p capturePipeline) Execute(s stagepkg.Stage) {
	q, m, db := stagepkg.VerifLeafStatement(s)
	f, ok := db.(*fakeDB)
	if ok {
		// copy now: after completion the object may be handed to another request
		if q != nil {
			f.gotQuery = cloneQuery(q)
		}
		if m != nil {
			f.gotMetadata = cloneMetadata(m)
		}
		f.captured++
	}
	if p.complete == nil {
		return
	}
	func() {
		defer func() {
			if r := recover(); r != nil && ok {
				f.completePanic = fmt.Sprint(r)
			}
		}()
		if m != nil {
			p.complete(nil) // metadata suggest: sends the (empty) suggest result upstream
		} else {
			p.complete(errCaptured) // data search: sends the error upstream, no result set is built
		}
	}()
	if ok {
		f.completed++
	}
}
func (capturePipeline) Stats() []*commonmodels.StageStats { return nil }

// fakeServerFactory hands out one stream for every receiver (the leaf's answer goes nowhere).
type fakeServerFactory struct {
	rpc.TaskServerFactory
	stream *fakeStream
}

func (f *fakeServerFactory) GetStream(_ string) protoCommonV1.TaskService_HandleServer {
	return f.stream
}

type fakeStream struct {
	protoCommonV1.TaskService_HandleServer
	sent int
}

func (s *fakeStream) Send(_ *protoCommonV1.TaskResponse) error { s.sent++; return nil }

type fakeEngine struct {
	tsdb.Engine
	db        *fakeDB
	askedName string
}

func (e *fakeEngine) GetDatabase(name string) (tsdb.Database, bool) {
	e.askedName = name
	return e.db, e.db != nil
}

func installReceiverSeams() {
	query.VerifSetNewExecutePipelineFn(func(_ *trackerpkg.StageTracker, complete func(err error)) query.Pipeline {
		return capturePipeline{complete: complete}
	})
	// intermediate data search: what exec() would do up to sending, i.e. plan and build the requests
	query.VerifSetExecFn(func(ctx queryctx.TaskContext, _ *models.Request, mgr *query.SearchMgr) (any, error) {
		b, ok := mgr.Choose.(*brokerChoose)
		if !ok {
			return nil, fmt.Errorf("harness: unexpected NodeChoose %T", mgr.Choose)
		}
		if err := ctx.MakePlan(); err != nil {
			return nil, err
		}
		b.outgoing = ctx.GetRequests()
		b.ran++
		return &protoCommonV1.TaskResponse{RequestID: mgr.RequestID, Completed: true}, nil
	})
	// intermediate metadata search: MetricMetadataSearch up to sending
	query.VerifSetMetricMetadataSearchFn(func(ctx context.Context, param *models.ExecuteParam,
		statement *stmt.MetricMetadata, mgr *query.SearchMgr) (any, error) {
		b, ok := mgr.Choose.(*brokerChoose)
		if !ok {
			return nil, fmt.Errorf("harness: unexpected NodeChoose %T", mgr.Choose)
		}
		mctx := queryctx.NewMetadataContext(&queryctx.MetadataDeps{
			Ctx:         ctx,
			Request:     &models.Request{RequestID: mgr.RequestID, DB: param.Database},
			Database:    param.Database,
			Statement:   statement,
			CurrentNode: mgr.CurNode,
			Choose:      mgr.Choose,
		})
		if err := mctx.MakePlan(); err != nil {
			return nil, err
		}
		b.outgoing = mctx.GetRequests()
		b.ran++
		return []string{}, nil
	})
}

// cluster holds the real task processors of the generated nodes (one set per worker chunk).
type cluster struct {
	leafEngines map[string]*fakeEngine
	leafs       map[string]query.TaskProcessor
}

const maxLeafs, maxComputes = 3, 3

func leafIndicator(i int) string    { return fmt.Sprintf("10.0.0.%d:2891", i+1) }
func computeIndicator(i int) string { return fmt.Sprintf("10.0.1.%d:9000", i+1) }

func newCluster() *cluster {
	c := &cluster{leafEngines: map[string]*fakeEngine{}, leafs: map[string]query.TaskProcessor{}}
	for i := 0; i < maxLeafs; i++ {
		node := &models.StatelessNode{HostIP: fmt.Sprintf("10.0.0.%d", i+1), GRPCPort: 2891}
		eng := &fakeEngine{}
		c.leafEngines[node.Indicator()] = eng
		c.leafs[node.Indicator()] = query.NewLeafTaskProcessor(node, eng, &fakeServerFactory{stream: &fakeStream{}})
	}
	return c
}

// leafReceive lets the real leaf task processor handle a request and returns the statement it hands to its pipeline.
func (c *cluster) leafReceive(rc received) (q *stmt.Query, m *stmt.MetricMetadata, err error) {
	proc, ok := c.leafs[rc.Target]
	if !ok {
		return nil, nil, fmt.Errorf("harness: no leaf %s", rc.Target)
	}
	eng := c.leafEngines[rc.Target]
	db := &fakeDB{}
	eng.db, eng.askedName = db, ""
	tctx := flow.NewTaskContextWithTimeout(context.Background(), time.Hour)
	defer tctx.Release()
	defer query.GetPipelineManager().RemovePipeline(rc.Req.RequestID)
	func() {
		defer func() {
			if r := recover(); r != nil {
				err = fmt.Errorf("panic in leaf Process: %v", r)
			}
		}()
		err = proc.Process(tctx, &fakeStream{}, rc.Req)
	}()
	if err != nil {
		return nil, nil, err
	}
	if db.captured != 1 {
		return nil, nil, fmt.Errorf("harness: leaf pipeline started %d times", db.captured)
	}
	if db.completePanic != "" {
		return nil, nil, fmt.Errorf("leaf panics when its pipeline completes: %s", db.completePanic)
	}
	if db.completed != 1 {
		return nil, nil, fmt.Errorf("harness: leaf pipeline completed %d times", db.completed)
	}
	if rc.Plan != nil && eng.askedName != rc.Plan.Database {
		return nil, nil, fmt.Errorf("leaf looked up database %q, plan says %q", eng.askedName, rc.Plan.Database)
	}
	return db.gotQuery, db.gotMetadata, nil
}

// intermediateReceive lets the real intermediate task processor handle a request of the root; it returns the
// requests the intermediate would send to the leafs (after decode, planning and encode) and the plans it holds.
func intermediateReceive(rc received, topo *topology) (*hop, error) {
	var idx int
	var port uint16
	if _, err := fmt.Sscanf(rc.Target, "10.0.1.%d:%d", &idx, &port); err != nil {
		return nil, fmt.Errorf("harness: bad compute target %q", rc.Target)
	}
	node := models.StatelessNode{HostIP: fmt.Sprintf("10.0.1.%d", idx), GRPCPort: port}
	var plans []*models.PhysicalPlan
	stateMgr := &brokerChoose{cfg: topo.dbCfg(), plans: func() []*models.PhysicalPlan { plans = topo.leafPlans(); return plans }}
	proc := query.NewIntermediateTaskProcessor(node, time.Hour, stateMgr, nil, nil)
	tctx := flow.NewTaskContextWithTimeout(context.Background(), time.Hour)
	defer tctx.Release()
	stream := &fakeStream{}
	var err error
	func() {
		defer func() {
			if r := recover(); r != nil {
				err = fmt.Errorf("panic in intermediate Process: %v", r)
			}
		}()
		err = proc.Process(tctx, stream, rc.Req)
	}()
	if err != nil {
		return nil, err
	}
	if stateMgr.ran == 0 {
		return &hop{}, nil // receive-only target: nothing is executed
	}
	got, err := transmit(stateMgr.outgoing)
	if err != nil {
		return nil, err
	}
	return &hop{SentPlans: plans, Received: got}, nil
}

// ---- topology -------------------------------------------------------------------------------

// topology is one generated cluster layout + database option.
type topology struct {
	Database  string
	Leafs     []*models.Target
	Computes  []*models.Target
	Intervals option.Intervals
}

var intervalSets = [][]int64{
	{10 * msSecond},
	{10 * msSecond, 5 * msMinute, msHour},
	{msSecond, msMinute},
	{30 * msSecond, 10 * msMinute},
	{msMinute, msHour, msDay},
	{5 * msSecond, msMinute, 30 * msMinute},
}

func genTopology(r *rand.Rand) *topology {
	t := &topology{Database: []string{"db", "_internal", "prod.metrics", "d-1", "数据库"}[r.Intn(5)]}
	nLeaf := 1 + r.Intn(maxLeafs)
	shard := 0
	for i := 0; i < nLeaf; i++ {
		tg := &models.Target{Indicator: leafIndicator(i)}
		switch k := r.Intn(5); k {
		case 0: // nil shard list
		case 1:
			tg.ShardIDs = []models.ShardID{}
		default:
			for j := 0; j < k; j++ {
				tg.ShardIDs = append(tg.ShardIDs, models.ShardID(shard))
				shard++
			}
		}
		t.Leafs = append(t.Leafs, tg)
	}
	nComp := 1 + r.Intn(maxComputes)
	for i := 0; i < nComp; i++ {
		t.Computes = append(t.Computes, &models.Target{Indicator: computeIndicator(i), ReceiveOnly: i != 0})
	}
	set := intervalSets[r.Intn(len(intervalSets))]
	for _, iv := range set {
		t.Intervals = append(t.Intervals, option.Interval{Interval: timeutil.Interval(iv), Retention: timeutil.Interval(30 * msDay)})
	}
	return t
}

func copyTargets(ts []*models.Target) []*models.Target {
	out := make([]*models.Target, len(ts))
	for i, t := range ts {
		c := *t
		if t.ShardIDs != nil {
			c.ShardIDs = append(make([]models.ShardID, 0, len(t.ShardIDs)), t.ShardIDs...)
		}
		out[i] = &c
	}
	return out
}

func (t *topology) leafPlans() []*models.PhysicalPlan {
	return []*models.PhysicalPlan{{Database: t.Database, Targets: copyTargets(t.Leafs)}}
}

func (t *topology) computePlans() []*models.PhysicalPlan {
	return []*models.PhysicalPlan{{Database: t.Database, Targets: copyTargets(t.Computes)}}
}

func (t *topology) dbCfg() models.Database {
	return models.Database{Name: t.Database, NumOfShard: 4, ReplicaFactor: 1, Option: &option.DatabaseOption{Intervals: t.Intervals}}
}

// ---- transport ------------------------------------------------------------------------------

// received is one TaskRequest as it arrives at a node.
type received struct {
	Target  string
	Req     *protoCommonV1.TaskRequest // after the protobuf codec
	Plan    *models.PhysicalPlan       // decoded for the plan comparison (same call as the processors use)
	PlanErr error
}

// transmit passes every request through the protobuf codec (what gRPC does).
func transmit(reqs map[string]*protoCommonV1.TaskRequest) ([]received, error) {
	targets := make([]string, 0, len(reqs))
	for k := range reqs {
		targets = append(targets, k)
	}
	sort.Strings(targets)
	var out []received
	for _, target := range targets {
		data, err := reqs[target].Marshal()
		if err != nil {
			return nil, fmt.Errorf("proto marshal: %w", err)
		}
		got := &protoCommonV1.TaskRequest{}
		if err := got.Unmarshal(data); err != nil {
			return nil, fmt.Errorf("proto unmarshal: %w", err)
		}
		rc := received{Target: target, Req: got}
		plan := &models.PhysicalPlan{}
		if err := encoding.JSONUnmarshal(got.PhysicalPlan, plan); err != nil {
			rc.PlanErr = err
		} else {
			rc.Plan = plan
		}
		out = append(out, rc)
	}
	return out, nil
}

var curNode = models.StatelessNode{HostIP: "10.0.9.9", GRPCPort: 9000, HTTPPort: 9001}

type hop struct {
	SentPlans []*models.PhysicalPlan // plans as the sender holds them after MakePlan
	Received  []received
}

// rootHop runs RootMetricContext.MakePlan on statement (mutating it like the real root does) and transmits.
func rootHop(statement *stmt.Query, topo *topology, asBroker bool, reqID string) (*hop, error) {
	var plans []*models.PhysicalPlan
	deps := &queryctx.RootMetricContextDeps{
		Ctx:         context.Background(),
		Request:     &models.Request{RequestID: reqID, DB: topo.Database},
		Database:    topo.Database,
		CurrentNode: curNode,
		Statement:   statement,
	}
	if asBroker {
		deps.Choose = &brokerChoose{cfg: topo.dbCfg(), plans: func() []*models.PhysicalPlan { plans = topo.leafPlans(); return plans }}
	} else {
		deps.Choose = &plainChoose{plans: func() []*models.PhysicalPlan { plans = topo.computePlans(); return plans }}
	}
	ctx := queryctx.NewRootMetricContext(deps)
	if err := ctx.MakePlan(); err != nil {
		return nil, err
	}
	rc, err := transmit(ctx.GetRequests())
	if err != nil {
		return nil, err
	}
	return &hop{SentPlans: plans, Received: rc}, nil
}

// metadataHop runs MetadataContext.MakePlan (the constructor clamps Limit like the real one) and transmits.
func metadataHop(statement *stmt.MetricMetadata, plansFn func() []*models.PhysicalPlan, db, reqID string) (*hop, error) {
	var plans []*models.PhysicalPlan
	ctx := queryctx.NewMetadataContext(&queryctx.MetadataDeps{
		Ctx:         context.Background(),
		Request:     &models.Request{RequestID: reqID, DB: db},
		Database:    db,
		Statement:   statement,
		CurrentNode: curNode,
		Choose:      &plainChoose{plans: func() []*models.PhysicalPlan { plans = plansFn(); return plans }},
	})
	if err := ctx.MakePlan(); err != nil {
		return nil, err
	}
	rc, err := transmit(ctx.GetRequests())
	if err != nil {
		return nil, err
	}
	return &hop{SentPlans: plans, Received: rc}, nil
}
