package main

import (
	"bytes"
	"encoding/json"
	"errors"
	"fmt"
	"math/rand"
	"reflect"
	"strings"
	"unicode/utf8"

	commontimeutil "github.com/lindb/common/pkg/timeutil"

	"github.com/lindb/lindb/aggregation/function"
	"github.com/lindb/lindb/models"
	"github.com/lindb/lindb/query"
	"github.com/lindb/lindb/sql"
	"github.com/lindb/lindb/sql/stmt"
	"github.com/lindb/lindb/verif/internal/core"
)

const chunkSize = 250

type resampleEntry struct {
	Text string
	Stmt stmt.Statement
}

// ---------------------------------------------------------------------------------------------
// phase 1: SQL text -> real parser -> wire

func (e *engine) runSQL(workers int) {
	n := e.scaled(e.c.Pick(20_000, 5_000_000))
	chunks := (n + chunkSize - 1) / chunkSize
	core.Parallel(chunks, workers, func(k int) {
		r := e.c.Rand(fmt.Sprintf("sql/%d", k))
		g := &sqlGen{r: r, maxDepth: e.maxDepth}
		a := newAcc()
		a.slot = e.slots.acquire()
		defer e.slots.release(a.slot)
		for i := 0; i < chunkSize && k*chunkSize+i < n; i++ {
			var cs *sqlCase
			if r.Intn(100) < 85 {
				cs = g.query()
			} else {
				cs = g.metadata()
			}
			e.checkSQL(cs, g, a, k*chunkSize+i)
		}
		e.flush(a)
	})
}

func rejectBucket(err error) string {
	m := err.Error()
	switch {
	case strings.Contains(m, "expression is invalid"):
		return "nil_operand_in_expression"
	case strings.Contains(m, "duration") && strings.Contains(m, "out of range"):
		return "duration_out_of_range"
	case strings.Contains(m, "order by field not in select"):
		return "order_by_not_in_select"
	case strings.Contains(m, "function not support order by"):
		return "order_by_function_unsupported"
	case strings.Contains(m, "order by function params"):
		return "order_by_params"
	case strings.Contains(m, "start time cannot be larger"):
		return "start_after_end"
	case strings.Contains(m, "select fields"):
		return "empty_select"
	case strings.Contains(m, "metric name"):
		return "empty_metric"
	case strings.Contains(m, "parsing time"):
		return "bad_timestamp"
	case strings.Contains(m, "value out of range"), strings.Contains(m, "invalid syntax"):
		return "number_out_of_range"
	case strings.Contains(m, "mismatched input"), strings.Contains(m, "extraneous input"), strings.Contains(m, "no viable alternative"),
		strings.Contains(m, "missing "), strings.Contains(m, "token recognition"):
		return "syntax"
	default:
		return "other"
	}
}

func safeParse(text string) (s stmt.Statement, err error, panicked interface{}) {
	defer func() {
		if r := recover(); r != nil {
			panicked = r
		}
	}()
	s, err = sql.Parse(text)
	return
}

func (e *engine) checkSQL(cs *sqlCase, g *sqlGen, a *acc, idx int) {
	a.evals++
	a.count("sql_generated", 1)
	for _, h := range cs.Hostile {
		a.count("gen_hostile_"+h, 1)
	}
	e.slots.note(a.slot, "sql.Parse "+cs.Text)
	t0 := commontimeutil.Now()
	s1, err1, p1 := safeParse(cs.Text)
	t1 := commontimeutil.Now()
	// something else goes through the pooled lexer/parser between the two parses of the same text
	var other string
	switch g.r.Intn(3) {
	case 0:
		other = g.garbage(cs.Text)
	case 1:
		other = g.query().Text
	default:
		other = g.metadata().Text
	}
	e.slots.note(a.slot, "sql.Parse "+other+"\n  after sql.Parse "+cs.Text)
	_, _, _ = safeParse(other)
	e.slots.note(a.slot, "sql.Parse "+cs.Text+"\n  after sql.Parse "+other)
	t2 := commontimeutil.Now()
	s2, err2, p2 := safeParse(cs.Text)
	t3 := commontimeutil.Now()

	e.slots.note(a.slot, "wire checks of "+cs.Text)
	w := map[string]interface{}{"sql": cs.Text, "interleaved_sql": other, "case": idx}
	if p1 != nil || p2 != nil {
		e.violation("C17/parse/panic-escapes-Parse", fmt.Sprintf("sql.Parse panicked: %v / %v", p1, p2), w)
		return
	}
	if (err1 == nil) != (err2 == nil) {
		w["err1"], w["err2"] = fmt.Sprint(err1), fmt.Sprint(err2)
		e.violation("C17/parse-determinism/acceptance-differs", fmt.Sprintf("same text accepted once and rejected once: %q (%v / %v)", cs.Text, err1, err2), w)
		return
	}
	if err1 != nil {
		a.count("sql_rejected", 1)
		a.count("reject_"+cs.Kind+"_"+rejectBucket(err1), 1)
		if err1.Error() != err2.Error() {
			a.count("reject_message_differs_between_parses", 1)
		}
		return
	}
	if s1 == nil || s2 == nil {
		if (s1 == nil) != (s2 == nil) {
			e.violation("C17/parse-determinism/nil-statement-differs", fmt.Sprintf("same text gives nil statement once: %q", cs.Text), w)
		}
		a.count("sql_parsed_to_nil_statement", 1)
		return
	}
	a.count("sql_accepted", 1)
	if reflect.TypeOf(s1) != reflect.TypeOf(s2) {
		e.violation("C17/parse-determinism/statement-type-differs", fmt.Sprintf("%T vs %T for %q", s1, s2, cs.Text), w)
		return
	}
	switch q1 := s1.(type) {
	case *stmt.Query:
		a.count("sql_query_accepted", 1)
		q2 := s2.(*stmt.Query)
		a.count("determinism_pairs_compared", 1)
		// everything but the time bounds must be equal; the bounds are judged by checkBound
		if d := diffQuery(q1, q2, timeMask{Start: true, End: true}); d != nil {
			w["diff"] = d.String()
			e.violation("C17/parse-determinism/"+d.What, fmt.Sprintf("two parses of %q differ: %s", cs.Text, d), w)
		}
		clk := [4]int64{t0, t1, t2, t3}
		okS, howS := e.checkBound("start", cs.Start, -msHour, q1.TimeRange.Start, q2.TimeRange.Start, clk, cs, a, w)
		okE, howE := e.checkBound("end", cs.End, 0, q1.TimeRange.End, q2.TimeRange.End, clk, cs, a, w)
		clockFree := okS && okE && howS == "abs" && howE == "abs" &&
			t0-q1.TimeRange.End > msDay && t0-q1.TimeRange.Start > msDay+msHour
		switch {
		case clockFree:
			a.count("feat_time_absolute_both", 1)
		case howS == "rel" || howE == "rel":
			a.count("feat_time_relative", 1)
		case howS == "abs":
			a.count("feat_time_absolute_start_only", 1)
		default:
			a.count("feat_time_defaulted", 1)
		}
		countQueryFeatures(q1, cs, a)
		a.nontrivial(hashKey("q", shapeOfQuery(q1)))
		if clockFree && idx%4 == 0 {
			e.mu.Lock()
			e.resample = append(e.resample, resampleEntry{Text: cs.Text, Stmt: cloneQuery(q1)})
			e.mu.Unlock()
		}
		if idx < 4 {
			e.c.Sample(map[string]interface{}{"sql": cs.Text, "shape": shapeOfQuery(q1)})
		}
		e.checkQueryWire(q1, g.r, "sql", cs.Text, a)
	case *stmt.MetricMetadata:
		a.count("sql_metadata_accepted", 1)
		a.count("feat_metadata_type_"+q1.Type.String(), 1)
		m2 := s2.(*stmt.MetricMetadata)
		a.count("determinism_pairs_compared", 1)
		if d := diffMetadata(q1, m2); d != nil {
			w["diff"] = d.String()
			e.violation("C17/parse-determinism/"+d.What, fmt.Sprintf("two parses of %q differ: %s", cs.Text, d), w)
		}
		if q1.Condition != nil {
			a.count("feat_metadata_condition", 1)
		}
		if q1.Prefix != "" {
			a.count("feat_metadata_prefix", 1)
		}
		a.nontrivial(hashKey("m", shapeOfMetadata(q1)))
		if idx%8 == 0 {
			e.mu.Lock()
			e.resample = append(e.resample, resampleEntry{Text: cs.Text, Stmt: cloneMetadata(q1)})
			e.mu.Unlock()
		}
		e.checkMetadataWire(q1, g.r, "sql", cs.Text, a)
	default:
		a.count("sql_other_statement_kind", 1)
	}
}

// checkBound judges one time bound of two parses of the same text (clock readings clk[0..1] around the first parse,
// clk[2..3] around the second). An absolute bound must be equal in both parses. A bound the parser derives from the
// clock (now()+offset, or the defaulted start=now-1h / end=now) must lie, in both parses and with the same offset,
// between the clock readings taken around the parse. The defaulted offset is always a candidate because the grammar
// lets the parser stop before the end of the text (statement: ... | queryStmt | ... | ident EOF), which drops the
// where clause deterministically.
func (e *engine) checkBound(name string, b bound, defOff, v1, v2 int64, clk [4]int64, cs *sqlCase, a *acc, w map[string]interface{}) (bool, string) {
	if b.Kind == boundAbs && v1 == v2 {
		a.count("determinism_absolute_bounds_equal", 1)
		return true, "abs"
	}
	cands := []int64{defOff}
	if b.Kind == boundRel {
		cands = append(cands, b.Offset)
	}
	for _, off := range cands {
		if v1 >= clk[0]+off && v1 <= clk[1]+off && v2 >= clk[2]+off && v2 <= clk[3]+off {
			a.count("determinism_clock_bounds_bracketed", 1)
			if b.Kind == boundAbs || (b.Kind == boundRel && off != b.Offset) {
				a.count("determinism_bound_in_text_not_reached_by_parser", 1)
				return true, "default"
			}
			if b.Kind == boundRel {
				return true, "rel"
			}
			return true, "default"
		}
	}
	ww := map[string]interface{}{"bound": name, "parse1": v1, "parse2": v2, "clock": clk, "candidate_offsets_ms": cands}
	for k, v := range w {
		ww[k] = v
	}
	e.violation("C17/parse-determinism/time-bound-"+name,
		fmt.Sprintf("%s bound of %q: %d then %d; neither equal absolute values nor clock+offset %v within the clock readings %v", name, cs.Text, v1, v2, cands, clk), ww)
	return false, ""
}

func countQueryFeatures(qr *stmt.Query, cs *sqlCase, a *acc) {
	if qr.Explain {
		a.count("feat_explain", 1)
	}
	if qr.Namespace != "default-ns" {
		a.count("feat_namespace", 1)
	}
	if qr.AllFields {
		a.count("feat_all_fields", 1)
	}
	a.count(fmt.Sprintf("feat_select_items=%d", min(len(qr.SelectItems), 5)), 1)
	var selFacts treeFacts
	for _, it := range qr.SelectItems {
		selFacts.merge(factsOf(it))
		if si, ok := it.(*stmt.SelectItem); ok && si.Alias != "" {
			a.count("feat_alias", 1)
		}
		walkExpr(it, func(n stmt.Expr) {
			switch x := n.(type) {
			case *stmt.BinaryExpr:
				a.count("feat_select_arithmetic", 1)
				a.count("feat_select_arith_op_"+stmt.BinaryOPString(x.Operator), 1)
			case *stmt.ParenExpr:
				a.count("feat_select_paren", 1)
			case *stmt.NumberLiteral:
				a.count("feat_select_number", 1)
				if x.Val < 0 {
					a.count("feat_select_negative_number", 1)
				}
			case *stmt.CallExpr:
				a.count("feat_select_call_"+x.FuncType.String(), 1)
				if len(x.Params) != 1 {
					a.count(fmt.Sprintf("feat_select_call_params=%d", min(len(x.Params), 3)), 1)
				}
			}
		})
	}
	for d := 1; d <= selFacts.CallDepth && d <= 4; d++ {
		a.count(fmt.Sprintf("feat_select_call_nesting>=%d", d), 1)
	}
	a.count(fmt.Sprintf("feat_select_depth=%d", min(selFacts.Depth, 8)), 1)
	if qr.Condition != nil {
		a.count("feat_condition", 1)
		walkExpr(qr.Condition, func(n stmt.Expr) {
			switch x := n.(type) {
			case *stmt.EqualsExpr:
				a.count("feat_cond_equals", 1)
				if x.Value == "" {
					a.count("feat_cond_empty_string_value", 1)
				}
				if !isASCII(x.Value) {
					a.count("feat_cond_non_ascii_value", 1)
				}
				if strings.ContainsAny(x.Value, "\\\"'") {
					a.count("feat_cond_value_with_quote_or_backslash", 1)
				}
			case *stmt.InExpr:
				a.count("feat_cond_in", 1)
			case *stmt.LikeExpr:
				a.count("feat_cond_like", 1)
			case *stmt.RegexExpr:
				a.count("feat_cond_regex", 1)
			case *stmt.NotExpr:
				a.count("feat_cond_not", 1)
			case *stmt.ParenExpr:
				a.count("feat_cond_paren", 1)
			case *stmt.BinaryExpr:
				a.count("feat_cond_and_or", 1)
			}
		})
		a.count(fmt.Sprintf("feat_cond_depth=%d", min(factsOf(qr.Condition).Depth, 8)), 1)
	}
	if qr.Interval != 0 {
		a.count("feat_interval", 1)
	}
	if qr.AutoGroupByTime {
		a.count("feat_auto_group_by_time", 1)
	}
	if len(qr.GroupBy) > 0 {
		a.count("feat_group_by_tags", 1)
	}
	if qr.Having != nil {
		a.count("feat_having", 1)
		hf := factsOf(qr.Having)
		a.count(fmt.Sprintf("feat_having_depth=%d", min(hf.Depth, 8)), 1)
		walkExpr(qr.Having, func(n stmt.Expr) {
			switch x := n.(type) {
			case *stmt.BinaryExpr:
				switch x.Operator {
				case stmt.AND, stmt.OR:
					a.count("feat_having_logical", 1)
				case stmt.ADD, stmt.SUB, stmt.MUL, stmt.DIV:
					a.count("feat_having_arithmetic", 1)
				default:
					a.count("feat_having_cmp_"+stmt.BinaryOPString(x.Operator), 1)
				}
			case *stmt.CallExpr:
				a.count("feat_having_call", 1)
			case *stmt.ParenExpr:
				a.count("feat_having_paren", 1)
			}
		})
	}
	if len(qr.OrderByItems) > 0 {
		a.count("feat_order_by", 1)
		for _, it := range qr.OrderByItems {
			if ob, ok := it.(*stmt.OrderByExpr); ok {
				if ob.Desc {
					a.count("feat_order_by_desc", 1)
				}
				switch ob.Expr.(type) {
				case *stmt.CallExpr:
					a.count("feat_order_by_call", 1)
				case *stmt.FieldExpr:
					a.count("feat_order_by_field", 1)
				}
			}
		}
	}
	switch {
	case qr.Limit == 0:
		a.count("feat_limit_zero", 1)
	case qr.Limit != 20:
		a.count("feat_limit_explicit", 1)
	}
}

func isASCII(s string) bool {
	for i := 0; i < len(s); i++ {
		if s[i] >= 0x80 {
			return false
		}
	}
	return true
}

// ---------------------------------------------------------------------------------------------
// the wire of a query statement

func marshalQuery(qr *stmt.Query) (data []byte, panicked interface{}) {
	defer func() {
		if r := recover(); r != nil {
			panicked = r
		}
	}()
	data, _ = qr.MarshalJSON()
	return
}

func unmarshalQuery(data []byte) (qr *stmt.Query, err error, panicked interface{}) {
	defer func() {
		if r := recover(); r != nil {
			panicked = r
		}
	}()
	// exactly like leafTaskProcessor.processDataSearch / intermediateTaskProcessor.processDataSearch
	stmtQuery := stmt.Query{}
	err = stmtQuery.UnmarshalJSON(data)
	return &stmtQuery, err, nil
}

func trunc(s string, n int) string {
	if len(s) > n {
		return s[:n] + "..."
	}
	return s
}

// classifyDecodeFailure names the defect family of a payload the receiver cannot decode.
func classifyDecodeFailure(f treeFacts, where, fallback string) string {
	switch {
	case f.NilChild:
		return "C17/nil-operand-unmarshal/" + where
	case f.NonFinite:
		return "C17/nonfinite-number-marshal/" + where
	default:
		return "C17/" + where + "/" + fallback
	}
}

func classifyDiff(d *diff, where string, before *stmt.Query) string {
	if d.What == "Query.Interval" && before != nil && int64(before.Interval)%msSecond != 0 {
		return "C17/interval-not-whole-seconds-lossy/" + where
	}
	if d.badUTF8 {
		return "C17/invalid-utf8-string-replaced/" + where
	}
	return "C17/" + where + "/" + d.What
}

func (e *engine) checkQueryWire(qr *stmt.Query, r *rand.Rand, origin, text string, a *acc) {
	where := origin + "-query-wire"
	facts := factsOfQuery(qr)
	w := map[string]interface{}{"origin": origin}
	if text != "" {
		w["sql"] = text
	} else {
		w["statement"] = fmt.Sprintf("%+v", *qr)
		w["rewrite"] = describeQuery(qr)
	}
	payload, p := marshalQuery(qr)
	if p != nil {
		e.violation("C17/"+where+"/marshal-panic", fmt.Sprintf("MarshalJSON panicked: %v", p), w)
		return
	}
	w["payload"] = trunc(string(payload), 3000)
	if facts.NilChild {
		a.count("accepted_with_nil_operand", 1)
	}
	if facts.NonFinite {
		a.count("accepted_with_nonfinite_number", 1)
	}
	// ---- direct round trip
	q1, err, p := unmarshalQuery(payload)
	if p != nil {
		e.violation("C17/"+where+"/unmarshal-panic", fmt.Sprintf("UnmarshalJSON panicked: %v", p), w)
		return
	}
	if err != nil {
		w["error"] = err.Error()
		w["payload_is_valid_json"] = json.Valid(payload)
		e.violation(classifyDecodeFailure(facts, where, "unmarshal-error"),
			fmt.Sprintf("the receiver cannot decode the statement it was sent (%v): %s", err, trunc(describe(text, qr), 300)), w)
		return
	}
	if !json.Valid(payload) {
		e.violation("C17/"+where+"/payload-not-json", "payload is not valid JSON although it decodes", w)
	}
	if d := diffQuery(qr, q1, timeMask{}); d != nil {
		w["diff"] = d.String()
		e.violation(classifyDiff(d, where, qr), fmt.Sprintf("statement changed on the wire: %s (%s)", d, trunc(describe(text, qr), 300)), w)
		return
	}
	a.count("wire_query_direct_ok", 1)
	// a decoded statement must encode to the same bytes (a node that forwards it sends the same statement)
	if again, p := marshalQuery(q1); p != nil || !bytes.Equal(again, payload) {
		w["payload_after_reencode"] = trunc(string(again), 3000)
		e.violation("C17/"+where+"/reencode-differs", "decode+encode of the payload gives different bytes", w)
	}
	// ---- executable meaning of the decoded statement
	e.checkMeaning(qr, q1, r, where, w, a)

	// ---- the same through the real MakePlan of the nodes
	topo := genTopology(r)
	a.seq++
	reqID := fmt.Sprintf("req-%d-%d", r.Intn(1<<30), a.seq)
	planned := cloneQuery(qr)
	var h1 *hop
	var herr error
	func() {
		defer func() {
			if rec := recover(); rec != nil {
				herr = fmt.Errorf("panic: %v", rec)
			}
		}()
		h1, herr = rootHop(planned, topo, true, reqID)
	}()
	if herr != nil {
		a.count("makeplan_failed_"+trunc(herr.Error(), 40), 1)
		return
	}
	a.count("wire_query_broker_planned", 1)
	if planned.StorageInterval <= 0 || planned.IntervalRatio <= 0 {
		e.violation("C17/harness/planning-not-applied", "broker MakePlan did not run the interval planning", w)
	}
	schema := schemaFor(planned)
	plannedLeafPlan := leafPlan(planned, schema)
	e.checkPlans(h1, topo.Database, reqID, w, a)
	for _, rc := range h1.Received {
		lq, _, err := a.cluster().leafReceive(rc)
		if err != nil {
			w["error"] = err.Error()
			fallback := "leaf-process-error"
			if errors.Is(err, query.ErrUnmarshalQuery) {
				fallback = "unmarshal-error"
			}
			e.violation(classifyDecodeFailure(facts, origin+"-planned-wire", fallback), fmt.Sprintf("leaf %s cannot process the planned statement: %v", rc.Target, err), w)
			return
		}
		if lq == nil {
			e.violation("C17/"+origin+"-planned-wire/leaf-got-no-query", "leaf pipeline started without a query statement", w)
			return
		}
		a.count("wire_query_broker_planned_leaf_decodes", 1)
		if d := diffQuery(planned, lq, timeMask{}); d != nil {
			w["diff"] = d.String()
			e.violation(classifyDiff(d, origin+"-planned-wire", planned), fmt.Sprintf("leaf %s executes a different statement than the broker planned: %s (%s)", rc.Target, d, trunc(describe(text, qr), 300)), w)
			return
		}
		a.count("meaning_leaf_plan_compared", 1)
		if got := leafPlan(lq, schema); got != plannedLeafPlan {
			w["leaf_plan_of_planned"], w["leaf_plan_of_decoded"] = plannedLeafPlan, got
			e.violation("C17/meaning/leaf-plan-differs", fmt.Sprintf("metadata lookup plans differently for the decoded statement: %s vs %s", trunc(plannedLeafPlan, 200), trunc(got, 200)), w)
			return
		}
		if strings.HasPrefix(plannedLeafPlan, "error") {
			a.count("meaning_leaf_plan_error_path", 1)
		} else {
			a.count("meaning_leaf_plan_ok_path", 1)
		}
	}
	// ---- root (no planning) -> intermediate (decode, plan, encode) -> leaf
	viaRoot := cloneQuery(qr)
	var h2 *hop
	func() {
		defer func() {
			if rec := recover(); rec != nil {
				herr = fmt.Errorf("panic: %v", rec)
			}
		}()
		h2, herr = rootHop(viaRoot, topo, false, reqID)
	}()
	if herr != nil {
		a.count("makeplan_failed_"+trunc(herr.Error(), 40), 1)
		return
	}
	if d := diffQuery(qr, viaRoot, timeMask{}); d != nil {
		e.violation("C17/harness/root-planned-unexpectedly", "root MakePlan with a plain NodeChoose changed the statement: "+d.String(), w)
	}
	e.checkPlans(h2, topo.Database, reqID, w, a)
	executed := 0
	for _, rc := range h2.Received {
		h3, err := intermediateReceive(rc, topo)
		if err != nil {
			w["error"] = err.Error()
			e.violation("C17/"+origin+"-two-hop/intermediate-fails", "intermediate node cannot process the root's request: "+err.Error(), w)
			return
		}
		if len(h3.Received) == 0 {
			a.count("wire_two_hop_receive_only_target", 1)
			continue
		}
		executed++
		e.checkPlans(h3, topo.Database, reqID, w, a)
		for _, lrc := range h3.Received {
			lq, _, err := a.cluster().leafReceive(lrc)
			if err != nil || lq == nil {
				w["error"] = fmt.Sprint(err)
				e.violation("C17/"+origin+"-two-hop/leaf-process-error", fmt.Sprintf("leaf cannot process the intermediate's request: %v", err), w)
				return
			}
			a.count("wire_query_two_hop_leaf_decodes", 1)
			// planning the decoded statement must give what planning the parsed statement gives; a statement that
			// already carries a storage interval was planned by the node that sent it (only planning sets it) and
			// the intermediate must keep that plan (lindb fix ae161db), not plan the truncated range again
			expect := planned
			if qr.StorageInterval > 0 {
				expect = qr
				a.count("wire_query_two_hop_statement_already_planned", 1)
			}
			if d := diffQuery(expect, lq, timeMask{}); d != nil {
				w["diff"] = d.String()
				e.violation(classifyDiff(d, origin+"-two-hop", planned), "two hops (root->intermediate->leaf) deliver a different statement than planning the parsed statement directly: "+d.String(), w)
				return
			}
		}
	}
	if executed != 1 {
		e.violation("C17/harness/compute-targets", fmt.Sprintf("%d compute targets executed the search", executed), w)
	}
}

// checkPlans: every receiver decodes exactly the physical plan the sender holds, request id and type survive.
func (e *engine) checkPlans(h *hop, db, reqID string, w map[string]interface{}, a *acc) {
	for _, rc := range h.Received {
		a.count("wire_physical_plans_compared", 1)
		if rc.PlanErr != nil {
			e.violation("C17/physical-plan-wire/unmarshal-error", "receiver cannot decode the physical plan: "+rc.PlanErr.Error(), w)
			continue
		}
		if rc.Req.RequestID != reqID {
			e.violation("C17/physical-plan-wire/request-id", fmt.Sprintf("request id %q arrived as %q", reqID, rc.Req.RequestID), w)
		}
		var sent *models.PhysicalPlan
		for _, p := range h.SentPlans {
			for _, t := range p.Targets {
				if t.Indicator == rc.Target {
					sent = p
				}
			}
		}
		if sent == nil {
			e.violation("C17/physical-plan-wire/unknown-target", "request addressed to a target of no plan: "+rc.Target, w)
			continue
		}
		if !reflect.DeepEqual(sent, rc.Plan) {
			ww := map[string]interface{}{"sent": fmt.Sprintf("%+v", planString(sent)), "received": planString(rc.Plan)}
			for k, v := range w {
				ww[k] = v
			}
			e.violation("C17/physical-plan-wire/plan-differs", fmt.Sprintf("physical plan changed on the wire: %s vs %s", planString(sent), planString(rc.Plan)), ww)
		}
	}
}

func planString(p *models.PhysicalPlan) string {
	var sb strings.Builder
	fmt.Fprintf(&sb, "db=%q receivers=%#v targets=[", p.Database, p.Receivers)
	for _, t := range p.Targets {
		fmt.Fprintf(&sb, "{%s recvOnly=%v shards=%#v}", t.Indicator, t.ReceiveOnly, t.ShardIDs)
	}
	sb.WriteString("]")
	return sb.String()
}

func describe(text string, qr *stmt.Query) string {
	if text != "" {
		return text
	}
	return describeQuery(qr)
}

func describeQuery(qr *stmt.Query) string {
	var sb strings.Builder
	sb.WriteString("select ")
	for i, it := range qr.SelectItems {
		if i > 0 {
			sb.WriteString(", ")
		}
		sb.WriteString(rewriteOf(it))
	}
	fmt.Fprintf(&sb, " from %q where %s having %s order by ", qr.MetricName, rewriteOf(qr.Condition), rewriteOf(qr.Having))
	for _, it := range qr.OrderByItems {
		sb.WriteString(rewriteOf(it) + ", ")
	}
	return sb.String()
}

// checkMeaning compares what lindb itself derives from the statement before and after the wire.
func (e *engine) checkMeaning(before, after *stmt.Query, r *rand.Rand, where string, w map[string]interface{}, a *acc) {
	cmp := func(kind string, x, y stmt.Expr) {
		a.count("meaning_rewrite_compared", 1)
		if rx, ry := rewriteOf(x), rewriteOf(y); rx != ry {
			ww := map[string]interface{}{"rewrite_before": rx, "rewrite_after": ry}
			for k, v := range w {
				ww[k] = v
			}
			e.violation("C17/meaning/rewrite-differs-"+kind, fmt.Sprintf("Rewrite() of %s changed on the wire: %q vs %q", kind, trunc(rx, 200), trunc(ry, 200)), ww)
		}
	}
	for i := range before.SelectItems {
		if i < len(after.SelectItems) {
			cmp("select-item", before.SelectItems[i], after.SelectItems[i])
		}
	}
	cmp("condition", before.Condition, after.Condition)
	cmp("having", before.Having, after.Having)
	for i := range before.OrderByItems {
		if i < len(after.OrderByItems) {
			cmp("order-by", before.OrderByItems[i], after.OrderByItems[i])
		}
	}
	if before.Having != nil && after.Having != nil {
		names := map[string]struct{}{}
		walkExpr(before.Having, func(n stmt.Expr) {
			if f, ok := n.(*stmt.FieldExpr); ok {
				names[f.Name] = struct{}{}
			}
			// the root evaluates having over result field names, which are Rewrite() strings of calls
			if c, ok := n.(*stmt.CallExpr); ok {
				names[rewriteOf(c)] = struct{}{}
			}
		})
		for round := 0; round < 3; round++ {
			vars := map[string]float64{}
			for n := range names {
				if round == 2 && r.Intn(4) == 0 {
					continue // missing variable: error path
				}
				vars[n] = []float64{0, 1, -1, 10, 99.5, 100, 1e9, 0.5}[r.Intn(8)]
			}
			x, y := calcHaving(before.Having, vars), calcHaving(after.Having, vars)
			a.count("meaning_having_calc_compared", 1)
			if strings.HasPrefix(x, "bool") {
				a.count("meaning_having_calc_bool_result", 1)
			}
			if x != y {
				ww := map[string]interface{}{"vars": fmt.Sprint(vars), "calc_before": x, "calc_after": y}
				for k, v := range w {
					ww[k] = v
				}
				e.violation("C17/meaning/having-calc-differs", fmt.Sprintf("having evaluates differently after the wire: %s vs %s", x, y), ww)
				break
			}
		}
	}
}

func calcHaving(h stmt.Expr, vars map[string]float64) (out string) {
	defer func() {
		if r := recover(); r != nil {
			out = fmt.Sprintf("panic: %v", r)
		}
	}()
	res, err := sql.NewCalc(h).CalcExpr(vars)
	if err != nil {
		return "error: " + err.Error()
	}
	return fmt.Sprintf("%T %v", res, res)
}

// ---------------------------------------------------------------------------------------------
// the wire of a metric metadata statement

func unmarshalMetadata(data []byte) (m *stmt.MetricMetadata, err error, panicked interface{}) {
	defer func() {
		if r := recover(); r != nil {
			panicked = r
		}
	}()
	// exactly like leafTaskProcessor.processMetadataSuggest / intermediateTaskProcessor.processMetadataSearch
	var stmtQuery = &stmt.MetricMetadata{}
	err = stmtQuery.UnmarshalJSON(data)
	return stmtQuery, err, nil
}

func (e *engine) checkMetadataWire(m *stmt.MetricMetadata, r *rand.Rand, origin, text string, a *acc) {
	where := origin + "-metadata-wire"
	facts := factsOf(m.Condition)
	w := map[string]interface{}{"origin": origin}
	if text != "" {
		w["sql"] = text
	} else {
		w["statement"] = fmt.Sprintf("%+v condition=%s", *m, rewriteOf(m.Condition))
	}
	var payload []byte
	var p interface{}
	func() {
		defer func() { p = recover() }()
		payload, _ = m.MarshalJSON()
	}()
	if p != nil {
		e.violation("C17/"+where+"/marshal-panic", fmt.Sprintf("MarshalJSON panicked: %v", p), w)
		return
	}
	w["payload"] = trunc(string(payload), 3000)
	m1, err, p := unmarshalMetadata(payload)
	if err != nil || p != nil {
		w["error"] = fmt.Sprint(err, p)
		e.violation(classifyDecodeFailure(facts, where, "unmarshal-error"), fmt.Sprintf("the receiver cannot decode the metadata statement: %v %v", err, p), w)
		return
	}
	if d := diffMetadata(m, m1); d != nil {
		w["diff"] = d.String()
		e.violation(classifyDiff(d, where, nil), "metadata statement changed on the wire: "+d.String(), w)
		return
	}
	a.count("wire_metadata_direct_ok", 1)
	if again, _ := m1.MarshalJSON(); !bytes.Equal(again, payload) {
		e.violation("C17/"+where+"/reencode-differs", "decode+encode of the payload gives different bytes", w)
	}
	a.count("meaning_rewrite_compared", 1)
	if rx, ry := rewriteOf(m.Condition), rewriteOf(m1.Condition); rx != ry {
		e.violation("C17/meaning/rewrite-differs-condition", fmt.Sprintf("Rewrite() of the condition changed: %q vs %q", rx, ry), w)
	}
	// through the real MetadataContext.MakePlan: broker -> leaf
	topo := genTopology(r)
	a.seq++
	reqID := fmt.Sprintf("req-%d-%d", r.Intn(1<<30), a.seq)
	sent := cloneMetadata(m)
	var h *hop
	var herr error
	func() {
		defer func() {
			if rec := recover(); rec != nil {
				herr = fmt.Errorf("panic: %v", rec)
			}
		}()
		h, herr = metadataHop(sent, topo.leafPlans, topo.Database, reqID)
	}()
	if herr != nil {
		a.count("makeplan_failed_"+trunc(herr.Error(), 40), 1)
		return
	}
	e.checkPlans(h, topo.Database, reqID, w, a)
	for _, rc := range h.Received {
		_, lm, err := a.cluster().leafReceive(rc)
		if err != nil || lm == nil {
			e.violation("C17/"+origin+"-metadata-planned-wire/leaf-process-error", fmt.Sprintf("leaf cannot process the metadata request: %v", err), w)
			return
		}
		a.count("wire_metadata_leaf_decodes", 1)
		if d := diffMetadata(sent, lm); d != nil {
			w["diff"] = d.String()
			e.violation(classifyDiff(d, origin+"-metadata-planned-wire", nil), "leaf executes a different metadata statement than the broker sent: "+d.String(), w)
			return
		}
	}
	// root -> intermediate (decode, new MetadataContext, encode) -> leaf
	viaRoot := cloneMetadata(m)
	func() {
		defer func() {
			if rec := recover(); rec != nil {
				herr = fmt.Errorf("panic: %v", rec)
			}
		}()
		h, herr = metadataHop(viaRoot, topo.computePlans, topo.Database, reqID)
	}()
	if herr != nil {
		return
	}
	e.checkPlans(h, topo.Database, reqID, w, a)
	for _, rc := range h.Received {
		h2, err := intermediateReceive(rc, topo)
		if err != nil {
			e.violation("C17/"+origin+"-metadata-two-hop/intermediate-fails", "intermediate cannot process the metadata request: "+err.Error(), w)
			return
		}
		if len(h2.Received) == 0 {
			continue
		}
		e.checkPlans(h2, topo.Database, reqID, w, a)
		for _, lrc := range h2.Received {
			_, lm, err := a.cluster().leafReceive(lrc)
			if err != nil || lm == nil {
				e.violation("C17/"+origin+"-metadata-two-hop/leaf-process-error", fmt.Sprintf("leaf cannot process: %v", err), w)
				return
			}
			a.count("wire_metadata_two_hop_leaf_decodes", 1)
			if d := diffMetadata(sent, lm); d != nil {
				w["diff"] = d.String()
				e.violation(classifyDiff(d, origin+"-metadata-two-hop", nil), "two hops deliver a different metadata statement than one hop: "+d.String(), w)
				return
			}
		}
	}
}

// ---------------------------------------------------------------------------------------------
// phase 2: every text again in another order, on other goroutines, through other pooled parsers

func (e *engine) runResample(workers int) {
	n := len(e.resample)
	core.Parallel(n, workers, func(i int) {
		en := e.resample[n-1-i]
		slot := e.slots.acquire()
		e.slots.note(slot, "sql.Parse (second pass) "+en.Text)
		s, err, p := safeParse(en.Text)
		e.slots.release(slot)
		w := map[string]interface{}{"sql": en.Text}
		if err != nil || p != nil || s == nil {
			e.violation("C17/parse-determinism/acceptance-differs-other-order", fmt.Sprintf("text accepted in the first pass is rejected in the second: %q (%v %v)", en.Text, err, p), w)
			return
		}
		e.c.Count("determinism_resampled_other_order", 1)
		switch want := en.Stmt.(type) {
		case *stmt.Query:
			got, ok := s.(*stmt.Query)
			if !ok {
				e.violation("C17/parse-determinism/statement-type-differs", fmt.Sprintf("%T for %q", s, en.Text), w)
				return
			}
			if d := diffQuery(want, got, timeMask{}); d != nil {
				w["diff"] = d.String()
				e.violation("C17/parse-determinism/other-order:"+d.What, fmt.Sprintf("parse of %q differs from the first pass: %s", en.Text, d), w)
			}
		case *stmt.MetricMetadata:
			got, ok := s.(*stmt.MetricMetadata)
			if !ok {
				e.violation("C17/parse-determinism/statement-type-differs", fmt.Sprintf("%T for %q", s, en.Text), w)
				return
			}
			if d := diffMetadata(want, got); d != nil {
				w["diff"] = d.String()
				e.violation("C17/parse-determinism/other-order:"+d.What, fmt.Sprintf("parse of %q differs from the first pass: %s", en.Text, d), w)
			}
		}
	})
	e.resample = nil
}

// ---------------------------------------------------------------------------------------------
// phase 3: model trees and model statements

func marshalExpr(x stmt.Expr) (data []byte, panicked interface{}) {
	defer func() {
		if r := recover(); r != nil {
			panicked = r
		}
	}()
	return stmt.Marshal(x), nil
}

func unmarshalExpr(data []byte) (x stmt.Expr, err error, panicked interface{}) {
	defer func() {
		if r := recover(); r != nil {
			panicked = r
		}
	}()
	x, err = stmt.Unmarshal(data)
	return
}

func (e *engine) checkTree(x stmt.Expr, where string, a *acc) {
	a.evals++
	facts := factsOf(x)
	var sb strings.Builder
	shape(&sb, x)
	w := map[string]interface{}{"tree_shape": trunc(sb.String(), 500), "rewrite": trunc(rewriteOf(x), 500)}
	data, p := marshalExpr(x)
	if p != nil {
		e.violation("C17/"+where+"/marshal-panic", fmt.Sprintf("stmt.Marshal panicked: %v", p), w)
		return
	}
	w["json"] = trunc(string(data), 3000)
	y, err, p := unmarshalExpr(data)
	if err != nil || p != nil {
		w["error"] = fmt.Sprint(err, p)
		e.violation(classifyDecodeFailure(facts, where, "unmarshal-error"), fmt.Sprintf("stmt.Unmarshal(stmt.Marshal(tree)) fails: %v %v", err, p), w)
		return
	}
	if d := diffExpr(x, y, "root", "tree"); d != nil {
		w["diff"] = d.String()
		e.violation(classifyDiff(d, where, nil), "stmt.Unmarshal(stmt.Marshal(tree)) is not the tree: "+d.String(), w)
		return
	}
	a.count("tree_roundtrips", 1)
	a.count(fmt.Sprintf("tree_depth=%02d", min(facts.Depth, 12)), 1)
	if again, _ := marshalExpr(y); !bytes.Equal(again, data) {
		e.violation("C17/"+where+"/reencode-differs", "decode+encode gives different bytes", w)
	}
	if rx, ry := rewriteOf(x), rewriteOf(y); rx != ry {
		e.violation("C17/meaning/rewrite-differs-tree", fmt.Sprintf("Rewrite() changed: %q vs %q", trunc(rx, 200), trunc(ry, 200)), w)
	}
	a.nontrivial(hashKey("t", sb.String()))
}

func (e *engine) runTrees(workers int) {
	n := e.scaled(e.c.Pick(30_000, 8_000_000))
	chunks := (n + chunkSize - 1) / chunkSize
	maxDepth := e.c.Pick(7, 9)
	core.Parallel(chunks, workers, func(k int) {
		r := e.c.Rand(fmt.Sprintf("tree/%d", k))
		a := newAcc()
		g := &treeGen{r: r, feats: map[string]int{}}
		a.slot = e.slots.acquire()
		defer e.slots.release(a.slot)
		for i := 0; i < chunkSize && k*chunkSize+i < n; i++ {
			idx := k*chunkSize + i
			if i%50 == 0 {
				e.slots.note(a.slot, fmt.Sprintf("model trees/statements, stream tree/%d, cases %d..%d", k, idx, idx+49))
			}
			switch {
			case idx%10 == 7:
				qr := g.query(r.Intn(maxDepth - 2))
				a.evals++
				a.count("model_query_roundtrips", 1)
				a.nontrivial(hashKey("mq", shapeOfQuery(qr)))
				e.checkQueryWire(qr, r, "model", "", a)
			case idx%10 == 8:
				m := g.metadata(r.Intn(maxDepth - 2))
				a.evals++
				a.count("model_metadata_roundtrips", 1)
				a.nontrivial(hashKey("mm", shapeOfMetadata(m)))
				e.checkMetadataWire(m, r, "model", "", a)
			default:
				x := g.expr(r.Intn(maxDepth + 1))
				if idx < 3 {
					e.c.Sample(map[string]interface{}{"tree": trunc(rewriteOf(x), 300)})
				}
				e.checkTree(x, "expr-roundtrip", a)
			}
		}
		for f, v := range g.feats {
			a.count("tree_feat_"+f, v)
		}
		e.flush(a)
	})
	// probe of the valid-UTF-8 restriction stated in the assumptions: JSON cannot carry other bytes, the encoder
	// replaces each invalid byte by U+FFFD. This is recorded as an observation (no planner path builds such
	// strings: parser strings come from antlr's rune stream); anything beyond that replacement is a violation.
	r := e.c.Rand("tree-probes")
	a := newAcc()
	g := &treeGen{r: r, allowBadUTF8: true}
	probes := e.c.Pick(3000, 100_000)
	for i := 0; i < probes; i++ {
		x := g.expr(4)
		if !factsOf(x).BadUTF8 {
			continue
		}
		a.count("probe_invalid_utf8_trees", 1)
		data, p := marshalExpr(x)
		y, err, p2 := unmarshalExpr(data)
		if p != nil || p2 != nil || err != nil {
			e.violation("C17/expr-roundtrip/invalid-utf8-not-decodable", fmt.Sprintf("tree with an invalid UTF-8 string cannot be decoded: %v %v %v", err, p, p2), map[string]interface{}{"json": trunc(string(data), 2000)})
			continue
		}
		want := cloneExpr(x)
		mapStrings(want, replaceInvalidUTF8)
		if d := diffExpr(want, y, "root", "tree"); d != nil {
			e.violation("C17/expr-roundtrip/invalid-utf8:"+d.What, "beyond the U+FFFD replacement the tree changed: "+d.String(), map[string]interface{}{"json": trunc(string(data), 2000)})
			continue
		}
		a.count("probe_invalid_utf8_bytes_replaced_by_U+FFFD_only", 1)
	}
	e.flush(a)
}

// runRegressionTexts parses two fixed lists of statements, so that every run (any seed, any tier) exercises them:
// ordinary statements that reach corners the random generator reaches only with small probability (they must be
// accepted), and the statements that used to be accepted with a tree that cannot cross the wire (fixed in /repo by
// 2fb7f78, ba1e921, 523a56a: they are parse errors now). The latter are not required to be rejected - the property
// only speaks about accepted statements - but whenever one is accepted again it goes through the full wire check.
func (e *engine) runRegressionTexts() {
	tr := "where time>'20190410 00:00:00' and time<'20190410 10:00:00'"
	mustAccept := []string{
		"select f + 1234567890123.4567, g * -0.1, 17.000001 / h from cpu " + tr,
		"select max(sum(c)+c*d/e) as x, stddev(max(sum(c))) from memory " + tr + " and (host='a' or ip in ('1','2') and region not like 'sh%') group by host,time(1m) having (sum(c) > 100.5 or max(d) <= 3) and x != 0 order by sum(c) desc limit 0",
		"select f from cpu where host=~'/1.1.*.1/' and dc !~ 'x\\\\y' and time > '20190410 00:00:00' and time < '20190411 00:00:00' group by time() limit 2147483647",
		"show tag values from 'cpu' on 'ns' with key = 'key1' where key1='value1' and key2 in ('a','') limit 10",
		"show metrics on 'ns' where metric='abc' limit 10",
		"select f from cpu " + tr + " group by time(106751991167d), time(292471208y)", // largest durations that do not overflow
		"select f * 1" + strings.Repeat("0", 308) + " from cpu " + tr,                 // 1e308 still fits float64
	}
	formerlyDefective := []string{
		"select f + 1h from cpu " + tr,
		"select (1h) from cpu " + tr,
		"select * + f from cpu " + tr,
		"select sum(f, 1h + g) from cpu " + tr,
		"select f from cpu " + tr + " group by host having f > 1h + 2",
		"select f from cpu " + tr + " group by time(9223372036854776s)",
		"select f from cpu " + tr + " group by time(18446744073709552m)",
		"select f + 9" + strings.Repeat("9", 320) + " from cpu " + tr,
	}
	a := newAcc()
	r := e.c.Rand("regression")
	wire := func(s stmt.Statement, text string) {
		switch x := s.(type) {
		case *stmt.Query:
			e.checkQueryWire(x, r, "sql", text, a)
		case *stmt.MetricMetadata:
			e.checkMetadataWire(x, r, "sql", text, a)
		}
	}
	for _, text := range mustAccept {
		s, err, _ := safeParse(text)
		if err != nil || s == nil {
			a.count("regression_text_rejected", 1)
			e.c.Inconclusive("fixed statement is no longer accepted by the parser: %q (%v)", text, err)
			continue
		}
		a.count("regression_texts_checked", 1)
		wire(s, text)
	}
	for _, text := range formerlyDefective {
		s, err, _ := safeParse(text)
		if err != nil || s == nil {
			a.count("regression_formerly_defective_text_now_rejected", 1)
			if err != nil {
				a.count("regression_formerly_defective_reject_"+rejectBucket(err), 1)
			}
			continue
		}
		a.count("regression_formerly_defective_text_accepted", 1)
		wire(s, text)
	}
	e.flush(a)
}

var _ = function.Sum
var _ = utf8.RuneError
