package main

// Generator of statement-model trees that do not come from the parser: every node kind in every
// position, all operators and function types (also values outside the enums), hostile strings and numbers.

import (
	"math"
	"math/rand"
	"strconv"
	"strings"

	"github.com/lindb/lindb/aggregation/function"
	"github.com/lindb/lindb/pkg/timeutil"
	"github.com/lindb/lindb/sql/stmt"
)

type treeGen struct {
	r *rand.Rand
	// options
	allowBadUTF8 bool
	feats        map[string]int
}

func (g *treeGen) feat(name string) {
	if g.feats != nil {
		g.feats[name]++
	}
}

var hostileStrings = []string{"", " ", "\"", "'", "`", "\\", "\\\\", "\\\"", "a\"b", "a'b", "a\\b", "\n", "\t", "\r\n", "\x00", "\x01\x1f", "\u007f",
	"null", "true", "{}", "[]", "{\"type\":\"field\"}", "</script>", "<>&", "\u2028", "\u2029", "\ufeff", "\ufffd", "\u00a0", "é", "中文", "日本語のタグ", "😀", "a😀b",
	"\U0010ffff", "Ω≈ç√", "%", "*", ".*", "^a.+$", "/1.1.*.1/", "1.1.%.1", "a,b", "(a)", "a=b", "\\u0041", "\\n", "ab\\", strings.Repeat("x", 300),
	strings.Repeat("中", 120), "-0", "1e400", "NaN"}

func (g *treeGen) str() string {
	switch x := g.r.Intn(100); {
	case x < 35:
		return plainNames[g.r.Intn(len(plainNames))]
	case x < 75:
		g.feat("string_hostile")
		return hostileStrings[g.r.Intn(len(hostileStrings))]
	case x < 97 || !g.allowBadUTF8:
		// random runes over the whole range incl. controls and astral planes
		n := g.r.Intn(12)
		var sb strings.Builder
		for i := 0; i < n; i++ {
			var r rune
			switch g.r.Intn(6) {
			case 0:
				r = rune(g.r.Intn(0x20))
			case 1:
				r = rune(0x20 + g.r.Intn(0x5f))
			case 2:
				r = rune(0x80 + g.r.Intn(0x780))
			case 3:
				r = rune(0x800 + g.r.Intn(0xd000))
			case 4:
				r = rune(0xe000 + g.r.Intn(0x1ffe))
			default:
				r = rune(0x10000 + g.r.Intn(0x100000))
			}
			sb.WriteRune(r)
		}
		g.feat("string_random_runes")
		return sb.String()
	default:
		g.feat("string_invalid_utf8")
		return []string{"\xff", "a\xc3", "\xed\xa0\x80", "ok\x80ok", "\xf8\x88\x80\x80\x80"}[g.r.Intn(5)]
	}
}

func (g *treeGen) number() float64 {
	switch x := g.r.Intn(100); {
	case x < 10:
		g.feat("number_small_int")
		return float64(g.r.Intn(2000) - 1000)
	case x < 20:
		g.feat("number_simple_decimal")
		return []float64{0.5, 0.99, 0.95, 0.1, 0.2, 0.3, 1.1, 3.14, 99.9, 1e-3, 0.001}[g.r.Intn(11)]
	case x < 45:
		// 15..19 significant digits with 1..6 decimals (parsed from text, like the SQL parser does)
		total := 15 + g.r.Intn(5)
		dec := 1 + g.r.Intn(6)
		ds := make([]byte, total)
		for i := range ds {
			ds[i] = byte('0' + g.r.Intn(10))
		}
		if ds[0] == '0' {
			ds[0] = '1'
		}
		s := string(ds[:total-dec]) + "." + string(ds[total-dec:])
		v, _ := strconv.ParseFloat(s, 64)
		g.feat("number_17_significant_digits")
		if g.r.Intn(3) == 0 {
			v = -v
		}
		return v
	case x < 60:
		g.feat("number_random_bits")
		for {
			v := math.Float64frombits(g.r.Uint64())
			if !math.IsNaN(v) && !math.IsInf(v, 0) {
				return v
			}
		}
	case x < 70:
		g.feat("number_random_mantissa_mid_exponent")
		// values between 1e-7 and 1e21 (printed without exponent by the JSON encoder)
		v := (1 + g.r.Float64()) * math.Pow(10, float64(g.r.Intn(28)-7))
		if g.r.Intn(4) == 0 {
			v = -v
		}
		return v
	case x < 78:
		g.feat("number_big_integer")
		v := float64(uint64(1)<<53) + float64(g.r.Int63n(1<<40))
		if g.r.Intn(2) == 0 {
			v = float64(g.r.Uint64())
		}
		return v
	case x < 92:
		g.feat("number_edge")
		return []float64{0, math.Copysign(0, -1), 1, -1, math.MaxFloat64, -math.MaxFloat64, math.SmallestNonzeroFloat64, -math.SmallestNonzeroFloat64,
			2.2250738585072014e-308, 2.225073858507201e-308, 1e21, 1e20, 9.999999999999999e20, 1e-6, 1e-7, 9.5e-7, 123456789012345678, 9007199254740993,
			0.1 + 0.2, 1.0 / 3.0, 4.35, 0.000001, 1234567.125, 100000.000001, float64(math.MaxInt64), float64(math.MinInt64), 1e15 + 0.3, 1e16 / 3, 8.41e21, 5e-324}[g.r.Intn(30)]
	default:
		// k/10^d with many digits: exercises decimal fast paths
		g.feat("number_fraction_of_pow10")
		d := 1 + g.r.Intn(6)
		k := g.r.Int63n(1 << 62)
		return float64(k) / math.Pow(10, float64(d))
	}
}

var allOps = []stmt.BinaryOP{stmt.AND, stmt.OR, stmt.ADD, stmt.SUB, stmt.MUL, stmt.DIV, stmt.EQUAL, stmt.NOTEQUAL, stmt.GREATER, stmt.GREATEREQUAL,
	stmt.LESS, stmt.LESSEQUAL, stmt.LIKE, stmt.UNKNOWN}

func (g *treeGen) op() stmt.BinaryOP {
	if g.r.Intn(25) == 0 {
		g.feat("operator_outside_enum")
		return []stmt.BinaryOP{0, -1, 15, 255, 1 << 20}[g.r.Intn(5)]
	}
	return allOps[g.r.Intn(len(allOps))]
}

func (g *treeGen) fn() function.FuncType {
	if g.r.Intn(25) == 0 {
		g.feat("functype_outside_enum")
		return []function.FuncType{function.Unknown, -1, 11, 1000}[g.r.Intn(4)]
	}
	return function.FuncType(1 + g.r.Intn(10))
}

func (g *treeGen) tagFilterLeaf() stmt.Expr {
	switch g.r.Intn(4) {
	case 0:
		return &stmt.EqualsExpr{Key: g.str(), Value: g.str()}
	case 1:
		return &stmt.LikeExpr{Key: g.str(), Value: g.str()}
	case 2:
		return &stmt.RegexExpr{Key: g.str(), Regexp: g.str()}
	default:
		e := &stmt.InExpr{Key: g.str()}
		switch n := g.r.Intn(6); n {
		case 0:
			g.feat("in_values_nil")
		case 1:
			g.feat("in_values_empty")
			e.Values = []string{}
		default:
			for i := 0; i < n; i++ {
				e.Values = append(e.Values, g.str())
			}
		}
		return e
	}
}

// expr generates any expression node in any position.
func (g *treeGen) expr(depth int) stmt.Expr {
	x := g.r.Intn(100)
	if depth <= 0 {
		x = g.r.Intn(40)
	}
	switch {
	case x < 14:
		return &stmt.FieldExpr{Name: g.str()}
	case x < 28:
		return &stmt.NumberLiteral{Val: g.number()}
	case x < 40:
		return g.tagFilterLeaf()
	case x < 52:
		g.feat("not")
		if g.r.Intn(3) == 0 {
			// chain of NotExpr
			n := 2 + g.r.Intn(4)
			var e stmt.Expr = g.expr(depth - n)
			for i := 0; i < n; i++ {
				e = &stmt.NotExpr{Expr: e}
			}
			g.feat("not_chain")
			return e
		}
		return &stmt.NotExpr{Expr: g.expr(depth - 1)}
	case x < 64:
		g.feat("paren")
		if g.r.Intn(3) == 0 {
			n := 2 + g.r.Intn(5)
			var e stmt.Expr = g.expr(depth - n)
			for i := 0; i < n; i++ {
				e = &stmt.ParenExpr{Expr: e}
			}
			g.feat("paren_chain")
			return e
		}
		return &stmt.ParenExpr{Expr: g.expr(depth - 1)}
	case x < 80:
		g.feat("binary")
		return &stmt.BinaryExpr{Left: g.expr(depth - 1), Right: g.expr(depth - 1), Operator: g.op()}
	case x < 93:
		g.feat("call")
		c := &stmt.CallExpr{FuncType: g.fn()}
		switch n := g.r.Intn(8); {
		case n == 0:
			g.feat("call_params_nil")
		case n == 1:
			g.feat("call_params_empty")
			c.Params = []stmt.Expr{}
		case n < 6:
			c.Params = []stmt.Expr{g.expr(depth - 1)}
		default:
			for i := 0; i < n-3; i++ {
				c.Params = append(c.Params, g.expr(depth-2))
			}
		}
		return c
	case x < 97:
		g.feat("nested_select_item")
		return &stmt.SelectItem{Expr: g.expr(depth - 1), Alias: g.str()}
	default:
		g.feat("nested_order_by")
		return &stmt.OrderByExpr{Expr: g.expr(depth - 1), Desc: g.r.Intn(2) == 0}
	}
}

// plannerIntervals are intervals a planner can compute: multiples of a storage interval (whole seconds).
var plannerIntervals = []int64{0, msSecond, 5 * msSecond, 10 * msSecond, 30 * msSecond, msMinute, 5 * msMinute, 90 * msMinute, msHour, msDay, 7 * msDay, 30 * msDay,
	31 * msDay, 365 * msDay, 366 * msDay, 730 * msDay, 45 * msSecond, 3601 * msSecond, 86401 * msSecond}

// query generates a statement-level model (scalar fields restricted to what parser/planner produce).
func (g *treeGen) query(depth int) *stmt.Query {
	qr := &stmt.Query{
		Explain:    g.r.Intn(4) == 0,
		Namespace:  g.str(),
		MetricName: g.str(),
		AllFields:  g.r.Intn(6) == 0,
		Limit:      []int{0, 1, 20, 100, math.MaxInt32, 12345}[g.r.Intn(6)],
	}
	start := int64(978307200000) + g.r.Int63n(20*365*msDay)
	qr.TimeRange = timeutil.TimeRange{Start: start, End: start + g.r.Int63n(40*msDay)}
	qr.Interval = timeutil.Interval(plannerIntervals[g.r.Intn(len(plannerIntervals))])
	if g.r.Intn(2) == 0 {
		qr.StorageInterval = timeutil.Interval(plannerIntervals[1+g.r.Intn(9)])
		qr.IntervalRatio = 1 + g.r.Intn(400)
		qr.AutoGroupByTime = g.r.Intn(3) == 0
	}
	switch n := g.r.Intn(6); n {
	case 0:
	case 1:
		qr.SelectItems = []stmt.Expr{}
		g.feat("select_items_empty_non_nil")
	default:
		for i := 0; i < n-1; i++ {
			if g.r.Intn(5) == 0 {
				qr.SelectItems = append(qr.SelectItems, g.expr(depth)) // a bare expression without SelectItem wrapper
			} else {
				qr.SelectItems = append(qr.SelectItems, &stmt.SelectItem{Expr: g.expr(depth), Alias: g.str()})
			}
		}
	}
	if g.r.Intn(3) != 0 {
		qr.Condition = g.expr(depth)
	}
	if g.r.Intn(3) == 0 {
		qr.Having = g.expr(depth)
	}
	switch n := g.r.Intn(5); n {
	case 0, 1:
	case 2:
		qr.GroupBy = []string{}
		g.feat("group_by_empty_non_nil")
	default:
		for i := 0; i < n-2; i++ {
			qr.GroupBy = append(qr.GroupBy, g.str())
		}
	}
	switch n := g.r.Intn(5); n {
	case 0, 1:
	case 2:
		qr.OrderByItems = []stmt.Expr{}
		g.feat("order_by_empty_non_nil")
	default:
		for i := 0; i < n-2; i++ {
			qr.OrderByItems = append(qr.OrderByItems, &stmt.OrderByExpr{Expr: g.expr(depth - 1), Desc: g.r.Intn(2) == 0})
		}
	}
	return qr
}

func (g *treeGen) metadata(depth int) *stmt.MetricMetadata {
	m := &stmt.MetricMetadata{
		Namespace:  g.str(),
		MetricName: g.str(),
		Type:       stmt.MetricMetadataType(g.r.Intn(7)),
		TagKey:     g.str(),
		Prefix:     g.str(),
		Limit:      []int{0, 1, 100, 10000, 99999}[g.r.Intn(5)],
	}
	if g.r.Intn(3) != 0 {
		m.Condition = g.expr(depth)
	}
	return m
}
